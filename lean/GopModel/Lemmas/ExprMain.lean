/-
M3 lemmas, part 4b: the main induction.  For every well-formed `e` the four statements
`StA/StB/StG'/StE` hold for its printed forms (`Main e`), and argument lists parse back
(`MainL`).
-/
import GopModel.Lemmas.ExprMainDefs
namespace GopModel.ExprSyntax
open Gen

mutual
theorem main : ∀ (e : XExpr), wf e = true → Main e
  | .ident s, _ => main_ident s
  | .lit k v, h => main_of_A _ h rfl 2 (by simp [cost, size]) (by
      intro lhs tup r res M ho hk n hn
      obtain ⟨n', rfl⟩ : ∃ n', n = n' + 2 := ⟨n - 2, by omega⟩
      simp only [toks_lit, norm, List.cons_append, List.nil_append] at hk ⊢
      rw [parsePrimary_step (parseOperand_lit n' lhs tup k v r ho) rfl]
      exact hk (n' + 1) (by omega))
  | .numUnit k v u, h => main_of_A _ h rfl 2 (by simp [cost, size]) (by
      intro lhs tup r res M ho hk n hn
      obtain ⟨n', rfl⟩ : ∃ n', n = n' + 2 := ⟨n - 2, by omega⟩
      simp only [toks_numUnit, norm, List.cons_append, List.nil_append] at hk ⊢
      rw [parsePrimary_step (parseOperand_numUnit n' lhs tup k v u r) rfl]
      exact hk (n' + 1) (by omega))
  | .env s b, h => main_of_A _ h rfl 2 (by simp [cost, size]) (by
      intro lhs tup r res M ho hk n hn
      obtain ⟨n', rfl⟩ : ∃ n', n = n' + 2 := ⟨n - 2, by omega⟩
      cases b
      · simp only [toks_env, norm, List.cons_append, List.nil_append, Bool.false_eq_true, if_false] at hk ⊢
        rw [parsePrimary_step (parseOperand_env n' lhs tup s r) rfl]
        exact hk (n' + 1) (by omega)
      · simp only [toks_env, norm, List.cons_append, List.nil_append, if_true] at hk ⊢
        rw [parsePrimary_step (parseOperand_envBrace n' lhs tup s r) rfl]
        exact hk (n' + 1) (by omega))
  | .binary op x y, h => by
    obtain ⟨h0, h6, h7⟩ := hconsts
    have h' := h
    simp only [wf, Bool.and_eq_true] at h'
    obtain ⟨⟨hop, hx⟩, hy⟩ := h'
    have hP : 1 ≤ prec op ∧ prec op < unaryPrec := by simpa [isBinOp] using hop
    have ihx := main x hx
    have ihy := main y hy
    have hcost : cost (.binary op x y) = cost x + cost y + 40 := by simp [cost, size]; omega
    refine main_of_G _ h (prec op) rfl hP.1 (by omega) (cost x + cost y + 18) (by omega) ?_
      (fun hc => by omega)
    intro q hq lhs tup p1 r res M hp1 hr hh hk n hn
    have hnw : ¬ prec op < q := by omega
    simp only [toks_binary, norm, wrapT, wrapP, hnw, decide_false, Bool.false_eq_true, if_false,
      List.append_assoc, List.cons_append] at hk ⊢
    refine ihx.g (prec op) (by omega) (by omega) lhs tup p1 _ res (M + cost y + 10) (by omega)
      (stopsPrimary_binop hop _) (by rw [headPrec_binop hop]; exact Nat.le_refl _) ?_ n (by omega)
    intro m hm
    obtain ⟨m', rfl⟩ : ∃ m', m = m' + 1 := ⟨m - 1, by omega⟩
    have hy' : parseBinary m' false (prec op + 1) false (toks y (prec op + 1) ++ r) =
        .ok (norm y (prec op + 1), r) :=
      ihy.g (prec op + 1) (by omega) (by omega) false false (prec op + 1) r _ 1 (Nat.le_refl _) hr (by omega)
        (fun m2 hm2 => by
          obtain ⟨m3, rfl⟩ : ∃ m3, m2 = m3 + 1 := ⟨m2 - 1, by omega⟩
          exact binaryLoop_stop m3 _ _ r (opHead_of_stopsPrimary hr) (by omega))
        m' (by omega)
    rw [binaryLoop_op hop (by omega) hy']
    exact hk m' (by omega)
  | .unary op x, h => by
    obtain ⟨h0, h6, h7⟩ := hconsts
    have h' := h
    simp only [wf, Bool.and_eq_true] at h'
    obtain ⟨hop, hx⟩ := h'
    have ih := main x hx
    have hcost : cost (.unary op x) = cost x + 40 := by simp [cost, size]; omega
    refine main_of_B _ h rfl (cost x + 9) (by omega) ?_
    intro lhs tup r hr n hn
    obtain ⟨n', rfl⟩ : ∃ n', n = n' + 1 := ⟨n - 1, by omega⟩
    have hnw : ¬ unaryPrec < unaryPrec := Nat.lt_irrefl _
    simp only [toks_unary, norm, wrapT, wrapP, hnw, decide_false, Bool.false_eq_true, if_false,
      List.cons_append]
    exact parseUnary_prefix hop (ih.b false false r hr n' (by omega))
  | .star x, h => by
    obtain ⟨h0, h6, h7⟩ := hconsts
    have hx : wf x = true := by simpa [wf] using h
    have ih := main x hx
    have hcost : cost (.star x) = cost x + 40 := by simp [cost, size]; omega
    refine main_of_B _ h rfl (cost x + 9) (by omega) ?_
    intro lhs tup r hr n hn
    obtain ⟨n', rfl⟩ : ∃ n', n = n' + 1 := ⟨n - 1, by omega⟩
    have hnw : ¬ unaryPrec < unaryPrec := Nat.lt_irrefl _
    simp only [toks_star, norm, wrapT, wrapP, hnw, decide_false, Bool.false_eq_true, if_false,
      List.cons_append]
    exact parseUnary_star (ih.b false false r hr n' (by omega))
  | .paren x, h => by
    obtain ⟨h0, h6, h7⟩ := hconsts
    have hx : wf x = true := by simpa [wf] using h
    have ih := main x hx
    by_cases hpn : isParenNode x = true
    · have hcost : cost (.paren x) = cost x := by simp [cost, size, hpn]
      have eqq : ∀ q, toks (.paren x) q = toks x q ∧ norm (.paren x) q = norm x q := by
        intro q
        obtain ⟨a1, a2⟩ := paren_indep hpn lowestPrec q
        simp only [toks_paren, norm, hpn, if_true]
        exact ⟨a1, a2⟩
      refine ⟨?_, ?_, ?_, ?_⟩
      · rw [(eqq _).1, (eqq _).2, hcost]; exact ih.a
      · rw [(eqq _).1, (eqq _).2, hcost]; exact ih.b
      · intro q hq; rw [(eqq _).1, (eqq _).2, hcost]; exact ih.g q hq
      · rw [(eqq _).1, (eqq _).2, hcost]; exact ih.e
    · have hcost : cost (.paren x) = cost x + 40 := by simp [cost, size, hpn]; omega
      refine main_of_A _ h rfl (cost x + 10) (by omega) ?_
      obtain ⟨t, tl, hT, hs, _, _⟩ := toks_head x hx lowestPrec (by omega)
      simp only [toks_paren, norm, hpn, wrapT, if_true, Bool.false_eq_true, if_false]
      exact StA_paren_of_StE ih.e hT hs
  | .selector x s, h => by
    have hx : wf x = true := by simpa [wf] using h
    have ih := main x hx
    have hcost : cost (.selector x s) = cost x + 40 := by simp [cost, size]; omega
    refine main_of_A _ h rfl (cost x + 9) (by omega) ?_
    intro lhs tup r res M ho hk n hn
    simp only [toks_selector, norm, List.append_assoc, List.cons_append, List.nil_append] at hk ⊢
    refine ih.a lhs tup _ res (M + 1) rfl ?_ n (by omega)
    intro m hm
    obtain ⟨m', rfl⟩ : ∃ m', m = m' + 1 := ⟨m - 1, by omega⟩
    rw [primaryLoop_sel]
    exact hk m' (by omega)
  | .index x i, h => by
    obtain ⟨h0, h6, h7⟩ := hconsts
    have h' : wf x = true ∧ wf i = true := by simpa [wf] using h
    obtain ⟨hx, hi⟩ := h'
    have ihx := main x hx
    have ihi := main i hi
    have hcost : cost (.index x i) = cost x + cost i + 40 := by simp [cost, size]; omega
    refine main_of_A _ h rfl (cost x + cost i + 18) (by omega) ?_
    intro lhs tup r res M ho hk n hn
    simp only [toks_index, norm, List.append_assoc, List.cons_append, List.nil_append] at hk ⊢
    refine ihx.a lhs tup _ res (M + cost i + 10) rfl ?_ n (by omega)
    intro m hm
    obtain ⟨m', rfl⟩ : ∃ m', m = m' + 2 := ⟨m - 2, by omega⟩
    obtain ⟨t, tl, hT, hs, _, _⟩ := toks_head i hi lowestPrec (by omega)
    have hl : parseLambda m' false (toks i lowestPrec ++ .op .RBRACK :: r) =
        .ok (norm i lowestPrec, .op .RBRACK :: r) :=
      ihi.e _ (stopsTop_rbrack r) m' (by omega)
    have hi' : parseIndexOrSlice (m' + 1) (norm x highestPrec) (toks i lowestPrec ++ .op .RBRACK :: r) =
        .ok (.index (norm x highestPrec) (norm i lowestPrec), r) := by
      rw [hT, List.cons_append] at hl ⊢
      exact parseIndexOrSlice_index hs hl
    rw [primaryLoop_index hi']
    exact hk (m' + 1) (by omega)
  | .call f args ell cmd, h => by
    have h' := h
    simp only [wf, Bool.and_eq_true, Bool.not_eq_true', Bool.or_eq_true, List.isEmpty_eq_false_iff] at h'
    obtain ⟨⟨⟨hc, hf⟩, hargs⟩, hell⟩ := h'
    subst hc
    have ihf := main f hf
    have ihl := mainL args hargs
    have hcost : cost (.call f args ell false) = cost f + costL args + 40 := by
      simp [cost, costL, size]; omega
    refine main_of_A _ h rfl (cost f + costL args + 18) (by omega) ?_
    intro lhs tup r res M ho hk n hn
    simp only [toks_call, norm, List.append_assoc, List.cons_append, List.nil_append] at hk ⊢
    refine ihf.a lhs tup _ res (M + costL args + 10) rfl ?_ n (by omega)
    intro m hm
    obtain ⟨m', rfl⟩ : ∃ m', m = m' + 1 := ⟨m - 1, by omega⟩
    have ha := ihl [] ell r (by
      intro he; rcases hell with h1 | h1
      · rw [he] at h1; cases h1
      · exact h1) m' (by omega)
    simp only [List.reverse_nil, List.nil_append] at ha
    rw [primaryLoop_call ha]
    exact hk m' (by omega)
  | .errWrap x tok none, h => by
    obtain ⟨htok, hx⟩ := wf_errWrap_none h
    have ih := main x hx
    have hcost : cost (.errWrap x tok none) = cost x + 40 := by simp [cost, size]; omega
    refine main_of_A _ h rfl (cost x + 9) (by omega) ?_
    intro lhs tup r res M ho hk n hn
    simp only [toks_errWrap_none, norm, List.append_assoc, List.cons_append, List.nil_append] at hk ⊢
    refine ih.a lhs tup _ res (M + 1) rfl ?_ n (by omega)
    intro m hm
    obtain ⟨m', rfl⟩ : ∃ m', m = m' + 1 := ⟨m - 1, by omega⟩
    rcases htok with rfl | rfl
    · rw [primaryLoop_not]; exact hk m' (by omega)
    · rw [primaryLoop_question]; exact hk m' (by omega)
  | .errWrap x tok (some d), h => by
    obtain ⟨h0, h6, h7⟩ := hconsts
    obtain ⟨htok, hx, hd⟩ := wf_errWrap_some h
    have ihx := main x hx
    have ihd := main d hd
    have hcost : cost (.errWrap x tok (some d)) = cost x + cost d + 40 := by simp [cost, size]; omega
    refine main_of_B _ h rfl (cost x + cost d + 22) (by omega) ?_
    intro lhs tup r hr n hn
    obtain ⟨n', rfl⟩ : ∃ n', n = n' + 2 := ⟨n - 2, by omega⟩
    have hnw : ¬ unaryPrec < unaryPrec := Nat.lt_irrefl _
    simp only [toks_errWrap_some, norm, wrapT, wrapP, hnw, decide_false, Bool.false_eq_true, if_false,
      List.append_assoc, List.cons_append]
    obtain ⟨t, tl, hT, _, _, hps⟩ := toks_head x hx highestPrec (Nat.le_refl _)
    have hpt := hps (by have := exprPrec_le hx; omega)
    have hprim : parsePrimary n' lhs tup
        (toks x highestPrec ++ (.op tok :: .op .COLON :: (toks d unaryPrec ++ r))) =
        .ok (.errWrap (norm x highestPrec) tok none, .op .COLON :: (toks d unaryPrec ++ r)) := by
      refine ihx.a lhs tup _ _ 2 rfl ?_ n' (by omega)
      intro m hm
      obtain ⟨m', rfl⟩ : ∃ m', m = m' + 2 := ⟨m - 2, by omega⟩
      rcases htok with rfl | rfl
      · rw [primaryLoop_not, primaryLoop_stop _ _ _ rfl]
      · rw [primaryLoop_question, primaryLoop_stop _ _ _ rfl]
    have hdef : parseUnary n' false false (toks d unaryPrec ++ r) = .ok (norm d unaryPrec, r) :=
      ihd.b false false r hr n' (by omega)
    have hpu : parseUnary (n' + 2) lhs tup (toks x highestPrec ++ (.op tok :: .op .COLON :: (toks d unaryPrec ++ r))) =
        parseErrWrap (n' + 1) lhs tup (toks x highestPrec ++ (.op tok :: .op .COLON :: (toks d unaryPrec ++ r))) := by
      rw [hT, List.cons_append]; exact parseUnary_prim hpt
    rw [hpu]
    exact parseErrWrap_default hprim hdef
  | .slice .., h => by simp [wf] at h
  | .composite .., h => by simp [wf] at h
  | .kv .., h => by simp [wf] at h
  | .sliceLit .., h => by simp [wf] at h
  | .typeAssert x ty, h => by
    have hx : wf x = true := by
      cases ty with
      | none => simpa [wf] using h
      | some t => cases t <;> simp [wf] at h; exact h
    have ih := main x hx
    have hcost : cost (.typeAssert x ty) = cost x + 40 := by simp [cost, size]; omega
    refine main_of_A _ h rfl (cost x + 9) (by omega) ?_
    intro lhs tup r res M ho hk n hn
    cases ty with
    | none =>
      simp only [toks_typeAssert_none, norm, List.append_assoc, List.cons_append, List.nil_append] at hk ⊢
      refine ih.a lhs tup _ res (M + 1) rfl ?_ n (by omega)
      intro m hm
      obtain ⟨m', rfl⟩ : ∃ m', m = m' + 1 := ⟨m - 1, by omega⟩
      rw [primaryLoop_typeAssert_type]
      exact hk m' (by omega)
    | some t =>
      cases t <;> simp [wf] at h
      rename_i a
      simp only [toks_typeAssert_some, toks_ident, norm, List.append_assoc, List.cons_append, List.nil_append] at hk ⊢
      refine ih.a lhs tup _ res (M + 1) rfl ?_ n (by omega)
      intro m hm
      obtain ⟨m', rfl⟩ : ∃ m', m = m' + 1 := ⟨m - 1, by omega⟩
      rw [primaryLoop_typeAssert_ident]
      exact hk m' (by omega)
  | .lambda lhs lp rhs rp, h => by
    obtain ⟨h0, h6, h7⟩ := hconsts
    have h' := h
    simp only [wf, Bool.and_eq_true, Bool.or_eq_true, decide_eq_true_eq] at h'
    obtain ⟨hl, hr⟩ := h'
    -- the right-hand side
    have htail : ∀ (x? : Option XExpr) (r : List Tok), stopsTop r = true → ∀ n',
        (if rp then sizeL rhs else sizeB rhs) * 40 + 12 ≤ n' →
        parseLamTail n' x? (rhsT rhs rp ++ r) = lamOf x? (if rp then normL rhs else normB rhs) rp r := by
      intro x? r hr' n' hn'
      obtain ⟨n2, rfl⟩ : ∃ n2, n' = n2 + 1 := ⟨n' - 1, by omega⟩
      cases rp with
      | true =>
        simp only [if_true, Bool.and_eq_true, Bool.not_eq_true', List.isEmpty_eq_false_iff] at hr hn' ⊢
        have hall := mainAll rhs hr.2
        have := mainLR rhs hall hr.1 [] r n2 (by simp only [costL]; omega)
        simp only [rhsT, if_true, List.cons_append, List.append_assoc, List.nil_append]
        rw [parseLamTail_paren this]
        simp
      | false =>
        simp only [Bool.false_eq_true, if_false] at hr hn' ⊢
        cases rhs with
        | nil => simp [wfB] at hr
        | cons b rest =>
          cases rest with
          | cons b2 r2 => simp [wfB] at hr
          | nil =>
            simp only [wfB, Bool.and_eq_true, Bool.not_eq_true'] at hr
            have hwfL : wfL [b] = true := by simp [wfL, hr.1]
            have ihb := (mainAll [b] hwfL b (by simp)).2
            obtain ⟨t, tl, hT, hsl, _, _⟩ := toks_head b hr.1 lowestPrec (by omega)
            have hnp : t ≠ .op .LPAREN := by
              intro hc
              have := hr.2
              rw [hT, hc] at this
              simp [headIs] at this
            have hb := ihb.e r hr' n2 (by simp only [sizeB, cost] at hn' ⊢; omega)
            simp only [rhsT, Bool.false_eq_true, if_false, normB]
            rw [hT, List.cons_append] at hb ⊢
            rw [parseLamTail_body hsl hnp hb]
    have hcost : cost (.lambda lhs lp rhs rp) = 40 * lhs.length + (if rp then sizeL rhs else sizeB rhs) * 40 + 40 := by
      simp only [cost, size]; omega
    have hb1 : 1 ≤ (if rp then sizeL rhs else sizeB rhs) := by
      cases rp with
      | true =>
        simp only [if_true, Bool.and_eq_true, Bool.not_eq_true', List.isEmpty_eq_false_iff] at hr ⊢
        cases rhs with
        | nil => exact absurd rfl hr.1
        | cons b l => simp only [sizeL]; omega
      | false =>
        simp only [Bool.false_eq_true, if_false] at hr ⊢
        cases rhs with
        | nil => simp [wfB] at hr
        | cons b rest =>
          cases rest with
          | cons b2 r2 => simp [wfB] at hr
          | nil => simp only [sizeB]; exact size_pos b
    refine main_of_E _ h rfl (cost (.lambda lhs lp rhs rp)) (by omega) ?_
    intro r hr' n hn
    obtain ⟨n', rfl⟩ : ∃ n', n = n' + 1 := ⟨n - 1, by omega⟩
    have hnw : ¬ lowestPrec < lowestPrec := Nat.lt_irrefl _
    simp only [toks_lambda, norm, wrapT, wrapP, hnw, decide_false, Bool.false_eq_true, if_false,
      List.append_assoc, List.cons_append]
    by_cases hemp : lp = false ∧ lhs = []
    · obtain ⟨rfl, rfl⟩ := hemp
      simp only [lhsT, Bool.false_eq_true, if_false, List.nil_append]
      rw [parseLambda_arrow, htail none r hr' n' (by omega)]
      rfl
    · obtain ⟨x, hx1, hx2⟩ := parse_lhs lhs lp hl hemp (rhsT rhs rp ++ r) n' (by omega)
      have hh : headIs .DRARROW (lhsT lhs lp ++ .op .DRARROW :: (rhsT rhs rp ++ r)) = false := by
        cases lp with
        | true => simp [lhsT, headIs]
        | false =>
          cases lhs with
          | nil => exact absurd ⟨rfl, rfl⟩ hemp
          | cons s l => simp [lhsT, headIs]
      rw [parseLambda_lhs hh hx1, htail (some x) r hr' n' (by omega), hx2]
  | .range .., h => by simp [wf] at h
  | .tuple .., h => by simp [wf] at h
  | .bad, h => by simp [wf] at h
theorem mainL : ∀ (l : List XExpr), wfL l = true → MainL l
  | [], _ => by
    intro acc ell r hell n hn
    cases ell with
    | true => exact absurd rfl (hell rfl)
    | false =>
      obtain ⟨n', rfl⟩ : ∃ n', n = n' + 1 := ⟨n - 1, by omega⟩
      simp [toksL_nil, normL, parseArgs_rparen]
  | [e], h => by
    obtain ⟨h0, h6, h7⟩ := hconsts
    have he : wf e = true := by simpa [wfL] using h
    have ih := main e he
    intro acc ell r _ n hn
    rw [costL_cons] at hn
    obtain ⟨n', rfl⟩ : ∃ n', n = n' + 1 := ⟨n - 1, by omega⟩
    obtain ⟨t, tl, hT, hs, _, _⟩ := toks_head e he lowestPrec (by omega)
    cases ell with
    | false =>
      have hl := ih.e (.op .RPAREN :: r) (stopsTop_rparen r) n' (by omega)
      simp only [toksL_one, normL, Bool.false_eq_true, if_false, List.nil_append]
      rw [hT, List.cons_append] at hl ⊢
      rw [parseArgs_last hs hl]
      simp
    | true =>
      have hl := ih.e (.op .ELLIPSIS :: .op .RPAREN :: r) (stopsTop_ellipsis _) n' (by omega)
      simp only [toksL_one, normL, if_true, List.cons_append, List.nil_append]
      rw [hT, List.cons_append] at hl ⊢
      rw [parseArgs_ell hs hl]
      simp
  | e :: e2 :: rest, h => by
    obtain ⟨h0, h6, h7⟩ := hconsts
    have h' : wf e = true ∧ wfL (e2 :: rest) = true := by
      have := h
      simp only [wfL, Bool.and_eq_true] at this ⊢
      exact ⟨this.1, this.2⟩
    obtain ⟨he, hrest⟩ := h'
    have ih := main e he
    have ihl := mainL (e2 :: rest) hrest
    intro acc ell r _ n hn
    rw [costL_cons] at hn
    obtain ⟨n', rfl⟩ : ∃ n', n = n' + 1 := ⟨n - 1, by omega⟩
    obtain ⟨t, tl, hT, hs, _, _⟩ := toks_head e he lowestPrec (by omega)
    have hl := ih.e (.op .COMMA :: (toksL (e2 :: rest) ++
      ((if ell then [.op .ELLIPSIS] else []) ++ .op .RPAREN :: r))) (stopsTop_comma _) n' (by omega)
    rw [toksL_cons2]
    simp only [List.append_assoc, List.cons_append]
    rw [hT, List.cons_append] at hl ⊢
    rw [parseArgs_comma hs hl]
    have := ihl (norm e lowestPrec :: acc) ell r (fun _ => by simp) n' (by omega)
    rw [this]
    simp [normL]
theorem mainAll : ∀ (l : List XExpr), wfL l = true → ∀ e ∈ l, wf e = true ∧ Main e
  | [], _, e, he => by simp at he
  | a :: r, h, e, he => by
    have h' := h
    simp only [wfL, Bool.and_eq_true] at h'
    rcases List.mem_cons.mp he with heq | hr
    · rw [heq]; exact ⟨h'.1, main a h'.1⟩
    · exact mainAll r h'.2 e hr
end

end GopModel.ExprSyntax
