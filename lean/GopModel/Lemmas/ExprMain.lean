/-
M3 lemmas, part 4: the main induction.  For every well-formed `e` the four statements
`StA/StB/StG'/StE` hold for its printed forms (`Main e`), and argument lists parse back
(`MainL`).
-/
import GopModel.Lemmas.ExprRound
namespace GopModel.ExprSyntax
open Gen

structure Main (e : XExpr) : Prop where
  a : StA (toks e highestPrec) (norm e highestPrec) (cost e + 8)
  b : StB (toks e unaryPrec) (norm e unaryPrec) (cost e + 8)
  g : ∀ q, q ≤ unaryPrec → StG' (toks e q) (norm e q) q (cost e + 8)
  e : StE (toks e lowestPrec) (norm e lowestPrec) (cost e + 8)

/-- Argument lists: `parseArgs` on the printed list followed by the optional `...` and `)`. -/
def MainL (l : List XExpr) : Prop :=
  ∀ (acc : List XExpr) (ell : Bool) (r : List Tok), (ell = true → l ≠ []) →
    ∀ n, costL l + 2 ≤ n →
      parseArgs n acc (toksL l ++ ((if ell then [.op .ELLIPSIS] else []) ++ .op .RPAREN :: r)) =
        .ok ((acc.reverse ++ normL l, ell), r)

theorem hconsts : lowestPrec = 0 ∧ unaryPrec = 6 ∧ highestPrec = 7 := ⟨rfl, rfl, rfl⟩

/-- Operand-level nodes: everything follows from the native `StA`. -/
theorem main_of_A (e : XExpr) (hwf : wf e = true) (hp : exprPrec e = highestPrec) (c : Nat)
    (hc : c ≤ cost e) (hA : StA (toks e highestPrec) (norm e highestPrec) c) : Main e := by
  obtain ⟨h0, h6, h7⟩ := hconsts
  obtain ⟨t, tl, hT, hs, hps⟩ := toks_head e hwf highestPrec (Nat.le_refl _)
  have hpt := hps (Or.inr hp)
  have hx := norm_not_tuple e hwf highestPrec
  have hB : StB (toks e highestPrec) (norm e highestPrec) (c + 3) := StB_of_StA hA hT hpt
  have hG : StG (toks e highestPrec) (norm e highestPrec) (c + 4) := StG_of_StB hB hx
  have hE : StE (toks e highestPrec) (norm e highestPrec) (c + 6) :=
    StE_of_StG' (hG.weak 1) (Nat.le_refl _) hT hs hx
  have eqq : ∀ q, q ≤ highestPrec → toks e q = toks e highestPrec ∧ norm e q = norm e highestPrec :=
    fun q hq => toks_nowrap hwf (by omega) (by omega)
  refine ⟨hA.mono (by omega), ?_, ?_, ?_⟩
  · obtain ⟨e1, e2⟩ := eqq unaryPrec (by omega)
    rw [e1, e2]; exact hB.mono (by omega)
  · intro q hq
    obtain ⟨e1, e2⟩ := eqq q (by omega)
    rw [e1, e2]; exact (hG.weak q).mono (by omega)
  · obtain ⟨e1, e2⟩ := eqq lowestPrec (by omega)
    rw [e1, e2]; exact hE.mono (by omega)

/-- Nodes below operand level (`exprPrec e = P < 7`): everything follows from `StG'` at all
`q ≤ P` and, when `P = unaryPrec`, `StB`. -/
theorem main_of_G (e : XExpr) (hwf : wf e = true) (P : Nat) (hp : exprPrec e = P) (hP1 : 1 ≤ P)
    (hP6 : P ≤ unaryPrec) (c : Nat) (hc : c + 8 ≤ cost e + 8)
    (hG : ∀ q, q ≤ P → StG' (toks e q) (norm e q) q c)
    (hB : P = unaryPrec → StB (toks e unaryPrec) (norm e unaryPrec) (cost e + 8)) : Main e := by
  obtain ⟨h0, h6, h7⟩ := hconsts
  -- E from G at 1
  obtain ⟨t, tl, hT, hs, _⟩ := toks_head e hwf 1 (by omega)
  have hE1 : StE (toks e 1) (norm e 1) (c + 2) :=
    StE_of_StG' (hG 1 hP1) (Nat.le_refl _) hT hs (norm_not_tuple e hwf 1)
  obtain ⟨e01, e02⟩ := toks_nowrap (p := lowestPrec) (p' := 1) hwf (by omega) (by omega)
  have hE : StE (toks e lowestPrec) (norm e lowestPrec) (c + 2) := by rw [e01, e02]; exact hE1
  -- A: wrapped at 7
  obtain ⟨t0, tl0, hT0, hs0, _⟩ := toks_head e hwf lowestPrec (by omega)
  obtain ⟨w1, w2⟩ := toks_wrap (p := highestPrec) hwf (by omega) (Nat.le_refl _)
  have hA : StA (toks e highestPrec) (norm e highestPrec) (c + 4) := by
    rw [w1, w2]; exact StA_paren_of_StE hE hT0 hs0
  -- B at 7 (wrapped), then G for wrapped q
  have hB7 : StB (toks e highestPrec) (norm e highestPrec) (c + 7) :=
    StB_of_StA hA (by rw [w1]) rfl
  have hG7 : StG (toks e highestPrec) (norm e highestPrec) (c + 8) :=
    StG_of_StB hB7 (norm_not_tuple e hwf highestPrec)
  have wrapq : ∀ q, P < q → q ≤ highestPrec →
      toks e q = toks e highestPrec ∧ norm e q = norm e highestPrec := by
    intro q h1 h2
    obtain ⟨a1, a2⟩ := toks_wrap (p := q) hwf (by omega) h2
    rw [a1, a2, w1, w2]; exact ⟨rfl, rfl⟩
  refine ⟨hA.mono (by omega), ?_, ?_, hE.mono (by omega)⟩
  · by_cases h : P = unaryPrec
    · exact hB h
    · obtain ⟨a1, a2⟩ := wrapq unaryPrec (by omega) (by omega)
      rw [a1, a2]; exact hB7.mono (by omega)
  · intro q hq
    by_cases h : q ≤ P
    · exact (hG q h).mono (by omega)
    · obtain ⟨a1, a2⟩ := wrapq q (by omega) (by omega)
      rw [a1, a2]; exact (hG7.weak q).mono (by omega)

theorem paren_indep {x : XExpr} (hpn : isParenNode x = true) (q q' : Nat) :
    toks x q = toks x q' ∧ norm x q = norm x q' := by
  cases x <;> simp [isParenNode] at hpn
  simp [toks_paren, norm]

/-- Unary-level nodes: everything follows from the native `StB`. -/
theorem main_of_B (e : XExpr) (hwf : wf e = true) (hp : exprPrec e = unaryPrec) (c : Nat)
    (hc : c + 9 ≤ cost e + 8) (hB : StB (toks e unaryPrec) (norm e unaryPrec) c) : Main e := by
  obtain ⟨h0, h6, h7⟩ := hconsts
  refine main_of_G e hwf unaryPrec hp (by omega) (Nat.le_refl _) (c + 1) (by omega) ?_ (fun _ => hB.mono (by omega))
  intro q hq
  obtain ⟨a1, a2⟩ := toks_nowrap (p := q) (p' := unaryPrec) hwf (by omega) (by omega)
  rw [a1, a2]
  exact (StG_of_StB hB (norm_not_tuple e hwf unaryPrec)).weak q

theorem stopsTop_rbrack (r : List Tok) : stopsTop (.op .RBRACK :: r) = true := by
  simp [stopsTop, stopsPrimary, headPrec, headIs, tokPrec, prec, precedence]
theorem stopsTop_comma (r : List Tok) : stopsTop (.op .COMMA :: r) = true := by
  simp [stopsTop, stopsPrimary, headPrec, headIs, tokPrec, prec, precedence]
theorem stopsTop_ellipsis (r : List Tok) : stopsTop (.op .ELLIPSIS :: r) = true := by
  simp [stopsTop, stopsPrimary, headPrec, headIs, tokPrec, prec, precedence]

theorem stopsPrimary_binop {o : Op} (h : isBinOp o = true) (r : List Tok) :
    stopsPrimary (.op o :: r) = true := by
  cases o <;> simp [isBinOp, prec, precedence] at h <;> simp [stopsPrimary]

theorem headPrec_binop {o : Op} (h : isBinOp o = true) (r : List Tok) :
    headPrec (.op o :: r) = prec o := by
  simp [headPrec, (tokPrec_binOp h).1]

theorem costL_cons (e : XExpr) (l : List XExpr) : costL (e :: l) = cost e + 40 + costL l := by
  simp [costL, cost, sizeL]; omega

mutual
theorem main : ∀ (e : XExpr), wf e = true → Main e
  | .ident s, h => main_of_A _ h rfl 2 (by simp [cost, size]) (by
      intro lhs tup r res M ho hk n hn
      obtain ⟨n', rfl⟩ : ∃ n', n = n' + 2 := ⟨n - 2, by omega⟩
      simp only [toks_ident, norm, List.cons_append, List.nil_append] at hk ⊢
      rw [parsePrimary_step (parseOperand_ident n' lhs tup s r ho) rfl]
      exact hk (n' + 1) (by omega))
  | .lit k v, h => main_of_A _ h rfl 2 (by simp [cost, size]) (by
      intro lhs tup r res M ho hk n hn
      obtain ⟨n', rfl⟩ : ∃ n', n = n' + 2 := ⟨n - 2, by omega⟩
      simp only [toks_lit, norm, List.cons_append, List.nil_append] at hk ⊢
      rw [parsePrimary_step (parseOperand_lit n' lhs tup k v r ho) rfl]
      exact hk (n' + 1) (by omega))
  | .numUnit k v u, h => main_of_A _ h rfl 2 (by simp [cost, size]) (by
      intro lhs tup r res M ho hk n hn
      obtain ⟨n', rfl⟩ : ∃ n', n = n' + 2 := ⟨n - 2, by omega⟩
      simp only [toks_numUnit, norm, List.cons_append, List.nil_append] at hk ⊢
      rw [parsePrimary_step (parseOperand_numUnit n' lhs tup k v u r) rfl]
      exact hk (n' + 1) (by omega))
  | .env s b, h => main_of_A _ h rfl 2 (by simp [cost, size]) (by
      intro lhs tup r res M ho hk n hn
      obtain ⟨n', rfl⟩ : ∃ n', n = n' + 2 := ⟨n - 2, by omega⟩
      cases b
      · simp only [toks_env, norm, List.cons_append, List.nil_append, Bool.false_eq_true, if_false] at hk ⊢
        rw [parsePrimary_step (parseOperand_env n' lhs tup s r) rfl]
        exact hk (n' + 1) (by omega)
      · simp only [toks_env, norm, List.cons_append, List.nil_append, if_true] at hk ⊢
        rw [parsePrimary_step (parseOperand_envBrace n' lhs tup s r) rfl]
        exact hk (n' + 1) (by omega))
  | .binary op x y, h => by
    obtain ⟨h0, h6, h7⟩ := hconsts
    have h' := h
    simp only [wf, Bool.and_eq_true] at h'
    obtain ⟨⟨hop, hx⟩, hy⟩ := h'
    have hP : 1 ≤ prec op ∧ prec op < unaryPrec := by simpa [isBinOp] using hop
    have ihx := main x hx
    have ihy := main y hy
    have hcost : cost (.binary op x y) = cost x + cost y + 40 := by simp [cost, size]; omega
    refine main_of_G _ h (prec op) rfl hP.1 (by omega) (cost x + cost y + 18) (by omega) ?_
      (fun hc => by omega)
    intro q hq lhs tup p1 r res M hp1 hr hh hk n hn
    have hnw : ¬ prec op < q := by omega
    simp only [toks_binary, norm, wrapT, wrapP, hnw, decide_false, Bool.false_eq_true, if_false,
      List.append_assoc, List.cons_append] at hk ⊢
    refine ihx.g (prec op) (by omega) lhs tup p1 _ res (M + cost y + 10) (by omega)
      (stopsPrimary_binop hop _) (by rw [headPrec_binop hop]; exact Nat.le_refl _) ?_ n (by omega)
    intro m hm
    obtain ⟨m', rfl⟩ : ∃ m', m = m' + 1 := ⟨m - 1, by omega⟩
    have hy' : parseBinary m' false (prec op + 1) false (toks y (prec op + 1) ++ r) =
        .ok (norm y (prec op + 1), r) :=
      ihy.g (prec op + 1) (by omega) false false (prec op + 1) r _ 1 (Nat.le_refl _) hr (by omega)
        (fun m2 hm2 => by
          obtain ⟨m3, rfl⟩ : ∃ m3, m2 = m3 + 1 := ⟨m2 - 1, by omega⟩
          exact binaryLoop_stop m3 _ _ r (opHead_of_stopsPrimary hr) (by omega))
        m' (by omega)
    rw [binaryLoop_op hop (by omega) hy']
    exact hk m' (by omega)
  | .unary op x, h => by
    obtain ⟨h0, h6, h7⟩ := hconsts
    have h' := h
    simp only [wf, Bool.and_eq_true] at h'
    obtain ⟨hop, hx⟩ := h'
    have ih := main x hx
    have hcost : cost (.unary op x) = cost x + 40 := by simp [cost, size]; omega
    refine main_of_B _ h rfl (cost x + 9) (by omega) ?_
    intro lhs tup r hr n hn
    obtain ⟨n', rfl⟩ : ∃ n', n = n' + 1 := ⟨n - 1, by omega⟩
    have hnw : ¬ unaryPrec < unaryPrec := Nat.lt_irrefl _
    simp only [toks_unary, norm, wrapT, wrapP, hnw, decide_false, Bool.false_eq_true, if_false,
      List.cons_append]
    exact parseUnary_prefix hop (ih.b false false r hr n' (by omega))
  | .star x, h => by
    obtain ⟨h0, h6, h7⟩ := hconsts
    have hx : wf x = true := by simpa [wf] using h
    have ih := main x hx
    have hcost : cost (.star x) = cost x + 40 := by simp [cost, size]; omega
    refine main_of_B _ h rfl (cost x + 9) (by omega) ?_
    intro lhs tup r hr n hn
    obtain ⟨n', rfl⟩ : ∃ n', n = n' + 1 := ⟨n - 1, by omega⟩
    have hnw : ¬ unaryPrec < unaryPrec := Nat.lt_irrefl _
    simp only [toks_star, norm, wrapT, wrapP, hnw, decide_false, Bool.false_eq_true, if_false,
      List.cons_append]
    exact parseUnary_star (ih.b false false r hr n' (by omega))
  | .paren x, h => by
    obtain ⟨h0, h6, h7⟩ := hconsts
    have hx : wf x = true := by simpa [wf] using h
    have ih := main x hx
    by_cases hpn : isParenNode x = true
    · have hcost : cost (.paren x) = cost x := by simp [cost, size, hpn]
      have eqq : ∀ q, toks (.paren x) q = toks x q ∧ norm (.paren x) q = norm x q := by
        intro q
        obtain ⟨a1, a2⟩ := paren_indep hpn lowestPrec q
        simp only [toks_paren, norm, hpn, if_true]
        exact ⟨a1, a2⟩
      refine ⟨?_, ?_, ?_, ?_⟩
      · rw [(eqq _).1, (eqq _).2, hcost]; exact ih.a
      · rw [(eqq _).1, (eqq _).2, hcost]; exact ih.b
      · intro q hq; rw [(eqq _).1, (eqq _).2, hcost]; exact ih.g q hq
      · rw [(eqq _).1, (eqq _).2, hcost]; exact ih.e
    · have hcost : cost (.paren x) = cost x + 40 := by simp [cost, size, hpn]; omega
      refine main_of_A _ h rfl (cost x + 10) (by omega) ?_
      obtain ⟨t, tl, hT, hs, _⟩ := toks_head x hx lowestPrec (by omega)
      simp only [toks_paren, norm, hpn, wrapT, if_true, Bool.false_eq_true, if_false]
      exact StA_paren_of_StE ih.e hT hs
  | .selector x s, h => by
    have hx : wf x = true := by simpa [wf] using h
    have ih := main x hx
    have hcost : cost (.selector x s) = cost x + 40 := by simp [cost, size]; omega
    refine main_of_A _ h rfl (cost x + 9) (by omega) ?_
    intro lhs tup r res M ho hk n hn
    simp only [toks_selector, norm, List.append_assoc, List.cons_append, List.nil_append] at hk ⊢
    refine ih.a lhs tup _ res (M + 1) rfl ?_ n (by omega)
    intro m hm
    obtain ⟨m', rfl⟩ : ∃ m', m = m' + 1 := ⟨m - 1, by omega⟩
    rw [primaryLoop_sel]
    exact hk m' (by omega)
  | .index x i, h => by
    obtain ⟨h0, h6, h7⟩ := hconsts
    have h' : wf x = true ∧ wf i = true := by simpa [wf] using h
    obtain ⟨hx, hi⟩ := h'
    have ihx := main x hx
    have ihi := main i hi
    have hcost : cost (.index x i) = cost x + cost i + 40 := by simp [cost, size]; omega
    refine main_of_A _ h rfl (cost x + cost i + 18) (by omega) ?_
    intro lhs tup r res M ho hk n hn
    simp only [toks_index, norm, List.append_assoc, List.cons_append, List.nil_append] at hk ⊢
    refine ihx.a lhs tup _ res (M + cost i + 10) rfl ?_ n (by omega)
    intro m hm
    obtain ⟨m', rfl⟩ : ∃ m', m = m' + 2 := ⟨m - 2, by omega⟩
    obtain ⟨t, tl, hT, hs, _⟩ := toks_head i hi lowestPrec (by omega)
    have hl : parseLambda m' false (toks i lowestPrec ++ .op .RBRACK :: r) =
        .ok (norm i lowestPrec, .op .RBRACK :: r) :=
      ihi.e _ (stopsTop_rbrack r) m' (by omega)
    have hi' : parseIndexOrSlice (m' + 1) (norm x highestPrec) (toks i lowestPrec ++ .op .RBRACK :: r) =
        .ok (.index (norm x highestPrec) (norm i lowestPrec), r) := by
      rw [hT, List.cons_append] at hl ⊢
      exact parseIndexOrSlice_index hs hl
    rw [primaryLoop_index hi']
    exact hk (m' + 1) (by omega)
  | .call f args ell cmd, h => by
    have h' := h
    simp only [wf, Bool.and_eq_true, Bool.not_eq_true', Bool.or_eq_true, List.isEmpty_eq_false_iff] at h'
    obtain ⟨⟨⟨hc, hf⟩, hargs⟩, hell⟩ := h'
    subst hc
    have ihf := main f hf
    have ihl := mainL args hargs
    have hcost : cost (.call f args ell false) = cost f + costL args + 40 := by
      simp [cost, costL, size]; omega
    refine main_of_A _ h rfl (cost f + costL args + 18) (by omega) ?_
    intro lhs tup r res M ho hk n hn
    simp only [toks_call, norm, List.append_assoc, List.cons_append, List.nil_append] at hk ⊢
    refine ihf.a lhs tup _ res (M + costL args + 10) rfl ?_ n (by omega)
    intro m hm
    obtain ⟨m', rfl⟩ : ∃ m', m = m' + 1 := ⟨m - 1, by omega⟩
    have ha := ihl [] ell r (by
      intro he; rcases hell with h1 | h1
      · rw [he] at h1; cases h1
      · exact h1) m' (by omega)
    simp only [List.reverse_nil, List.nil_append] at ha
    rw [primaryLoop_call ha]
    exact hk m' (by omega)
  | .errWrap x tok none, h => by
    obtain ⟨htok, hx⟩ := wf_errWrap_none h
    have ih := main x hx
    have hcost : cost (.errWrap x tok none) = cost x + 40 := by simp [cost, size]; omega
    refine main_of_A _ h rfl (cost x + 9) (by omega) ?_
    intro lhs tup r res M ho hk n hn
    simp only [toks_errWrap_none, norm, List.append_assoc, List.cons_append, List.nil_append] at hk ⊢
    refine ih.a lhs tup _ res (M + 1) rfl ?_ n (by omega)
    intro m hm
    obtain ⟨m', rfl⟩ : ∃ m', m = m' + 1 := ⟨m - 1, by omega⟩
    rcases htok with rfl | rfl
    · rw [primaryLoop_not]; exact hk m' (by omega)
    · rw [primaryLoop_question]; exact hk m' (by omega)
  | .errWrap x tok (some d), h => by
    obtain ⟨h0, h6, h7⟩ := hconsts
    obtain ⟨htok, hx, hd⟩ := wf_errWrap_some h
    have ihx := main x hx
    have ihd := main d hd
    have hcost : cost (.errWrap x tok (some d)) = cost x + cost d + 40 := by simp [cost, size]; omega
    refine main_of_B _ h rfl (cost x + cost d + 22) (by omega) ?_
    intro lhs tup r hr n hn
    obtain ⟨n', rfl⟩ : ∃ n', n = n' + 2 := ⟨n - 2, by omega⟩
    have hnw : ¬ unaryPrec < unaryPrec := Nat.lt_irrefl _
    simp only [toks_errWrap_some, norm, wrapT, wrapP, hnw, decide_false, Bool.false_eq_true, if_false,
      List.append_assoc, List.cons_append]
    obtain ⟨t, tl, hT, _, hps⟩ := toks_head x hx highestPrec (Nat.le_refl _)
    have hpt := hps (by have := exprPrec_le hx; omega)
    have hprim : parsePrimary n' lhs tup
        (toks x highestPrec ++ (.op tok :: .op .COLON :: (toks d unaryPrec ++ r))) =
        .ok (.errWrap (norm x highestPrec) tok none, .op .COLON :: (toks d unaryPrec ++ r)) := by
      refine ihx.a lhs tup _ _ 2 rfl ?_ n' (by omega)
      intro m hm
      obtain ⟨m', rfl⟩ : ∃ m', m = m' + 2 := ⟨m - 2, by omega⟩
      rcases htok with rfl | rfl
      · rw [primaryLoop_not, primaryLoop_stop _ _ _ rfl]
      · rw [primaryLoop_question, primaryLoop_stop _ _ _ rfl]
    have hdef : parseUnary n' false false (toks d unaryPrec ++ r) = .ok (norm d unaryPrec, r) :=
      ihd.b false false r hr n' (by omega)
    have hpu : parseUnary (n' + 2) lhs tup (toks x highestPrec ++ (.op tok :: .op .COLON :: (toks d unaryPrec ++ r))) =
        parseErrWrap (n' + 1) lhs tup (toks x highestPrec ++ (.op tok :: .op .COLON :: (toks d unaryPrec ++ r))) := by
      rw [hT, List.cons_append]; exact parseUnary_prim hpt
    rw [hpu]
    exact parseErrWrap_default hprim hdef
  | .slice .., h => by simp [wf] at h
  | .composite .., h => by simp [wf] at h
  | .kv .., h => by simp [wf] at h
  | .sliceLit .., h => by simp [wf] at h
  | .lambda .., h => by simp [wf] at h
  | .typeAssert .., h => by simp [wf] at h
  | .range .., h => by simp [wf] at h
  | .tuple .., h => by simp [wf] at h
  | .bad, h => by simp [wf] at h
theorem mainL : ∀ (l : List XExpr), wfL l = true → MainL l
  | [], _ => by
    intro acc ell r hell n hn
    cases ell with
    | true => exact absurd rfl (hell rfl)
    | false =>
      obtain ⟨n', rfl⟩ : ∃ n', n = n' + 1 := ⟨n - 1, by omega⟩
      simp [toksL_nil, normL, parseArgs_rparen]
  | [e], h => by
    obtain ⟨h0, h6, h7⟩ := hconsts
    have he : wf e = true := by simpa [wfL] using h
    have ih := main e he
    intro acc ell r _ n hn
    rw [costL_cons] at hn
    obtain ⟨n', rfl⟩ : ∃ n', n = n' + 1 := ⟨n - 1, by omega⟩
    obtain ⟨t, tl, hT, hs, _⟩ := toks_head e he lowestPrec (by omega)
    cases ell with
    | false =>
      have hl := ih.e (.op .RPAREN :: r) (stopsTop_rparen r) n' (by omega)
      simp only [toksL_one, normL, Bool.false_eq_true, if_false, List.nil_append]
      rw [hT, List.cons_append] at hl ⊢
      rw [parseArgs_last hs hl]
      simp
    | true =>
      have hl := ih.e (.op .ELLIPSIS :: .op .RPAREN :: r) (stopsTop_ellipsis _) n' (by omega)
      simp only [toksL_one, normL, if_true, List.cons_append, List.nil_append]
      rw [hT, List.cons_append] at hl ⊢
      rw [parseArgs_ell hs hl]
      simp
  | e :: e2 :: rest, h => by
    obtain ⟨h0, h6, h7⟩ := hconsts
    have h' : wf e = true ∧ wfL (e2 :: rest) = true := by
      have := h
      simp only [wfL, Bool.and_eq_true] at this ⊢
      exact ⟨this.1, this.2⟩
    obtain ⟨he, hrest⟩ := h'
    have ih := main e he
    have ihl := mainL (e2 :: rest) hrest
    intro acc ell r _ n hn
    rw [costL_cons] at hn
    obtain ⟨n', rfl⟩ : ∃ n', n = n' + 1 := ⟨n - 1, by omega⟩
    obtain ⟨t, tl, hT, hs, _⟩ := toks_head e he lowestPrec (by omega)
    have hl := ih.e (.op .COMMA :: (toksL (e2 :: rest) ++
      ((if ell then [.op .ELLIPSIS] else []) ++ .op .RPAREN :: r))) (stopsTop_comma _) n' (by omega)
    rw [toksL_cons2]
    simp only [List.append_assoc, List.cons_append]
    rw [hT, List.cons_append] at hl ⊢
    rw [parseArgs_comma hs hl]
    have := ihl (norm e lowestPrec :: acc) ell r (fun _ => by simp) n' (by omega)
    rw [this]
    simp [normL]
end

end GopModel.ExprSyntax
