/-
Pins the effect skeletons of the special cases of the operator switch of `Scan` (regenerated on
every run by extract/scanswitch.go into Generated/ScanSpecials.lean) to the skeletons from which the
hand-written model of these cases in Model/Scan.lean was written (DESIGN 2.8: fingerprint tie).

Pairing (special case -> hand-written model definition, all in Model/Scan.lean unless noted):
  EOF, '\n'         -> `scanStep`, branches `ch = eofCh` / `ch = 0x0A` (+ `autoSemi`: nParen := 0 for xgo/tpl)
  '"', '\'', '`'    -> `scanStep` + Model/ScanLex.lean `scanString`, `scanRune`, `scanRawString`
  '.'               -> `scanStep`, ELLIPSIS branch (`insertSemi` iff `nParen = 0` for xgo/tpl, never for go)
  ';'               -> `scanStep`, explicit-semicolon branch (nParen := 0 for xgo/tpl: `tokSEMICOLON`)
  '/', '#'          -> `scanCommentTok` (+ ScanLex `findLineEnd`, `scanCommentXG`, `scanCommentTpl`,
                       `scanSharpCommentTpl`; go: `nlPos`)
  tokSEMICOLON      -> the `nParen := 0` of every SEMICOLON token of the xgo / tpl dialects

A state-affecting call that is dropped from (or added to) one of these bodies in the tree under test
changes the regenerated table, these theorems stop compiling, and every property that imports this
file (Props/C15, C16, C32, C33) is reported as no longer shown.  When that happens: re-read the
changed case, update Model/Scan.lean if the behaviour changed, then update the list below.
-/
import GopModel.Generated.ScanSpecials

namespace GopModel.Scan
open GopModel.Generated

theorem xgoSpecialFx_pinned : ScanSpecials.xgoSpecialFx = [
  (1114112, ["if s.insertSemi", "s.insertSemi = false", "return pos, s.tokSEMICOLON(), \"\\n\"", "end", "tok = token.EOF"]),
  (10, ["s.insertSemi = false", "return pos, s.tokSEMICOLON(), \"\\n\""]),
  (34, ["insertSemi = true", "tok = token.STRING", "lit = s.scanString()"]),
  (39, ["insertSemi = true", "tok = token.CHAR", "lit = s.scanRune()"]),
  (96, ["insertSemi = true", "tok = token.STRING", "lit = s.scanRawString()"]),
  (46, ["tok = token.PERIOD", "if s.ch == '.' && s.peek() == '.'", "call s.next", "call s.next", "if s.nParen == 0", "insertSemi = true", "end", "tok = token.ELLIPSIS", "end"]),
  (59, ["tok = s.tokSEMICOLON()", "lit = \";\""]),
  (35, ["if s.insertSemi", "s.ch = '#'", "s.offset = s.file.Offset(pos)", "s.rdOffset = s.offset + 1", "s.insertSemi = false", "return pos, s.tokSEMICOLON(), \"\\n\"", "end", "call s.scanComment", "if s.mode&ScanComments == 0", "s.insertSemi = false", "goto scanAgain", "end", "tok = token.COMMENT", "lit = comment"]),
  (47, ["if s.insertSemi && s.findLineEnd()", "s.ch = '/'", "s.offset = s.file.Offset(pos)", "s.rdOffset = s.offset + 1", "s.insertSemi = false", "return pos, s.tokSEMICOLON(), \"\\n\"", "end", "call s.scanComment", "if s.mode&ScanComments == 0", "s.insertSemi = false", "goto scanAgain", "end", "tok = token.COMMENT", "lit = comment"])] := by decide

theorem xgoSemicolonFx_pinned : ScanSpecials.xgoSemicolonFx = ["s.nParen = 0", "return token.SEMICOLON"] := by decide

theorem tplSpecialFx_pinned : ScanSpecials.tplSpecialFx = [
  (1114112, ["if s.insertSemi", "s.insertSemi = false", "t.Tok, t.Lit = s.tokSEMICOLON(), \"\\n\"", "return", "end", "t.Tok = token.EOF"]),
  (10, ["s.insertSemi = false", "t.Tok, t.Lit = s.tokSEMICOLON(), \"\\n\"", "return"]),
  (34, ["insertSemi = true", "t.Tok = token.STRING", "t.Lit = s.scanString()"]),
  (39, ["insertSemi = true", "t.Tok = token.CHAR", "t.Lit = s.scanRune()"]),
  (96, ["insertSemi = true", "t.Tok = token.STRING", "t.Lit = s.scanRawString()"]),
  (46, ["if s.ch == '.' && s.peek() == '.'", "call s.next", "call s.next", "if s.nParen == 0", "insertSemi = true", "end", "t.Tok = token.ELLIPSIS", "else", "t.Tok = token.PERIOD", "end"]),
  (59, ["t.Tok = s.tokSEMICOLON()", "t.Lit = \";\""]),
  (47, ["if s.insertSemi && s.findLineEnd()", "s.ch = '/'", "s.offset = s.file.Offset(t.Pos)", "s.rdOffset = s.offset + 1", "s.insertSemi = false", "t.Tok, t.Lit = s.tokSEMICOLON(), \"\\n\"", "return", "end", "call s.scanComment", "if s.mode&ScanComments == 0", "s.insertSemi = false", "goto scanAgain", "end", "t.Tok = token.COMMENT", "t.Lit = comment"]),
  (35, ["if s.insertSemi", "s.ch = '#'", "s.offset = s.file.Offset(t.Pos)", "s.rdOffset = s.offset + 1", "s.insertSemi = false", "t.Tok, t.Lit = s.tokSEMICOLON(), \"\\n\"", "return", "end", "call s.scanSharpComment", "if s.mode&ScanComments == 0", "goto scanAgain", "end", "t.Tok = token.COMMENT", "t.Lit = comment"])] := by decide

theorem tplSemicolonFx_pinned : ScanSpecials.tplSemicolonFx = ["s.nParen = 0", "return token.SEMICOLON"] := by decide

theorem goSpecialFx_pinned : ScanSpecials.goSpecialFx = [
  (1114112, ["if s.insertSemi", "s.insertSemi = false", "return pos, token.SEMICOLON, \"\\n\"", "end", "tok = token.EOF"]),
  (10, ["s.insertSemi = false", "return pos, token.SEMICOLON, \"\\n\""]),
  (34, ["insertSemi = true", "tok = token.STRING", "lit = s.scanString()"]),
  (39, ["insertSemi = true", "tok = token.CHAR", "lit = s.scanRune()"]),
  (96, ["insertSemi = true", "tok = token.STRING", "lit = s.scanRawString()"]),
  (46, ["tok = token.PERIOD", "if s.ch == '.' && s.peek() == '.'", "call s.next", "call s.next", "tok = token.ELLIPSIS", "end"]),
  (59, ["tok = token.SEMICOLON", "lit = \";\""]),
  (47, ["call s.scanComment", "if s.insertSemi && nlOffset != 0", "s.nlPos = s.file.Pos(nlOffset)", "s.insertSemi = false", "else", "insertSemi = s.insertSemi", "end", "if s.mode&ScanComments == 0", "goto scanAgain", "end", "tok = token.COMMENT", "lit = comment"])] := by decide

theorem goSemicolonFx_pinned : ScanSpecials.goSemicolonFx = [] := by decide

end GopModel.Scan
