/-
Lemmas for M1, part 5: one pass through `Scan` (`scanStep`) for the dialects xgo and tpl —
what it does to the state (`Good`, frontier, measure) and what the returned token is (`TokOK`).
-/
import GopModel.Lemmas.ScanComments
namespace GopModel.Scan
open GopModel.Generated

variable {src : Array UInt8}

/-- offset up to which the source has been turned into tokens: a pending unit suffix is still
to be returned -/
def frontier (st : St) : Nat := st.off - st.unitVal.length

/-- what holds between two calls of `Scan` -/
structure Good (src : Array UInt8) (st : St) : Prop where
  inv : Inv src st
  ok : st.fail = .ok
  ulen : st.unitVal.length ≤ st.off
  unit : st.unitVal = slice src (st.off - st.unitVal.length) st.off

/-- termination measure of the token loop -/
def mu (src : Array UInt8) (st : St) : Nat :=
  2 * (src.size - st.off) + (if st.insertSemi then 1 else 0) + (if st.unitVal = [] then 0 else 2)

def isWsByte (b : Nat) : Prop := b = 0x20 ∨ b = 0x09 ∨ b = 0x0A ∨ b = 0x0D

/-- `tokens[kind]` of the dialect's token package -/
def spelling (d : Dialect) (kind : Nat) : Option (List UInt8) :=
  match d with
  | .xgo => Tokens.XGo.tokenBytes.lookup kind
  | .tpl => Tokens.Tpl.tokenBytes.lookup kind
  | .go => Tokens.Go.tokenBytes.lookup kind

/-- `IsOperator()` of the dialect's token package (tpl has no such method: its operators and
delimiters are the table entries above the literal classes) -/
def isOpCode (d : Dialect) (k : Nat) : Bool :=
  match d with
  | .xgo => Tokens.XGo.isOperator k
  | .tpl => decide (Tokens.Tpl.literal_end < k)
  | .go => Tokens.Go.isOperator k

/-- The possible shapes of a returned token with respect to the source text. -/
inductive TokOK (d : Dialect) (src : Array UInt8) (t : Token) : Prop where
  /-- identifier, keyword, number, unit, rune: the literal is the source span -/
  | exact (hk : t.kind = (codes d).IDENT ∨ t.kind = (codes d).INT ∨ t.kind = (codes d).FLOAT ∨
             t.kind = (codes d).IMAG ∨ t.kind = (codes d).RAT ∨ t.kind = (codes d).UNIT ∨
             t.kind = (codes d).CHAR ∨ (∃ l, ((codes d).keywords.lookup l) = some t.kind))
          (hne : t.pos < t.stop) (h : t.lit = slice src t.pos t.stop)
  /-- string and comment: the literal is the source span up to carriage returns -/
  | text (hk : t.kind = (codes d).STRING ∨ t.kind = (codes d).COMMENT)
         (hne : t.pos < t.stop) (h : TextCR t.lit (slice src t.pos t.stop))
  /-- c"…" / C"…" / py"…": prefix, then the literal is the rest of the span -/
  | prefixed (hd : d = .xgo) (n : Nat) (hk : (t.kind = (codes d).CSTRING ∧ n = 1) ∨ (t.kind = (codes d).PYSTRING ∧ n = 2))
         (hne : t.pos + n < t.stop) (h : t.lit = slice src (t.pos + n) t.stop)
  /-- operator / delimiter: the spelling of the token is the source span; the literal is empty
  (";" for an explicit semicolon) -/
  | op (hs : spelling d t.kind = some (slice src t.pos t.stop)) (hne : t.pos < t.stop)
       (hl : t.lit = [] ∨ (t.kind = (codes d).SEMICOLON ∧ t.lit = [0x3B])) (hkne : t.kind ≠ (codes d).EOF)
       (hop : isOpCode d t.kind = true)
  /-- ILLEGAL (the offending character, at least one byte) -/
  | illegal (hk : t.kind = (codes d).ILLEGAL) (hne : t.pos < t.stop)
  /-- automatically inserted semicolon (zero width, or the newline byte it stands for) and EOF -/
  | auto (hk : (t.kind = (codes d).SEMICOLON ∧ t.lit = [0x0A]) ∨
               (t.kind = (codes d).EOF ∧ t.lit = [] ∧ t.pos = src.size))
         (hw : t.stop = t.pos ∨ (t.stop = t.pos + 1 ∧ byteAt src t.pos = 0x0A))

/-- what `scanStep` guarantees (dialects xgo, tpl) -/
structure StepSpec (cfg : Cfg) (src : Array UInt8) (st0 st' : St) (topt : Option Token) : Prop where
  good : Good src st'
  front : frontier st0 ≤ frontier st'
  progress : (∃ t, topt = some t ∧ t.kind = (codes cfg.d).EOF ∧ t.pos = src.size) ∨ mu src st' < mu src st0
  tok : ∀ t, topt = some t →
    frontier st0 ≤ t.pos ∧ t.pos ≤ t.stop ∧ t.stop = frontier st' ∧
    (∀ i, frontier st0 ≤ i → i < t.pos → isWsByte (byteAt src i)) ∧ TokOK cfg.d src t
  skip : topt = none → cfg.comments = false

/-- equal up to `insertSemi` and `nParen` -/
structure SameButSemi (st st' : St) : Prop where
  ch : st'.ch = st.ch
  off : st'.off = st.off
  rdOff : st'.rdOff = st.rdOff
  fail : st'.fail = st.fail
  unit : st'.unitVal = st.unitVal

theorem Good.frontier_le {st : St} (h : Good src st) : frontier st ≤ src.size := by
  unfold frontier; have := h.inv.off_le_size; omega

/-- a state reached by advancing from a good state without a pending unit is good -/
theorem Good.ofAdv {st0 st : St} (hg : Good src st0) (hu : st0.unitVal = []) (ha : Adv src st0 st) : Good src st := by
  have hu' : st.unitVal = [] := ha.unit.trans hu
  exact ⟨ha.inv, ha.fail_eq.trans hg.ok, by rw [hu']; simp, by rw [hu']; simp [slice_self]⟩

theorem frontier_of_nounit {st : St} (hu : st.unitVal = []) : frontier st = st.off := by
  unfold frontier; rw [hu]; simp

theorem mu_of_nounit {st : St} (hu : st.unitVal = []) :
    mu src st = 2 * (src.size - st.off) + (if st.insertSemi then 1 else 0) := by
  unfold mu; simp [hu]


/-! ### bytes and one-byte slices -/

theorem slice_one_byte {i c : Nat} (h : i < src.size) (hb : byteAt src i = c) :
    slice src i (i + 1) = [UInt8.ofNat c] := by
  rw [slice_one h, ← hb, byteAt_eq h]
  simp

/-- extending a span by one ASCII character that is under the cursor -/
theorem slice_snoc {st : St} (hi : Inv src st) {pos c : Nat} (hp : pos ≤ st.off) (hc : st.ch = c) (hlt : c < 0x80) :
    slice src pos (next src st).off = slice src pos st.off ++ [UInt8.ofNat c] ∧ (next src st).off = st.off + 1 ∧
      st.off < src.size := by
  have hlt' : st.ch < 0x80 := by omega
  have e := next_off_ascii hi hlt'
  have hb := (hi.ascii hlt').1
  have hsz : st.off < src.size := by
    have := hi.adv (lt_ne_eof hlt'); have := hi.rd_le; omega
  refine ⟨?_, e, hsz⟩
  rw [e, ← slice_append (src := src) hp (Nat.le_succ _), slice_one_byte hsz (hb.trans hc)]

/-! ### `finish` and the early semicolon return -/

theorem finish_fst (cfg : Cfg) (st : St) (pos kind : Nat) (lit : List UInt8) (semi : Bool) :
    SameButSemi st (finish cfg st pos kind lit semi).1 ∧
    (finish cfg st pos kind lit semi).2 = some ⟨pos, frontier st, kind, lit⟩ := by
  unfold finish mkTok frontier
  simp only []
  split
  · exact ⟨⟨rfl, rfl, rfl, rfl, rfl⟩, rfl⟩
  · exact ⟨⟨rfl, rfl, rfl, rfl, rfl⟩, rfl⟩


theorem Good.congr {st st' : St} (h : Good src st) (e : SameButSemi st st') : Good src st' :=
  ⟨h.inv.congr e.ch e.off e.rdOff, e.fail.trans h.ok, by rw [e.unit, e.off]; exact h.ulen,
   by rw [e.unit, e.off]; exact h.unit⟩

theorem mu_le_of_same {st st' : St} (e : SameButSemi st st') :
    mu src st' ≤ 2 * (src.size - st.off) + 1 + (if st.unitVal = [] then 0 else 2) := by
  unfold mu; rw [e.off, e.unit]; split <;> omega

/-- `finish` after the scanner moved from a good state `st0` without pending unit to `st`:
the token `[pos, frontier st)` -/
theorem finish_spec (cfg : Cfg) {st0 st : St} {pos kind : Nat} {lit : List UInt8} (semi : Bool)
    (hu0 : st0.unitVal = []) (hg : Good src st)
    (hpos1 : st0.off ≤ pos) (hpos2 : pos ≤ frontier st)
    (hprog : (kind = (codes cfg.d).EOF ∧ pos = src.size) ∨ st0.off + 1 ≤ frontier st)
    (hws : ∀ i, st0.off ≤ i → i < pos → isWsByte (byteAt src i))
    (htok : TokOK cfg.d src ⟨pos, frontier st, kind, lit⟩) :
    StepSpec cfg src st0 (finish cfg st pos kind lit semi).1 (finish cfg st pos kind lit semi).2 := by
  obtain ⟨e, ht⟩ := finish_fst cfg st pos kind lit semi
  have hf0 := frontier_of_nounit hu0
  have hfe : frontier (finish cfg st pos kind lit semi).1 = frontier st := by
    unfold frontier; rw [e.off, e.unit]
  refine ⟨hg.congr e, by rw [hf0, hfe]; omega, ?_, ?_, ?_⟩
  · rcases hprog with h | h
    · exact Or.inl ⟨_, ht, h.1, h.2⟩
    · right
      have h1 := mu_le_of_same (src := src) e
      have h2 := mu_of_nounit (src := src) hu0
      have hsz := hg.inv.off_le_size
      have hul := hg.ulen
      unfold frontier at h
      by_cases hu : st.unitVal = []
      · simp only [hu, if_true] at h1
        rw [hu] at h; simp at h
        rw [h2]; split <;> omega
      · simp only [hu, if_false] at h1
        have : 1 ≤ st.unitVal.length := by
          cases hl : st.unitVal with
          | nil => exact absurd hl hu
          | cons a t => simp
        rw [h2]; split <;> omega
  · intro t htt
    rw [ht] at htt
    cases htt
    refine ⟨by rw [hf0]; exact hpos1, hpos2, hfe.symm, ?_, htok⟩
    intro i h1 h2; exact hws i (by rw [hf0] at h1; exact h1) h2
  · intro h; rw [ht] at h; cases h

/-- the early return of an inserted semicolon from a state without pending unit -/
theorem autoSemi_spec (cfg : Cfg) {st0 st : St} {pos : Nat}
    (hu0 : st0.unitVal = []) (hg : Good src st) (hu : st.unitVal = [])
    (hpos1 : st0.off ≤ pos) (hpos2 : pos ≤ st.off)
    (hprog : st0.off + 1 ≤ st.off ∨ (st0.off ≤ st.off ∧ st0.insertSemi = true))
    (hws : ∀ i, st0.off ≤ i → i < pos → isWsByte (byteAt src i))
    (hw : st.off = pos ∨ (st.off = pos + 1 ∧ byteAt src pos = 0x0A)) :
    StepSpec cfg src st0 (autoSemi cfg st pos).1 (autoSemi cfg st pos).2 := by
  have hf0 := frontier_of_nounit hu0
  have e : SameButSemi st (autoSemi cfg st pos).1 := by unfold autoSemi; exact ⟨rfl, rfl, rfl, rfl, rfl⟩
  have ht : (autoSemi cfg st pos).2 = some ⟨pos, st.off, (codes cfg.d).SEMICOLON, [0x0A]⟩ := by
    unfold autoSemi mkTok; simp [hu]
  have hsemi : (autoSemi cfg st pos).1.insertSemi = false := by unfold autoSemi; rfl
  have hfe : frontier (autoSemi cfg st pos).1 = st.off := by
    unfold frontier; rw [e.off, e.unit, hu]; simp
  refine ⟨hg.congr e, by rw [hf0, hfe]; omega, Or.inr ?_, ?_, ?_⟩
  · have h2 := mu_of_nounit (src := src) hu0
    have hsz := hg.inv.off_le_size
    rw [h2]
    unfold mu
    rw [hsemi, e.off, e.unit, hu]
    simp only [Bool.false_eq_true, if_false, if_true]
    rcases hprog with h | ⟨h, hs⟩
    · split <;> omega
    · rw [hs]; simp; omega
  · intro t htt
    rw [ht] at htt
    cases htt
    refine ⟨by rw [hf0]; exact hpos1, hpos2, hfe.symm, ?_, ?_⟩
    · intro i h1 h2; exact hws i (by rw [hf0] at h1; exact h1) h2
    · apply TokOK.auto (Or.inl ⟨rfl, rfl⟩)
      rcases hw with h | h
      · exact Or.inl h
      · exact Or.inr h
  · intro h; rw [ht] at h; cases h

/-! ### operator tries: the consumed bytes spell the token -/

/-- every leaf's token is spelled by the path to it, and is not the EOF token -/
def trieSpelled (tbl : List (Nat × List UInt8)) (okTok : Nat → Bool) : List UInt8 → Trie → Bool
  | p, .leaf t _ _ => tbl.lookup t == some p && okTok t
  | p, .test c y n => decide (c < 0x80) && trieSpelled tbl okTok (p ++ [UInt8.ofNat c]) y && trieSpelled tbl okTok p n

def opsSpelled (tbl : List (Nat × List UInt8)) (okTok : Nat → Bool) (ops : List (Nat × Trie)) : Bool :=
  ops.all fun e => decide (e.1 < 0x80) && trieSpelled tbl okTok [UInt8.ofNat e.1] e.2

/-- a leaf token must be an operator/delimiter of the dialect and not EOF -/
def okOpTok (d : Dialect) (t : Nat) : Bool := t != (codes d).EOF && isOpCode d t

theorem xgo_ops_spelled : opsSpelled Tokens.XGo.tokenBytes (okOpTok .xgo) ScanSwitch.xgoOps = true := by decide +kernel
theorem tpl_ops_spelled : opsSpelled Tokens.Tpl.tokenBytes (okOpTok .tpl) ScanSwitch.tplOps = true := by decide +kernel

theorem walk_spelled (tbl : List (Nat × List UInt8)) (okTok : Nat → Bool) : ∀ (t : Trie) (p : List UInt8) (st : St) (pos : Nat),
    trieSpelled tbl okTok p t = true → Inv src st → pos ≤ st.off → slice src pos st.off = p →
    tbl.lookup (walk src t st).2.1 = some (slice src pos (walk src t st).1.off) ∧ okTok (walk src t st).2.1 = true
  | .leaf tk _ _, p, st, pos, h, _, _, hs => by
    simp only [walk]
    simp only [trieSpelled, Bool.and_eq_true, beq_iff_eq] at h
    rw [hs]; exact h
  | .test c y n, p, st, pos, h, hi, hp, hs => by
    simp only [trieSpelled, Bool.and_eq_true, decide_eq_true_eq] at h
    simp only [walk]
    split
    · rename_i hc
      obtain ⟨e1, e2, _⟩ := slice_snoc hi hp hc h.1.1
      exact walk_spelled tbl okTok y _ _ pos h.1.2 (next_inv hi) (by omega) (by rw [e1, hs])
    · exact walk_spelled tbl okTok n p st pos h.2 hi hp hs


/-! ### the branches of `Scan` -/

/-- common context of the non-unit branches: `st` is the state after `skipWhitespace` -/
structure Ctx (src : Array UInt8) (st0 st : St) : Prop where
  hu0 : st0.unitVal = []
  g0 : Good src st0
  adv : Adv src st0 st
  ws : ∀ i, st0.off ≤ i → i < st.off → isWsByte (byteAt src i)

theorem Ctx.good {st0 st st1 : St} (c : Ctx src st0 st) (a : Adv src st st1) : Good src st1 :=
  c.g0.ofAdv c.hu0 (c.adv.trans a)

theorem Ctx.front {st0 st st1 : St} (c : Ctx src st0 st) (a : Adv src st st1) : frontier st1 = st1.off :=
  frontier_of_nounit ((c.adv.trans a).unit.trans c.hu0)

theorem scanIdentTok_spec (cfg : Cfg) (fuel : Nat) (hF : src.size < fuel) {st0 st : St}
    (c : Ctx src st0 st) (hl : isLetter cfg.U st.ch = true) :
    StepSpec cfg src st0 (scanIdentTok cfg src fuel st st.off).1 (scanIdentTok cfg src fuel st st.off).2 := by
  have hi := c.adv.inv
  have hf : src.size - st.off < fuel := by omega
  have ha1 := identLoop_adv cfg.U fuel st hi hf
  have hp1 := identLoop_progress cfg.U fuel st hi hf hl
  have h00 := c.adv.off_le
  unfold scanIdentTok
  rw [scanIdentifier_eq cfg.U fuel st hi hf]
  simp only []
  generalize identLoop cfg.U src fuel st = st1 at ha1 hp1 ⊢
  have hfr1 := c.front ha1
  have hlen := slice_length (src := src) ha1.off_le ha1.inv.off_le_size
  -- plain identifier or keyword
  have plain : ∀ (kind : Nat) (semi : Bool),
      (kind = (codes cfg.d).IDENT ∨ ∃ l, ((codes cfg.d).keywords.lookup l) = some kind) →
      StepSpec cfg src st0 (finish cfg st1 st.off kind (slice src st.off st1.off) semi).1
        (finish cfg st1 st.off kind (slice src st.off st1.off) semi).2 := by
    intro kind semi hk
    apply finish_spec cfg semi c.hu0 (c.good ha1) h00 (by rw [hfr1]; omega) (Or.inr (by rw [hfr1]; omega)) c.ws
    rw [hfr1]
    apply TokOK.exact _ hp1 rfl
    rcases hk with h | h
    · exact Or.inl h
    · exact Or.inr (Or.inr (Or.inr (Or.inr (Or.inr (Or.inr (Or.inr h))))))
  -- c"…", py"…"
  have quoted : ∀ (kind n : Nat), cfg.d = .xgo → st1.ch = 0x22 → st1.off = st.off + n →
      ((kind = (codes cfg.d).CSTRING ∧ n = 1) ∨ (kind = (codes cfg.d).PYSTRING ∧ n = 2)) →
      StepSpec cfg src st0 (finish cfg (scanString src fuel (next src st1)).1 st.off kind (scanString src fuel (next src st1)).2 true).1
        (finish cfg (scanString src fuel (next src st1)).1 st.off kind (scanString src fuel (next src st1)).2 true).2 := by
    intro kind n hx hq hn hk
    have e1 := next_off_ascii ha1.inv (show st1.ch < 0x80 by omega)
    have hs := scanString_ok (src := src) fuel (next src st1) (next_inv ha1.inv) (by omega)
    have a2 := (ha1.trans (Adv.ofNext ha1.inv)).trans hs.1
    have hfr2 := c.front a2
    have hoff := hs.1.off_le
    apply finish_spec cfg true c.hu0 (c.good a2) h00 (by rw [hfr2]; omega) (Or.inr (by rw [hfr2]; omega)) c.ws
    rw [hfr2]
    apply TokOK.prefixed (d := cfg.d) hx n hk
    · simp only; omega
    · simp only
      rw [hs.2, e1]
      congr 1
  split
  · exact plain _ _ (Or.inl rfl)
  · split
    · split
      · rename_i kw hkw
        exact plain _ _ (Or.inr ⟨_, hkw⟩)
      · split
        · rename_i hpy
          apply quoted _ 2 hpy.1 hpy.2.2 _ (Or.inr ⟨rfl, rfl⟩)
          have : (slice src st.off st1.off).length = 2 := by rw [hpy.2.1]; rfl
          omega
        · exact plain _ _ (Or.inl rfl)
    · split
      · rename_i hcq
        apply quoted _ 1 hcq.1 hcq.2.2 _ (Or.inl ⟨rfl, rfl⟩)
        have : (slice src st.off st1.off).length = 1 := by
          rcases hcq.2.1 with h | h <;> rw [h] <;> rfl
        omega
      · exact plain _ _ (Or.inl rfl)


/-- a step that returns no token (a skipped comment) -/
theorem skip_spec (cfg : Cfg) {st0 st st' : St} (c : Ctx src st0 st) {st2 : St} (a : Adv src st st2)
    (e : SameButSemi st2 st') (hoff : st0.off + 1 ≤ st2.off) (hc : cfg.comments = false) :
    StepSpec cfg src st0 st' none := by
  have hg2 := c.good a
  have hu2 : st2.unitVal = [] := (c.adv.trans a).unit.trans c.hu0
  have hf0 := frontier_of_nounit c.hu0
  have hfe : frontier st' = st2.off := by unfold frontier; rw [e.off, e.unit, hu2]; simp
  refine ⟨hg2.congr e, by rw [hf0, hfe]; omega, Or.inr ?_, (by intro t h; cases h), fun _ => hc⟩
  have h1 := mu_le_of_same (src := src) e
  have h2 := mu_of_nounit (src := src) c.hu0
  have hsz := hg2.inv.off_le_size
  simp only [hu2, if_true] at h1
  rw [h2]; split <;> omega

theorem scanCommentTok_spec (cfg : Cfg) (hd : cfg.d ≠ .go) (fuel : Nat) (hF : src.size < fuel) {st0 st : St}
    (c : Ctx src st0 st) (sharp : Bool) (hc : st.ch = if sharp then 0x23 else 0x2F) :
    StepSpec cfg src st0 (scanCommentTok cfg src fuel (next src st) st.off sharp).1
      (scanCommentTok cfg src fuel (next src st) st.off sharp).2 := by
  have hi := c.adv.inv
  have hlt : st.ch < 0x80 := by rw [hc]; split <;> omega
  have hne := lt_ne_eof hlt
  have e1 := next_off_ascii hi hlt
  have hb := (hi.ascii hlt).1
  have hsz : st.off < src.size := by have := hi.adv hne; have := hi.rd_le; omega
  have a1 := Adv.ofNext hi
  have h00 := c.adv.off_le
  unfold scanCommentTok
  simp only [hd, if_false]
  -- the look-ahead
  have hlook : ∀ (look : St × Bool),
      look = (if (next src st).insertSemi = true then (if sharp = true then (next src st, true) else findLineEnd src fuel (next src st))
              else (next src st, false)) →
      Adv src (next src st) look.1 ∧ look.1.off = (next src st).off ∧ (look.2 = true → (next src st).insertSemi = true) := by
    intro look hl
    split at hl
    · rename_i hs
      split at hl
      · rw [hl]; exact ⟨Adv.refl a1.inv, rfl, fun _ => hs⟩
      · have := findLineEnd_ok (src := src) fuel (next src st) a1.inv (by omega) (by omega)
        rw [hl]; exact ⟨this.1, this.2, fun _ => hs⟩
    · rw [hl]; exact ⟨Adv.refl a1.inv, rfl, fun h => by simp at h⟩
  obtain ⟨al, hloff, hlsemi⟩ := hlook _ rfl
  generalize (if (next src st).insertSemi = true then (if sharp = true then (next src st, true) else findLineEnd src fuel (next src st))
              else (next src st, false)) = look at al hloff hlsemi ⊢
  split
  · -- semicolon before the comment; the scanner is put back on the comment's first byte
    rename_i hl2
    have hsemi0 : st0.insertSemi = true := by
      have := hlsemi hl2
      rw [next_insertSemi] at this
      exact c.adv.semi.symm.trans this
    have a2 := a1.trans al
    have hg : Good src { look.1 with ch := if sharp = true then 0x23 else 0x2F, off := st.off, rdOff := st.off + 1 } := by
      have hg2 := c.good a2
      have hu2 : look.1.unitVal = [] := (c.adv.trans a2).unit.trans c.hu0
      refine ⟨⟨by simp, by simp only; omega, ?_, by simp, ?_, ?_, ?_, ?_⟩, hg2.ok, by simp only [hu2]; simp, by simp only [hu2]; simp [slice_self]⟩
      · simp only [eofCh]; intro h; split at h <;> omega
      · intro _; simp only; exact ⟨hb.trans hc, trivial⟩
      · simp only; intro h; split at h <;> omega
      · simp only
        rw [← hc]; exact hi.decoded
      · intro _
        simp only
        have : byteAt src st.off < 0x80 := by rw [hb]; exact hlt
        simp [this]
    apply autoSemi_spec cfg c.hu0 hg ((c.adv.trans a2).unit.trans c.hu0) h00 (Nat.le_refl _)
      (Or.inr ⟨h00, hsemi0⟩) c.ws (Or.inl rfl)
  · -- the comment
    have hcom : ∀ (cr : CommentRes), CommentOK src look.1 cr →
        (StepSpec cfg src st0 (finish cfg cr.st st.off (codes cfg.d).COMMENT cr.lit false).1
          (finish cfg cr.st st.off (codes cfg.d).COMMENT cr.lit false).2) ∧
        (cfg.comments = false → ∀ st', SameButSemi cr.st st' → StepSpec cfg src st0 st' none) := by
      intro cr hcr
      have a3 := (a1.trans al).trans hcr.adv
      have hfr := c.front a3
      have hoff := hcr.adv.off_le
      refine ⟨?_, ?_⟩
      · apply finish_spec cfg false c.hu0 (c.good a3) h00 (by rw [hfr]; omega) (Or.inr (by rw [hfr]; omega)) c.ws
        rw [hfr]
        apply TokOK.text (Or.inr rfl) (by simp only; omega)
        have := hcr.text
        rw [hloff, e1] at this
        simpa using this
      · intro hcf st' e
        exact skip_spec cfg c a3 e (by omega) hcf
    have hinv := al.inv
    have hf : src.size - look.1.off < fuel := by omega
    have h1 : 1 ≤ look.1.off := by omega
    have hcr : CommentOK src look.1 (if cfg.d = .tpl then
        (if sharp = true then scanSharpCommentTpl src fuel look.1 else scanCommentTpl src fuel look.1)
        else scanCommentXG .xgo src fuel look.1) := by
      split
      · split
        · exact scanSharpCommentTpl_ok fuel look.1 hinv hf h1
        · exact scanCommentTpl_ok fuel look.1 hinv hf h1
      · exact scanCommentXG_ok fuel look.1 hinv hf h1
    have := hcom _ hcr
    generalize (if cfg.d = .tpl then
        (if sharp = true then scanSharpCommentTpl src fuel look.1 else scanCommentTpl src fuel look.1)
        else scanCommentXG .xgo src fuel look.1) = cr at this ⊢
    split
    · exact this.1
    · rename_i hcm
      split
      · exact this.2 (by simpa using hcm) _ ⟨rfl, rfl, rfl, rfl, rfl⟩
      · exact this.2 (by simpa using hcm) _ ⟨rfl, rfl, rfl, rfl, rfl⟩


/-! ### table facts used by the hand-written cases -/

theorem okOpTok_spec {d : Dialect} {t : Nat} (h : okOpTok d t = true) : t ≠ (codes d).EOF ∧ isOpCode d t = true := by
  simpa [okOpTok] using h

theorem hand_ops_ok (d : Dialect) (hd : d ≠ .go) :
    okOpTok d (codes d).SEMICOLON = true ∧ okOpTok d (codes d).PERIOD = true ∧ okOpTok d (codes d).ELLIPSIS = true := by
  cases d
  · decide +kernel
  · decide +kernel
  · exact absurd rfl hd

theorem spelling_semicolon (d : Dialect) (hd : d ≠ .go) : spelling d (codes d).SEMICOLON = some [0x3B] := by
  cases d
  · decide +kernel
  · decide +kernel
  · exact absurd rfl hd

theorem spelling_period (d : Dialect) (hd : d ≠ .go) : spelling d (codes d).PERIOD = some [0x2E] := by
  cases d
  · decide +kernel
  · decide +kernel
  · exact absurd rfl hd

theorem spelling_ellipsis (d : Dialect) (hd : d ≠ .go) : spelling d (codes d).ELLIPSIS = some [0x2E, 0x2E, 0x2E] := by
  cases d
  · decide +kernel
  · decide +kernel
  · exact absurd rfl hd

theorem mem_of_lookup {α : Type} {l : List (Nat × α)} {k : Nat} {v : α} (h : l.lookup k = some v) : (k, v) ∈ l := by
  induction l with
  | nil => simp at h
  | cons a t ih =>
    obtain ⟨k', v'⟩ := a
    simp only [List.lookup_cons] at h
    split at h
    · rename_i hk
      have : k = k' := by simpa using hk
      cases h; rw [this]; simp
    · simp [ih h]

theorem ops_lookup_spelled (d : Dialect) (hd : d ≠ .go) {ch : Nat} {t : Trie} (h : (codes d).ops.lookup ch = some t) :
    ch < 0x80 ∧ ∀ (st : St) (pos : Nat), Inv src st → pos ≤ st.off → slice src pos st.off = [UInt8.ofNat ch] →
      spelling d (walk src t st).2.1 = some (slice src pos (walk src t st).1.off) ∧
      okOpTok d (walk src t st).2.1 = true := by
  have hm := mem_of_lookup h
  cases d
  · have := (List.all_eq_true.mp xgo_ops_spelled) _ hm
    simp only [Bool.and_eq_true, decide_eq_true_eq] at this
    exact ⟨this.1, fun st pos hi hp hs => walk_spelled _ _ t _ st pos this.2 hi hp hs⟩
  · have := (List.all_eq_true.mp tpl_ops_spelled) _ hm
    simp only [Bool.and_eq_true, decide_eq_true_eq] at this
    exact ⟨this.1, fun st pos hi hp hs => walk_spelled _ _ t _ st pos this.2 hi hp hs⟩
  · exact absurd rfl hd

/-- the token codes the hand-written cases use are pairwise different from EOF -/
theorem codes_ne_eof (d : Dialect) (hd : d ≠ .go) :
    (codes d).IDENT ≠ (codes d).EOF ∧ (codes d).INT ≠ (codes d).EOF ∧ (codes d).FLOAT ≠ (codes d).EOF ∧
    (codes d).IMAG ≠ (codes d).EOF ∧ (codes d).RAT ≠ (codes d).EOF ∧ (codes d).UNIT ≠ (codes d).EOF ∧
    (codes d).CHAR ≠ (codes d).EOF ∧ (codes d).STRING ≠ (codes d).EOF ∧ (codes d).COMMENT ≠ (codes d).EOF ∧
    (codes d).CSTRING ≠ (codes d).EOF ∧ (codes d).PYSTRING ≠ (codes d).EOF ∧ (codes d).ILLEGAL ≠ (codes d).EOF ∧
    (codes d).SEMICOLON ≠ (codes d).EOF ∧ (codes d).PERIOD ≠ (codes d).EOF ∧ (codes d).ELLIPSIS ≠ (codes d).EOF ∧
    (∀ e ∈ (codes d).keywords, e.2 ≠ (codes d).EOF) := by
  cases d
  · refine ⟨by decide, by decide, by decide, by decide, by decide, by decide, by decide, by decide, by decide,
      by decide, by decide, by decide, by decide, by decide, by decide, ?_⟩
    have : (xgoCodes.keywords.all fun e => e.2 != xgoCodes.EOF) = true := by decide +kernel
    intro e he
    have := (List.all_eq_true.mp this) e he
    simpa [codes] using this
  · refine ⟨by decide, by decide, by decide, by decide, by decide, by decide, by decide, by decide, by decide,
      by decide, by decide, by decide, by decide, by decide, by decide, ?_⟩
    intro e he; simp [codes, tplCodes] at he
  · exact absurd rfl hd

theorem mem_of_lookup' {l : List (List UInt8 × Nat)} {k : List UInt8} {v : Nat} (h : l.lookup k = some v) : (k, v) ∈ l := by
  induction l with
  | nil => simp at h
  | cons a t ih =>
    obtain ⟨k', v'⟩ := a
    simp only [List.lookup_cons] at h
    split at h
    · rename_i hk
      have : k = k' := by simpa using hk
      cases h; rw [this]; simp
    · simp [ih h]

/-- a token whose kind is EOF is the end-of-file token, at the end of the source -/
theorem TokOK.eof_pos {d : Dialect} (hd : d ≠ .go) {t : Token} (h : TokOK d src t) (hk : t.kind = (codes d).EOF) :
    t.pos = src.size := by
  obtain ⟨c1, c2, c3, c4, c5, c6, c7, c8, c9, c10, c11, c12, c13, c14, c15, ckw⟩ := codes_ne_eof d hd
  cases h with
  | exact hk' _ _ =>
    rw [hk] at hk'
    rcases hk' with h | h | h | h | h | h | h | ⟨l, h⟩
    · exact absurd h.symm c1
    · exact absurd h.symm c2
    · exact absurd h.symm c3
    · exact absurd h.symm c4
    · exact absurd h.symm c5
    · exact absurd h.symm c6
    · exact absurd h.symm c7
    · exact absurd rfl (ckw _ (mem_of_lookup' h))
  | text hk' _ _ =>
    rw [hk] at hk'
    rcases hk' with h | h
    · exact absurd h.symm c8
    · exact absurd h.symm c9
  | prefixed _ n hk' _ _ =>
    rw [hk] at hk'
    rcases hk' with ⟨h, _⟩ | ⟨h, _⟩
    · exact absurd h.symm c10
    · exact absurd h.symm c11
  | op _ _ _ hkne _ => exact absurd hk hkne
  | illegal hk' _ => rw [hk] at hk'; exact absurd hk'.symm c12
  | auto hk' _ =>
    rcases hk' with ⟨h, _⟩ | ⟨_, _, h⟩
    · rw [hk] at h; exact absurd h.symm c13
    · exact h

end GopModel.Scan
