/-
Lemmas for M1, part 2: every loop and sub-scanner only advances (`Adv`): invariant kept,
offset monotone, no failure raised with adequate fuel, flags untouched.
-/
import GopModel.Lemmas.ScanInv
namespace GopModel.Scan

variable {src : Array UInt8}

theorem Inv.off_le_size {st : St} (h : Inv src st) : st.off ≤ src.size := Nat.le_trans h.off_le h.rd_le

/-- one loop iteration that calls `next` on a non-EOF character uses up one unit of fuel -/
theorem loop_step {st : St} (hi : Inv src st) (hc : st.ch ≠ eofCh) {f : Nat}
    (hf : src.size - st.off < f + 1) : src.size - (next src st).off < f := by
  have h1 := next_off_lt hi hc
  have h2 := (next_inv hi).off_le_size
  omega

theorem Adv.fuel {a b : St} (h : Adv src a b) {f : Nat} (hf : src.size - a.off < f) : src.size - b.off < f := by
  have := h.off_le; omega

theorem isLetter_ne_eof {U : UCls} {ch : Nat} (h : isLetter U ch = true) : ch ≠ eofCh := by
  intro he; subst he; simp [isLetter, isAsciiLetter, eofCh] at h

theorem isDigit_ne_eof {U : UCls} {ch : Nat} (h : isDigit U ch = true) : ch ≠ eofCh := by
  intro he; subst he; simp [isDigit, isDecimal, eofCh] at h

theorem isDecimal_lt {ch : Nat} (h : isDecimal ch = true) : ch < 0x80 := by
  simp [isDecimal] at h; omega

theorem isHex_lt {ch : Nat} (h : isHex ch = true) : ch < 0x80 := by
  simp [isHex] at h; omega

theorem lt_ne_eof {ch : Nat} (h : ch < 0x80) : ch ≠ eofCh := by
  simp [eofCh]; omega

@[simp] theorem setFail_off (st : St) (f : Fail) : (st.setFail f).off = st.off := by
  unfold St.setFail; split <;> rfl

/-! ### skipWhitespace -/

theorem skipWs_adv : ∀ (fuel : Nat) (st : St), Inv src st → src.size - st.off < fuel →
    Adv src st (skipWs src fuel st) := by
  intro fuel
  induction fuel with
  | zero => intro st _ h; omega
  | succ f ih =>
    intro st hi hf
    simp only [skipWs]
    split
    · rename_i hc
      have hne : st.ch ≠ eofCh := by
        apply lt_ne_eof
        rcases hc with h | h | ⟨h, _⟩ | h <;> omega
      exact (Adv.ofNext hi).trans (ih _ (next_inv hi) (loop_step hi hne hf))
    · exact Adv.refl hi

/-- bytes skipped by `skipWhitespace` are blank, tab, newline or carriage return -/
theorem skipWs_ws : ∀ (fuel : Nat) (st : St), Inv src st →
    ∀ i, st.off ≤ i → i < (skipWs src fuel st).off →
      byteAt src i = 0x20 ∨ byteAt src i = 0x09 ∨ byteAt src i = 0x0A ∨ byteAt src i = 0x0D := by
  intro fuel
  induction fuel with
  | zero => intro st _ i h1 h2; simp [skipWs] at h2; omega
  | succ f ih =>
    intro st hi i h1 h2
    simp only [skipWs] at h2
    split at h2
    · rename_i hc
      have hlt : st.ch < 0x80 := by rcases hc with h | h | ⟨h, _⟩ | h <;> omega
      have hb := (hi.ascii hlt).1
      have hn := next_off_ascii hi hlt
      by_cases hi' : i = st.off
      · subst hi'
        rw [hb]
        rcases hc with h | h | ⟨h, _⟩ | h
        · exact Or.inl h
        · exact Or.inr (Or.inl h)
        · exact Or.inr (Or.inr (Or.inl h))
        · exact Or.inr (Or.inr (Or.inr h))
      · exact ih _ (next_inv hi) i (by omega) h2
    · omega

/-- after `skipWhitespace` the current character is not white space (newline only if a
semicolon is pending) -/
theorem skipWs_stop : ∀ (fuel : Nat) (st : St), src.size - st.off < fuel → Inv src st →
    let st' := skipWs src fuel st
    ¬(st'.ch = 0x20 ∨ st'.ch = 0x09 ∨ (st'.ch = 0x0A ∧ st'.insertSemi = false) ∨ st'.ch = 0x0D) := by
  intro fuel
  induction fuel with
  | zero => intro st h; omega
  | succ f ih =>
    intro st hf hi
    simp only [skipWs]
    split
    · rename_i hc
      have hne : st.ch ≠ eofCh := by
        apply lt_ne_eof
        rcases hc with h | h | ⟨h, _⟩ | h <;> omega
      exact ih _ (loop_step hi hne hf) (next_inv hi)
    · rename_i hc; exact hc

/-! ### identifiers -/

theorem identLoop_adv (U : UCls) : ∀ (fuel : Nat) (st : St), Inv src st → src.size - st.off < fuel →
    Adv src st (identLoop U src fuel st) := by
  intro fuel
  induction fuel with
  | zero => intro st _ h; omega
  | succ f ih =>
    intro st hi hf
    simp only [identLoop]
    split
    · rename_i hc
      have hne : st.ch ≠ eofCh := by
        simp only [Bool.or_eq_true] at hc
        rcases hc with h | h
        · exact isLetter_ne_eof h
        · exact isDigit_ne_eof h
      exact (Adv.ofNext hi).trans (ih _ (next_inv hi) (loop_step hi hne hf))
    · exact Adv.refl hi

/-- an identifier that starts with a letter is not empty -/
theorem identLoop_progress (U : UCls) (fuel : Nat) (st : St) (hi : Inv src st)
    (hf : src.size - st.off < fuel) (hl : isLetter U st.ch = true) :
    st.off < (identLoop U src fuel st).off := by
  cases fuel with
  | zero => omega
  | succ f =>
    simp only [identLoop, hl, Bool.true_or, if_true]
    have hne := isLetter_ne_eof hl
    have h1 := next_off_lt hi hne
    have h2 := (identLoop_adv U f _ (next_inv hi) (loop_step hi hne hf)).off_le
    omega

theorem scanIdentifier_eq (U : UCls) (fuel : Nat) (st : St) (hi : Inv src st)
    (hf : src.size - st.off < fuel) :
    scanIdentifier U src fuel st =
      (identLoop U src fuel st, slice src st.off (identLoop U src fuel st).off) := by
  have ha := identLoop_adv U fuel st hi hf
  unfold scanIdentifier
  simp only []
  exact sliceP_eq _ ha.off_le ha.inv.off_le_size


/-! ### numbers -/

/-- what `digits` keeps of the number state: everything but `st`, `invalid`, the two bits -/
theorem digits_spec (base : Nat) (lo : Nat) : ∀ (fuel : Nat) (ns : NS), Inv src ns.st →
    src.size - ns.st.off < fuel → lo ≤ ns.st.off →
    (∀ v, ns.invalid = some v → lo ≤ v ∧ v < ns.st.off) →
    let r := digits src base fuel ns
    Adv src ns.st r.st ∧ r.tok = ns.tok ∧ r.base = ns.base ∧ r.pfx = ns.pfx ∧
      (∀ v, r.invalid = some v → lo ≤ v ∧ v < r.st.off) ∧ (ns.hasDig = true → r.hasDig = true) := by
  intro fuel
  induction fuel with
  | zero => intro ns _ h; omega
  | succ f ih =>
    intro ns hi hf hlo hinv
    simp only [digits]
    have stepOK : ∀ (ns' : NS), ns'.st = next src ns.st → ns.st.ch < 0x80 →
        ns'.tok = ns.tok → ns'.base = ns.base → ns'.pfx = ns.pfx →
        (∀ v, ns'.invalid = some v → lo ≤ v ∧ v ≤ ns.st.off) → (ns.hasDig = true → ns'.hasDig = true) →
        let r := digits src base f ns'
        Adv src ns.st r.st ∧ r.tok = ns.tok ∧ r.base = ns.base ∧ r.pfx = ns.pfx ∧
          (∀ v, r.invalid = some v → lo ≤ v ∧ v < r.st.off) ∧ (ns.hasDig = true → r.hasDig = true) := by
      intro ns' hst hlt h1 h2 h3 h4 h5
      have hne := lt_ne_eof hlt
      have hoff := next_off_lt hi hne
      have := ih ns' (by rw [hst]; exact next_inv hi) (by rw [hst]; exact loop_step hi hne hf)
        (by rw [hst]; omega) (by intro v hv; have := h4 v hv; rw [hst]; omega)
      obtain ⟨a, b, c, d, e, g⟩ := this
      refine ⟨?_, b.trans h1, c.trans h2, d.trans h3, e, fun h => g (h5 h)⟩
      rw [hst] at a
      exact (Adv.ofNext hi).trans a
    split
    · split
      · rename_i hc
        have hlt : ns.st.ch < 0x80 := by
          simp only [Bool.or_eq_true, decide_eq_true_eq] at hc
          rcases hc with h | h
          · exact isDecimal_lt h
          · omega
        split
        · exact stepOK _ rfl hlt rfl rfl rfl (by intro v hv; have := hinv v hv; simp at hv; omega) (by simp)
        · refine stepOK _ rfl hlt rfl rfl rfl ?_ (by simp)
          intro v hv
          simp only at hv
          split at hv
          · cases hv; omega
          · have := hinv v hv; omega
      · exact ⟨Adv.refl hi, rfl, rfl, rfl, hinv, id⟩
    · split
      · rename_i hc
        have hlt : ns.st.ch < 0x80 := by
          simp only [Bool.or_eq_true, decide_eq_true_eq] at hc
          rcases hc with h | h
          · exact isHex_lt h
          · omega
        split
        · exact stepOK _ rfl hlt rfl rfl rfl (by intro v hv; have := hinv v hv; simp at hv; omega) (by simp)
        · exact stepOK _ rfl hlt rfl rfl rfl (by intro v hv; have := hinv v hv; simp at hv; omega) (by simp)
      · exact ⟨Adv.refl hi, rfl, rfl, rfl, hinv, id⟩

theorem digits_off_le (base : Nat) : ∀ (fuel : Nat) (ns : NS), Inv src ns.st →
    src.size - ns.st.off < fuel → ns.st.off ≤ (digits src base fuel ns).st.off := by
  intro fuel
  induction fuel with
  | zero => intro ns _ h; omega
  | succ f ih =>
    intro ns hi hf
    simp only [digits]
    have stepOK : ∀ (ns' : NS), ns'.st = next src ns.st → ns.st.ch < 0x80 →
        ns.st.off ≤ (digits src base f ns').st.off := by
      intro ns' hst hlt
      have hne := lt_ne_eof hlt
      have hoff := next_off_lt hi hne
      have := ih ns' (by rw [hst]; exact next_inv hi) (by rw [hst]; exact loop_step hi hne hf)
      rw [hst] at this; omega
    split
    · split
      · rename_i hc
        have hlt : ns.st.ch < 0x80 := by
          simp only [Bool.or_eq_true, decide_eq_true_eq] at hc
          rcases hc with h | h
          · exact isDecimal_lt h
          · omega
        split <;> exact stepOK _ rfl hlt
      · exact Nat.le_refl _
    · split
      · rename_i hc
        have hlt : ns.st.ch < 0x80 := by
          simp only [Bool.or_eq_true, decide_eq_true_eq] at hc
          rcases hc with h | h
          · exact isHex_lt h
          · omega
        split <;> exact stepOK _ rfl hlt
      · exact Nat.le_refl _

/-- `digits` that starts on a decimal digit consumes it -/
theorem digits_progress (base : Nat) (fuel : Nat) (ns : NS) (hi : Inv src ns.st)
    (hf : src.size - ns.st.off < fuel) (hd : isDecimal ns.st.ch = true) :
    ns.st.off < (digits src base fuel ns).st.off := by
  cases fuel with
  | zero => omega
  | succ f =>
    have hlt := isDecimal_lt hd
    have hne := lt_ne_eof hlt
    have hoff := next_off_lt hi hne
    have hx : isHex ns.st.ch = true := by
      simp [isDecimal] at hd; simp [isHex]; omega
    have hus : ns.st.ch ≠ 0x5F := by simp [isDecimal] at hd; omega
    have key : ∀ (ns' : NS), ns'.st = next src ns.st → ns.st.off < (digits src base f ns').st.off := by
      intro ns' hst
      have := digits_off_le base f ns' (by rw [hst]; exact next_inv hi) (by rw [hst]; exact loop_step hi hne hf)
      rw [hst] at this; omega
    simp only [digits, hd, hx, Bool.true_or, if_true, hus, if_false]
    split <;> exact key _ rfl


/-- number-scanning state reached from `st0` (where the literal starts) -/
structure NumOK (src : Array UInt8) (st0 : St) (ns : NS) : Prop where
  adv : Adv src st0 ns.st
  inval : ∀ v, ns.invalid = some v → st0.off ≤ v ∧ v < ns.st.off

theorem NumOK.digits {st0 : St} {ns : NS} (h : NumOK src st0 ns) (base fuel : Nat)
    (hf : src.size - st0.off < fuel) :
    NumOK src st0 (digits src base fuel ns) ∧ (digits src base fuel ns).tok = ns.tok ∧
      (digits src base fuel ns).pfx = ns.pfx ∧ (digits src base fuel ns).base = ns.base ∧
      ns.st.off ≤ (digits src base fuel ns).st.off := by
  have := digits_spec (src := src) base st0.off fuel ns h.adv.inv (h.adv.fuel hf) h.adv.off_le h.inval
  obtain ⟨a, b, c, d, e, _⟩ := this
  exact ⟨⟨h.adv.trans a, e⟩, b, d, c, a.off_le⟩

theorem numInt_ok (fuel : Nat) (st0 : St) (hi : Inv src st0) (hf : src.size - st0.off < fuel) :
    NumOK src st0 (numInt src fuel st0) := by
  have base : ∀ (st1 : St) (t : NumKind) (b : Nat) (p : Pfx) (d : Bool), Adv src st0 st1 →
      NumOK src st0 ⟨st1, t, b, p, none, d, false⟩ := by
    intro st1 t b p d ha
    exact ⟨ha, by intro v hv; cases hv⟩
  unfold numInt
  simp only []
  split
  · split
    · have h1 := Adv.ofNext hi
      split
      · exact ((base _ _ _ _ _ h1.thenNext).digits 16 fuel hf).1
      · split
        · exact ((base _ _ _ _ _ h1.thenNext).digits 8 fuel hf).1
        · split
          · exact ((base _ _ _ _ _ h1.thenNext).digits 2 fuel hf).1
          · exact ((base _ _ _ _ _ h1).digits 8 fuel hf).1
    · exact ((base _ _ _ _ _ (Adv.refl hi)).digits 10 fuel hf).1
  · exact base _ _ _ _ _ (Adv.refl hi)

/-- the integer part of a literal that starts with a decimal digit is not empty -/
theorem numInt_progress (fuel : Nat) (st0 : St) (hi : Inv src st0) (hf : src.size - st0.off < fuel)
    (hd : isDecimal st0.ch = true) : st0.off < (numInt src fuel st0).st.off := by
  have hlt := isDecimal_lt hd
  have hne := lt_ne_eof hlt
  have hdot : st0.ch ≠ 0x2E := by simp [isDecimal] at hd; omega
  have h1 := next_off_lt hi hne
  have key : ∀ (b : Nat) (ns : NS), Adv src (next src st0) ns.st →
      st0.off < (digits src b fuel ns).st.off := by
    intro b ns ha
    have := digits_off_le (src := src) b fuel ns ha.inv (by have := ha.off_le; omega)
    have := ha.off_le
    omega
  unfold numInt
  simp only [hdot, ne_eq, not_false_eq_true, if_true]
  split
  · have a1 := Adv.refl (next_inv hi)
    split
    · exact key _ _ a1.thenNext
    · split
      · exact key _ _ a1.thenNext
      · split
        · exact key _ _ a1.thenNext
        · exact key _ _ a1
  · exact digits_progress 10 fuel ⟨st0, .int, 10, .none, none, false, false⟩ hi hf hd

theorem numFrac_ok (fuel : Nat) {st0 : St} {ns : NS} (h : NumOK src st0 ns) (hf : src.size - st0.off < fuel) :
    NumOK src st0 (numFrac src fuel ns) ∧ (numFrac src fuel ns).pfx = ns.pfx ∧
      ns.st.off ≤ (numFrac src fuel ns).st.off := by
  unfold numFrac
  simp only []
  have hd : ∀ (ns1 : NS), NumOK src st0 ns1 →
      NumOK src st0 (if ns1.hasDig = true then ns1 else { ns1 with st := ns1.st.error ns1.st.off (.noDigits (litname ns1.pfx)) }) ∧
      (if ns1.hasDig = true then ns1 else { ns1 with st := ns1.st.error ns1.st.off (.noDigits (litname ns1.pfx)) }).pfx = ns1.pfx ∧
      ns1.st.off = (if ns1.hasDig = true then ns1 else { ns1 with st := ns1.st.error ns1.st.off (.noDigits (litname ns1.pfx)) }).st.off := by
    intro ns1 h1
    split
    · exact ⟨h1, rfl, rfl⟩
    · exact ⟨⟨h1.adv.withError _ _, h1.inval⟩, rfl, rfl⟩
  split
  · have h2 : NumOK src st0 { ns with st := next src (if ns.pfx = .o ∨ ns.pfx = .b then ns.st.error ns.st.off (.radixPoint (litname ns.pfx)) else ns.st), tok := .float } := by
      refine ⟨?_, ?_⟩
      · simp only
        split
        · exact (h.adv.withError _ _).thenNext
        · exact h.adv.thenNext
      · intro v hv
        have := h.inval v hv
        refine ⟨this.1, ?_⟩
        simp only
        have hle : ns.st.off ≤ (next src (if ns.pfx = .o ∨ ns.pfx = .b then ns.st.error ns.st.off (.radixPoint (litname ns.pfx)) else ns.st)).off := by
          split
          · exact next_off_le (h.adv.inv.error _ _)
          · exact next_off_le h.adv.inv
        omega
    have h3 := h2.digits ns.base fuel hf
    have := hd _ h3.1
    refine ⟨this.1, this.2.1.trans h3.2.2.1, ?_⟩
    rw [← this.2.2]
    have h5 := h3.2.2.2.2
    simp only at h5
    have hle : ns.st.off ≤ (next src (if ns.pfx = .o ∨ ns.pfx = .b then ns.st.error ns.st.off (.radixPoint (litname ns.pfx)) else ns.st)).off := by
      split
      · exact next_off_le (h.adv.inv.error _ _)
      · exact next_off_le h.adv.inv
    omega
  · have := hd _ h
    exact ⟨this.1, this.2.1, Nat.le_of_eq this.2.2⟩

/-- a literal that starts with '.' consumes it -/
theorem numFrac_progress (fuel : Nat) {st0 : St} {ns : NS} (h : NumOK src st0 ns)
    (hf : src.size - st0.off < fuel) (hdot : ns.st.ch = 0x2E) :
    ns.st.off < (numFrac src fuel ns).st.off := by
  have hne : ns.st.ch ≠ eofCh := by rw [hdot]; simp [eofCh]
  unfold numFrac
  simp only [hdot, if_true]
  have key : ∀ (st1 : St), Inv src st1 → st1.off = ns.st.off → st1.ch = ns.st.ch →
      ∀ ns2 : NS, ns2.st = next src st1 →
      ns.st.off < (if (digits src ns.base fuel ns2).hasDig = true then digits src ns.base fuel ns2
        else { digits src ns.base fuel ns2 with st := (digits src ns.base fuel ns2).st.error (digits src ns.base fuel ns2).st.off (.noDigits (litname (digits src ns.base fuel ns2).pfx)) }).st.off := by
    intro st1 hi1 ho hc ns2 hst
    have h1 := next_off_lt hi1 (by rw [hc]; exact hne)
    have h2 := digits_off_le (src := src) ns.base fuel ns2 (by rw [hst]; exact next_inv hi1)
      (by rw [hst]; have := h.adv.off_le; omega)
    rw [hst] at h2
    split <;> (try simp only [error_off]) <;> omega
  split
  · exact key _ (h.adv.inv.error _ _) rfl rfl _ rfl
  · exact key _ h.adv.inv rfl rfl _ rfl

theorem numExp_ok (fuel : Nat) {st0 : St} {ns : NS} (h : NumOK src st0 ns) (hf : src.size - st0.off < fuel) :
    NumOK src st0 (numExp src fuel ns) ∧ ns.st.off ≤ (numExp src fuel ns).st.off := by
  unfold numExp
  simp only []
  split
  · -- exponent
    have h1 : ∀ (st1 : St), Adv src st0 st1 → ns.st.off ≤ st1.off →
        NumOK src st0 { ns with st := st1, tok := .float, hasDig := false, hasSep := false } := by
      intro st1 ha hle
      exact ⟨ha, by intro v hv; have := h.inval v hv; simp only at *; omega⟩
    have hst1 : Adv src st0 (if (ns.st.ch = 0x65 ∨ ns.st.ch = 0x45) ∧ ns.pfx ≠ .none ∧ ns.pfx ≠ .zero then ns.st.error ns.st.off (.expDecimal ns.st.ch)
        else if (ns.st.ch = 0x70 ∨ ns.st.ch = 0x50) ∧ ns.pfx ≠ .x then ns.st.error ns.st.off (.expHex ns.st.ch) else ns.st) ∧
        ns.st.off ≤ (if (ns.st.ch = 0x65 ∨ ns.st.ch = 0x45) ∧ ns.pfx ≠ .none ∧ ns.pfx ≠ .zero then ns.st.error ns.st.off (.expDecimal ns.st.ch)
        else if (ns.st.ch = 0x70 ∨ ns.st.ch = 0x50) ∧ ns.pfx ≠ .x then ns.st.error ns.st.off (.expHex ns.st.ch) else ns.st).off := by
      split
      · exact ⟨h.adv.withError _ _, Nat.le_refl _⟩
      · split
        · exact ⟨h.adv.withError _ _, Nat.le_refl _⟩
        · exact ⟨h.adv, Nat.le_refl _⟩
    generalize (if (ns.st.ch = 0x65 ∨ ns.st.ch = 0x45) ∧ ns.pfx ≠ .none ∧ ns.pfx ≠ .zero then ns.st.error ns.st.off (.expDecimal ns.st.ch)
        else if (ns.st.ch = 0x70 ∨ ns.st.ch = 0x50) ∧ ns.pfx ≠ .x then ns.st.error ns.st.off (.expHex ns.st.ch) else ns.st) = st1 at hst1 ⊢
    have hst2 : Adv src st0 (next src st1) ∧ ns.st.off ≤ (next src st1).off :=
      ⟨hst1.1.thenNext, Nat.le_trans hst1.2 (next_off_le hst1.1.inv)⟩
    generalize next src st1 = st2 at hst2 ⊢
    have hst3 : Adv src st0 (if st2.ch = 0x2B ∨ st2.ch = 0x2D then next src st2 else st2) ∧
        ns.st.off ≤ (if st2.ch = 0x2B ∨ st2.ch = 0x2D then next src st2 else st2).off := by
      split
      · exact ⟨hst2.1.thenNext, Nat.le_trans hst2.2 (next_off_le hst2.1.inv)⟩
      · exact hst2
    generalize (if st2.ch = 0x2B ∨ st2.ch = 0x2D then next src st2 else st2) = st3 at hst3 ⊢
    have h4 := (h1 st3 hst3.1 hst3.2).digits 10 fuel hf
    have h5 := h4.2.2.2.2
    simp only at h5
    refine ⟨⟨?_, ?_⟩, ?_⟩
    · simp only
      split
      · exact h4.1.adv
      · exact h4.1.adv.withError _ _
    · intro v hv
      have := h4.1.inval v hv
      simp only
      split <;> simpa using this
    · simp only
      split <;> (try simp only [error_off]) <;> omega
  · split
    · exact ⟨⟨h.adv.withError _ _, h.inval⟩, Nat.le_refl _⟩
    · exact ⟨h, Nat.le_refl _⟩


/-- facts about the state after the suffix of a number literal (`numEnd` = offset where the
numeric part ends) -/
structure SufOK (src : Array UInt8) (st0 : St) (numEnd : Nat) (ns : NS) : Prop where
  inv : Inv src ns.st
  fail_eq : ns.st.fail = st0.fail
  semi : ns.st.insertSemi = st0.insertSemi
  paren : ns.st.nParen = st0.nParen
  nl : ns.st.nlPos = st0.nlPos
  ulen : ns.st.unitVal.length ≤ ns.st.off
  numEnd_le : numEnd ≤ ns.st.off - ns.st.unitVal.length
  unit : ns.st.unitVal = slice src (ns.st.off - ns.st.unitVal.length) ns.st.off
  inval : ∀ v, ns.invalid = some v → st0.off ≤ v ∧ v < numEnd

theorem numSuffix_ok (d : Dialect) (U : UCls) (fuel : Nat) {st0 : St} {ns : NS} (h : NumOK src st0 ns)
    (hf : src.size - st0.off < fuel) (hu : st0.unitVal = []) :
    SufOK src st0 ns.st.off (numSuffix d U src fuel ns) ∧ (numSuffix d U src fuel ns).pfx = ns.pfx ∧
      (numSuffix d U src fuel ns).hasSep = ns.hasSep := by
  have plain : ∀ (st1 : St), Adv src st0 st1 → ns.st.off ≤ st1.off → ∀ (ns' : NS), ns'.st = st1 →
      ns'.invalid = ns.invalid → SufOK src st0 ns.st.off ns' := by
    intro st1 ha hle ns' hst hinv
    have hu1 : st1.unitVal = [] := ha.unit.trans hu
    refine ⟨by rw [hst]; exact ha.inv, by rw [hst]; exact ha.fail_eq, by rw [hst]; exact ha.semi,
      by rw [hst]; exact ha.paren, by rw [hst]; exact ha.nl, ?_, ?_, ?_, ?_⟩
    · rw [hst, hu1]; simp
    · rw [hst, hu1]; simpa using hle
    · rw [hst, hu1]; simp [slice_self]
    · rw [hinv]; exact h.inval
  unfold numSuffix
  split
  · split
    · exact ⟨plain _ h.adv.thenNext (next_off_le h.adv.inv) _ rfl rfl, rfl, rfl⟩
    · exact ⟨plain _ h.adv (Nat.le_refl _) _ rfl rfl, rfl, rfl⟩
  · split
    · have hf' := h.adv.fuel hf
      rw [scanIdentifier_eq U fuel ns.st h.adv.inv hf']
      have ha := identLoop_adv U fuel ns.st h.adv.inv hf'
      simp only []
      split
      · exact ⟨plain _ (h.adv.trans ha) ha.off_le _ rfl rfl, rfl, rfl⟩
      · split
        · exact ⟨plain _ (h.adv.trans ha) ha.off_le _ rfl rfl, rfl, rfl⟩
        · -- unit
          have hlen := slice_length (src := src) ha.off_le ha.inv.off_le_size
          have a2 := h.adv.trans ha
          refine ⟨⟨?_, a2.fail_eq, a2.semi, a2.paren, a2.nl, ?_, ?_, ?_, h.inval⟩, rfl, rfl⟩
          · exact ha.inv.congr rfl rfl rfl
          · simp only [hlen]; omega
          · simp only [hlen]; have := ha.off_le; omega
          · simp only [hlen]
            have : (identLoop U src fuel ns.st).off - ((identLoop U src fuel ns.st).off - ns.st.off) = ns.st.off := by
              have := ha.off_le; omega
            rw [this]
    · exact ⟨plain _ h.adv (Nat.le_refl _) _ rfl rfl, rfl, rfl⟩

/-- facts about the result of `scanNumber` that the token level needs -/
structure NumRes (src : Array UInt8) (st0 : St) (r : St × NumKind × List UInt8) : Prop where
  inv : Inv src r.1
  fail_eq : r.1.fail = st0.fail
  semi : r.1.insertSemi = st0.insertSemi
  paren : r.1.nParen = st0.nParen
  nl : r.1.nlPos = st0.nlPos
  ulen : r.1.unitVal.length ≤ r.1.off
  unit : r.1.unitVal = slice src (r.1.off - r.1.unitVal.length) r.1.off
  lit : r.2.2 = slice src st0.off (r.1.off - r.1.unitVal.length)

/-- a state that differs from `st` only by reported errors -/
structure SameBut (st st' : St) : Prop where
  ch : st'.ch = st.ch
  off : st'.off = st.off
  rdOff : st'.rdOff = st.rdOff
  fail : st'.fail = st.fail
  semi : st'.insertSemi = st.insertSemi
  paren : st'.nParen = st.nParen
  nl : st'.nlPos = st.nlPos
  unit : st'.unitVal = st.unitVal

theorem SameBut.rfl' (st : St) : SameBut st st := ⟨rfl, rfl, rfl, rfl, rfl, rfl, rfl, rfl⟩
theorem SameBut.err (st : St) (o : Nat) (m : Msg) : SameBut st (st.error o m) := ⟨rfl, rfl, rfl, rfl, rfl, rfl, rfl, rfl⟩
theorem SameBut.trans {a b c : St} (h1 : SameBut a b) (h2 : SameBut b c) : SameBut a c :=
  ⟨h2.ch.trans h1.ch, h2.off.trans h1.off, h2.rdOff.trans h1.rdOff, h2.fail.trans h1.fail, h2.semi.trans h1.semi,
   h2.paren.trans h1.paren, h2.nl.trans h1.nl, h2.unit.trans h1.unit⟩

theorem numSepErr_same (st : St) (offs : Nat) (lit : List UInt8) (ns : NS) : SameBut st (numSepErr st offs lit ns) := by
  unfold numSepErr
  split
  · split
    · exact SameBut.err _ _ _
    · exact SameBut.rfl' _
  · exact SameBut.rfl' _

theorem numInvalidErr_same (st : St) (offs : Nat) (lit : List UInt8) (ns : NS)
    (h : ∀ v, ns.invalid = some v → offs ≤ v ∧ v - offs < lit.length) : SameBut st (numInvalidErr st offs lit ns) := by
  unfold numInvalidErr
  split
  · rename_i inv hinv
    have hb := h inv hinv
    split
    · simp only [hb.1, if_true]
      rw [List.getElem?_eq_getElem hb.2]
      exact SameBut.err _ _ _
    · exact SameBut.rfl' _
  · exact SameBut.rfl' _

theorem numFinish_ok {st0 : St} {numEnd : Nat} {ns : NS} (h : SufOK src st0 numEnd ns) (hle : st0.off ≤ numEnd) :
    NumRes src st0 (numFinish src st0.off ns) ∧ numEnd ≤ (numFinish src st0.off ns).1.off - (numFinish src st0.off ns).1.unitVal.length := by
  have hsz := h.inv.off_le_size
  have h1 := h.numEnd_le
  have hs := sliceP_eq (src := src) ns.st (a := st0.off) (b := ns.st.off - ns.st.unitVal.length) (by omega) (by omega)
  have hlen := slice_length (src := src) (a := st0.off) (b := ns.st.off - ns.st.unitVal.length) (by omega) (by omega)
  unfold numFinish
  simp only [hs]
  have sb := (numInvalidErr_same ns.st st0.off (slice src st0.off (ns.st.off - ns.st.unitVal.length)) ns
      (by intro v hv; have := h.inval v hv; rw [hlen]; omega)).trans
    (numSepErr_same (numInvalidErr ns.st st0.off (slice src st0.off (ns.st.off - ns.st.unitVal.length)) ns) st0.off
      (slice src st0.off (ns.st.off - ns.st.unitVal.length)) ns)
  refine ⟨⟨h.inv.congr sb.ch sb.off sb.rdOff, sb.fail.trans h.fail_eq, sb.semi.trans h.semi, sb.paren.trans h.paren,
    sb.nl.trans h.nl, ?_, ?_, ?_⟩, ?_⟩
  · simp only [sb.off, sb.unit]; exact h.ulen
  · simp only [sb.off, sb.unit]; exact h.unit
  · simp only [sb.off, sb.unit]
  · simp only [sb.off, sb.unit]; exact h1

/-- `scanNumber` from a state where a number starts (a decimal digit, or '.' followed by one) -/
theorem scanNumber_ok (d : Dialect) (U : UCls) (fuel : Nat) (st0 : St) (hi : Inv src st0)
    (hf : src.size - st0.off < fuel) (hu : st0.unitVal = [])
    (hstart : isDecimal st0.ch = true ∨ st0.ch = 0x2E) :
    NumRes src st0 (scanNumber d U src fuel st0) ∧
      st0.off < (scanNumber d U src fuel st0).1.off - (scanNumber d U src fuel st0).1.unitVal.length := by
  have h1 := numInt_ok fuel st0 hi hf
  have h2 := numFrac_ok fuel h1 hf
  have h3 := numExp_ok fuel h2.1 hf
  have h4 := numSuffix_ok d U fuel h3.1 hf hu
  -- the numeric part is not empty
  have hprog : st0.off < (numExp src fuel (numFrac src fuel (numInt src fuel st0))).st.off := by
    have e3 := h3.2
    have e2 := h2.2.2
    rcases hstart with hd | hdot
    · have := numInt_progress fuel st0 hi hf hd
      omega
    · have e1 : (numInt src fuel st0) = ⟨st0, .illegal, 10, .none, none, false, false⟩ := by
        unfold numInt; simp [hdot]
      have := numFrac_progress fuel h1 hf (by rw [e1]; exact hdot)
      rw [e1] at this e2 e3 ⊢
      simp only at this
      omega
  have := numFinish_ok h4.1 (Nat.le_of_lt hprog)
  unfold scanNumber
  exact ⟨this.1, Nat.lt_of_lt_of_le hprog this.2⟩

end GopModel.Scan
