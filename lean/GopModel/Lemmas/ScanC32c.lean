/-
Lemmas for C32, part 3: the branches of `Scan` for tpl and xgo from the same state.
-/
import GopModel.Lemmas.ScanC32b
namespace GopModel.Scan
open GopModel.Generated

variable {src : Array UInt8}

theorem leaf32_ite {c : Prop} [Decidable c] {T1 T2 X1 X2 : St × Option Token}
    {Q : St × Option Token → Prop} (hq : Q (if c then X1 else X2))
    (h1 : c → Q X1 → Leaf32 T1 X1) (h2 : ¬c → Q X2 → Leaf32 T2 X2) :
    Leaf32 (if c then T1 else T2) (if c then X1 else X2) := by
  by_cases hc : c
  · simp only [hc, if_true] at hq ⊢; exact h1 hc hq
  · simp only [hc, if_false] at hq ⊢; exact h2 hc hq

/-! ### what the domain says about a token of the xgo run -/

theorem shTok_parts {t : Token} (h : sharedTokOK src t = true) :
    t.kind ≠ Tokens.XGo.ILLEGAL ∧ Tokens.XGo.isKeyword t.kind = false ∧ t.kind ≠ Tokens.XGo.CSTRING ∧
    t.kind ≠ Tokens.XGo.PYSTRING ∧ ¬ (t.kind = Tokens.XGo.MUL ∧ byteAt src t.stop = 0x2A) ∧
    (t.kind = Tokens.XGo.COMMENT → commentSpanOK src t.pos t.stop = true) := by
  unfold sharedTokOK at h
  simp only [Bool.and_eq_true, bne_iff_ne, ne_eq, Bool.not_eq_true', Bool.and_eq_false_iff, beq_eq_false_iff_ne,
    Bool.or_eq_true] at h
  obtain ⟨⟨⟨⟨⟨h1, h2⟩, h3⟩, h4⟩, h5⟩, h6⟩ := h
  refine ⟨h1, h2, h3, h4, ?_, ?_⟩
  · intro ⟨ha, hb⟩
    rcases h5 with h | h
    · exact h ha
    · exact h (by simpa using hb)
  · intro hk
    rcases h6 with h | h
    · exact absurd hk h
    · exact h

theorem shStep_tok {st : St} {r : St × Option Token} (h : shStepOK src st r = true) :
    ∀ t, r.2 = some t → sharedTokOK src t = true := by
  intro t ht; unfold shStepOK at h; rw [ht] at h; exact h

/-! ### identifiers -/

theorem keyword_is_keyword {l : List UInt8} {k : Nat} (h : (codes .xgo).keywords.lookup l = some k) :
    Tokens.XGo.isKeyword k = true := by
  have hall : (xgoCodes.keywords.all fun e => Tokens.XGo.isKeyword e.2) = true := by decide +kernel
  exact (List.all_eq_true.mp hall) _ (mem_of_lookup' h)

theorem ident32 (U : UCls) (c n : Bool) (F : Nat) (st : St) (pos : Nat)
    (hok : ∀ t, (scanIdentTok (cfgX' U c n) src F st pos).2 = some t → sharedTokOK src t = true) :
    Leaf32 (scanIdentTok (cfgT U c n) src F st pos) (scanIdentTok (cfgX' U c n) src F st pos) := by
  unfold scanIdentTok at hok ⊢
  simp only [cfgT, cfgX', reduceCtorEq, if_false, if_true, true_and] at hok ⊢
  generalize scanIdentifier U src F st = r at hok ⊢
  have plain : ∀ (s : Bool), Leaf32 (finish { d := Dialect.tpl, comments := c, noSemis := n, U := U } r.1 pos (codes .tpl).IDENT r.2 true)
      (finish { d := Dialect.xgo, comments := c, noSemis := n, U := U } r.1 pos (codes .xgo).IDENT r.2 true) :=
    fun _ => finish32 U c n r.1 pos _ _ r.2 true kinds32.2.2.2.1
  have tokOf : ∀ (s1 : St) (k : Nat) (lit : List UInt8) (s : Bool),
      (finish { d := Dialect.xgo, comments := c, noSemis := n, U := U } s1 pos k lit s).2 = some ⟨pos, frontier s1, k, lit⟩ :=
    fun s1 k lit s => (finish_fst _ s1 pos k lit s).2
  by_cases h1 : 1 < r.2.length
  · simp only [h1, if_true] at hok ⊢
    cases hk : List.lookup r.2 (codes Dialect.xgo).keywords with
    | some kw =>
      exfalso
      simp only [hk] at hok
      have := (shTok_parts (hok _ (tokOf _ _ _ _))).2.1
      simp only at this
      rw [keyword_is_keyword hk] at this
      cases this
    | none =>
      simp only [hk] at hok ⊢
      split
      · exfalso
        rename_i hpy
        simp only [hpy, and_self, if_true] at hok
        exact (shTok_parts (hok _ (tokOf _ _ _ _))).2.2.2.1 rfl
      · exact plain true
  · simp only [h1, if_false] at hok ⊢
    split
    · exfalso
      rename_i hcq
      simp only [hcq, and_self, if_true] at hok
      exact (shTok_parts (hok _ (tokOf _ _ _ _))).2.2.1 rfl
    · exact plain true


/-! ### comments -/

/-- `st` is the state on the first byte of the comment (`/` or `#`), behind the white space -/
theorem comment32 (U : UCls) (c n : Bool) (F : Nat) (hF : src.size < F) (st : St) (hi : Inv src st)
    (hu : st.unitVal = []) (sharp : Bool) (hc : st.ch = if sharp then 0x23 else 0x2F)
    (hnext : sharp = false → ((next src st).ch = 0x2F ∨ (next src st).ch = 0x2A))
    (hspan : ∀ e, (∃ t, (scanCommentTok (cfgX' U c n) src F (next src st) st.off sharp).2 = some t ∧
        t.kind = Tokens.XGo.COMMENT ∧ t.stop = e) ∨
        ((scanCommentTok (cfgX' U c n) src F (next src st) st.off sharp).2 = none ∧
          (scanCommentTok (cfgX' U c n) src F (next src st) st.off sharp).1.off = e) →
        commentSpanOK src st.off e = true) :
    Leaf32 (scanCommentTok (cfgT U c n) src F (next src st) st.off sharp)
      (scanCommentTok (cfgX' U c n) src F (next src st) st.off sharp) := by
  have hlt : st.ch < 0x80 := by rw [hc]; split <;> omega
  have hne := lt_ne_eof hlt
  have e1 := next_off_ascii hi hlt
  have hb := (hi.ascii hlt).1
  have a1 := Adv.ofNext hi
  unfold scanCommentTok at hspan ⊢
  simp only [cfgT, cfgX', reduceCtorEq, if_false, if_true, true_and] at hspan ⊢
  -- the look-ahead is the same term on both sides
  have hlook : ∀ (look : St × Bool),
      look = (if (next src st).insertSemi = true then (if sharp = true then (next src st, true) else findLineEnd src F (next src st))
              else (next src st, false)) →
      Adv src (next src st) look.1 ∧ look.1.off = (next src st).off ∧
        (look.2 = false → sharp = true → look.1.insertSemi = false) := by
    intro look hl
    split at hl
    · rename_i hs
      split at hl
      · rw [hl]; exact ⟨Adv.refl a1.inv, rfl, fun h => by simp at h⟩
      · rename_i hsh
        have := findLineEnd_ok (src := src) F (next src st) a1.inv (by omega) (by omega)
        rw [hl]; exact ⟨this.1, this.2, fun _ h => absurd h hsh⟩
    · rename_i hs
      rw [hl]; exact ⟨Adv.refl a1.inv, rfl, fun _ _ => by simpa using hs⟩
  obtain ⟨al, hloff, hlsemi⟩ := hlook _ rfl
  generalize (if (next src st).insertSemi = true then (if sharp = true then (next src st, true) else findLineEnd src F (next src st))
              else (next src st, false)) = look at al hloff hlsemi hspan ⊢
  by_cases hl2 : look.2 = true
  · simp only [hl2, if_true]
    exact autoSemi32 U c n _ st.off
  · simp only [hl2] at hspan ⊢
    have hl2' : look.2 = false := by simpa using hl2
    have hinv := al.inv
    have hf : src.size - look.1.off < F := by omega
    have h1 : 1 ≤ look.1.off := by omega
    have hpos : look.1.off - 1 = st.off := by omega
    have hoffX := scanCommentXG_off F look.1 hinv hf h1
    have hokX := scanCommentXG_ok F look.1 hinv hf h1
    have hux : (scanCommentXG .xgo src F look.1).st.unitVal = [] := by
      rw [hokX.adv.unit, al.unit, next_unitVal]; exact hu
    -- the span condition, in terms of the comment loops
    have hspanOK : commentSpanOK src (look.1.off - 1) (commentLoops .xgo src F look.1).st.off = true := by
      rw [hpos, ← hoffX]
      apply hspan
      cases c with
      | true =>
        left
        simp only [if_true]
        refine ⟨_, (finish_fst _ _ _ _ _ _).2, rfl, ?_⟩
        simp only [frontier, hux, List.length_nil, Nat.sub_zero]
      | false =>
        right
        simp only [Bool.false_eq_true, if_false]
        split <;> exact ⟨by first | rfl | trivial, by first | rfl | trivial⟩
    -- the two comment scanners agree
    have heq : (scanCommentXG .xgo src F look.1).st =
        (if sharp = true then scanSharpCommentTpl src F look.1 else scanCommentTpl src F look.1).st ∧
        (scanCommentXG .xgo src F look.1).lit =
        (if sharp = true then scanSharpCommentTpl src F look.1 else scanCommentTpl src F look.1).lit := by
      cases sharp with
      | true =>
        simp only [if_true]
        have hb' : byteAt src (look.1.off - 1) = 0x23 := by rw [hpos, hb, hc]; rfl
        exact commentXG_eq_sharp F look.1 hinv hf h1 hb' hspanOK
      | false =>
        simp only [Bool.false_eq_true, if_false]
        have hch : look.1.ch = 0x2F ∨ look.1.ch = 0x2A := by
          -- the look-ahead ends on the byte behind the '/'
          have hdec1 := hinv.decoded
          have hdec2 := a1.inv.decoded
          rw [hloff] at hdec1
          rw [hdec1, ← hdec2]
          exact hnext rfl
        have hb' : byteAt src (look.1.off - 1) = 0x2F := by rw [hpos, hb, hc]; rfl
        exact commentXG_eq_tpl F look.1 hinv hf h1 hch hb' hspanOK
    generalize (if sharp = true then scanSharpCommentTpl src F look.1 else scanCommentTpl src F look.1) = cT at heq ⊢
    generalize scanCommentXG .xgo src F look.1 = cX at heq hokX ⊢
    rw [← heq.1, ← heq.2]
    cases c with
    | true =>
      simp only [if_true]
      exact finish32 U true n cX.st st.off _ _ cX.lit false kinds32.2.2.1
    | false =>
      simp only [Bool.false_eq_true, if_false]
      refine ⟨?_, trivial⟩
      cases sharp with
      | true =>
        simp only [if_true]
        have : cX.st.insertSemi = false := by
          rw [hokX.adv.semi]; exact hlsemi hl2' rfl
        cases hcx : cX.st
        simp only [hcx] at this
        simp [this]
      | false => simp


/-! ### operators -/

theorem ops32 (U : UCls) (c n : Bool) (st1 : St) (hu : st1.unitVal = []) (hi : Inv src st1) (pos ch : Nat)
    (hok : ∀ t, (opFinish (cfgX' U c n) src st1 pos ch).2 = some t → sharedTokOK src t = true) :
    Leaf32 (opFinish (cfgT U c n) src st1 pos ch) (opFinish (cfgX' U c n) src st1 pos ch) := by
  have tokOf : ∀ (s1 : St) (k : Nat) (lit : List UInt8) (s : Bool),
      (finish { d := Dialect.xgo, comments := c, noSemis := n, U := U } s1 pos k lit s).2 = some ⟨pos, frontier s1, k, lit⟩ :=
    fun s1 k lit s => (finish_fst _ s1 pos k lit s).2
  unfold opFinish at hok ⊢
  simp only [cfgT, cfgX'] at hok ⊢
  cases hx : (codes Dialect.xgo).ops.lookup ch with
  | none =>
    exfalso
    simp only [hx] at hok
    exact (shTok_parts (hok _ (tokOf _ _ _ _))).1 rfl
  | some tX =>
    simp only [hx] at hok ⊢
    by_cases hstar : ch = 0x2A
    · subst hstar
      obtain ⟨e1, e2, k1, k2⟩ := switch32_star
      have : tX = .test 0x3D (.leaf Tokens.XGo.MUL_ASSIGN false 0) (.leaf Tokens.XGo.MUL false 0) :=
        Option.some.inj (hx.symm.trans e1)
      subst this
      rw [e2]
      by_cases hq : st1.ch = 0x3D
      · simp only [walk, hq, if_true]
        exact finish32 U c n _ pos _ _ [] false k1
      · by_cases hs : st1.ch = 0x2A
        · exfalso
          simp only [walk, hq, if_false] at hok
          have h5 := (shTok_parts (hok _ (tokOf _ _ _ _))).2.2.2.2.1
          apply h5
          refine ⟨rfl, ?_⟩
          simp only [frontier, hu, List.length_nil, Nat.sub_zero]
          rw [(hi.ascii (by omega)).1]; exact hs
        · simp only [walk, hq, hs, if_false]
          exact finish32 U c n _ pos _ _ [] false k2
    · obtain ⟨tT, hT, hsame⟩ := switch32 hx hstar
      rw [hT]
      simp only []
      have hw := walk32 (src := src) tT tX st1 hsame
      rw [hw.1, hw.2.2]
      exact finish32 U c n _ pos _ _ [] _ hw.2.1

end GopModel.Scan
