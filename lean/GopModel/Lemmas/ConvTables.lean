/-
The decidable obligation on the two regenerated converter tables (`TablesInverse`):
"every header field of every supported Go node kind is routed Go → XGo → Go through a pair of
conversions that undo each other, and the converters call nothing else".

It is a *local* condition per (class, fromgo function, togo function) triple over a finite set
`W` of such triples that is computed from the tables by closure from `(file, ASTFile, ASTFile)`.
`Lemmas/ConvRoundTrip.lean` proves that it implies the round-trip theorem for all trees.
-/
import GopModel.Lemmas.Conv
namespace GopModel.Conv

abbrev Triple := Cls × String × String

/-- go/token keyword value ↦ class of the specs (same table as `specCls`). -/
def specTokens : List (Nat × Cls) :=
  [(75, .importSpec), (84, .typeSpec), (85, .valueSpec), (64, .valueSpec)]

/-- destination kind of `f` on kind `k`. -/
def dstKindOf (P : Prog) (f k : String) : Option String :=
  match P.find f with
  | some (.switch _ cases _) =>
    match findCase cases k with
    | some c => some c.dst
    | none => none
  | _ => none

/-- Header field `fld` of the Go node is produced by `fcq` (togo) from the XGo field that `fcp`
(fromgo) produced. -/
def route (cp cq : KindCase) (fld : String) : Option (FieldConv × FieldConv) :=
  match findDst cq.fields fld with
  | some fcq =>
    match findDst cp.fields fcq.src with
    | some fcp => some (fcp, fcq)
    | none => none
  | none => none

def tokCopy (tf : String) : FieldConv := ⟨tf, "Tok", .copy⟩

def specsFit (P Q : Prog) (W : List Triple) (cp : KindCase) (lf lg : String) : Bool :=
  match P.find lf, Q.find lg with
  | some (.listMap (.tokSwitch tf cs _) _), some (.listMap (.tokSwitch tf' cs' _) _) =>
    (tf == "Tok") && (findDst cp.fields tf' == some (tokCopy tf')) &&
    specTokens.all (fun tc =>
      match lookupTok cs tc.1, lookupTok cs' tc.1 with
      | some (k, f), some (k', g) =>
        (tc.2.kinds == [k]) && (!tc.2.nilable) && (dstKindOf P f k == some k') && W.contains (tc.2, f, g)
      | _, _ => false)
  | _, _ => false

/-- The two conversions applied to a header field of role `s` undo each other (given `W`). -/
def pairFits (P Q : Prog) (W : List Triple) (cp : KindCase) : FSpec → Via → Via → Bool
  | .flag, .copy, .copy => true
  | .atom, .copy, .copy => true
  | .sub c, .call f, .call g => W.contains (c, f, g)
  | .subs c, .call lf, .call lg =>
    match P.find lf, Q.find lg with
    | some (.listMap (.fn f) _), some (.listMap (.fn g) _) => W.contains (c, f, g)
    | _, _ => false
  | .specs, .call lf, .call lg => specsFit P Q W cp lf lg
  | _, _, _ => false

def Via.isCall : Via → Bool
  | .call _ => true
  | _ => false

/-- Kind `k`: `cp` (fromgo case) and `cq` (togo case of `cp.dst`). -/
def caseOK (P Q : Prog) (W : List Triple) (k : String) (cp cq : KindCase) : Bool :=
  (cq.dst == k) &&
  -- every header field is routed through a fitting pair
  ((hdrFields k).all (fun e =>
    match route cp cq e.1 with
    | some (fcp, fcq) => (fcp.src == e.1) && pairFits P Q W cp e.2 fcp.via fcq.via
    | none => false)) &&
  -- fromgo calls converters only for routed header fields
  (cp.fields.all (fun fcp => !fcp.via.isCall ||
    (hdrFields k).any (fun e =>
      match route cp cq e.1 with
      | some (fcp', _) => fcp' == fcp
      | none => false))) &&
  -- togo calls converters only to produce header fields
  (cq.fields.all (fun fcq => !fcq.via.isCall ||
    (hdrFields k).any (fun e => findDst cq.fields e.1 == some fcq)))

def tripleOK (P Q : Prog) (W : List Triple) (t : Triple) : Bool :=
  match P.find t.2.1, Q.find t.2.2 with
  | some (.switch nP casesP _), some (.switch nQ casesQ _) =>
    (!t.1.nilable || (nP == .retNil && nQ == .retNil)) &&
    t.1.kinds.all (fun k =>
      match findCase casesP k with
      | some cp =>
        match findCase casesQ cp.dst with
        | some cq => caseOK P Q W k cp cq
        | none => false
      | none => false)
  | _, _ => false

/-! ### the witness set, computed from the tables -/

def fieldTriples (P Q : Prog) : FSpec → Via → Via → List Triple
  | .sub c, .call f, .call g => [(c, f, g)]
  | .subs c, .call lf, .call lg =>
    match P.find lf, Q.find lg with
    | some (.listMap (.fn f) _), some (.listMap (.fn g) _) => [(c, f, g)]
    | _, _ => []
  | .specs, .call lf, .call lg =>
    match P.find lf, Q.find lg with
    | some (.listMap (.tokSwitch _ cs _) _), some (.listMap (.tokSwitch _ cs' _) _) =>
      specTokens.filterMap (fun tc =>
        match lookupTok cs tc.1, lookupTok cs' tc.1 with
        | some (_, f), some (_, g) => some (tc.2, f, g)
        | _, _ => none)
    | _, _ => []
  | _, _, _ => []

def childTriples (P Q : Prog) (t : Triple) : List Triple :=
  match P.find t.2.1, Q.find t.2.2 with
  | some (.switch _ casesP _), some (.switch _ casesQ _) =>
    t.1.kinds.flatMap (fun k =>
      match findCase casesP k with
      | some cp =>
        match findCase casesQ cp.dst with
        | some cq =>
          (hdrFields k).flatMap (fun e =>
            match route cp cq e.1 with
            | some (fcp, fcq) => fieldTriples P Q e.2 fcp.via fcq.via
            | none => [])
        | none => []
      | none => [])
  | _, _ => []

def addNew (W : List Triple) : List Triple → List Triple
  | [] => W
  | t :: r => if W.contains t then addNew W r else addNew (W ++ [t]) r

def reach (P Q : Prog) : Nat → List Triple → List Triple
  | 0, W => W
  | n + 1, W => reach P Q n (addNew W (W.flatMap (childTriples P Q)))

def rootTriple : Triple := (.file, "ASTFile", "ASTFile")

/-- triples reachable from the entry points (8 rounds: the class graph has depth < 8; a too
small bound only makes `tablesInverse` false). -/
def witness (P Q : Prog) : List Triple := reach P Q 8 [rootTriple]

def tablesInverseOn (P Q : Prog) (W : List Triple) : Bool :=
  W.contains rootTriple && W.all (tripleOK P Q W)

def tablesInverse (P Q : Prog) : Bool := tablesInverseOn P Q (witness P Q)

/-- The kernel-decided obligation on the regenerated tables. -/
def TablesInverse (P Q : Prog) : Prop := tablesInverse P Q = true

instance (P Q : Prog) : Decidable (TablesInverse P Q) :=
  inferInstanceAs (Decidable (tablesInverse P Q = true))

end GopModel.Conv
