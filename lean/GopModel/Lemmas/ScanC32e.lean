/-
Lemmas for C32, part 5: the two token loops in lockstep.
-/
import GopModel.Lemmas.ScanC32d
namespace GopModel.Scan
open GopModel.Generated

variable {src : Array UInt8}

/-- token lists of the two scanners that agree lexeme by lexeme -/
inductive ToksRel : List Token → List Token → Prop where
  | nil : ToksRel [] []
  | cons {a b : Token} {as bs : List Token} : TokRel (some a) (some b) → ToksRel as bs → ToksRel (a :: as) (b :: bs)

theorem lockstep32 (U : UCls) (c n : Bool) : ∀ (fuel : Nat) (st : St) (accT accX : List Token),
    Good src st → shRunOK (cfgX' U c n) src fuel st = true →
    ∃ tsT tsX errs,
      scanLoop (cfgT U c n) src fuel st accT = ⟨accT.reverse ++ tsT, errs, .done⟩ ∧
      scanLoop (cfgX' U c n) src fuel st accX = ⟨accX.reverse ++ tsX, errs, .done⟩ ∧ ToksRel tsT tsX := by
  intro fuel
  induction fuel with
  | zero => intro st _ _ _ h; simp [shRunOK] at h
  | succ f ih =>
    intro st accT accX hg hrun
    simp only [shRunOK, Bool.and_eq_true, beq_iff_eq] at hrun
    obtain ⟨⟨hfail, hstep⟩, hrest⟩ := hrun
    have hstep' : shStepOK src st (scanStep (cfgX' U c n) src (src.size + 1) st) = true := hstep
    have hleaf := step32 U c n hg hstep'
    have hspec := scanStep_spec (src := src) (cfgX' U c n) (by simp [cfgX']) (src.size + 1) (Nat.lt_succ_self _) hg
    have hgood := hspec.good
    simp only [scanLoop]
    generalize scanStep (cfgT U c n) src (src.size + 1) st = rT at hleaf ⊢
    generalize scanStep (cfgX' U c n) src (src.size + 1) st = rX at hleaf hgood hfail hrest ⊢
    obtain ⟨hst, htok⟩ := hleaf
    rw [hst, hfail]
    simp only []
    cases hx : rX.2 with
    | none =>
      have ht : rT.2 = none := by
        cases h : rT.2 with
        | none => rfl
        | some a => rw [h, hx] at htok; exact htok.elim
      simp only [hx, ht] at hrest ⊢
      exact ih _ _ _ hgood hrest
    | some b =>
      obtain ⟨a, ht⟩ : ∃ a, rT.2 = some a := by
        cases h : rT.2 with
        | none => rw [h, hx] at htok; exact htok.elim
        | some a => exact ⟨a, rfl⟩
      have hrel : TokRel (some a) (some b) := by rw [ht, hx] at htok; exact htok
      simp only [hx, ht, Bool.or_eq_true, beq_iff_eq] at hrest ⊢
      have heof := hrel.2.2.2.eof
      by_cases hb : b.kind = Tokens.XGo.EOF
      · have ha : a.kind = Tokens.Tpl.EOF := heof.mpr hb
        have ea : a.kind = (codes (cfgT U c n).d).EOF := ha
        have eb : b.kind = (codes (cfgX' U c n).d).EOF := hb
        simp only [ea, eb, if_true]
        exact ⟨[a], [b], rX.1.errs.reverse, by simp, by simp, ToksRel.cons hrel ToksRel.nil⟩
      · have ha : ¬ a.kind = Tokens.Tpl.EOF := fun h => hb (heof.mp h)
        have ea : ¬ a.kind = (codes (cfgT U c n).d).EOF := ha
        have eb : ¬ b.kind = (codes (cfgX' U c n).d).EOF := hb
        simp only [ea, eb, if_false]
        rcases hrest with h | h
        · exact absurd h hb
        · obtain ⟨tsT, tsX, errs, h1, h2, h3⟩ := ih rX.1 (a :: accT) (b :: accX) hgood h
          exact ⟨a :: tsT, b :: tsX, errs, by rw [h1]; simp, by rw [h2]; simp, ToksRel.cons hrel h3⟩

theorem ToksRel.sameToks : ∀ {as bs : List Token}, ToksRel as bs → sameToks .tpl .xgo as bs = true
  | _, _, .nil => rfl
  | _, _, .cons (a := a) (b := b) h t => by
    simp only [GopModel.Scan.sameToks, Bool.and_eq_true]
    refine ⟨?_, ToksRel.sameToks t⟩
    obtain ⟨h1, _, h3, h4⟩ := h
    have hn := h4.name
    simp only [sameTok, Bool.and_eq_true, beq_iff_eq]
    exact ⟨⟨⟨h1, hn.1⟩, hn.2⟩, h3⟩

/-- On the domain the TPL scanner and the XGo scanner return the same lexemes (offset, end,
literal, kind by `String()`, inserted semicolons), the same error-handler calls, and both finish. -/
theorem scan_tpl_eq_xgo (U : UCls) (c n : Bool) (src : Array UInt8) (h : sharedLexemesOnly U c n src = true) :
    ToksRel (scan (cfgT U c n) src).toks (scan (cfgX' U c n) src).toks ∧
      (scan (cfgT U c n) src).errs = (scan (cfgX' U c n) src).errs ∧
      (scan (cfgT U c n) src).status = .done ∧ (scan (cfgX' U c n) src).status = .done := by
  have hg : Good src (initSt src) := ⟨initSt_inv src, initSt_fail src, by simp, by simp [slice_self]⟩
  obtain ⟨tsT, tsX, errs, h1, h2, h3⟩ := lockstep32 U c n (scanFuel src) (initSt src) [] [] hg h
  unfold scan
  rw [h1, h2]
  exact ⟨by simpa using h3, rfl, rfl, rfl⟩

end GopModel.Scan
