/-
Lemmas for M1, part 6: `scanStep_spec` — every pass through `Scan` (dialects xgo, tpl) keeps
the loop invariant, moves the frontier forward, makes progress and returns a well-formed token.
-/
import GopModel.Lemmas.ScanStep
namespace GopModel.Scan
open GopModel.Generated

variable {src : Array UInt8}

theorem StepSpec_ite {cfg : Cfg} {st0 : St} {c : Prop} [Decidable c] {a b : St × Option Token}
    (h1 : c → StepSpec cfg src st0 a.1 a.2) (h2 : ¬c → StepSpec cfg src st0 b.1 b.2) :
    StepSpec cfg src st0 (if c then a else b).1 (if c then a else b).2 := by
  split
  · exact h1 ‹_›
  · exact h2 ‹_›

theorem scanStep_spec (cfg : Cfg) (hd : cfg.d ≠ .go) (fuel : Nat) (hF : src.size < fuel) {st0 : St}
    (hg : Good src st0) :
    StepSpec cfg src st0 (scanStep cfg src fuel st0).1 (scanStep cfg src fuel st0).2 := by
  unfold scanStep
  simp only [hd, if_false]
  by_cases hu : st0.unitVal = []
  · -- no unit pending: skip white space
    have hsk := skipWs_adv (src := src) fuel st0 hg.inv (by omega)
    have hws := skipWs_ws (src := src) fuel st0 hg.inv
    simp only [hu, if_true]
    generalize skipWs src fuel st0 = st at hsk hws ⊢
    have c : Ctx src st0 st := ⟨hu, hg, hsk, fun i h1 h2 => hws i h1 h2⟩
    have hust : st.unitVal = [] := hsk.unit.trans hu
    have hi := hsk.inv
    have h00 := hsk.off_le
    have hnu : ¬ (st.unitVal ≠ []) := by simp [hust]
    rw [if_neg hnu]
    -- `finish` on a state reached from `st`
    have fin : ∀ (st2 st2' : St) (kind : Nat) (lit : List UInt8) (semi : Bool), Adv src st st2 → SameButSemi st2 st2' →
        st.off < st2.off → TokOK cfg.d src ⟨st.off, st2.off, kind, lit⟩ →
        StepSpec cfg src st0 (finish cfg st2' st.off kind lit semi).1 (finish cfg st2' st.off kind lit semi).2 := by
      intro st2 st2' kind lit semi a e hlt htok
      have hfr : frontier st2' = st2.off := by
        unfold frontier; rw [e.off, e.unit, (c.adv.trans a).unit.trans hu]; simp
      apply finish_spec cfg semi hu ((c.good a).congr e) h00 (by rw [hfr]; omega) (Or.inr (by rw [hfr]; omega)) c.ws
      rw [hfr]; exact htok
    apply StepSpec_ite
    · intro hl
      exact scanIdentTok_spec cfg fuel hF c hl
    · intro _
      apply StepSpec_ite
      · -- number
        intro hnum
        have hstart : isDecimal st.ch = true ∨ st.ch = 0x2E := by
          simp only [Bool.or_eq_true, Bool.and_eq_true, decide_eq_true_eq] at hnum
          rcases hnum with h | h
          · exact Or.inl h
          · exact Or.inr h.1
        obtain ⟨nr, hprog⟩ := scanNumber_ok cfg.d cfg.U fuel st hi (by omega) hust hstart
        generalize scanNumber cfg.d cfg.U src fuel st = r at nr hprog ⊢
        have hg2 : Good src r.1 := ⟨nr.inv, nr.fail_eq.trans (hsk.fail_eq.trans hg.ok), nr.ulen, nr.unit⟩
        apply finish_spec cfg true hu hg2 h00 (by unfold frontier; omega) (Or.inr (by unfold frontier; omega)) c.ws
        have hlit : r.2.2 = slice src st.off (frontier r.1) := nr.lit
        rw [hlit]
        have hne : st.off < frontier r.1 := hprog
        cases hk : r.2.1 with
        | illegal => exact TokOK.illegal rfl hne
        | int => exact TokOK.exact (Or.inr (Or.inl rfl)) hne rfl
        | float => exact TokOK.exact (Or.inr (Or.inr (Or.inl rfl))) hne rfl
        | imag => exact TokOK.exact (Or.inr (Or.inr (Or.inr (Or.inl rfl)))) hne rfl
        | rat => exact TokOK.exact (Or.inr (Or.inr (Or.inr (Or.inr (Or.inl rfl))))) hne rfl
      · -- the default branch: `s.next()` first
        intro _
        have a1 := Adv.ofNext hi
        apply StepSpec_ite
        · -- end of file
          intro heof
          have hoff := hi.eof heof
          have hoff1 : (next src st).off = src.size := by
            have := next_off_le hi; have := a1.inv.off_le_size; omega
          have hu1 : (next src st).unitVal = [] := by rw [next_unitVal]; exact hust
          apply StepSpec_ite
          · intro hs
            apply autoSemi_spec cfg hu (c.good a1) hu1 h00 (by omega)
              (Or.inr ⟨by omega, ?_⟩) c.ws (Or.inl (by omega))
            rw [next_insertSemi] at hs
            exact hsk.semi.symm.trans hs
          · intro _
            apply finish_spec cfg false hu (c.good a1) h00 (by rw [c.front a1]; omega)
              (Or.inl ⟨rfl, hoff⟩) c.ws
            rw [c.front a1]
            exact TokOK.auto (Or.inr ⟨rfl, rfl, hoff⟩) (Or.inl (by simp only; omega))
        · intro heof
          have hlt1 := next_off_lt hi heof
          have hsz : st.off < src.size := by have := hi.adv heof; have := hi.rd_le; omega
          apply StepSpec_ite
          · -- newline
            intro hnl
            have e1 := next_off_ascii hi (show st.ch < 0x80 by omega)
            have hb := (hi.ascii (show st.ch < 0x80 by omega)).1
            apply autoSemi_spec cfg hu (c.good a1) (by rw [next_unitVal]; exact hust) h00 (by omega)
              (Or.inl (by omega)) c.ws (Or.inr ⟨e1, by rw [hb]; exact hnl⟩)
          · intro _
            apply StepSpec_ite
            · -- string
              intro hq
              have e1 := next_off_ascii hi (show st.ch < 0x80 by omega)
              have hs := scanString_ok (src := src) fuel (next src st) a1.inv (by omega)
              apply fin _ _ _ _ _ (a1.trans hs.1) ⟨rfl, rfl, rfl, rfl, rfl⟩ (by have := hs.1.off_le; omega)
              apply TokOK.text (Or.inl rfl) (by simp only; have := hs.1.off_le; omega)
              simp only
              rw [hs.2, e1]
              have : st.off + 1 - 1 = st.off := by omega
              rw [this]; exact TextCR.rfl' _
            · intro _
              apply StepSpec_ite
              · -- rune
                intro hq
                have e1 := next_off_ascii hi (show st.ch < 0x80 by omega)
                have hs := scanRune_ok (src := src) fuel (next src st) a1.inv (by omega) (by omega)
                apply fin _ _ _ _ _ (a1.trans hs.1) ⟨rfl, rfl, rfl, rfl, rfl⟩ (by have := hs.1.off_le; omega)
                apply TokOK.exact (Or.inr (Or.inr (Or.inr (Or.inr (Or.inr (Or.inr (Or.inl rfl)))))))
                  (by simp only; have := hs.1.off_le; omega)
                simp only
                rw [hs.2, e1]
                have : st.off + 1 - 1 = st.off := by omega
                rw [this]
              · intro _
                apply StepSpec_ite
                · -- raw string
                  intro hq
                  have e1 := next_off_ascii hi (show st.ch < 0x80 by omega)
                  have hs := scanRawString_ok (src := src) fuel (next src st) a1.inv (by omega)
                  apply fin _ _ _ _ _ (a1.trans hs.1) ⟨rfl, rfl, rfl, rfl, rfl⟩ (by have := hs.1.off_le; omega)
                  apply TokOK.text (Or.inl rfl) (by simp only; have := hs.1.off_le; omega)
                  simp only
                  have : (next src st).off - 1 = st.off := by omega
                  rw [this] at hs
                  rcases hs.2 with h | h
                  · rw [h]; exact TextCR.rfl' _
                  · rw [h]; exact (TextCR.rfl' _).stripCR _
                · intro _
                  apply StepSpec_ite
                  · -- '.' or '...'
                    intro hdot
                    obtain ⟨s1, e1, _⟩ := slice_snoc hi (Nat.le_refl _) hdot (by omega)
                    rw [slice_self, List.nil_append] at s1
                    apply StepSpec_ite
                    · intro h3
                      obtain ⟨s2, e2, hsz2⟩ := slice_snoc a1.inv (by omega : st.off ≤ (next src st).off) h3.1 (by omega)
                      have hpk : (next src (next src st)).ch = 0x2E := by
                        have hrd := (a1.inv.ascii (show (next src st).ch < 0x80 by omega)).2
                        have hpeek := h3.2
                        unfold peek at hpeek
                        rw [next_ch]
                        have hlt2 : (next src st).rdOff < src.size := by
                          by_cases hge : (next src st).rdOff < src.size
                          · exact hge
                          · exfalso
                            unfold byteAt at hpeek
                            simp [hge] at hpeek
                        simp [hlt2, hpeek]
                      obtain ⟨s3, e3, _⟩ := slice_snoc (next_inv a1.inv) (by omega : st.off ≤ (next src (next src st)).off) hpk (by omega)
                      apply fin _ _ _ _ _ (a1.thenNext.thenNext) ⟨rfl, rfl, rfl, rfl, rfl⟩ (by omega)
                      apply TokOK.op _ (by simp only; omega) (Or.inl rfl) (okOpTok_spec (hand_ops_ok cfg.d hd).2.2).1 (okOpTok_spec (hand_ops_ok cfg.d hd).2.2).2
                      simp only
                      rw [s3, s2, s1, spelling_ellipsis cfg.d hd]
                      rfl
                    · intro _
                      apply fin _ _ _ _ _ a1 ⟨rfl, rfl, rfl, rfl, rfl⟩ (by omega)
                      apply TokOK.op _ (by simp only; omega) (Or.inl rfl) (okOpTok_spec (hand_ops_ok cfg.d hd).2.1).1 (okOpTok_spec (hand_ops_ok cfg.d hd).2.1).2
                      simp only
                      rw [s1, spelling_period cfg.d hd]
                      rfl
                  · intro _
                    apply StepSpec_ite
                    · -- ';'
                      intro hsc
                      obtain ⟨s1, e1, _⟩ := slice_snoc hi (Nat.le_refl _) hsc (by omega)
                      rw [slice_self, List.nil_append] at s1
                      refine fin (next src st) _ _ _ _ a1 ?_ (by omega) ?_
                      · exact ⟨rfl, rfl, rfl, rfl, rfl⟩
                      apply TokOK.op _ (by simp only; omega) (Or.inr ⟨rfl, rfl⟩) (okOpTok_spec (hand_ops_ok cfg.d hd).1).1 (okOpTok_spec (hand_ops_ok cfg.d hd).1).2
                      simp only
                      rw [s1, spelling_semicolon cfg.d hd]
                      rfl
                    · intro _
                      apply StepSpec_ite
                      · -- '#'
                        intro hsh
                        exact scanCommentTok_spec cfg hd fuel hF c true (by simpa using hsh.1)
                      · intro _
                        apply StepSpec_ite
                        · -- comment
                          intro hcm
                          exact scanCommentTok_spec cfg hd fuel hF c false (by simpa using hcm.1)
                        · intro _
                          unfold opFinish
                          split
                          · -- operator
                            rename_i t hlk
                            obtain ⟨hlt, hsp⟩ := ops_lookup_spelled (src := src) cfg.d hd hlk
                            obtain ⟨s1, e1, _⟩ := slice_snoc hi (Nat.le_refl _) rfl hlt
                            rw [slice_self, List.nil_append] at s1
                            have hw := walk_adv (src := src) t (next src st) a1.inv
                            refine fin (walk src t (next src st)).1 _ _ _ _ (a1.trans hw) ?_ (by have := hw.off_le; omega) ?_
                            · exact ⟨rfl, rfl, rfl, rfl, rfl⟩
                            have hsp' := hsp (next src st) st.off a1.inv (by omega) s1
                            apply TokOK.op _ (by simp only; have := hw.off_le; omega) (Or.inl rfl) (okOpTok_spec hsp'.2).1 (okOpTok_spec hsp'.2).2
                            simp only
                            exact hsp'.1
                          · -- illegal character
                            have key : ∀ st2 : St, SameBut (next src st) st2 →
                                StepSpec cfg src st0 (finish cfg st2 st.off (codes cfg.d).ILLEGAL (encodeRune st.ch) st2.insertSemi).1
                                  (finish cfg st2 st.off (codes cfg.d).ILLEGAL (encodeRune st.ch) st2.insertSemi).2 := by
                              intro st2 e
                              have a2 : Adv src st st2 :=
                                ⟨a1.inv.congr e.ch e.off e.rdOff, by rw [e.off]; exact a1.off_le, e.fail.trans a1.fail_eq,
                                 e.semi.trans a1.semi, e.paren.trans a1.paren, e.unit.trans a1.unit, e.nl.trans a1.nl⟩
                              apply fin _ _ _ _ _ a2 ⟨rfl, rfl, rfl, rfl, rfl⟩ (by rw [e.off]; omega)
                              exact TokOK.illegal rfl (by simp only; rw [e.off]; omega)
                            split
                            · exact key _ (SameBut.rfl' _)
                            · split
                              · exact key _ (SameBut.err _ _ _)
                              · exact key _ (SameBut.err _ _ _)
  · -- a unit is pending: it is the token
    simp only [hu, if_false, ne_eq, not_false_eq_true, if_true]
    obtain ⟨e, ht⟩ := finish_fst cfg { st0 with unitVal := [] } (st0.off - st0.unitVal.length) (codes cfg.d).UNIT st0.unitVal true
    have hf1 : frontier { st0 with unitVal := [] } = st0.off := by simp [frontier]
    rw [hf1] at ht
    rw [ht]
    generalize (finish cfg { st0 with unitVal := [] } (st0.off - st0.unitVal.length) (codes cfg.d).UNIT st0.unitVal true).1 = st' at e ⊢
    have eoff : st'.off = st0.off := e.off
    have eunit : st'.unitVal = [] := e.unit
    have hlen : 1 ≤ st0.unitVal.length := by
      cases hl : st0.unitVal with
      | nil => exact absurd hl hu
      | cons a t => simp
    have hul := hg.ulen
    have hsz := hg.inv.off_le_size
    have hfe : frontier st' = st0.off := by simp [frontier, eoff, eunit]
    have hf0 : frontier st0 = st0.off - st0.unitVal.length := rfl
    refine ⟨⟨hg.inv.congr e.ch e.off e.rdOff, e.fail.trans hg.ok, by rw [eunit]; simp, by rw [eunit]; simp [slice_self]⟩,
      by rw [hfe, hf0]; omega, Or.inr ?_, ?_, by intro h; cases h⟩
    · have h1 : mu src st' ≤ 2 * (src.size - st0.off) + 1 := by
        unfold mu; rw [eoff, eunit]; simp only [if_true]; split <;> omega
      have h2 : mu src st0 = 2 * (src.size - st0.off) + (if st0.insertSemi = true then 1 else 0) + 2 := by
        unfold mu; simp [hu]
      rw [h2]; split <;> omega
    · intro t htt
      cases htt
      refine ⟨by rw [hf0]; exact Nat.le_refl _, by simp only; omega, by rw [hfe], ?_, ?_⟩
      · intro i h1 h2; rw [hf0] at h1; simp only at h2; omega
      · apply TokOK.exact (Or.inr (Or.inr (Or.inr (Or.inr (Or.inr (Or.inl rfl)))))) (by simp only; omega)
        exact hg.unit

end GopModel.Scan
