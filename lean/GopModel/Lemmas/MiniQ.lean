/-
Lemmas for M4: the inlined block emitted for `f(args)?` (gogen inline closure, hoisted in front of
the statement) against the documented in-place meaning `Doc.errQ`.
Core Lean only.
-/
import GopModel.Lemmas.MiniLower
namespace GopModel.Mini

/-! ### hoisting leaves `?`-free expressions alone -/

mutual
theorem hoistE_src (fn : String) (rtys : List Ty) : ∀ (e : Expr) (n : Nat), e.src = true →
    hoistE fn rtys e n = ([], e, n)
  | .lit _, _, _ | .zero _, _, _ | .var _, _, _ => by simp [hoistE]
  | .bin _ a b, n, h => by
    simp only [Expr.src, Bool.and_eq_true] at h
    simp [hoistE, hoistE_src fn rtys a n h.1, hoistE_src fn rtys b n h.2]
  | .not a, n, h => by
    simp only [Expr.src] at h
    simp [hoistE, hoistE_src fn rtys a n h]
  | .listLit _ es, n, h | .sliceLit _ es, n, h => by
    simp only [Expr.src] at h
    simp [hoistE, hoistEs_src fn rtys es n h]
  | .mapLit _ _ kvs, n, h | .xmapLit _ _ kvs, n, h => by
    simp only [Expr.src] at h
    simp [hoistE, hoistKVs_src fn rtys kvs n h]
  | .index _ a i, n, h => by
    simp only [Expr.src, Bool.and_eq_true] at h
    simp [hoistE, hoistE_src fn rtys a n h.1, hoistE_src fn rtys i n h.2]
  | .len a, n, h => by
    simp only [Expr.src] at h
    simp [hoistE, hoistE_src fn rtys a n h]
  | .append a vs _, n, h => by
    simp only [Expr.src, Bool.and_eq_true] at h
    simp [hoistE, hoistE_src fn rtys a n h.1, hoistEs_src fn rtys vs n h.2]
  | .call _ args, n, h | .cmdCall _ args, n, h => by
    simp only [Expr.src] at h
    simp [hoistE, hoistEs_src fn rtys args n h]
  | .probe _ e, n, h | .newFrame e _ _, n, h | .neNil e, n, h => by
    simp only [Expr.src] at h
    simp [hoistE, hoistE_src fn rtys e n h]
  | .closure _ _, _, _ => by simp [hoistE]
  | .listCompr _ _ _, _, _ | .mapCompr _ _ _ _ _, _, _ | .selCompr _ _ _ _, _, _
  | .existsCompr _, _, _ => by simp [hoistE]
  | .errBang _ _ args _, n, h => by
    simp only [Expr.src, Bool.and_eq_true] at h
    simp [hoistE, hoistEs_src fn rtys args n h.2]
  | .errQ _ _ _ _, _, h => by simp [Expr.src] at h
  | .errDflt _ args _ _, n, h => by
    simp only [Expr.src, Bool.and_eq_true] at h
    simp [hoistE, hoistEs_src fn rtys args n h.1]
theorem hoistEs_src (fn : String) (rtys : List Ty) : ∀ (es : List Expr) (n : Nat), srcEs es = true →
    hoistEs fn rtys es n = ([], es, n)
  | [], _, _ => by simp [hoistEs]
  | e :: es, n, h => by
    simp only [srcEs, Bool.and_eq_true] at h
    simp [hoistEs, hoistE_src fn rtys e n h.1, hoistEs_src fn rtys es n h.2]
theorem hoistKVs_src (fn : String) (rtys : List Ty) : ∀ (kvs : List KV) (n : Nat), srcKVs kvs = true →
    hoistKVs fn rtys kvs n = ([], kvs, n)
  | [], _, _ => by simp [hoistKVs]
  | .mk k v :: r, n, h => by
    simp only [srcKVs, Bool.and_eq_true] at h
    simp [hoistKVs, hoistE_src fn rtys k n h.1.1, hoistE_src fn rtys v n h.1.2, hoistKVs_src fn rtys r n h.2]
end

/-! ### temporaries -/

theorem tmpName_ne_err (n : Nat) : tmpName n ≠ "_gop_err" := by
  intro h
  have := congrArg String.toList h
  simp [tmpName, String.toList_append] at this

theorem tmpName_ne_blank (n : Nat) : tmpName n ≠ "_" := by
  intro h
  have := congrArg String.toList h
  simp [tmpName, String.toList_append] at this

theorem isTmp_tmpName (n : Nat) : isTmp (tmpName n) = true := by
  simp [isTmp, tmpName, String.toList_append]

/-! ### frames: declaration -/

/-- `x := v` / `var x` in a frame. -/
def Frame.decl (f : Frame) (x : String) (v : Val) : Frame := if f.has x then f.set x v else (x, v) :: f

theorem Env.declare_cons (f : Frame) (r : Env) (x : String) (v : Val) :
    Env.declare (f :: r) x v = some (f.decl x v :: r) := by
  unfold Frame.decl
  cases h : f.has x <;> simp [Env.declare, h]

theorem Frame.get_decl (f : Frame) (x y : String) (v : Val) :
    (f.decl x v).get y = if y = x then some v else f.get y := by
  unfold Frame.decl
  cases hf : f.has x
  · simp only [Bool.false_eq_true, if_false]; rw [Frame.get_cons]
  · simp only [if_true]
    by_cases h : y = x
    · subst h; simp [Frame.get_set_same f y v hf]
    · simp [h, Frame.get_set_other f x y v h]

theorem Frame.has_decl_same (f : Frame) (x : String) (v : Val) : (f.decl x v).has x = true := by
  rw [Frame.has_eq, Frame.get_decl]; simp

theorem Env.set_cons_has (f : Frame) (r : Env) (x : String) (v : Val) (h : f.has x = true) :
    Env.set (f :: r) x v = some (f.set x v :: r) := by simp [Env.set, h]

theorem Env.set_cons_not (f : Frame) (r : Env) (x : String) (v : Val) (h : f.has x = false) :
    Env.set (f :: r) x v = (Env.set r x v).map (f :: ·) := by
  simp only [Env.set, h, Bool.false_eq_true, if_false]
  cases Env.set r x v <;> rfl

/-- The two environments differ only in their innermost frames, which agree on source names. -/
def TopAgree (e1 e2 : Env) : Prop :=
  ∃ f1 f2 r, e1 = f1 :: r ∧ e2 = f2 :: r ∧ ∀ z, isTmp z = false → f1.get z = f2.get z

/-- Same outcome (kind, values, trace); environments related by `TopAgree`. -/
def ResSim : Res α → Res α → Prop
  | .ok a e t, .ok a' e' t' => a = a' ∧ t = t' ∧ TopAgree e e'
  | .ret vs e t, .ret vs' e' t' => vs = vs' ∧ t = t' ∧ TopAgree e e'
  | .panic v t, .panic v' t' => v = v' ∧ t = t'
  | .timeout t, .timeout t' => t = t'
  | .stuck, .stuck => True
  | _, _ => False

theorem evalEs_zeros (c : Ctx) (e : Expr) : ∀ (l : List Ty) (env : Env) (tr : Trace),
    evalEs c (l.map Expr.zero ++ [e]) env tr =
      (evalE c e env tr).bind fun v env1 tr1 => .ok (l.map Ty.zero ++ [v]) env1 tr1
  | [], env, tr => by
    simp only [List.map_nil, List.nil_append, evalEs]
    cases evalE c e env tr <;> rfl
  | t :: l, env, tr => by
    simp only [List.map_cons, List.cons_append, evalEs, evalE, Res.bind_ok, evalEs_zeros c e l env tr]
    cases evalE c e env tr <;> rfl

theorem lowerXs_zeros (fn : String) (e : Expr) (he : lowerX fn e = e) : ∀ (l : List Ty),
    lowerXs fn (l.map Expr.zero ++ [e]) = l.map Expr.zero ++ [e]
  | [] => by simp [lowerXs, he]
  | t :: l => by simp [lowerXs, lowerX, lowerXs_zeros fn e he l]

theorem zeroRets_snoc (others : List Ty) : zeroRets (others ++ [Ty.err]) = others.map Expr.zero := by
  simp [zeroRets]

section
attribute [local simp] spreadVals pack setAll Env.set Env.get Env.declare Frame.has Frame.get Frame.set
  List.lookup splitErr0 splitErr1 splitErr2 splitErr3 ifErr wrapFrameStmt gopErr evalS evalSs evalE evalEs
  Doc.ifSem evalFilter inFrame wrapErr callSem CallRes.toRes Doc.errQ Doc.wrappedCall zero_err
  lowerStmt hoistS lowerXSs lowerXS lowerX lowerXs lowerFilter qBlock zeroRets_snoc evalEs_zeros

/-- `f(args)?` as a statement (callee returns only an error): the inlined block behaves exactly
like the documented meaning. -/
theorem q_stmt_correct (c : Ctx) (code f : String) (args : List Expr) (h : srcEs args = true)
    (hc : CalleeOK c.callee) (others : List Ty) (hr : c.rtys = others ++ [.err]) (n : Nat) :
    evalSs c (lowerStmt c.fname c.rtys (.expr (.errQ code f args [])) n).1
      = evalS c (.expr (.errQ code f args [])) := by
  have ha := lowerXs_eq c hc args h
  have hg := good_evalEs c args h
  have hz := lowerXs_zeros c.fname (.var "_gop_err") rfl others
  funext env tr
  have hA : Agree ([("_gop_err", Val.nil)] :: env) env :=
    agree_tmp_frame _ env (tmp_frame_invisible _ (by simp [isTmp_gop_err]))
  have hres := hg.resp _ _ tr hA
  cases h1 : evalEs c args env tr with
  | ok vs e' tr' =>
    have := hg.ok_env h1; subst this
    cases h2 : c.callee f vs tr' with
    | vals ws t2 =>
      match ws with
      | [] => simp [hoistEs_src _ _ _ _ h, ha, hres, h1, h2, hr, isNilVal]
      | [v] =>
        cases hv : isNilVal v with
        | none => simp [hoistEs_src _ _ _ _ h, ha, hres, h1, h2, hr, hv]
        | some b =>
          cases b <;> simp [hoistEs_src _ _ _ _ h, ha, hres, h1, h2, hr, hv, hz]
      | v1 :: v2 :: r =>
        obtain ⟨i, e, hs, hl⟩ := splitErr_long v1 v2 r
        have hi : i ≠ [] := by intro e; subst e; simp at hl
        simp [hoistEs_src _ _ _ _ h, ha, hres, h1, h2, hr, hs, hi, isNilVal]
    | panic v t => simp [hoistEs_src _ _ _ _ h, ha, hres, h1, h2, hr]
    | timeout t => simp [hoistEs_src _ _ _ _ h, ha, hres, h1, h2, hr]
    | stuck => simp [hoistEs_src _ _ _ _ h, ha, hres, h1, h2, hr]
  | panic v t => simp [hoistEs_src _ _ _ _ h, ha, hres, h1, hr]
  | ret vs e' t => exact absurd h1 (hg.noret _ _ _ _ _)
  | timeout t => simp [hoistEs_src _ _ _ _ h, ha, hres, h1, hr]
  | stuck => simp [hoistEs_src _ _ _ _ h, ha, hres, h1, hr]

end

/-! ### `x := f(args)?` — one value -/

theorem get_err_top (w : Val) (X : Env) : Env.get ([("_gop_err", w)] :: X) "_gop_err" = some w := by
  simp [Env.get, Frame.get, List.lookup]

theorem get_err_nested (w : Val) (X : Env) :
    Env.get ([] :: [("_gop_err", w)] :: X) "_gop_err" = some w := by
  simp [Env.get, Frame.get, List.lookup]

theorem set_err_nested (w u : Val) (X : Env) :
    Env.set ([] :: [("_gop_err", w)] :: X) "_gop_err" u = some ([] :: [("_gop_err", u)] :: X) := by
  simp [Env.set, Frame.has, Frame.get, Frame.set, List.lookup]

theorem setAll_tmp_err (tmp : String) (h1 : tmp ≠ "_gop_err") (h2 : tmp ≠ "_") (w v e : Val)
    (F1 : Frame) (rest : Env) (hF : F1.has tmp = true) :
    setAll [tmp, "_gop_err"] [v, e] ([("_gop_err", w)] :: F1 :: rest)
      = some ([("_gop_err", e)] :: F1.set tmp v :: rest) := by
  have hb : (tmp == "_gop_err") = false := by simpa using h1
  have hB : Frame.has [("_gop_err", w)] tmp = false := by simp [Frame.has, Frame.get, List.lookup, hb]
  have s1 : Env.set ([("_gop_err", w)] :: F1 :: rest) tmp v
      = some ([("_gop_err", w)] :: F1.set tmp v :: rest) := by
    rw [Env.set_cons_not _ _ _ _ hB, Env.set_cons_has _ _ _ _ hF]; rfl
  have s2 : Env.set ([("_gop_err", w)] :: F1.set tmp v :: rest) "_gop_err" e
      = some ([("_gop_err", e)] :: F1.set tmp v :: rest) := by
    simp [Env.set, Frame.has, Frame.get, Frame.set, List.lookup]
  simp [setAll, h2, s1, s2]

theorem setAll_err_nested (w u : Val) (X : Env) :
    setAll ["_gop_err"] [u] ([] :: [("_gop_err", w)] :: X) = some ([] :: [("_gop_err", u)] :: X) := by
  simp [setAll, set_err_nested]

/-- Outcome of the inlined block of `f(args)?` with one value, as a function of what the call
produced: the value lands in `tmp`; on error the enclosing function returns. -/
def qAfter1 (code fn : String) (zeros : List Val) (tmp : String) (F1 : Frame) (rest : Env) :
    Res (List Val × Val) → Res Unit
  | .ok ([v], e) _ tr2 =>
    (match isNilVal e with
     | some true => .ok () (F1.set tmp v :: rest) tr2
     | some false => .ret (zeros ++ [wrapErr e code fn]) (F1.set tmp v :: rest) tr2
     | none => .stuck)
  | .ok _ _ _ => .stuck
  | .panic v t => .panic v t
  | .ret _ _ _ => .stuck
  | .timeout t => .timeout t
  | .stuck => .stuck

section
attribute [local simp] spreadVals pack splitErr0 splitErr1 splitErr2 splitErr3 ifErr wrapFrameStmt gopErr
  evalS evalSs evalE evalEs Doc.ifSem evalFilter inFrame wrapErr callSem CallRes.toRes Doc.wrappedCall
  zero_err lowerXSs lowerXS lowerX lowerXs lowerFilter qBlock zeroRets_snoc evalEs_zeros
  declare_cons_nil get_err_top get_err_nested set_err_nested qAfter1 setAll_err_nested

theorem qblock1_eval (c : Ctx) (hc : CalleeOK c.callee) (code f : String) (args : List Expr)
    (h : srcEs args = true) (others : List Ty) (hr : c.rtys = others ++ [.err])
    (tmp : String) (h1 : tmp ≠ "_gop_err") (h2 : tmp ≠ "_") (htmp : isTmp tmp = true)
    (F1 : Frame) (rest : Env) (hF : F1.has tmp = true) (tr : Trace) :
    evalS c (lowerXS c.fname (qBlock code c.fname f c.rtys [tmp] args)) (F1 :: rest) tr
      = qAfter1 code c.fname (others.map Ty.zero) tmp F1 rest
          (Doc.wrappedCall c.callee f (evalEs c args) (F1 :: rest) tr) := by
  have ha := lowerXs_eq c hc args h
  have hg := good_evalEs c args h
  have hz := lowerXs_zeros c.fname (.var "_gop_err") rfl others
  have hA : Agree ([("_gop_err", Val.nil)] :: F1 :: rest) (F1 :: rest) :=
    agree_tmp_frame _ _ (tmp_frame_invisible _ (by simp [isTmp_gop_err]))
  have hres := hg.resp _ _ tr hA
  cases h1' : evalEs c args (F1 :: rest) tr with
  | ok vs e' tr' =>
    have := hg.ok_env h1'; subst this
    cases h2' : c.callee f vs tr' with
    | vals ws t2 =>
      match ws with
      | [] => simp [ha, hres, h1', h2', hr]
      | [v] =>
        have hv : v.isTuple = false := hc _ _ _ _ _ h2' v (by simp)
        cases v with
        | tuple ws => simp [Val.isTuple] at hv
        | _ => simp [ha, hres, h1', h2', hr]
      | [v, e] =>
        have hset := setAll_tmp_err tmp h1 h2 Val.nil v e F1 rest hF
        cases hv : isNilVal e with
        | none => simp [ha, hres, h1', h2', hr, hv, hset, h2]
        | some b => cases b <;> simp [ha, hres, h1', h2', hr, hv, hset, hz, h2]
      | v1 :: v2 :: v3 :: r =>
        obtain ⟨i, e, hs, hl⟩ := splitErr_long3 v1 v2 v3 r
        have hi : ∀ x, i ≠ [x] := by intro x hx; subst hx; simp at hl
        simp [ha, hres, h1', h2', hr, hs]
        match i, hi with
        | [], _ => rfl
        | [x], hi => exact absurd rfl (hi x)
        | _ :: _ :: _, _ => rfl
    | panic v t => simp [ha, hres, h1', h2', hr]
    | timeout t => simp [ha, hres, h1', h2', hr]
    | stuck => simp [ha, hres, h1', h2', hr]
  | panic v t => simp [ha, hres, h1', hr]
  | ret vs e' t => exact absurd h1' (hg.noret _ _ _ _ _)
  | timeout t => simp [ha, hres, h1', hr]
  | stuck => simp [ha, hres, h1', hr]

end

theorem agree_top {f1 f2 : Frame} (r : Env) (h : ∀ z, isTmp z = false → f1.get z = f2.get z) :
    Agree (f1 :: r) (f2 :: r) := by
  intro z hz
  rw [Env.get_cons, Env.get_cons, h z hz]

theorem get_top_set (F1 : Frame) (rest : Env) (tmp : String) (v : Val) (hF : F1.has tmp = true) :
    Env.get (F1.set tmp v :: rest) tmp = some v := by
  rw [Env.get_cons, Frame.get_set_same F1 tmp v hF]

theorem lowerStmt_qdefine (fn : String) (rtys : List Ty) (x code f : String) (args : List Expr)
    (t : Ty) (n : Nat) (h : srcEs args = true) :
    (lowerStmt fn rtys (.define [x] [.errQ code f args [t]]) n).1 =
      [.varDecl (tmpName n) t, lowerXS fn (qBlock code fn f rtys [tmpName n] args),
       .define [x] [.var (tmpName n)]] := by
  simp [lowerStmt, hoistS, hoistEs, hoistE, hoistEs_src fn rtys args n h, tmpNamesFrom, lowerXSs,
    lowerXS, lowerXs, lowerX]

/-- `x := f(args)?` (one value): the hoisted block followed by `x := _autoGo_n` behaves like the
documented in-place meaning, up to the temporary `_autoGo_n` left in the innermost frame. -/
theorem q_define_correct (c : Ctx) (hc : CalleeOK c.callee) (x code f : String) (args : List Expr)
    (t : Ty) (h : srcEs args = true) (hx : isTmp x = false) (hx' : x ≠ "_")
    (others : List Ty) (hr : c.rtys = others ++ [.err]) (n : Nat) (F : Frame) (rest : Env) (tr : Trace) :
    ResSim (evalSs c (lowerStmt c.fname c.rtys (.define [x] [.errQ code f args [t]]) n).1 (F :: rest) tr)
      (evalS c (.define [x] [.errQ code f args [t]]) (F :: rest) tr) := by
  rw [lowerStmt_qdefine _ _ _ _ _ _ _ _ h]
  have htmp := isTmp_tmpName n
  have hne : x ≠ tmpName n := by intro e; subst e; rw [htmp] at hx; cases hx
  have hne1 := tmpName_ne_err n
  have hne2 := tmpName_ne_blank n
  generalize tmpName n = tmp at *
  have hF1 : (F.decl tmp t.zero).has tmp = true := Frame.has_decl_same _ _ _
  have hgw := good_wrappedCall c.callee f (good_evalEs c args h)
  have hag : ∀ z, isTmp z = false → (F.decl tmp t.zero).get z = F.get z := by
    intro z hz
    rw [Frame.get_decl]
    have : ¬ z = tmp := by intro e; subst e; rw [htmp] at hz; cases hz
    simp [this]
  have hW := hgw.resp _ _ tr (agree_top rest hag)
  have e1 : evalS c (.varDecl tmp t) (F :: rest) tr = .ok () (F.decl tmp t.zero :: rest) tr := by
    simp [evalS, Env.declare_cons]
  have e2 := qblock1_eval c hc code f args h others hr tmp hne1 hne2 htmp (F.decl tmp t.zero) rest hF1 tr
  rw [hW] at e2
  simp only [evalSs, e1, Res.bind_ok, e2]
  simp only [evalS, evalEs, evalE, Doc.errQ, hr, List.reverse_append, List.reverse_cons, List.reverse_nil,
    List.nil_append, List.cons_append, List.reverse_reverse, List.length_cons, List.length_nil]
  cases hw : Doc.wrappedCall c.callee f (evalEs c args) (F :: rest) tr with
  | ok r e' tr2 =>
    have := hgw.ok_env hw; subst this
    obtain ⟨vs, e⟩ := r
    have hta : ∀ v, TopAgree (((F.decl tmp t.zero).set tmp v).decl x v :: rest) (F.decl x v :: rest) := by
      intro v
      refine ⟨_, _, rest, rfl, rfl, ?_⟩
      intro z hz
      have hzt : z ≠ tmp := by intro e; subst e; rw [htmp] at hz; cases hz
      rw [Frame.get_decl, Frame.get_decl]
      by_cases hzx : z = x
      · simp [hzx]
      · simp only [hzx, if_false]
        rw [Frame.get_set_other _ tmp z v hzt, hag z hz]
    have hta2 : ∀ v, TopAgree ((F.decl tmp t.zero).set tmp v :: rest) (F :: rest) := by
      intro v
      refine ⟨_, _, rest, rfl, rfl, ?_⟩
      intro z hz
      have hzt : z ≠ tmp := by intro e; subst e; rw [htmp] at hz; cases hz
      rw [Frame.get_set_other _ tmp z v hzt, hag z hz]
    match vs with
    | [] => simp [qAfter1, ResSim]
    | [v] =>
      cases hv : isNilVal e with
      | none => simp [qAfter1, ResSim, hv]
      | some b =>
        cases b with
        | true =>
          simp [qAfter1, ResSim, hv, get_top_set _ _ _ _ hF1, spreadVals, declareAll, hx',
            Env.declare_cons, pack, hta v]
        | false => simp [qAfter1, ResSim, hv, wrapErr, hta2 v]
    | _ :: _ :: _ => simp [qAfter1, ResSim]
  | panic v t => simp [qAfter1, ResSim]
  | ret vs e' t => exact absurd hw (hgw.noret _ _ _ _ _)
  | timeout t => simp [qAfter1, ResSim]
  | stuck => simp [qAfter1, ResSim]

/-! ### `g(f(args)?, more…)` — argument position -/

theorem lowerStmt_qarg (fn : String) (rtys : List Ty) (g code f : String) (args post : List Expr)
    (t : Ty) (n : Nat) (h : srcEs args = true) (hp : srcEs post = true) :
    (lowerStmt fn rtys (.expr (.call g (.errQ code f args [t] :: post))) n).1 =
      [.varDecl (tmpName n) t, lowerXS fn (qBlock code fn f rtys [tmpName n] args),
       .expr (.call g (.var (tmpName n) :: lowerXs fn post))] := by
  simp [lowerStmt, hoistS, hoistEs, hoistE, hoistEs_src fn rtys args n h, hoistEs_src fn rtys post _ hp,
    tmpNamesFrom, lowerXSs, lowerXS, lowerXs, lowerX]

/-- `g(f(args)?, post…)` as a statement: `f(args)?` first (hoisted), then the remaining arguments
left to right, then `g` — as documented, up to the temporary `_autoGo_n`. -/
theorem q_arg_correct (c : Ctx) (hc : CalleeOK c.callee) (g code f : String) (args post : List Expr)
    (t : Ty) (h : srcEs args = true) (hp : srcEs post = true)
    (others : List Ty) (hr : c.rtys = others ++ [.err]) (n : Nat) (F : Frame) (rest : Env) (tr : Trace) :
    ResSim (evalSs c (lowerStmt c.fname c.rtys (.expr (.call g (.errQ code f args [t] :: post))) n).1
        (F :: rest) tr)
      (evalS c (.expr (.call g (.errQ code f args [t] :: post))) (F :: rest) tr) := by
  rw [lowerStmt_qarg _ _ _ _ _ _ _ _ _ h hp]
  have htmp := isTmp_tmpName n
  have hne1 := tmpName_ne_err n
  have hne2 := tmpName_ne_blank n
  generalize tmpName n = tmp at *
  have hF1 : (F.decl tmp t.zero).has tmp = true := Frame.has_decl_same _ _ _
  have hgw := good_wrappedCall c.callee f (good_evalEs c args h)
  have hgp := good_evalEs c post hp
  have hpe := lowerXs_eq c hc post hp
  have hag : ∀ z, isTmp z = false → (F.decl tmp t.zero).get z = F.get z := by
    intro z hz
    rw [Frame.get_decl]
    have : ¬ z = tmp := by intro e; subst e; rw [htmp] at hz; cases hz
    simp [this]
  have hW := hgw.resp _ _ tr (agree_top rest hag)
  have e1 : evalS c (.varDecl tmp t) (F :: rest) tr = .ok () (F.decl tmp t.zero :: rest) tr := by
    simp [evalS, Env.declare_cons]
  have e2 := qblock1_eval c hc code f args h others hr tmp hne1 hne2 htmp (F.decl tmp t.zero) rest hF1 tr
  rw [hW] at e2
  simp only [evalSs, e1, Res.bind_ok, e2]
  simp only [evalS, evalEs, evalE, callSem, hpe, Doc.errQ, hr, List.reverse_append, List.reverse_cons,
    List.reverse_nil, List.nil_append, List.cons_append, List.reverse_reverse, List.length_cons,
    List.length_nil]
  cases hw : Doc.wrappedCall c.callee f (evalEs c args) (F :: rest) tr with
  | ok r e' tr2 =>
    have := hgw.ok_env hw; subst this
    obtain ⟨vs, e⟩ := r
    have hag2 : ∀ v z, isTmp z = false → ((F.decl tmp t.zero).set tmp v).get z = F.get z := by
      intro v z hz
      have hzt : z ≠ tmp := by intro e; subst e; rw [htmp] at hz; cases hz
      rw [Frame.get_set_other _ tmp z v hzt, hag z hz]
    have hta2 : ∀ v, TopAgree ((F.decl tmp t.zero).set tmp v :: rest) (F :: rest) :=
      fun v => ⟨_, _, rest, rfl, rfl, hag2 v⟩
    match vs with
    | [] => simp [qAfter1, ResSim]
    | [v] =>
      cases hv : isNilVal e with
      | none => simp [qAfter1, ResSim, hv]
      | some b =>
        cases b with
        | true =>
          have hP := hgp.resp _ _ tr2 (agree_top rest (hag2 v))
          simp only [qAfter1, Res.withEnv_ok, hv, Res.bind_ok, get_top_set _ _ _ _ hF1, hP, ne_eq,
            not_true_eq_false, if_false, List.length_cons, List.length_nil, Nat.zero_add, pack]
          cases hq : evalEs c post (F :: rest) tr2 with
          | ok ws e2' tr3 =>
            have := hgp.ok_env hq; subst this
            simp only [Res.withEnv_ok, Res.bind_ok]
            cases hcal : c.callee g (v :: ws) tr3 <;> simp [hcal, CallRes.toRes, ResSim, hta2 v, pack]
          | panic w t3 => simp [hq, ResSim]
          | ret ws e2' t3 => exact absurd hq (hgp.noret _ _ _ _ _)
          | timeout t3 => simp [hq, ResSim]
          | stuck => simp [hq, ResSim]
        | false => simp [qAfter1, ResSim, hv, wrapErr, hta2 v]
    | _ :: _ :: _ => simp [qAfter1, ResSim]
  | panic v t => simp [qAfter1, ResSim]
  | ret vs e' t => exact absurd hw (hgw.noret _ _ _ _ _)
  | timeout t => simp [qAfter1, ResSim]
  | stuck => simp [qAfter1, ResSim]

end GopModel.Mini
