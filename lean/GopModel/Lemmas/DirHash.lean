/-
Lemmas for C36: the `%x` renderings are injective and contain no separator bytes, and a
concatenation of `line` records can be decoded in only one way.
-/
import GopModel.Model.DirHash
namespace GopModel.DirHash

/-! ## hex digits -/

def dv (c : UInt8) : Nat := if c < 58 then c.toNat - 48 else c.toNat - 87

def isHex (c : UInt8) : Bool := (48 ≤ c && c ≤ 57) || (97 ≤ c && c ≤ 102)

theorem dv_hexDigit : ∀ n, n < 16 → dv (hexDigit n) = n := by decide
theorem hexDigit_isHex : ∀ n, n < 16 → isHex (hexDigit n) = true := by decide

theorem hexDigit_inj {a b : Nat} (ha : a < 16) (hb : b < 16) (h : hexDigit a = hexDigit b) : a = b := by
  rw [← dv_hexDigit a ha, ← dv_hexDigit b hb, h]

/-! ## `hexNat` -/

def valRev : List UInt8 → Nat
  | [] => 0
  | d :: ds => dv d + 16 * valRev ds

theorem valRev_hexRev : ∀ (fuel n : Nat), n < fuel → valRev (hexRev fuel n) = n
  | 0, _, h => by omega
  | fuel + 1, n, h => by
    unfold hexRev
    split
    · rename_i hn; simp [valRev, dv_hexDigit n hn]
    · rename_i hn
      simp only [valRev]
      rw [valRev_hexRev fuel (n / 16) (by omega), dv_hexDigit (n % 16) (by omega)]
      omega

theorem hexRev_all_hex : ∀ (fuel n : Nat), ∀ c ∈ hexRev fuel n, isHex c = true
  | 0, _, c, h => by simp [hexRev] at h
  | fuel + 1, n, c, h => by
    unfold hexRev at h
    split at h
    · rename_i hn
      simp only [List.mem_singleton] at h
      rw [h]; exact hexDigit_isHex n hn
    · simp only [List.mem_cons] at h
      rcases h with h | h
      · rw [h]; exact hexDigit_isHex _ (by omega)
      · exact hexRev_all_hex fuel _ c h

theorem hexRev_ne_nil (fuel n : Nat) : hexRev (fuel + 1) n ≠ [] := by
  unfold hexRev; split <;> simp

theorem hexNat_inj {a b : Nat} (h : hexNat a = hexNat b) : a = b := by
  have h' : hexRev (a + 1) a = hexRev (b + 1) b := by
    simpa [hexNat] using h
  rw [← valRev_hexRev (a + 1) a (by omega), ← valRev_hexRev (b + 1) b (by omega), h']

theorem hexNat_all_hex (n : Nat) : ∀ c ∈ hexNat n, isHex c = true := by
  intro c hc
  exact hexRev_all_hex (n + 1) n c (by simpa [hexNat] using hc)

theorem hexNat_ne_nil (n : Nat) : hexNat n ≠ [] := by
  simp [hexNat, hexRev_ne_nil]

/-! ## `hexInt` -/

theorem hexInt_chars (i : Int) : ∀ c ∈ hexInt i, isHex c = true ∨ c = 0x2d := by
  intro c hc
  unfold hexInt at hc
  split at hc
  · simp only [List.mem_cons] at hc
    rcases hc with hc | hc
    · exact Or.inr hc
    · exact Or.inl (hexNat_all_hex _ c hc)
  · exact Or.inl (hexNat_all_hex _ c hc)

theorem hexNat_no_minus (n : Nat) (t : List UInt8) : hexNat n ≠ 0x2d :: t := by
  intro h
  have := hexNat_all_hex n 0x2d (by rw [h]; simp)
  revert this; decide

theorem hexInt_inj {i j : Int} (h : hexInt i = hexInt j) : i = j := by
  unfold hexInt at h
  split at h <;> split at h
  · have := hexNat_inj (List.cons.inj h).2
    omega
  · exact absurd h.symm (hexNat_no_minus _ _)
  · exact absurd h (hexNat_no_minus _ _)
  · have := hexNat_inj h
    omega

theorem tab_not_in_hexInt (i : Int) : tab ∉ hexInt i := by
  intro h
  rcases hexInt_chars i tab h with h | h <;> revert h <;> decide

theorem nl_not_in_hexInt (i : Int) : nl ∉ hexInt i := by
  intro h
  rcases hexInt_chars i nl h with h | h <;> revert h <;> decide

/-! ## `hexBytes` -/

theorem hexBytes_all_hex : ∀ (l : List UInt8), ∀ c ∈ hexBytes l, isHex c = true
  | [], c, h => by simp [hexBytes] at h
  | b :: t, c, h => by
    simp only [hexBytes, List.mem_cons] at h
    have hb : b.toNat < 256 := UInt8.toNat_lt b
    rcases h with h | h | h
    · rw [h]; exact hexDigit_isHex _ (by omega)
    · rw [h]; exact hexDigit_isHex _ (by omega)
    · exact hexBytes_all_hex t c h

theorem tab_not_in_hexBytes (l : List UInt8) : tab ∉ hexBytes l := by
  intro h
  have := hexBytes_all_hex l tab h
  revert this; decide

theorem hexBytes_inj : ∀ {a b : List UInt8}, hexBytes a = hexBytes b → a = b
  | [], [], _ => rfl
  | [], _ :: _, h => by simp [hexBytes] at h
  | _ :: _, [], h => by simp [hexBytes] at h
  | x :: s, y :: t, h => by
    simp only [hexBytes, List.cons.injEq] at h
    obtain ⟨h1, h2, h3⟩ := h
    have hx : x.toNat < 256 := UInt8.toNat_lt x
    have hy : y.toNat < 256 := UInt8.toNat_lt y
    have e1 := hexDigit_inj (by omega) (by omega) h1
    have e2 := hexDigit_inj (by omega) (by omega) h2
    have : x.toNat = y.toNat := by omega
    rw [UInt8.toNat_inj.mp this, hexBytes_inj h3]

/-! ## unique decoding -/

theorem split_unique (sep : UInt8) : ∀ (a b x y : List UInt8), sep ∉ a → sep ∉ b →
    a ++ sep :: x = b ++ sep :: y → a = b ∧ x = y
  | [], [], _, _, _, _, h => by simpa using h
  | [], c :: b, _, _, _, hb, h => by
    simp only [List.nil_append, List.cons_append, List.cons.injEq] at h
    exact absurd (by simp [h.1]) hb
  | c :: a, [], _, _, ha, _, h => by
    simp only [List.nil_append, List.cons_append, List.cons.injEq] at h
    exact absurd (by simp [h.1]) ha
  | c :: a, d :: b, x, y, ha, hb, h => by
    simp only [List.cons_append, List.cons.injEq] at h
    simp only [List.mem_cons, not_or] at ha hb
    obtain ⟨e, r⟩ := split_unique sep a b x y ha.2 hb.2 h.2
    exact ⟨by rw [h.1, e], r⟩

/-- A record followed by anything decodes uniquely. -/
theorem line_append_inj {r s : Rec} {x y : List UInt8} (h : line r ++ x = line s ++ y) :
    r = s ∧ x = y := by
  unfold line at h
  simp only [List.append_assoc, List.cons_append, List.nil_append] at h
  have h := List.append_cancel_left h
  simp only [List.cons.injEq, true_and] at h
  obtain ⟨e1, h⟩ := split_unique tab _ _ _ _ (tab_not_in_hexBytes _) (tab_not_in_hexBytes _) h
  obtain ⟨e2, h⟩ := split_unique tab _ _ _ _ (tab_not_in_hexInt _) (tab_not_in_hexInt _) h
  obtain ⟨e3, h⟩ := split_unique nl _ _ _ _ (nl_not_in_hexInt _) (nl_not_in_hexInt _) h
  refine ⟨?_, h⟩
  obtain ⟨n, sz, mt⟩ := r
  obtain ⟨n', sz', mt'⟩ := s
  simp only at e1 e2 e3
  rw [hexBytes_inj e1, hexInt_inj e2, hexInt_inj e3]

theorem line_ne_nil (r : Rec) : line r ≠ [] := by
  simp [line, fileTag]

theorem flatMap_line_inj : ∀ {a b : List Rec}, a.flatMap line = b.flatMap line → a = b
  | [], [], _ => rfl
  | [], s :: b, h => by
    simp only [List.flatMap_nil, List.flatMap_cons] at h
    have := congrArg List.length h
    simp [line, fileTag] at this
  | r :: a, [], h => by
    simp only [List.flatMap_nil, List.flatMap_cons] at h
    have := congrArg List.length h
    simp [line, fileTag] at this
  | r :: a, s :: b, h => by
    simp only [List.flatMap_cons] at h
    obtain ⟨e, h⟩ := line_append_inj h
    rw [e, flatMap_line_inj h]

/-! ## strictly sorted lists with the same members are equal -/

theorem eq_of_pairwise_of_mem_iff {α : Type} (lt : α → α → Prop)
    (irrefl : ∀ a, ¬lt a a) (asymm : ∀ a b, lt a b → ¬lt b a) :
    ∀ (l₁ l₂ : List α), l₁.Pairwise lt → l₂.Pairwise lt → (∀ x, x ∈ l₁ ↔ x ∈ l₂) → l₁ = l₂
  | [], [], _, _, _ => rfl
  | [], b :: _, _, _, h => by have := (h b).mpr (by simp); simp at this
  | a :: _, [], _, _, h => by have := (h a).mp (by simp); simp at this
  | a :: t₁, b :: t₂, p₁, p₂, h => by
    rw [List.pairwise_cons] at p₁ p₂
    have hab : a = b := by
      have h1 := (h a).mp (by simp)
      have h2 := (h b).mpr (by simp)
      simp only [List.mem_cons] at h1 h2
      rcases h1 with h1 | h1
      · exact h1
      · rcases h2 with h2 | h2
        · exact h2.symm
        · exact absurd (p₁.1 b h2) (asymm _ _ (p₂.1 a h1))
    subst hab
    have ht : ∀ x, x ∈ t₁ ↔ x ∈ t₂ := by
      intro x
      constructor
      · intro hx
        have := (h x).mp (by simp [hx])
        simp only [List.mem_cons] at this
        rcases this with rfl | this
        · exact absurd (p₁.1 x hx) (irrefl x)
        · exact this
      · intro hx
        have := (h x).mpr (by simp [hx])
        simp only [List.mem_cons] at this
        rcases this with rfl | this
        · exact absurd (p₂.1 x hx) (irrefl x)
        · exact this
    rw [eq_of_pairwise_of_mem_iff lt irrefl asymm t₁ t₂ p₁.2 p₂.2 ht]

end GopModel.DirHash
