/-
Lemmas for M1, part 3: escapes, rune / string / raw string literals, comments, findLineEnd,
operator tries — all only advance (`Adv`).
-/
import GopModel.Lemmas.ScanLoops
namespace GopModel.Scan

variable {src : Array UInt8}

/-! ### escapes -/

theorem escDigits_adv (base : Nat) : ∀ (n x : Nat) (st : St), Inv src st →
    Adv src st (escDigits src base n x st).1 := by
  intro n
  induction n with
  | zero => intro x st hi; exact Adv.refl hi
  | succ n ih =>
    intro x st hi
    simp only [escDigits]
    split
    · exact Adv.errorSelf hi _ _
    · exact (Adv.ofNext hi).trans (ih _ _ (next_inv hi))

theorem escFinish_adv {st : St} (offs max : Nat) (r : St × Option Nat) (h : Adv src st r.1) :
    Adv src st (escFinish offs max r).1 := by
  unfold escFinish
  split
  · exact h
  · split
    · exact h.withError _ _
    · exact h

theorem scanEscape_adv (quote : Nat) (st : St) (hi : Inv src st) : Adv src st (scanEscape src quote st).1 := by
  unfold scanEscape
  simp only []
  split
  · exact Adv.ofNext hi
  · split
    · exact escFinish_adv _ _ _ (escDigits_adv 8 3 0 st hi)
    · split
      · exact escFinish_adv _ _ _ ((Adv.ofNext hi).trans (escDigits_adv 16 2 0 _ (next_inv hi)))
      · split
        · exact escFinish_adv _ _ _ ((Adv.ofNext hi).trans (escDigits_adv 16 4 0 _ (next_inv hi)))
        · split
          · exact escFinish_adv _ _ _ ((Adv.ofNext hi).trans (escDigits_adv 16 8 0 _ (next_inv hi)))
          · exact Adv.errorSelf hi _ _

/-! ### rune, string, raw string -/

theorem runeLoop_adv (offs : Nat) : ∀ (fuel : Nat) (st : St) (v : Bool) (n : Nat), Inv src st →
    src.size - st.off < fuel → Adv src st (runeLoop src offs fuel st v n).1 := by
  intro fuel
  induction fuel with
  | zero => intro st _ _ _ h; omega
  | succ f ih =>
    intro st v n hi hf
    simp only [runeLoop]
    split
    · split
      · exact Adv.errorSelf hi _ _
      · exact Adv.refl hi
    · rename_i hc
      have hne : st.ch ≠ eofCh := fun h => hc (Or.inr h)
      have hstep := loop_step hi hne hf
      have a1 := Adv.ofNext hi
      split
      · exact a1
      · split
        · have a2 := scanEscape_adv (src := src) 0x27 _ (next_inv hi)
          exact (a1.trans a2).trans (ih _ _ _ a2.inv (a2.fuel hstep))
        · exact a1.trans (ih _ _ _ (next_inv hi) hstep)

theorem scanRune_ok (fuel : Nat) (st : St) (hi : Inv src st) (hf : src.size - st.off < fuel) (h1 : 1 ≤ st.off) :
    Adv src st (scanRune src fuel st).1 ∧
      (scanRune src fuel st).2 = slice src (st.off - 1) (scanRune src fuel st).1.off := by
  have ha := runeLoop_adv (src := src) (st.off - 1) fuel st true 0 hi hf
  unfold scanRune
  simp only []
  have key : ∀ st1 : St, Adv src st st1 →
      Adv src st (sliceP src st1 (st.off - 1) st1.off).1 ∧
        (sliceP src st1 (st.off - 1) st1.off).2 = slice src (st.off - 1) (sliceP src st1 (st.off - 1) st1.off).1.off := by
    intro st1 a
    rw [sliceP_eq st1 (by have := a.off_le; omega) a.inv.off_le_size]
    exact ⟨a, rfl⟩
  split
  · exact key _ (ha.withError _ _)
  · exact key _ ha

theorem stringLoop_adv (offs : Nat) : ∀ (fuel : Nat) (st : St), Inv src st →
    src.size - st.off < fuel → Adv src st (stringLoop src offs fuel st) := by
  intro fuel
  induction fuel with
  | zero => intro st _ h; omega
  | succ f ih =>
    intro st hi hf
    simp only [stringLoop]
    split
    · exact Adv.errorSelf hi _ _
    · rename_i hc
      have hne : st.ch ≠ eofCh := fun h => hc (Or.inr h)
      have hstep := loop_step hi hne hf
      have a1 := Adv.ofNext hi
      split
      · exact a1
      · split
        · have a2 := scanEscape_adv (src := src) 0x22 _ (next_inv hi)
          exact (a1.trans a2).trans (ih _ a2.inv (a2.fuel hstep))
        · exact a1.trans (ih _ (next_inv hi) hstep)

theorem scanString_ok (fuel : Nat) (st : St) (hi : Inv src st) (hf : src.size - st.off < fuel) :
    Adv src st (scanString src fuel st).1 ∧
      (scanString src fuel st).2 = slice src (st.off - 1) (scanString src fuel st).1.off := by
  have ha := stringLoop_adv (src := src) (st.off - 1) fuel st hi hf
  unfold scanString
  simp only []
  rw [sliceP_eq _ (by have := ha.off_le; omega) ha.inv.off_le_size]
  exact ⟨ha, rfl⟩

theorem rawStringLoop_adv (offs : Nat) : ∀ (fuel : Nat) (st : St) (h : Bool), Inv src st →
    src.size - st.off < fuel → Adv src st (rawStringLoop src offs fuel st h).1 := by
  intro fuel
  induction fuel with
  | zero => intro st _ _ h; omega
  | succ f ih =>
    intro st h hi hf
    simp only [rawStringLoop]
    split
    · exact Adv.errorSelf hi _ _
    · rename_i hc
      have hstep := loop_step hi hc hf
      split
      · exact Adv.ofNext hi
      · exact (Adv.ofNext hi).trans (ih _ _ (next_inv hi) hstep)

/-- the raw string literal is the source text, or the source text without its carriage returns -/
theorem scanRawString_ok (fuel : Nat) (st : St) (hi : Inv src st) (hf : src.size - st.off < fuel) :
    Adv src st (scanRawString src fuel st).1 ∧
      ((scanRawString src fuel st).2 = slice src (st.off - 1) (scanRawString src fuel st).1.off ∨
       (scanRawString src fuel st).2 = stripCR (slice src (st.off - 1) (scanRawString src fuel st).1.off) false) := by
  have ha := rawStringLoop_adv (src := src) (st.off - 1) fuel st false hi hf
  unfold scanRawString
  simp only []
  rw [sliceP_eq _ (by have := ha.off_le; omega) ha.inv.off_le_size]
  simp only []
  refine ⟨ha, ?_⟩
  split
  · exact Or.inr rfl
  · exact Or.inl rfl

/-! ### comments -/

theorem lineCommentLoop_adv : ∀ (fuel : Nat) (st : St) (n : Nat), Inv src st →
    src.size - st.off < fuel → Adv src st (lineCommentLoop src fuel st n).1 := by
  intro fuel
  induction fuel with
  | zero => intro st _ _ h; omega
  | succ f ih =>
    intro st n hi hf
    simp only [lineCommentLoop]
    split
    · rename_i hc
      exact (Adv.ofNext hi).trans (ih _ _ (next_inv hi) (loop_step hi hc.2 hf))
    · exact Adv.refl hi

theorem blockCommentLoop_adv : ∀ (fuel : Nat) (st : St) (c nl : Nat), Inv src st →
    src.size - st.off < fuel → Adv src st (blockCommentLoop src fuel st c nl).st := by
  intro fuel
  induction fuel with
  | zero => intro st _ _ _ h; omega
  | succ f ih =>
    intro st c nl hi hf
    simp only [blockCommentLoop]
    split
    · exact Adv.refl hi
    · rename_i hc
      split
      · exact (Adv.ofNext hi).thenNext
      · exact (Adv.ofNext hi).trans (ih _ _ _ (next_inv hi) (loop_step hi hc hf))

theorem sharpLoop_adv : ∀ (fuel : Nat) (st : St), Inv src st →
    src.size - st.off < fuel → Adv src st (sharpLoop src fuel st) := by
  intro fuel
  induction fuel with
  | zero => intro st _ h; omega
  | succ f ih =>
    intro st hi hf
    simp only [sharpLoop]
    split
    · exact Adv.refl hi
    · rename_i hc
      have hne : st.ch ≠ eofCh := fun h => hc (Or.inr h)
      exact (Adv.ofNext hi).trans (ih _ (next_inv hi) (loop_step hi hne hf))

/-! ### findLineEnd -/

theorem fleInner_adv : ∀ (fuel : Nat) (st : St), Inv src st →
    src.size - st.off < fuel → Adv src st (fleInner src fuel st).1 := by
  intro fuel
  induction fuel with
  | zero => intro st _ h; omega
  | succ f ih =>
    intro st hi hf
    simp only [fleInner]
    split
    · exact Adv.refl hi
    · rename_i hc
      split
      · exact Adv.refl hi
      · split
        · exact (Adv.ofNext hi).thenNext
        · exact (Adv.ofNext hi).trans (ih _ (next_inv hi) (loop_step hi hc hf))

theorem fleOuter_adv (fuel : Nat) : ∀ (f : Nat) (st : St), Inv src st →
    src.size - st.off < fuel → src.size - st.off < f → Adv src st (fleOuter src fuel f st).1 := by
  intro f
  induction f with
  | zero => intro st _ _ h; omega
  | succ f ih =>
    intro st hi hfuel hf
    simp only [fleOuter]
    split
    · rename_i hc
      split
      · exact Adv.refl hi
      · have hne : st.ch ≠ eofCh := by
          apply lt_ne_eof
          rcases hc with h | h <;> omega
        have a1 := Adv.ofNext hi
        have s1 := loop_step hi hne hf
        have a2 := fleInner_adv (src := src) fuel _ (next_inv hi) (by have := a1.off_le; omega)
        split
        · exact a1.trans a2
        · have a3 := skipWs_adv (src := src) fuel _ a2.inv (by have := a1.off_le; have := a2.off_le; omega)
          have a123 := (a1.trans a2).trans a3
          split
          · exact a123
          · split
            · exact a123
            · have : src.size - (next src (skipWs src fuel (fleInner src fuel (next src st)).1)).off < f := by
                have := a2.off_le; have := a3.off_le
                have := next_off_le a3.inv
                omega
              exact a123.thenNext.trans (ih _ (next_inv a3.inv) (by have := a123.off_le; have := next_off_le a3.inv; omega) this)
    · exact Adv.refl hi

/-- `findLineEnd` puts the scanner back to where it was (just behind the '/'): same offset, the
character there decoded again; only errors were added -/
theorem findLineEnd_ok (fuel : Nat) (st : St) (hi : Inv src st) (hf : src.size - st.off < fuel)
    (h1 : 1 ≤ st.off) :
    Adv src st (findLineEnd src fuel st).1 ∧ (findLineEnd src fuel st).1.off = st.off := by
  have ha := fleOuter_adv (src := src) fuel fuel st hi hf hf
  unfold findLineEnd
  simp only []
  have hsz := hi.off_le_size
  have hinv : Inv src (next src { (fleOuter src fuel fuel st).1 with ch := 0x2F, off := st.off - 1, rdOff := st.off - 1 + 1 }) :=
    next_inv' (by simp only; omega)
  have hoff : (next src { (fleOuter src fuel fuel st).1 with ch := 0x2F, off := st.off - 1, rdOff := st.off - 1 + 1 }).off = st.off := by
    rw [next_off]; simp only; split <;> omega
  refine ⟨⟨hinv, by rw [hoff]; exact Nat.le_refl _, ?_, ?_, ?_, ?_, ?_⟩, hoff⟩
  · simp only [next_fail]; exact ha.fail_eq
  · simp only [next_insertSemi]; exact ha.semi
  · simp only [next_nParen]; exact ha.paren
  · simp only [next_unitVal]; exact ha.unit
  · simp only [next_nlPos]; exact ha.nl

/-! ### operator tries -/

theorem walk_adv : ∀ (t : Trie) (st : St), Inv src st → Adv src st (walk src t st).1
  | .leaf _ _ _, st, hi => by simp only [walk]; exact Adv.refl hi
  | .test c y n, st, hi => by
    simp only [walk]
    split
    · exact (Adv.ofNext hi).trans (walk_adv y _ (next_inv hi))
    · exact walk_adv n st hi

end GopModel.Scan
