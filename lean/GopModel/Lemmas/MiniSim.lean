/-
Lemmas for M4 (3/3): the loops emitted for a comprehension simulate the documented nested
iteration (`Doc.loops`).  The lowered side runs in an environment that contains the closure's
frame (`_gop_ret` …) and extra block scopes; the documented side threads an accumulator.
Core Lean only.
-/
import GopModel.Lemmas.MiniGood
namespace GopModel.Mini

/-- How a result of the lowered statements corresponds to a result of the documented loops:
`R` is the closure's result variable, `enc` how the accumulator is stored in it, `retv` the values
returned on early exit. -/
def SimRes (eL : Env) (R : String) (enc : σ → Val) (retv : β → List Val) :
    Res Unit → Res (σ ⊕ β) → Prop
  | rL, .ok (.inl s') _ tr' => rL = .ok () (eL.upd R (enc s')) tr'
  | rL, .ok (.inr b) _ tr' => ∃ v, rL = .ret (retv b) (eL.upd R v) tr'
  | rL, .panic v tr' => rL = .panic v tr'
  | _, .ret _ _ _ => True
  | rL, .timeout tr' => rL = .timeout tr'
  | rL, .stuck => rL = .stuck

/-- `low` (lowered statements, run where the closure frame is visible) simulates `spec` started
with accumulator `s`. -/
def SimAt (R : String) (enc : σ → Val) (retv : β → List Val) (s : σ)
    (low : Sem Unit) (spec : Sem (σ ⊕ β)) : Prop :=
  ∀ eL eS tr, Agree eL eS → eL.get R = some (enc s) → SimRes eL R enc retv (low eL tr) (spec eS tr)

theorem simres_spec_pop {eL : Env} {R : String} {enc : σ → Val} {retv : β → List Val}
    {rL : Res Unit} {rS : Res (σ ⊕ β)} (h : SimRes eL R enc retv rL rS) :
    SimRes eL R enc retv rL rS.pop := by
  cases rS with
  | ok a e t => cases a <;> exact h
  | _ => exact h

theorem simres_spec_withEnv {eL : Env} {R : String} {enc : σ → Val} {retv : β → List Val}
    {rL : Res Unit} {rS : Res (σ ⊕ β)} (e : Env) (h : SimRes eL R enc retv rL rS) :
    SimRes eL R enc retv rL (rS.withEnv e) := by
  cases rS with
  | ok a e t => cases a <;> exact h
  | _ => exact h

theorem simres_pop {f : Frame} {eL : Env} {R : String} {enc : σ → Val} {retv : β → List Val}
    {rL : Res Unit} {rS : Res (σ ⊕ β)} (hf : f.get R = none)
    (h : SimRes (f :: eL) R enc retv rL rS) : SimRes eL R enc retv rL.pop rS := by
  cases rS with
  | ok a e t =>
    cases a with
    | inl s' =>
      simp only [SimRes] at h ⊢
      rw [h, Env.upd_cons_of_none f eL R _ hf]; rfl
    | inr b =>
      simp only [SimRes] at h ⊢
      obtain ⟨v, hv⟩ := h
      exact ⟨v, by rw [hv, Env.upd_cons_of_none f eL R _ hf]; rfl⟩
  | panic v t => simp only [SimRes] at h ⊢; rw [h]; rfl
  | ret vs e t => trivial
  | timeout t => simp only [SimRes] at h ⊢; rw [h]; rfl
  | stuck => simp only [SimRes] at h ⊢; rw [h]; rfl

theorem simres_upd {eL : Env} {R : String} {enc : σ → Val} {retv : β → List Val} (w : Val)
    {rL : Res Unit} {rS : Res (σ ⊕ β)} (h : SimRes (eL.upd R w) R enc retv rL rS) :
    SimRes eL R enc retv rL rS := by
  cases rS with
  | ok a e t =>
    cases a with
    | inl s' => simp only [SimRes] at h ⊢; rw [h, Env.upd_upd]
    | inr b =>
      simp only [SimRes] at h ⊢
      obtain ⟨v, hv⟩ := h
      exact ⟨v, by rw [hv, Env.upd_upd]⟩
  | _ => exact h

/-! ### filters -/

/-- Semantics of the statements `filterWrap lf inner`. -/
def filtSem (f : Doc.FilterSem) (inner : Sem Unit) : Sem Unit :=
  match f with
  | .none => inner
  | f => Doc.ifSem f inner (fun env tr => .ok () env tr)

theorem bind_ok_unit (r : Res Unit) : (r.bind fun _ env tr => Res.ok () env tr) = r := by
  cases r <;> rfl

theorem evalSs_single (c : Ctx) (s : Stmt) : evalSs c [s] = evalS c s := by
  funext env tr
  simp only [evalSs]
  exact bind_ok_unit _

theorem evalSs_nil (c : Ctx) : evalSs c [] = fun env tr => Res.ok () env tr := by
  funext env tr; simp [evalSs]

theorem evalSs_filterWrap (c : Ctx) (lf : Filter) (inner : List Stmt) :
    evalSs c (filterWrap lf inner) = filtSem (evalFilter c lf) (evalSs c inner) := by
  cases lf with
  | none => simp [filterWrap, evalFilter, filtSem]
  | cond e => simp [filterWrap, evalFilter, filtSem, evalSs_single, evalS, evalSs_nil]
  | initCond x i e => simp [filterWrap, evalFilter, filtSem, evalSs_single, evalS, evalSs_nil]

theorem sim_filt {R : String} (hR : isTmp R = true) {enc : σ → Val} {retv : β → List Val} (s : σ)
    {f : Doc.FilterSem} (hf : GoodFilter f)
    (hx : ∀ x i c, f = .initCond x i c → isTmp x = false)
    {low : Sem Unit} {spec : Sem (σ ⊕ β)} (h : SimAt R enc retv s low spec) :
    SimAt R enc retv s (filtSem f low) (Doc.filter f s spec) := by
  intro eL eS tr hA hg
  cases hf with
  | none => exact h eL eS tr hA hg
  | cond hc =>
    rename_i c
    show SimRes eL R enc retv
      ((c eL tr).bind fun v env1 tr1 => match v with
        | .bool true => inFrame [] low env1 tr1
        | .bool false => inFrame [] (fun env tr => Res.ok () env tr) env1 tr1
        | _ => .stuck)
      ((c eS tr).bind fun v env1 tr1 => match v with
        | .bool true => spec env1 tr1
        | .bool false => .ok (.inl s) env1 tr1
        | _ => .stuck)
    rw [hc.resp eL eS tr hA]
    cases hr : c eS tr with
    | ok v e' tr' =>
      have := hc.ok_env hr; subst this
      simp only [Res.withEnv_ok, Res.bind_ok]
      cases v with
      | bool b =>
        cases b with
        | true =>
          exact simres_pop (f := []) rfl (h ([] :: eL) e' tr' hA.push_nil (by simpa using hg))
        | false =>
          simp only [SimRes, inFrame, Res.pop_ok, List.tail_cons]
          rw [Env.upd_same_val eL R _ hg]
      | _ => simp [SimRes]
    | panic v t => simp [SimRes]
    | ret vs e' t => exact absurd hr (hc.noret _ _ _ _ _)
    | timeout t => simp [SimRes]
    | stuck => simp [SimRes]
  | initCond x hgi hgc =>
    rename_i i c
    have hxt : isTmp x = false := hx x i c rfl
    have hxR : x ≠ R := by intro e; subst e; rw [hR] at hxt; cases hxt
    show SimRes eL R enc retv
      (((i ([] :: eL) tr).bind fun iv env1 tr1 =>
        match env1.declare x iv with
        | none => .stuck
        | some env2 => (c env2 tr1).bind fun v env3 tr3 => match v with
          | .bool true => inFrame [] low env3 tr3
          | .bool false => inFrame [] (fun env tr => Res.ok () env tr) env3 tr3
          | _ => .stuck).pop)
      (((i ([] :: eS) tr).bind fun iv env1 tr1 =>
        match env1.declare x iv with
        | none => .stuck
        | some env2 => (c env2 tr1).bind fun v env3 tr3 => match v with
          | .bool true => spec env3 tr3
          | .bool false => .ok (.inl s) env3 tr3
          | _ => .stuck).pop)
    rw [hgi.resp ([] :: eL) eS tr hA.push_nil, hgi.resp ([] :: eS) eS tr (Agree.push_nil (Agree.refl eS))]
    cases hr : i eS tr with
    | ok iv e' tr' =>
      have := hgi.ok_env hr; subst this
      simp only [Res.withEnv_ok, Res.bind_ok, declare_cons_nil]
      have hA2 : Agree ([(x, iv)] :: eL) ([(x, iv)] :: e') := hA.push _
      have hfr : Frame.get [(x, iv)] R = none := by
        rw [Frame.get_cons]; simp [hxR.symm]
      have hg2 : Env.get ([(x, iv)] :: eL) R = some (enc s) := by
        rw [Env.get_cons_of_none _ _ _ hfr]; exact hg
      rw [hgc.resp _ _ tr' hA2]
      apply simres_spec_pop
      apply simres_pop hfr
      cases hr2 : c ([(x, iv)] :: e') tr' with
      | ok v e'' tr'' =>
        have := hgc.ok_env hr2; subst this
        simp only [Res.withEnv_ok, Res.bind_ok]
        cases v with
        | bool b =>
          cases b with
          | true =>
            exact simres_pop (f := []) rfl
              (h ([] :: [(x, iv)] :: eL) _ tr'' hA2.push_nil (by simpa using hg2))
          | false =>
            simp only [SimRes, inFrame, Res.pop_ok, List.tail_cons]
            rw [Env.upd_same_val _ R _ hg2]
        | _ => simp [SimRes]
      | panic v t => simp [SimRes]
      | ret vs e'' t => exact absurd hr2 (hgc.noret _ _ _ _ _)
      | timeout t => simp [SimRes]
      | stuck => simp [SimRes]
    | panic v t => simp [SimRes]
    | ret vs e' t => exact absurd hr (hgi.noret _ _ _ _ _)
    | timeout t => simp [SimRes]
    | stuck => simp [SimRes]

/-! ### one loop -/

theorem loopFrame_get_tmp (key : Option String) (val : String) (k v : Val) (R : String)
    (hR : isTmp R = true)
    (hk : ∀ x, key = some x → isTmp x = false) (hv : isTmp val = false) :
    (loopFrame key (some val) k v).get R = none := by
  have hne : ∀ x, isTmp x = false → ¬ R = x := by
    intro x hx e; subst e; rw [hR] at hx; cases hx
  unfold loopFrame
  cases key with
  | none =>
    by_cases h1 : val = "_"
    · simp [h1]
    · simp [h1, Frame.get_cons, hne val hv]
  | some x =>
    have hx := hk x rfl
    by_cases h0 : x = "_" <;> by_cases h1 : val = "_" <;>
      simp [h0, h1, Frame.get_cons, hne val hv, hne x hx]

theorem loopFrame_getD (key : Option String) (val : Option String) (k v : Val) :
    loopFrame (some (key.getD "_")) val k v = loopFrame key val k v := by
  cases key <;> simp [loopFrame]

theorem sim_range {R : String} (hR : isTmp R = true) {enc : σ → Val} {retv : β → List Val}
    (key val : Option String) (bodyL : Sem Unit) {stepS : Val → Val → σ → Sem (σ ⊕ β)}
    (hgood : ∀ k v s, Good (stepS k v s))
    (hstep : ∀ k v s, SimAt R enc retv s (inFrame (loopFrame key val k v) bodyL) (stepS k v s)) :
    ∀ (es : List (Val × Val)) (s : σ),
      SimAt R enc retv s (rangeLoop key val bodyL es) (Doc.iter stepS es s)
  | [], s => by
    intro eL eS tr _ hg
    simp only [rangeLoop, Doc.iter, SimRes]
    rw [Env.upd_same_val eL R _ hg]
  | (k, v) :: es, s => by
    intro eL eS tr hA hg
    have h1 := hstep k v s eL eS tr hA hg
    simp only [rangeLoop, Doc.iter]
    cases hr : stepS k v s eS tr with
    | ok a e' tr' =>
      have := (hgood k v s).ok_env hr; subst this
      rw [hr] at h1
      cases a with
      | inl s' =>
        simp only [SimRes] at h1
        rw [h1]
        simp only [Res.bind_ok]
        have hg' : (eL.upd R (enc s')).get R = some (enc s') := Env.get_upd_same eL R _ _ hg
        exact simres_upd (enc s') (sim_range hR key val bodyL hgood hstep es s' _ e' tr'
          (hA.upd_left R hR _) hg')
      | inr b =>
        simp only [SimRes] at h1
        obtain ⟨w, hw⟩ := h1
        rw [hw]
        simp only [Res.bind_ok, Res.bind_ret, SimRes]
        exact ⟨w, rfl⟩
    | panic w t => rw [hr] at h1; simp only [SimRes] at h1; rw [h1]; simp [SimRes]
    | ret vs e' t => exact absurd hr ((hgood k v s).noret _ _ _ _ _)
    | timeout t => rw [hr] at h1; simp only [SimRes] at h1; rw [h1]; simp [SimRes]
    | stuck => rw [hr] at h1; simp only [SimRes] at h1; rw [h1]; simp [SimRes]

end GopModel.Mini
