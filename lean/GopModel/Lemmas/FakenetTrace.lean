/- C41 helper: lemmas about traces of the fakenet feeder (request/response cycle). -/
import GopModel.Lemmas.FakenetDefs
namespace GopModel.C41
open GopModel.TS GopModel.Generated.SyncFakenet

theorem phase_none_cons {e : Ev} {t : List Ev} (h : phase t = none) : phase (e :: t) = none := by
  cases e with
  | xfer ch sj rj x =>
    simp only [phase, h]
    split
    · rfl
    · split <;> rfl
  | call => simp only [phase, h]
  | insert => exact h
  | delete => exact h
  | closed => exact h
  | ret => exact h
  | spawn => exact h

theorem phase_append_some {a b : List Ev} {φ : Phase} (h : phase (a ++ b) = some φ) : ∃ ψ, phase b = some ψ := by
  induction a generalizing φ with
  | nil => exact ⟨φ, h⟩
  | cons e a ih =>
    cases hp : phase (a ++ b) with
    | none => rw [List.cons_append, phase_none_cons hp] at h; cases h
    | some ψ => exact ih hp

theorem xbc_append {a b : List Ev} (h : XferBeforeClose (a ++ b)) : XferBeforeClose b := by
  induction a with
  | nil => exact h
  | cons e a ih =>
    cases e <;> simp only [List.cons_append, XferBeforeClose] at h <;> first | exact ih h | exact ih h.2

theorem retOk_append {a b : List Ev} (h : RetOk (a ++ b)) : RetOk b := by
  induction a with
  | nil => exact h
  | cons e a ih =>
    cases e <;> simp only [List.cons_append, RetOk] at h <;> first | exact ih h | exact ih h.2

/-- buffers handed to the feeder (`f.input <- b`), oldest first -/
def inputs : List Ev → List Val
  | [] => []
  | .xfer ch _ _ x :: t => if ch = 0 then inputs t ++ [x] else inputs t
  | _ :: t => inputs t

/-- arguments of the calls of the source function (`f.source(b)`), oldest first -/
def calls : List Ev → List Val
  | [] => []
  | .call _ b _ :: t => calls t ++ [b]
  | _ :: t => calls t

/-- one step of `phase`, as a relation -/
theorem phase_cons_cases {e : Ev} {t : List Ev} {φ : Phase} (h : phase (e :: t) = some φ) :
    (∃ sj rj x, e = .xfer 0 sj rj x ∧ phase t = some .idle ∧ φ = .got sj x) ∨
    (∃ sj j b r, e = .xfer 1 sj j r ∧ phase t = some (.called j b r) ∧ φ = .idle) ∨
    (∃ i j b r, e = .call i b r ∧ phase t = some (.got j b) ∧ φ = .called j b r) ∨
    (phase t = some φ ∧ (∀ ch sj rj x, e = .xfer ch sj rj x → ch ≠ 0 ∧ ch ≠ 1) ∧ ∀ i b r, e ≠ .call i b r) := by
  cases e with
  | xfer ch sj rj x =>
    simp only [phase] at h
    split at h
    · rename_i h0; subst h0
      split at h
      · rename_i hp; cases h; left; exact ⟨sj, rj, x, rfl, hp, rfl⟩
      · cases h
    · rename_i h0
      split at h
      · rename_i h1; subst h1
        split at h
        · rename_i j b r hp
          split at h
          · rename_i hc; obtain ⟨rfl, rfl⟩ := hc; cases h
            right; left; exact ⟨sj, rj, b, x, rfl, hp, rfl⟩
          · cases h
        · cases h
      · rename_i h1
        right; right; right
        refine ⟨h, ?_, (fun i b r he => nomatch he)⟩
        intro ch' sj' rj' x' he; cases he; exact ⟨h0, h1⟩
  | call i b r =>
    simp only [phase] at h
    split at h
    · rename_i j b' hp
      split at h
      · rename_i hb; subst hb; cases h
        right; right; left; exact ⟨i, j, b, r, rfl, hp, rfl⟩
      · cases h
    · cases h
  | insert => right; right; right; exact ⟨h, (fun _ _ _ _ he => nomatch he), (fun _ _ _ he => nomatch he)⟩
  | delete => right; right; right; exact ⟨h, (fun _ _ _ _ he => nomatch he), (fun _ _ _ he => nomatch he)⟩
  | closed => right; right; right; exact ⟨h, (fun _ _ _ _ he => nomatch he), (fun _ _ _ he => nomatch he)⟩
  | ret => right; right; right; exact ⟨h, (fun _ _ _ _ he => nomatch he), (fun _ _ _ he => nomatch he)⟩
  | spawn => right; right; right; exact ⟨h, (fun _ _ _ _ he => nomatch he), (fun _ _ _ he => nomatch he)⟩

/-- `inputs`/`calls` of a cons whose head is not part of the cycle -/
theorem inputs_calls_skip {e : Ev} {t : List Ev}
    (h1 : ∀ ch sj rj x, e = .xfer ch sj rj x → ch ≠ 0 ∧ ch ≠ 1) (h2 : ∀ i b r, e ≠ .call i b r) :
    inputs (e :: t) = inputs t ∧ calls (e :: t) = calls t := by
  cases e with
  | xfer ch sj rj x =>
    have := (h1 ch sj rj x rfl).1
    simp [inputs, calls, this]
  | call i b r => exact absurd rfl (h2 i b r)
  | insert => exact ⟨rfl, rfl⟩
  | delete => exact ⟨rfl, rfl⟩
  | closed => exact ⟨rfl, rfl⟩
  | ret => exact ⟨rfl, rfl⟩
  | spawn => exact ⟨rfl, rfl⟩

theorem inputs_calls {t : List Ev} : ∀ {φ : Phase}, phase t = some φ →
    (φ = .idle → calls t = inputs t) ∧ (∀ j b, φ = .got j b → inputs t = calls t ++ [b]) ∧
    (∀ j b r, φ = .called j b r → calls t = inputs t) := by
  induction t with
  | nil => intro φ h; simp [phase] at h; subst h; simp [inputs, calls]
  | cons e t ih =>
    intro φ h
    rcases phase_cons_cases h with ⟨sj, rj, x, rfl, hp, rfl⟩ | ⟨sj, j, b, r, rfl, hp, rfl⟩ | ⟨i, j, b, r, rfl, hp, rfl⟩ | ⟨hp, h1, h2⟩
    · have := (ih hp).1 rfl
      refine ⟨(fun h => nomatch h), ?_, (fun _ _ _ h => nomatch h)⟩
      intro j b hb; cases hb
      simp [inputs, calls, this]
    · have := (ih hp).2.2 j b r rfl
      refine ⟨fun _ => ?_, (fun _ _ h => nomatch h), (fun _ _ _ h => nomatch h)⟩
      simpa [inputs, calls] using this
    · have := (ih hp).2.1 j b rfl
      refine ⟨(fun h => nomatch h), (fun _ _ h => nomatch h), ?_⟩
      intro j' b' r' hb; cases hb
      simp [inputs, calls, this]
    · obtain ⟨e1, e2⟩ := inputs_calls_skip (t := t) h1 h2
      rw [e1, e2]; exact ih hp

/-- events that take part in the request/response cycle -/
def Relevant : Ev → Prop
  | .xfer ch _ _ _ => ch = 0 ∨ ch = 1
  | .call _ _ _ => True
  | _ => False

theorem not_relevant_of_skip {e : Ev}
    (h1 : ∀ ch sj rj x, e = .xfer ch sj rj x → ch ≠ 0 ∧ ch ≠ 1) (h2 : ∀ i b r, e ≠ .call i b r) : ¬Relevant e := by
  cases e with
  | xfer ch sj rj x => have := h1 ch sj rj x rfl; simp [Relevant]; omega
  | call i b r => exact absurd rfl (h2 i b r)
  | insert => simp [Relevant]
  | delete => simp [Relevant]
  | closed => simp [Relevant]
  | ret => simp [Relevant]
  | spawn => simp [Relevant]

theorem got_shape {j : Nat} {b : Val} : ∀ (t : List Ev), phase t = some (.got j b) →
    ∃ mid2 pre q, t = mid2 ++ Ev.xfer 0 j q b :: pre ∧ (∀ e ∈ mid2, ¬Relevant e) := by
  intro t
  induction t with
  | nil => intro h; simp [phase] at h
  | cons e t ih =>
    intro h
    rcases phase_cons_cases h with ⟨sj, rj, x, rfl, hp, he⟩ | ⟨sj, j', b', r, rfl, hp, he⟩ | ⟨i, j', b', r, rfl, hp, he⟩ | ⟨hp, h1, h2⟩
    · cases he; exact ⟨[], t, rj, rfl, by simp⟩
    · cases he
    · cases he
    · obtain ⟨m, pre, q, rfl, hm⟩ := ih hp
      refine ⟨e :: m, pre, q, rfl, ?_⟩
      intro e' he'
      simp at he'
      rcases he' with rfl | he'
      · exact not_relevant_of_skip h1 h2
      · exact hm _ he'

theorem called_shape {j : Nat} {b r : Val} : ∀ (t : List Ev), phase t = some (.called j b r) →
    ∃ mid1 mid2 pre i q, t = mid1 ++ Ev.call i b r :: (mid2 ++ Ev.xfer 0 j q b :: pre) ∧
      (∀ e ∈ mid1, ¬Relevant e) ∧ (∀ e ∈ mid2, ¬Relevant e) := by
  intro t
  induction t with
  | nil => intro h; simp [phase] at h
  | cons e t ih =>
    intro h
    rcases phase_cons_cases h with ⟨sj, rj, x, rfl, hp, he⟩ | ⟨sj, j', b', r', rfl, hp, he⟩ | ⟨i, j', b', r', rfl, hp, he⟩ | ⟨hp, h1, h2⟩
    · cases he
    · cases he
    · cases he
      obtain ⟨m2, pre, q, rfl, hm⟩ := got_shape t hp
      exact ⟨[], m2, pre, i, q, rfl, by simp, hm⟩
    · obtain ⟨m1, m2, pre, i, q, rfl, hm1, hm2⟩ := ih hp
      refine ⟨e :: m1, m2, pre, i, q, rfl, ?_, hm2⟩
      intro e' he'
      simp at he'
      rcases he' with rfl | he'
      · exact not_relevant_of_skip h1 h2
      · exact hm1 _ he'

end GopModel.C41
