/- Preservation of `Inv` (C39) by every action of `step`. -/
import GopModel.Lemmas.InFlightInvR
set_option linter.unusedSimpArgs false
set_option linter.unnecessarySimpa false
namespace GopModel.InFlight

theorem inv_close {m m' : M} (h : Inv m) (hs : step .close m = some m') : Inv m' := by
  simp only [step, h.np, Bool.false_eq_true, if_false, Option.some.injEq] at hs
  subst hs
  rw [fire_eq tClose noArgs m (by simp [tClose]) (by simp [tClose]) (by simp [tClose])]
  obtain ⟨e1, e2, e3, e4⟩ := epi_D h (tClose noArgs m.st).1 (tClose noArgs m.st).2 rfl rfl
    (by intro hd; have := h.d1 hd; simp_all [tClose, St.idle, shut_isSome]) rfl rfl rfl
  constructor
  inv_rest h e1 e2 e3 e4 [tClose]

theorem inv_cancel {m m' : M} (id : ID) (h : Inv m) (hs : step (.cancel id) m = some m') : Inv m' := by
  simp only [step, h.np, Bool.false_eq_true, if_false, Option.some.injEq] at hs
  subst hs
  rw [fire_eq tLookup (argsID id) m (by simp [tLookup]) (by simp [tLookup]) (by simp [tLookup])]
  obtain ⟨e1, e2, e3, e4⟩ := epi_D h (tLookup (argsID id) m.st).1 (tLookup (argsID id) m.st).2 rfl rfl
    (stab_same h) rfl rfl rfl
  constructor
  inv_rest h e1 e2 e3 e4 [tLookup]

theorem inv_wait {m m' : M} (h : Inv m) (hs : step .wait m = some m') : Inv m' := by
  simp only [step, h.np, Bool.false_eq_true, if_false] at hs
  split at hs
  case isFalse => cases hs
  simp only [Option.some.injEq] at hs
  subst hs
  rw [fire_eq tWait noArgs m (by simp [tWait]) (by simp [tWait]) (by simp [tWait])]
  obtain ⟨e1, e2, e3, e4⟩ := epi_D h (tWait noArgs m.st).1 (tWait noArgs m.st).2 rfl rfl
    (stab_same h) rfl rfl rfl
  constructor
  inv_rest h e1 e2 e3 e4 [tWait]

theorem inv_writeFail {m m' : M} (h : Inv m) (hs : step .writeFail m = some m') : Inv m' := by
  simp only [step, h.np, Bool.false_eq_true, if_false, Option.some.injEq] at hs
  subst hs
  rw [fire_eq tWriteFailed noArgs m (by simp [tWriteFailed]; split <;> rfl)
    (by simp [tWriteFailed]; split <;> simp) (by simp [tWriteFailed]; split <;> simp)]
  obtain ⟨e1, e2, e3, e4⟩ := epi_D h (tWriteFailed noArgs m.st).1 (tWriteFailed noArgs m.st).2
    (by simp [tWriteFailed]; split <;> rfl) (by simp [tWriteFailed]; split <;> rfl)
    (by intro hd; have := h.d1 hd; simp only [tWriteFailed]; split <;> simp_all [St.idle, shut_isSome])
    (by simp [tWriteFailed]; split <;> rfl) (by simp [tWriteFailed]; split <;> rfl) (by simp [tWriteFailed]; split <;> rfl)
  constructor
  inv_rest h e1 e2 e3 e4 [tWriteFailed, apply_ite]

theorem inv_start {m m' : M} (h : Inv m) (hs : step .start m = some m') : Inv m' := by
  simp only [step, h.np, Bool.false_eq_true, if_false] at hs
  split at hs
  case isTrue => cases hs
  simp only [Option.some.injEq] at hs
  subst hs
  rw [fire_eq tStart noArgs m (by simp [tStart]; split <;> rfl)
    (by simp [tStart]; split <;> simp) (by simp [tStart]; split <;> simp)]
  obtain ⟨e1, e2, e3, e4⟩ := epi_D h (tStart noArgs m.st).1 (tStart noArgs m.st).2
    (by simp [tStart]; split <;> rfl) (by simp [tStart]; split <;> rfl)
    (by intro hd; have := h.d1 hd; simp only [tStart, hd]; simp_all)
    (by simp [tStart]; split <;> rfl) (by simp [tStart]; split <;> rfl) (by simp [tStart]; split <;> rfl)
  constructor
  inv_rest h e1 e2 e3 e4 [tStart, apply_ite]

theorem inv_notifyExit {m m' : M} (h : Inv m) (hs : step .notifyExit m = some m') : Inv m' := by
  simp only [step, h.np, Bool.false_eq_true, if_false] at hs
  split at hs
  case isTrue => cases hs
  rename_i hne
  simp only [Option.some.injEq] at hs
  subst hs
  rw [fire_eq tNotifyExit noArgs m (by simp [tNotifyExit]) (by simp [tNotifyExit]) (by simp [tNotifyExit])]
  have hnd : m.st.done = false := by
    cases hd : m.st.done
    · rfl
    · have := (done_quiet h hd).2.2.1; omega
  obtain ⟨e1, e2, e3, e4⟩ := epi_D h (tNotifyExit noArgs m.st).1 (tNotifyExit noArgs m.st).2 rfl rfl
    (by simp [hnd]) rfl rfl rfl
  constructor
  case notif => have := h.notif; simp [epi_outNotif, tNotifyExit]; omega
  inv_rest h e1 e2 e3 e4 [tNotifyExit]

theorem inv_notifyEnter {m m' : M} (h : Inv m) (hs : step .notifyEnter m = some m') : Inv m' := by
  simp only [step, h.np, Bool.false_eq_true, if_false, Option.some.injEq] at hs
  subst hs
  rw [fire_eq tNotifyEnter noArgs m (by simp [tNotifyEnter]; split <;> rfl)
    (by simp [tNotifyEnter]; split <;> simp) (by simp [tNotifyEnter]; split <;> simp)]
  simp only [epi_attempted]
  cases hc : (m.st.outgoing.length == 0 && m.st.byID.length == 0 && m.st.shuttingDown.isSome)
  · -- accepted: outNotif++
    have hnd : m.st.done = false := by
      cases hd : m.st.done
      · rfl
      · obtain ⟨q1, _, _, _, _, q6, _, _, _, _, q11⟩ := done_quiet h hd
        simp [q1, q6, q11] at hc
    obtain ⟨e1, e2, e3, e4⟩ := epi_D h (tNotifyEnter noArgs m.st).1 (tNotifyEnter noArgs m.st).2
      (by simp [tNotifyEnter, hc]) (by simp [tNotifyEnter, hc]) (by simp [hnd])
      (by simp [tNotifyEnter, hc]) (by simp [tNotifyEnter, hc]) (by simp [tNotifyEnter, hc])
    have ha : (tNotifyEnter noArgs m.st).2.attempted = true := by simp [tNotifyEnter, hc]
    simp only [ha, if_true]
    constructor
    case notif => have := h.notif; simp [epi_outNotif, tNotifyEnter, hc]; omega
    inv_rest h e1 e2 e3 e4 [tNotifyEnter, hc]
  · obtain ⟨e1, e2, e3, e4⟩ := epi_D h (tNotifyEnter noArgs m.st).1 (tNotifyEnter noArgs m.st).2
      (by simp [tNotifyEnter, hc]) (by simp [tNotifyEnter, hc])
      (by intro hd; have := stab_same h hd; simpa [tNotifyEnter, hc] using this)
      (by simp [tNotifyEnter, hc]) (by simp [tNotifyEnter, hc]) (by simp [tNotifyEnter, hc])
    have ha : (tNotifyEnter noArgs m.st).2.attempted = false := by simp [tNotifyEnter, hc]
    simp only [ha, Bool.false_eq_true, if_false]
    constructor
    inv_rest h e1 e2 e3 e4 [tNotifyEnter, hc]

/-- Finishes an action that does not call `updateInFlight`. -/
syntax "inv_ghost " ident : tactic
macro_rules
  | `(tactic| inv_ghost $h) => `(tactic| all_goals first
    | rfl | exact ($h).np | exact ($h).calls | exact ($h).notif | exact ($h).reqsI
    | exact ($h).d1 | exact ($h).d2 | exact ($h).d3)

theorem inv_callNew {m m' : M} (h : Inv m) (hs : step .callNew m = some m') : Inv m' := by
  simp only [step, h.np, Bool.false_eq_true, if_false, Option.some.injEq] at hs
  subst hs
  constructor
  case calls => exact h.calls.new
  inv_ghost h

theorem inv_callWriteOk {m m' : M} (c : Call) (h : Inv m) (hs : step (.callWriteOk c) m = some m') : Inv m' := by
  simp only [step, h.np, Bool.false_eq_true, if_false] at hs
  split at hs
  case isFalse => cases hs
  simp only [Option.some.injEq] at hs
  subst hs
  constructor
  inv_ghost h

theorem inv_callMarshalFail {m m' : M} (c : Call) (h : Inv m) (hs : step (.callMarshalFail c) m = some m') : Inv m' := by
  simp only [step, h.np, Bool.false_eq_true, if_false] at hs
  split at hs
  case isFalse => cases hs
  rename_i hc
  simp only [Option.some.injEq] at hs
  subst hs
  rw [retire_ok (by simpa using (h.calls.pReg c hc).2.1)]
  constructor
  case calls => exact h.calls.retirePending hc
  inv_ghost h

theorem inv_callRegister {m m' : M} (c : Call) (h : Inv m) (hs : step (.callRegister c) m = some m') : Inv m' := by
  simp only [step, h.np, Bool.false_eq_true, if_false] at hs
  split at hs
  case isFalse => cases hs
  rename_i hc
  have h0 : Inv { m with pendingReg := m.pendingReg.erase c } :=
    { h with calls := h.calls.erasePending c }
  rw [fire_eq tCallRegister (argsCall c) _ (by simp only [tCallRegister]; split <;> rfl)
    (by simp only [tCallRegister]; split <;> simp) (by simp only [tCallRegister]; split <;> simp)] at hs
  simp only [epi_err] at hs
  cases hsd : m.st.shuttingDown with
  | none =>
    have hnd : m.st.done = false := by
      cases hd : m.st.done
      · rfl
      · have := (h.d1 hd).2.2.2; rw [hsd] at this; cases this
    obtain ⟨e1, e2, e3, e4⟩ := epi_D h0 (tCallRegister (argsCall c) m.st).1 (tCallRegister (argsCall c) m.st).2
      (by simp [tCallRegister, hsd]) (by simp [tCallRegister, hsd]) (by simp [hnd])
      (by simp [tCallRegister, hsd]) (by simp [tCallRegister, hsd]) (by simp [tCallRegister, hsd])
    have he : (tCallRegister (argsCall c) m.st).2.err = none := by simp [tCallRegister, hsd]
    simp only [he, Option.isSome_none, Bool.false_eq_true, if_false, Option.some.injEq] at hs
    subst hs
    constructor
    case calls => simpa [epi_outgoing, tCallRegister, hsd, argsCall] using h.calls.register hc
    inv_rest h0 e1 e2 e3 e4 [tCallRegister, hsd]
  | some cause =>
    obtain ⟨e1, e2, e3, e4⟩ := epi_D h0 (tCallRegister (argsCall c) m.st).1 (tCallRegister (argsCall c) m.st).2
      (by simp [tCallRegister, hsd]) (by simp [tCallRegister, hsd])
      (by intro hd; have := stab_same h hd; simpa [tCallRegister, hsd] using this)
      (by simp [tCallRegister, hsd]) (by simp [tCallRegister, hsd]) (by simp [tCallRegister, hsd])
    have he : (tCallRegister (argsCall c) m.st).2.err = some (.clientClosing cause) := by simp [tCallRegister, hsd]
    simp only [he, Option.isSome_some, if_true, Option.some.injEq] at hs
    subst hs
    rw [retire_ok (by simpa [tCallRegister, hsd] using (h.calls.pReg c hc).2.1)]
    constructor
    case calls => simpa [epi_outgoing, tCallRegister, hsd] using h.calls.retirePending hc
    inv_rest h0 e1 e2 e3 e4 [tCallRegister, hsd]

theorem inv_callWriteFail {m m' : M} (c : Call) (h : Inv m) (hs : step (.callWriteFail c) m = some m') : Inv m' := by
  simp only [step, h.np, Bool.false_eq_true, if_false] at hs
  split at hs
  case isFalse => cases hs
  have h0 : Inv { m with pendingWrite := m.pendingWrite.erase c } := { h with }
  simp only [Option.some.injEq] at hs
  subst hs
  cases hg : (Map.get m.st.outgoing c.id == some c)
  · rw [fire_eq tCallWriteFailed (argsCall c) _ (by simp [tCallWriteFailed, argsCall, hg])
      (by simp [tCallWriteFailed, argsCall, hg]) (by simp [tCallWriteFailed, argsCall, hg])]
    obtain ⟨e1, e2, e3, e4⟩ := epi_D h0 (tCallWriteFailed (argsCall c) m.st).1 (tCallWriteFailed (argsCall c) m.st).2
      (by simp [tCallWriteFailed, argsCall, hg]) (by simp [tCallWriteFailed, argsCall, hg])
      (by intro hd; have := stab_same h hd; simpa [tCallWriteFailed, argsCall, hg] using this)
      (by simp [tCallWriteFailed, argsCall, hg]) (by simp [tCallWriteFailed, argsCall, hg]) (by simp [tCallWriteFailed, argsCall, hg])
    constructor
    inv_rest h0 e1 e2 e3 e4 [tCallWriteFailed, argsCall, hg]
  · have hk : (c.id, c) ∈ m.st.outgoing := h.calls.get_some.mp (by simpa using hg)
    have hnd : m.st.done = false := by
      cases hd : m.st.done
      · rfl
      · have := (done_quiet h hd).1; rw [this] at hk; cases hk
    rw [fire_eq tCallWriteFailed (argsCall c) _ (by simp [tCallWriteFailed, argsCall, hg])
      (by simpa [tCallWriteFailed, argsCall, hg] using (h.calls.oEnt _ _ hk).2.2) (by simp [tCallWriteFailed, argsCall, hg])]
    obtain ⟨e1, e2, e3, e4⟩ := epi_D h0 (tCallWriteFailed (argsCall c) m.st).1 (tCallWriteFailed (argsCall c) m.st).2
      (by simp [tCallWriteFailed, argsCall, hg]) (by simp [tCallWriteFailed, argsCall, hg])
      (by simp [hnd])
      (by simp [tCallWriteFailed, argsCall, hg]) (by simp [tCallWriteFailed, argsCall, hg]) (by simp [tCallWriteFailed, argsCall, hg])
    constructor
    case calls => simpa [epi_outgoing, tCallWriteFailed, argsCall, hg] using h.calls.retireEntry hk
    inv_rest h0 e1 e2 e3 e4 [tCallWriteFailed, argsCall, hg]

theorem reading_not_done {m : M} (h : Inv m) (hr : m.st.reading = true) : m.st.done = false := by
  cases hd : m.st.done
  · rfl
  · have := (h.d1 hd).2.1; rw [hr] at this; cases this

theorem inv_recvResponse {m m' : M} (id : ID) (h : Inv m) (hs : step (.recvResponse id) m = some m') : Inv m' := by
  simp only [step, h.np, Bool.false_eq_true, if_false] at hs
  split at hs
  case isFalse => cases hs
  rename_i hrd
  have hnd := reading_not_done h hrd
  simp only [Option.some.injEq] at hs
  subst hs
  cases hg : Map.get m.st.outgoing id with
  | none =>
    rw [fire_eq tResponse (argsID id) _ (by simp [tResponse, argsID, hg])
      (by simp [tResponse, argsID, hg]) (by simp [tResponse, argsID, hg])]
    obtain ⟨e1, e2, e3, e4⟩ := epi_D h (tResponse (argsID id) m.st).1 (tResponse (argsID id) m.st).2
      (by simp [tResponse, argsID, hg]) (by simp [tResponse, argsID, hg]) (by simp [hnd])
      (by simp [tResponse, argsID, hg]) (by simp [tResponse, argsID, hg]) (by simp [tResponse, argsID, hg])
    constructor
    inv_rest h e1 e2 e3 e4 [tResponse, argsID, hg]
  | some ac =>
    have hk : (id, ac) ∈ m.st.outgoing := h.calls.get_some.mp hg
    rw [fire_eq tResponse (argsID id) _ (by simp [tResponse, argsID, hg])
      (by simpa [tResponse, argsID, hg] using (h.calls.oEnt _ _ hk).2.2) (by simp [tResponse, argsID, hg])]
    obtain ⟨e1, e2, e3, e4⟩ := epi_D h (tResponse (argsID id) m.st).1 (tResponse (argsID id) m.st).2
      (by simp [tResponse, argsID, hg]) (by simp [tResponse, argsID, hg]) (by simp [hnd])
      (by simp [tResponse, argsID, hg]) (by simp [tResponse, argsID, hg]) (by simp [tResponse, argsID, hg])
    constructor
    case calls => simpa [epi_outgoing, tResponse, argsID, hg] using h.calls.retireEntry hk
    inv_rest h e1 e2 e3 e4 [tResponse, argsID, hg]

theorem inv_readerExit {m m' : M} (h : Inv m) (hs : step .readerExit m = some m') : Inv m' := by
  simp only [step, h.np, Bool.false_eq_true, if_false] at hs
  split at hs
  case isFalse => cases hs
  rename_i hrd
  have hnd := reading_not_done h hrd
  simp only [Option.some.injEq] at hs
  subst hs
  rw [fire_eq tReaderExit noArgs _ (by simp [tReaderExit])
    (by
      simp only [tReaderExit, List.mem_map]
      rintro e ⟨⟨k, c⟩, hm, rfl⟩
      simpa using (h.calls.oEnt k c hm).2.2)
    (by simpa [tReaderExit] using h.calls.vals_nodup)]
  obtain ⟨e1, e2, e3, e4⟩ := epi_D h (tReaderExit noArgs m.st).1 (tReaderExit noArgs m.st).2
    (by simp [tReaderExit]) (by simp [tReaderExit]) (by simp [hnd])
    (by simp [tReaderExit]) (by simp [tReaderExit]) (by simp [tReaderExit])
  constructor
  case calls => simpa [epi_outgoing, tReaderExit] using h.calls.retireAllEntries
  inv_rest h e1 e2 e3 e4 [tReaderExit]

end GopModel.InFlight
