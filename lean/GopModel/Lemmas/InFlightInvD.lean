/- C39: a leaked request is never finished (so `done` is never closed). -/
import GopModel.Lemmas.InFlightInvC
set_option linter.unusedSimpArgs false
set_option linter.unnecessarySimpa false
namespace GopModel.InFlight

theorem retire_reqs (m : M) (e : Call × ID) : (retire m e).reqs = m.reqs := by
  unfold retire; split <;> rfl

theorem retireAll_reqs : ∀ (es : List (Call × ID)) (m : M), (retireAll es m).reqs = m.reqs
  | [], _ => rfl
  | e :: es, m => by
    simp only [retireAll, List.foldl_cons]
    have := retireAll_reqs es (retire m e)
    simp only [retireAll] at this
    rw [this, retire_reqs]

theorem fire_reqs (t : Args → St → St × Out) (a : Args) (m : M) : (fire t a m).1.reqs = m.reqs := by
  simp only [fire, retireAll_reqs]

theorem reachable_run {m m' : M} (h : Reachable m) : ∀ (as : List Act), run as m = some m' → Reachable m' := by
  intro as
  induction as generalizing m with
  | nil => intro hr; simp only [run, Option.some.injEq] at hr; exact hr ▸ h
  | cons a t ih =>
    intro hr
    simp only [run] at hr
    cases hs : step a m with
    | none => rw [hs] at hr; cases hr
    | some m1 => rw [hs] at hr; exact ih (Reachable.step a h hs) hr

/-- A leaked request (ErrAsyncResponse returned for a notification) is never finished. -/
theorem leak_persists {m m' : M} (hi : Inv m) {r : Req} (hl : (r, Phase.leaked) ∈ m.reqs) (a : Act)
    (hs : step a m = some m') : (r, Phase.leaked) ∈ m'.reqs := by
  have hph : phaseOf m r = some Phase.leaked := (phaseOf_eq hi).mpr hl
  have hne : ∀ q p, phaseOf m q = some p → p ≠ Phase.leaked → q ≠ r := by
    intro q p hq hp hqr; subst hqr; rw [hph] at hq; exact hp (Option.some.inj hq).symm
  have hset : ∀ (l : List (Req × Phase)) q p, q ≠ r → (r, Phase.leaked) ∈ l → (r, Phase.leaked) ∈ setPh l q p :=
    fun l q p hq hm => mem_setPh.mpr (Or.inl ⟨fun e => hq e.symm, hm⟩)
  cases a with
  | respond q =>
    simp only [step, hi.np, Bool.false_eq_true, if_false] at hs
    split at hs
    case isFalse => cases hs
    rename_i hg
    split at hs
    · rename_i r' hreq
      simp only [Option.some.injEq] at hs; subst hs
      have hreq' : Map.get m.st.byID q.id = some r' := by
        have := fire_eq tLookup (argsID q.id) m (by simp [tLookup]) (by simp [tLookup]) (by simp [tLookup])
        rw [this] at hreq; simpa [epi_req, tLookup, argsID] using hreq
      have hin := (Map.get_eq_some hi.reqsI.bKeys).mp hreq'
      obtain ⟨_, _, p, hp, hp16⟩ := (hi.reqsI.bEnt _ _).mp hin
      have hr' : r' ≠ r := by
        intro e; subst e
        have := phase_unique hi.reqsI.qNodup hl hp; subst this; cases hp16
      rw [setPhase_eq]; simp only [fire_reqs]
      exact hset _ _ _ hr' hl
    · simp only [Option.some.injEq] at hs; subst hs; rw [fire_reqs]; exact hl
  | dequeue =>
    simp only [step, hi.np, Bool.false_eq_true, if_false] at hs
    split at hs
    case isFalse => cases hs
    split at hs
    · rename_i r' hreq
      simp only [Option.some.injEq] at hs; subst hs
      have hq : r' ∈ m.st.queue := by
        have := fire_eq tDequeue noArgs m (by simp only [tDequeue]; split <;> rfl)
          (by simp only [tDequeue]; split <;> simp) (by simp only [tDequeue]; split <;> simp)
        rw [this] at hreq
        simp only [epi_req, tDequeue] at hreq
        split at hreq
        · rename_i r0 q0 hq0; simp only [Option.some.injEq] at hreq; subst hreq; rw [hq0]; simp
        · cases hreq
      have hp := (hi.reqsI.queueM r').mp hq
      have hr' : r' ≠ r := by
        intro e; subst e
        have := phase_unique hi.reqsI.qNodup hl hp; cases this
      rw [setPhase_eq]; simp only [fire_reqs]
      exact hset _ _ _ hr' hl
    · simp only [Option.some.injEq] at hs; subst hs; rw [fire_reqs]; exact hl
  | accept id =>
    simp only [step, hi.np, Bool.false_eq_true, if_false] at hs
    split at hs
    case isFalse => cases hs
    simp only [Option.some.injEq] at hs; subst hs
    simp only [fire_reqs]
    exact List.mem_cons_of_mem _ hl
  | prFinish q =>
    simp only [step, hi.np, Bool.false_eq_true, if_false] at hs
    split at hs
    case isFalse => cases hs
    rename_i hg
    simp only [Option.some.injEq] at hs; subst hs
    rw [dropReq_eq]; simp only [fire_reqs]
    refine mem_dropR.mpr ⟨hl, ?_⟩
    intro e; subst e
    rw [hph] at hg; simp at hg
  | _ =>
    unfold step at hs
    (try simp only [hi.np, Bool.false_eq_true, if_false] at hs)
    (repeat' split at hs) <;> (try cases hs) <;>
      (try simp only [setPhase_eq, fire_reqs, retire_reqs]) <;>
      first
        | exact hl
        | (apply hset _ _ _ _ hl
           first
            | exact hne _ _ (by assumption) (by simp)
            | (rename_i h1; simp only [Bool.and_eq_true, decide_eq_true_eq] at h1; exact hne _ _ h1.1 (by simp))
            | (rename_i h1 h2; simp only [Bool.and_eq_true, decide_eq_true_eq] at h1; exact hne _ _ h1.1 (by simp)))

theorem leak_never_done {m : M} (h : Reachable m) {r : Req} (hl : (r, Phase.leaked) ∈ m.reqs) :
    ∀ (as : List Act) (m' : M), run as m = some m' → m'.st.done = false := by
  intro as
  induction as generalizing m with
  | nil =>
    intro m' hr
    simp only [run, Option.some.injEq] at hr; subst hr
    exact has_req_not_done (inv_reachable h) hl
  | cons a t ih =>
    intro m' hr
    simp only [run] at hr
    cases hs : step a m with
    | none => rw [hs] at hr; cases hr
    | some m1 =>
      rw [hs] at hr
      exact ih (Reachable.step a h hs) (leak_persists (inv_reachable h) hl a hs) m' hr

end GopModel.InFlight
