/- C41 helper: the structural layer (valid pcs, mutex, close-once, nobody parked after close) is preserved by every step. -/
import GopModel.Lemmas.FakenetDefs
namespace GopModel.C41
open GopModel.TS GopModel.Generated.SyncFakenet

set_option hygiene false in
macro "basic_tac" : tactic => `(tactic| (
  simp only [exec] at hex
  repeat' (split at hex)
  all_goals first
    | (cases hex; done)
    | (cases hex
       refine ⟨?_, ?_, ?_, ?_, ?_, ?_, ?_, ?_, ?_, ?_, ?_, ?_⟩ <;> simp only [State.setThread, State.emit, State.doPanic, List.getElem?_set] <;> grind [holds, goto, Valid, Thread.put, Thread.get, Thread.putOpt])))

set_option hygiene false in
macro "basic_fin" : tactic => `(tactic| (
  refine ⟨?_, ?_, ?_, ?_, ?_, ?_, ?_, ?_, ?_, ?_, ?_, ?_⟩ <;> simp only [State.setThread, State.emit, State.doPanic, List.getElem?_set] <;> grind [holds, goto, Valid, Thread.put, Thread.get, Thread.putOpt, findSend, findRecv]))

set_option maxHeartbeats 4000000 in
theorem basic_step {s s' : State} {l : Label} (I : Basic s) (h : next sys s l = some s') : Basic s' := by
  cases l with
  | thread j k p v =>
    obtain ⟨hp, t, ht, hst, ins, hins, hex⟩ := next_thread h
    have hv := I.valid j t ht
    obtain ⟨_, hne, hval, hrun, h1, h2, hc1, hc2, hc3, hc4, hflag, hc5⟩ := I
    have hjl := getElem?_lt ht
    rcases instr_cases hv hins with ⟨hfn, hpc, rfl⟩ | ⟨hfn, hpc, rfl⟩ | ⟨hfn, hpc, rfl⟩ | ⟨hfn, hpc, rfl⟩ | ⟨hfn, hpc, rfl⟩ | ⟨hfn, hpc, rfl⟩ | ⟨hfn, hpc, rfl⟩ | ⟨hfn, hpc, rfl⟩ | ⟨hfn, hpc, rfl⟩ | ⟨hfn, hpc, rfl⟩ | ⟨hfn, hpc, rfl⟩ | ⟨hfn, hpc, rfl⟩ | ⟨hfn, hpc, rfl⟩ | ⟨hfn, hpc, rfl⟩ | ⟨hfn, hpc, rfl⟩ | ⟨hfn, hpc, rfl⟩
    · sel_cases basic_fin
    · basic_tac
    · sel_cases basic_fin
    · basic_tac
    · basic_tac
    · sel_cases basic_fin
    · basic_tac
    · basic_tac
    · sel_cases basic_fin
    · basic_tac
    · basic_tac
    · basic_tac
    · basic_tac
    · -- close(f.done)
      have hps := no_parked_sender_done hval
      rcases exec_close hex with ⟨hc, rfl⟩ | ⟨hc, hs, rfl⟩ | ⟨hc, hs, rfl⟩
      · have := hc4 j t ht hfn hpc
        simp at hc; exact absurd hc this
      · rw [hps] at hs; cases hs
      · have hcp : ∀ (i : Nat) ti, s.threads[i]? = some ti → _ := fun i ti hti => claim_props (hval i ti hti)
        refine ⟨?_, ?_, ?_, ?_, ?_, ?_, ?_, ?_, ?_, ?_, ?_, ?_⟩ <;> simp only [State.setThread, State.emit]
        · exact hp
        · obtain ⟨r, hr0, hrf⟩ := hne
          have hj0 : j ≠ 0 := by
            intro e; subst e; rw [ht] at hr0; cases hr0; omega
          refine ⟨claimClosed sys 2 r, ?_, by rw [(hcp 0 r hr0).2.1]; exact hrf⟩
          rw [List.getElem?_set_ne hj0, List.getElem?_map, hr0]; rfl
        · intro i t' hi
          rcases close_threads hi with ⟨rfl, rfl⟩ | ⟨hne, ti, hti, rfl⟩
          · grind [goto, Valid]
          · exact (hcp i ti hti).1
        · intro i t' hi
          rcases close_threads hi with ⟨rfl, rfl⟩ | ⟨hne, ti, hti, rfl⟩
          · grind [goto]
          · rw [(hcp i ti hti).2.1]; exact hrun i ti hti
        · intro i t' hi hh
          rcases close_threads hi with ⟨rfl, rfl⟩ | ⟨hne, ti, hti, rfl⟩
          · grind [goto, holds]
          · have hfn' := (hcp i ti hti).2.1
            have : ti.st ≠ .parked := by
              intro hpk
              rcases hval i ti hti with h | h | h
              · simp [holds, hfn', h.1] at hh
              · simp [holds, hfn', h.1] at hh
              · exact h.2.2.1 hpk
            rw [(hcp i ti hti).2.2.2.1 this] at hh
            exact h1 i ti hti hh
        · intro i hi
          obtain ⟨w, hw, hwh⟩ := h2 i hi
          have : i = j := by
            have := h1 j t ht (by simp [holds, hfn, hpc])
            rw [this] at hi; cases hi; rfl
          subst this
          refine ⟨goto t 4, by simp [hjl], by simp [holds, goto, hfn]⟩
        · intro ch hch
          simp at hch
          rcases hch with rfl | hch
          · rfl
          · exact hc1 ch hch
        · intro _
          have := h1 j t ht (by simp [holds, hfn, hpc])
          by_cases hf : s.flag = true
          · exact hf
          · exfalso
            -- the closer passed `if !f.closed` and executed `f.closed = true` while holding the lock
            exact hf (hflag j t ht hfn hpc)
        · intro i t' hi hf2 hp2
          rcases close_threads hi with ⟨rfl, rfl⟩ | ⟨hne, ti, hti, rfl⟩
          · simp [goto] at hp2
          · exfalso
            have hfn' := (hcp i ti hti).2.1
            have hnp : ti.st ≠ .parked := by
              intro hpk
              rcases hval i ti hti with h | h | h
              · rw [hfn'] at hf2; omega
              · rw [hfn'] at hf2; omega
              · exact h.2.2.1 hpk
            rw [(hcp i ti hti).2.2.2.1 hnp] at hf2 hp2
            have a := h1 i ti hti (by simp [holds, hf2, hp2])
            have b := h1 j t ht (by simp [holds, hfn, hpc])
            rw [a] at b; cases b; exact hne rfl
        · intro i t' hi hf2 hp2
          rcases close_threads hi with ⟨rfl, rfl⟩ | ⟨hne, ti, hti, rfl⟩
          · simp [goto] at hp2
          · exfalso
            have hfn' := (hcp i ti hti).2.1
            have hnp : ti.st ≠ .parked := by
              intro hpk
              rcases hval i ti hti with h | h | h
              · rw [hfn'] at hf2; omega
              · rw [hfn'] at hf2; omega
              · exact h.2.2.1 hpk
            rw [(hcp i ti hti).2.2.2.1 hnp] at hf2 hp2
            have a := h1 i ti hti (by simp [holds, hf2, hp2])
            have b := h1 j t ht (by simp [holds, hfn, hpc])
            rw [a] at b; cases b; exact hne rfl
        · intro i t' hi hf2 hp2
          rcases close_threads hi with ⟨rfl, rfl⟩ | ⟨hne, ti, hti, rfl⟩
          · simp [goto] at hp2
          · exfalso
            have hfn' := (hcp i ti hti).2.1
            have hnp : ti.st ≠ .parked := by
              intro hpk
              rcases hval i ti hti with h | h | h
              · rw [hfn'] at hf2; omega
              · rw [hfn'] at hf2; omega
              · exact h.2.2.1 hpk
            rw [(hcp i ti hti).2.2.2.1 hnp] at hf2 hp2
            have a := h1 i ti hti (by simp [holds, hf2, hp2])
            have b := h1 j t ht (by simp [holds, hfn, hpc])
            rw [a] at b; cases b; exact hne rfl
        · intro _ i t' hi
          rcases close_threads hi with ⟨rfl, rfl⟩ | ⟨hne, ti, hti, rfl⟩
          · simp [goto, hst]
          · exact (hcp i ti hti).2.2.1
    · basic_tac
    · basic_tac
  | spawn fn a b =>
    obtain ⟨_, hne, hval, hrun, h1, h2, hc1, hc2, hc3, hc4, hflag, hc5⟩ := I
    obtain ⟨hp, hsp, f, hf, rfl⟩ := next_spawn h
    have hfn := spawn_cases hsp hf
    have hlen : 0 < s.threads.length := by
      obtain ⟨r, hr0, _⟩ := hne
      exact getElem?_lt hr0
    refine ⟨?_, ?_, ?_, ?_, ?_, ?_, ?_, ?_, ?_, ?_, ?_, ?_⟩ <;> simp only [State.emit, List.getElem?_append, FnDef.mkThread] <;>
      grind [holds, Valid, doFn, closeFn, regInit]
  | spurious j =>
    obtain ⟨_, hne, hval, hrun, h1, h2, hc1, hc2, hc3, hc4, hflag, hc5⟩ := I
    obtain ⟨hp, _, rfl⟩ := next_spurious h
    exact ⟨hp, hne, hval, hrun, h1, h2, hc1, hc2, hc3, hc4, hflag, hc5⟩

end GopModel.C41
