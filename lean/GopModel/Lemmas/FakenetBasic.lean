/- C41 helper: definitions of the invariants of the fakenet feeder system and the structural layer
(valid program counters, mutex, close-once, nobody parked after close). -/
import GopModel.Lemmas.TS
import GopModel.Generated.SyncFakenet
namespace GopModel.C41
open GopModel.TS GopModel.Generated.SyncFakenet

/-- between `f.mu.Lock()` and `f.mu.Unlock()` of `close` -/
def holds (t : Thread) : Bool :=
  t.fn == 2 && (t.pc == 1 || t.pc == 2 || t.pc == 3 || t.pc == 4)

def Valid (t : Thread) : Prop :=
  (t.fn = 0 ∧ t.pc < 5 ∧ (t.st = .parked → t.pc = 0 ∨ t.pc = 2) ∧ (t.st = .done → t.pc = 1 ∨ t.pc = 3 ∨ t.pc = 4)) ∨
  (t.fn = 1 ∧ t.pc < 5 ∧ (t.st = .parked → t.pc = 0 ∨ t.pc = 3) ∧ (t.st = .done → t.pc = 1 ∨ t.pc = 4)) ∨
  (t.fn = 2 ∧ t.pc < 6 ∧ t.st ≠ .parked ∧ (t.st = .done → t.pc = 5))

theorem instr_cases {t : Thread} {ins : Instr} (hv : Valid t) (h : instrAt sys t = some ins) :
    (t.fn = 0 ∧ t.pc = 0 ∧ ins = .select [.send 0 .a 2, .recv 2 none 1]) ∨
    (t.fn = 0 ∧ t.pc = 1 ∧ ins = .ret .eof) ∨
    (t.fn = 0 ∧ t.pc = 2 ∧ ins = .select [.recv 1 (some .b) 3, .recv 2 none 4]) ∨
    (t.fn = 0 ∧ t.pc = 3 ∧ ins = .ret (.reg .b)) ∨
    (t.fn = 0 ∧ t.pc = 4 ∧ ins = .ret .eof) ∨
    (t.fn = 1 ∧ t.pc = 0 ∧ ins = .select [.recv 0 (some .a) 2, .recv 2 none 1]) ∨
    (t.fn = 1 ∧ t.pc = 1 ∧ ins = .ret .unit) ∨
    (t.fn = 1 ∧ t.pc = 2 ∧ ins = .call .a .b 3) ∨
    (t.fn = 1 ∧ t.pc = 3 ∧ ins = .select [.send 1 .b 0, .recv 2 none 4]) ∨
    (t.fn = 1 ∧ t.pc = 4 ∧ ins = .ret .unit) ∨
    (t.fn = 2 ∧ t.pc = 0 ∧ ins = .lock 1) ∨
    (t.fn = 2 ∧ t.pc = 1 ∧ ins = .brFlag 4 2) ∨
    (t.fn = 2 ∧ t.pc = 2 ∧ ins = .setFlag 3) ∨
    (t.fn = 2 ∧ t.pc = 3 ∧ ins = .close 2 4) ∨
    (t.fn = 2 ∧ t.pc = 4 ∧ ins = .unlock 5) ∨
    (t.fn = 2 ∧ t.pc = 5 ∧ ins = .ret .unit) := by
  rcases hv with ⟨hfn, hpc, _⟩ | ⟨hfn, hpc, _⟩ | ⟨hfn, hpc, _⟩
  · have : t.pc = 0 ∨ t.pc = 1 ∨ t.pc = 2 ∨ t.pc = 3 ∨ t.pc = 4 := by omega
    rcases this with e|e|e|e|e <;>
      simp [instrAt, sys, hfn, e, doFn, doCode] at h <;> simp [hfn, e, h]
  · have : t.pc = 0 ∨ t.pc = 1 ∨ t.pc = 2 ∨ t.pc = 3 ∨ t.pc = 4 := by omega
    rcases this with e|e|e|e|e <;>
      simp [instrAt, sys, hfn, e, runFn, runCode] at h <;> simp [hfn, e, h]
  · have : t.pc = 0 ∨ t.pc = 1 ∨ t.pc = 2 ∨ t.pc = 3 ∨ t.pc = 4 ∨ t.pc = 5 := by omega
    rcases this with e|e|e|e|e|e <;>
      simp [instrAt, sys, hfn, e, closeFn, closeCode] at h <;> simp [hfn, e, h]

/-- the select cases a valid thread is parked in -/
theorem parked_cases {t : Thread} (hv : Valid t) :
    (t.st ≠ .parked ∧ parkedCases sys t = []) ∨
    (t.st = .parked ∧ t.fn = 0 ∧ t.pc = 0 ∧ parkedCases sys t = [.send 0 .a 2, .recv 2 none 1]) ∨
    (t.st = .parked ∧ t.fn = 0 ∧ t.pc = 2 ∧ parkedCases sys t = [.recv 1 (some .b) 3, .recv 2 none 4]) ∨
    (t.st = .parked ∧ t.fn = 1 ∧ t.pc = 0 ∧ parkedCases sys t = [.recv 0 (some .a) 2, .recv 2 none 1]) ∨
    (t.st = .parked ∧ t.fn = 1 ∧ t.pc = 3 ∧ parkedCases sys t = [.send 1 .b 0, .recv 2 none 4]) := by
  by_cases hp : t.st = .parked
  · right
    rcases hv with ⟨hfn, _, h1, _⟩ | ⟨hfn, _, h1, _⟩ | ⟨hfn, _, h1, _⟩
    · rcases h1 hp with e | e <;> simp [parkedCases, hp, instrAt, sys, hfn, e, doFn, doCode]
    · rcases h1 hp with e | e <;> simp [parkedCases, hp, instrAt, sys, hfn, e, runFn, runCode]
    · exact absurd hp h1
  · left; exact ⟨hp, by simp [parkedCases, hp]⟩

/-- what `close(f.done)` does to one thread -/
theorem claim_props {t : Thread} (hv : Valid t) :
    Valid (claimClosed sys 2 t) ∧ (claimClosed sys 2 t).fn = t.fn ∧ (claimClosed sys 2 t).st ≠ .parked ∧
    (t.st ≠ .parked → claimClosed sys 2 t = t) ∧
    (t.st = .parked → (claimClosed sys 2 t).st = .run ∧ (claimClosed sys 2 t).a = t.a ∧ (claimClosed sys 2 t).b = t.b ∧
      ((t.pc = 0 ∧ (claimClosed sys 2 t).pc = 1) ∨ (t.pc = 2 ∧ t.fn = 0 ∧ (claimClosed sys 2 t).pc = 4) ∨
       (t.pc = 3 ∧ t.fn = 1 ∧ (claimClosed sys 2 t).pc = 4))) := by
  rcases parked_cases hv with ⟨h0, hc⟩ | ⟨h0, hf, hp, hc⟩ | ⟨h0, hf, hp, hc⟩ | ⟨h0, hf, hp, hc⟩ | ⟨h0, hf, hp, hc⟩
  · have : claimClosed sys 2 t = t := by simp [claimClosed, hc, findRecv]
    rw [this]; exact ⟨hv, rfl, h0, fun _ => rfl, fun h => absurd h h0⟩
  all_goals (simp [claimClosed, hc, findRecv, Thread.putOpt, Valid, h0, hf, hp])

theorem no_parked_sender_done {s : State} (hval : ∀ (i : Nat) t, s.threads[i]? = some t → Valid t) :
    s.threads.any (parkedSender sys 2) = false := by
  rw [List.any_eq_false]
  intro ti hti
  obtain ⟨i, hi, rfl⟩ := List.getElem_of_mem hti
  have hti' : s.threads[i]? = some s.threads[i] := List.getElem?_eq_getElem hi
  rcases parked_cases (hval i _ hti') with ⟨h0, hc⟩ | ⟨h0, hf, hp, hc⟩ | ⟨h0, hf, hp, hc⟩ | ⟨h0, hf, hp, hc⟩ | ⟨h0, hf, hp, hc⟩ <;>
    simp [parkedSender, hc, findSend]

/-- threads after the `close(f.done)` step of thread `j` -/
theorem close_threads {s : State} {j i : Nat} {t t' : Thread}
    (h : ((s.threads.map (claimClosed sys 2)).set j t)[i]? = some t') :
    (i = j ∧ t' = t) ∨ (i ≠ j ∧ ∃ ti, s.threads[i]? = some ti ∧ t' = claimClosed sys 2 ti) := by
  rcases set_getElem?_cases h with ⟨rfl, rfl, _⟩ | ⟨hne, hi⟩
  · left; exact ⟨rfl, rfl⟩
  · right
    rw [List.getElem?_map] at hi
    cases hs : s.threads[i]? with
    | none => rw [hs] at hi; cases hi
    | some ti => rw [hs] at hi; simp at hi; exact ⟨hne, ti, rfl, hi.symm⟩

theorem spawn_cases {fn : Nat} {f : FnDef} (hsp : sys.spawnable.contains fn = true)
    (hf : sys.fns[fn]? = some f) : (fn = 0 ∧ f = doFn) ∨ (fn = 2 ∧ f = closeFn) := by
  simp [sys] at hsp hf
  rcases hsp with rfl | rfl <;> simp at hf <;> simp [hf]

structure Basic (s : State) : Prop where
  noPanic : s.panic = false
  nonempty : s.threads ≠ []
  valid : ∀ (i : Nat) t, s.threads[i]? = some t → Valid t
  runner : ∀ (i : Nat) t, s.threads[i]? = some t → (t.fn = 1 ↔ i = 0)
  hold1 : ∀ (i : Nat) t, s.threads[i]? = some t → holds t = true → s.holder = some i
  hold2 : ∀ (i : Nat), s.holder = some i → ∃ t, s.threads[i]? = some t ∧ holds t = true
  closedOnly : ∀ ch ∈ s.closed, ch = 2
  flagClosed : 2 ∈ s.closed → s.flag = true
  atSet : ∀ (i : Nat) t, s.threads[i]? = some t → t.fn = 2 → t.pc = 2 → s.flag = false
  atClose : ∀ (i : Nat) t, s.threads[i]? = some t → t.fn = 2 → t.pc = 3 → 2 ∉ s.closed
  atCloseFlag : ∀ (i : Nat) t, s.threads[i]? = some t → t.fn = 2 → t.pc = 3 → s.flag = true
  awake : 2 ∈ s.closed → ∀ (i : Nat) t, s.threads[i]? = some t → t.st ≠ .parked

set_option hygiene false in
macro "basic_tac" : tactic => `(tactic| (
  simp only [exec] at hex
  repeat' (split at hex)
  all_goals first
    | (cases hex; done)
    | (cases hex
       refine ⟨?_, ?_, ?_, ?_, ?_, ?_, ?_, ?_, ?_, ?_, ?_, ?_⟩ <;> simp only [State.setThread, State.emit, State.doPanic, List.getElem?_set] <;> grind [holds, goto, Valid, Thread.put, Thread.get, Thread.putOpt])))

set_option hygiene false in
macro "basic_fin" : tactic => `(tactic| (
  refine ⟨?_, ?_, ?_, ?_, ?_, ?_, ?_, ?_, ?_, ?_, ?_, ?_⟩ <;> simp only [State.setThread, State.emit, State.doPanic, List.getElem?_set] <;> grind [holds, goto, Valid, Thread.put, Thread.get, Thread.putOpt, findSend, findRecv]))

set_option hygiene false in
macro "sel_partner" fin:tactic : tactic => `(tactic| (
  have hpk := parked_cases (hval p tp htp)
  have hpl := getElem?_lt htp
  rcases k with _ | _ | k <;> simp at hk
  all_goals (
    obtain ⟨rfl, rfl, rfl⟩ := hk
    rcases hpk with ⟨h0, hc⟩ | ⟨h0, hf', hp', hc⟩ | ⟨h0, hf', hp', hc⟩ | ⟨h0, hf', hp', hc⟩ | ⟨h0, hf', hp', hc⟩ <;>
      simp [hc, findSend, findRecv] at hf
    all_goals (obtain ⟨rfl, rfl⟩ := hf; $fin))))

set_option hygiene false in
macro "sel_cases" fin:tactic : tactic => `(tactic| (
  rcases exec_select hex with ⟨hk, hkl, hall, rfl⟩ | ⟨ch, r, n, hk, hcl, rfl⟩ | ⟨ch, r, n, tp, rp, np, hk, hcl, htp, hf, rfl⟩ | ⟨ch, r, n, hk, hcl, rfl⟩ | ⟨ch, r, n, tp, rp, np, hk, hcl, htp, hf, rfl⟩
  · simp [caseReady] at hall
    $fin
  · rcases k with _ | _ | k <;> simp at hk
    all_goals (obtain ⟨rfl, rfl, rfl⟩ := hk; $fin)
  · sel_partner $fin
  · rcases k with _ | _ | k <;> simp at hk
    all_goals (obtain ⟨rfl, rfl, rfl⟩ := hk; $fin)
  · sel_partner $fin))

set_option maxHeartbeats 4000000 in
theorem basic_step {s s' : State} {l : Label} (I : Basic s) (h : next sys s l = some s') : Basic s' := by
  cases l with
  | thread j k p v =>
    obtain ⟨hp, t, ht, hst, ins, hins, hex⟩ := next_thread h
    have hv := I.valid j t ht
    obtain ⟨_, hne, hval, hrun, h1, h2, hc1, hc2, hc3, hc4, hflag, hc5⟩ := I
    have hjl := getElem?_lt ht
    rcases instr_cases hv hins with ⟨hfn, hpc, rfl⟩ | ⟨hfn, hpc, rfl⟩ | ⟨hfn, hpc, rfl⟩ | ⟨hfn, hpc, rfl⟩ | ⟨hfn, hpc, rfl⟩ | ⟨hfn, hpc, rfl⟩ | ⟨hfn, hpc, rfl⟩ | ⟨hfn, hpc, rfl⟩ | ⟨hfn, hpc, rfl⟩ | ⟨hfn, hpc, rfl⟩ | ⟨hfn, hpc, rfl⟩ | ⟨hfn, hpc, rfl⟩ | ⟨hfn, hpc, rfl⟩ | ⟨hfn, hpc, rfl⟩ | ⟨hfn, hpc, rfl⟩ | ⟨hfn, hpc, rfl⟩
    · sel_cases basic_fin
    · basic_tac
    · sel_cases basic_fin
    · basic_tac
    · basic_tac
    · sel_cases basic_fin
    · basic_tac
    · basic_tac
    · sel_cases basic_fin
    · basic_tac
    · basic_tac
    · basic_tac
    · basic_tac
    · -- close(f.done)
      have hps := no_parked_sender_done hval
      rcases exec_close hex with ⟨hc, rfl⟩ | ⟨hc, hs, rfl⟩ | ⟨hc, hs, rfl⟩
      · have := hc4 j t ht hfn hpc
        simp at hc; exact absurd hc this
      · rw [hps] at hs; cases hs
      · have hcp : ∀ (i : Nat) ti, s.threads[i]? = some ti → _ := fun i ti hti => claim_props (hval i ti hti)
        refine ⟨?_, ?_, ?_, ?_, ?_, ?_, ?_, ?_, ?_, ?_, ?_, ?_⟩ <;> simp only [State.setThread, State.emit]
        · exact hp
        · intro h0
          have : ((s.threads.map (claimClosed sys 2)).set j (goto t 4)).length = s.threads.length := by simp
          rw [h0] at this; simp at this; omega
        · intro i t' hi
          rcases close_threads hi with ⟨rfl, rfl⟩ | ⟨hne, ti, hti, rfl⟩
          · grind [goto, Valid]
          · exact (hcp i ti hti).1
        · intro i t' hi
          rcases close_threads hi with ⟨rfl, rfl⟩ | ⟨hne, ti, hti, rfl⟩
          · grind [goto]
          · rw [(hcp i ti hti).2.1]; exact hrun i ti hti
        · intro i t' hi hh
          rcases close_threads hi with ⟨rfl, rfl⟩ | ⟨hne, ti, hti, rfl⟩
          · grind [goto, holds]
          · have hfn' := (hcp i ti hti).2.1
            have : ti.st ≠ .parked := by
              intro hpk
              rcases hval i ti hti with h | h | h
              · simp [holds, hfn', h.1] at hh
              · simp [holds, hfn', h.1] at hh
              · exact h.2.2.1 hpk
            rw [(hcp i ti hti).2.2.2.1 this] at hh
            exact h1 i ti hti hh
        · intro i hi
          obtain ⟨w, hw, hwh⟩ := h2 i hi
          have : i = j := by
            have := h1 j t ht (by simp [holds, hfn, hpc])
            rw [this] at hi; cases hi; rfl
          subst this
          refine ⟨goto t 4, by simp [hjl], by simp [holds, goto, hfn]⟩
        · intro ch hch
          simp at hch
          rcases hch with rfl | hch
          · rfl
          · exact hc1 ch hch
        · intro _
          have := h1 j t ht (by simp [holds, hfn, hpc])
          by_cases hf : s.flag = true
          · exact hf
          · exfalso
            -- the closer passed `if !f.closed` and executed `f.closed = true` while holding the lock
            exact hf (hflag j t ht hfn hpc)
        · intro i t' hi hf2 hp2
          rcases close_threads hi with ⟨rfl, rfl⟩ | ⟨hne, ti, hti, rfl⟩
          · simp [goto] at hp2
          · exfalso
            have hfn' := (hcp i ti hti).2.1
            have hnp : ti.st ≠ .parked := by
              intro hpk
              rcases hval i ti hti with h | h | h
              · rw [hfn'] at hf2; omega
              · rw [hfn'] at hf2; omega
              · exact h.2.2.1 hpk
            rw [(hcp i ti hti).2.2.2.1 hnp] at hf2 hp2
            have a := h1 i ti hti (by simp [holds, hf2, hp2])
            have b := h1 j t ht (by simp [holds, hfn, hpc])
            rw [a] at b; cases b; exact hne rfl
        · intro i t' hi hf2 hp2
          rcases close_threads hi with ⟨rfl, rfl⟩ | ⟨hne, ti, hti, rfl⟩
          · simp [goto] at hp2
          · exfalso
            have hfn' := (hcp i ti hti).2.1
            have hnp : ti.st ≠ .parked := by
              intro hpk
              rcases hval i ti hti with h | h | h
              · rw [hfn'] at hf2; omega
              · rw [hfn'] at hf2; omega
              · exact h.2.2.1 hpk
            rw [(hcp i ti hti).2.2.2.1 hnp] at hf2 hp2
            have a := h1 i ti hti (by simp [holds, hf2, hp2])
            have b := h1 j t ht (by simp [holds, hfn, hpc])
            rw [a] at b; cases b; exact hne rfl
        · intro i t' hi hf2 hp2
          rcases close_threads hi with ⟨rfl, rfl⟩ | ⟨hne, ti, hti, rfl⟩
          · simp [goto] at hp2
          · exfalso
            have hfn' := (hcp i ti hti).2.1
            have hnp : ti.st ≠ .parked := by
              intro hpk
              rcases hval i ti hti with h | h | h
              · rw [hfn'] at hf2; omega
              · rw [hfn'] at hf2; omega
              · exact h.2.2.1 hpk
            rw [(hcp i ti hti).2.2.2.1 hnp] at hf2 hp2
            have a := h1 i ti hti (by simp [holds, hf2, hp2])
            have b := h1 j t ht (by simp [holds, hfn, hpc])
            rw [a] at b; cases b; exact hne rfl
        · intro _ i t' hi
          rcases close_threads hi with ⟨rfl, rfl⟩ | ⟨hne, ti, hti, rfl⟩
          · simp [goto, hst]
          · exact (hcp i ti hti).2.2.1
    · basic_tac
    · basic_tac
  | spawn fn a b =>
    obtain ⟨_, hne, hval, hrun, h1, h2, hc1, hc2, hc3, hc4, hflag, hc5⟩ := I
    obtain ⟨hp, hsp, f, hf, rfl⟩ := next_spawn h
    have hfn := spawn_cases hsp hf
    have hlen : 0 < s.threads.length := by
      rcases hl : s.threads with _ | ⟨x, r⟩
      · exact absurd hl hne
      · simp
    refine ⟨?_, ?_, ?_, ?_, ?_, ?_, ?_, ?_, ?_, ?_, ?_, ?_⟩ <;> simp only [State.emit, List.getElem?_append, FnDef.mkThread] <;>
      grind [holds, Valid, doFn, closeFn, regInit]
  | spurious j =>
    obtain ⟨_, hne, hval, hrun, h1, h2, hc1, hc2, hc3, hc4, hflag, hc5⟩ := I
    obtain ⟨hp, _, rfl⟩ := next_spurious h
    exact ⟨hp, hne, hval, hrun, h1, h2, hc1, hc2, hc3, hc4, hflag, hc5⟩

end GopModel.C41
