/-
M3 lemmas, part 3: the parser model returns `norm e` on the printed token stream of every
well-formed `e` (structural induction with precedence invariants).
-/
import GopModel.Lemmas.ExprParse
namespace GopModel.ExprSyntax
open Gen

/-! ## Abstract statements about a printed form `T` that parses to `X` -/

/-- `parsePrimaryExpr` on `T ++ r` continues its postfix loop with `X` on `r`. -/
def StA (T : List Tok) (X : XExpr) (b : Nat) : Prop :=
  ∀ (lhs tup : Bool) (r : List Tok) (res : Res XExpr) (M : Nat), opHead r = true →
    (∀ m, M ≤ m → primaryLoop m X r = res) →
    ∀ n, M + b ≤ n → parsePrimary n lhs tup (T ++ r) = res

/-- `parseUnaryExpr` on `T ++ r` returns `X` and leaves `r`. -/
def StB (T : List Tok) (X : XExpr) (b : Nat) : Prop :=
  ∀ (lhs tup : Bool) (r : List Tok), stopsPrimary r = true →
    ∀ n, b ≤ n → parseUnary n lhs tup (T ++ r) = .ok (X, r)

/-- `parseBinaryExpr` on `T ++ r` continues its operator loop with `X` on `r`. -/
def StG (T : List Tok) (X : XExpr) (b : Nat) : Prop :=
  ∀ (lhs tup : Bool) (p1 : Nat) (r : List Tok) (res : Res XExpr) (M : Nat), stopsPrimary r = true →
    (∀ m, M ≤ m → binaryLoop m p1 X r = res) →
    ∀ n, M + b ≤ n → parseBinary n lhs p1 tup (T ++ r) = res

/-- The same, for a form printed at precedence `q`: the loop runs at `p1 ≤ q` and the next
operator binds at most as tightly as `q`. -/
def StG' (T : List Tok) (X : XExpr) (q b : Nat) : Prop :=
  ∀ (lhs tup : Bool) (p1 : Nat) (r : List Tok) (res : Res XExpr) (M : Nat), p1 ≤ q →
    stopsPrimary r = true → headPrec r ≤ q →
    (∀ m, M ≤ m → binaryLoop m p1 X r = res) →
    ∀ n, M + b ≤ n → parseBinary n lhs p1 tup (T ++ r) = res

/-- `parseExpr` on `T ++ r` returns `X` and leaves `r`. -/
def StE (T : List Tok) (X : XExpr) (b : Nat) : Prop :=
  ∀ (r : List Tok), stopsTop r = true →
    ∀ n, b ≤ n → parseLambda n false (T ++ r) = .ok (X, r)

theorem StA.mono {T X b b'} (h : StA T X b) (hb : b ≤ b') : StA T X b' :=
  fun lhs tup r res M ho hk n hn => h lhs tup r res M ho hk n (by omega)
theorem StB.mono {T X b b'} (h : StB T X b) (hb : b ≤ b') : StB T X b' :=
  fun lhs tup r hr n hn => h lhs tup r hr n (by omega)
theorem StG.mono {T X b b'} (h : StG T X b) (hb : b ≤ b') : StG T X b' :=
  fun lhs tup p1 r res M hr hk n hn => h lhs tup p1 r res M hr hk n (by omega)
theorem StG'.mono {T X q b b'} (h : StG' T X q b) (hb : b ≤ b') : StG' T X q b' :=
  fun lhs tup p1 r res M hp hr hh hk n hn => h lhs tup p1 r res M hp hr hh hk n (by omega)
theorem StE.mono {T X b b'} (h : StE T X b) (hb : b ≤ b') : StE T X b' :=
  fun r hr n hn => h r hr n (by omega)
theorem StG.weak {T X b} (h : StG T X b) (q : Nat) : StG' T X q b :=
  fun lhs tup p1 r res M _ hr _ hk n hn => h lhs tup p1 r res M hr hk n hn

theorem stopsTop_parts {r : List Tok} (h : stopsTop r = true) :
    stopsPrimary r = true ∧ headPrec r = 0 ∧ headIs .DRARROW r = false := by
  simp [stopsTop] at h
  exact ⟨h.1.1, h.1.2, h.2⟩

/-- B from A: an operand form is a unary expression when no postfix token follows. -/
theorem StB_of_StA {T : List Tok} {X : XExpr} {b : Nat} {t : Tok} {tl : List Tok}
    (hA : StA T X b) (hT : T = t :: tl) (ht : isPrimStart t = true) : StB T X (b + 3) := by
  intro lhs tup r hr n hn
  obtain ⟨n', rfl⟩ : ∃ n', n = n' + 2 := ⟨n - 2, by omega⟩
  have hp : parsePrimary n' lhs tup (T ++ r) = .ok (X, r) :=
    hA lhs tup r (.ok (X, r)) 1 (opHead_of_stopsPrimary hr)
      (fun m hm => by
        obtain ⟨m', rfl⟩ : ∃ m', m = m' + 1 := ⟨m - 1, by omega⟩
        exact primaryLoop_stop m' X r (stopsLoop_of_stopsPrimary hr))
      n' (by omega)
  subst hT
  rw [List.cons_append, parseUnary_prim ht]
  exact parseErrWrap_plain hp hr

/-- G from B. -/
theorem StG_of_StB {T : List Tok} {X : XExpr} {b : Nat}
    (hB : StB T X b) (hx : isTuple X = false) : StG T X (b + 1) := by
  intro lhs tup p1 r res M hr hk n hn
  obtain ⟨n', rfl⟩ : ∃ n', n = n' + 1 := ⟨n - 1, by omega⟩
  rw [parseBinary_step (hB lhs tup r hr n' (by omega)) hx]
  exact hk n' (by omega)

/-- E from G (at a precedence ≥ 1). -/
theorem StE_of_StG' {T : List Tok} {X : XExpr} {q b : Nat} {t : Tok} {tl : List Tok}
    (hG : StG' T X q b) (hq : 1 ≤ q) (hT : T = t :: tl) (ht : isStart t = true)
    (hx : isTuple X = false) : StE T X (b + 2) := by
  intro r hr n hn
  obtain ⟨hsp, hhp, hdr⟩ := stopsTop_parts hr
  obtain ⟨n', rfl⟩ : ∃ n', n = n' + 1 := ⟨n - 1, by omega⟩
  have hb : parseBinary n' false 1 true (T ++ r) = .ok (X, r) :=
    hG false true 1 r (.ok (X, r)) 1 hq hsp (by omega)
      (fun m hm => by
        obtain ⟨m', rfl⟩ : ∃ m', m = m' + 1 := ⟨m - 1, by omega⟩
        exact binaryLoop_stop m' 1 X r (opHead_of_stopsPrimary hsp) (by omega))
      n' (by omega)
  subst hT
  exact parseLambda_plain ht hb hdr hx

theorem stopsTop_rparen (r : List Tok) : stopsTop (.op .RPAREN :: r) = true := by
  simp [stopsTop, stopsPrimary, headPrec, headIs, tokPrec, prec, precedence]

/-- A for a parenthesised form, from E of its content. -/
theorem StA_paren_of_StE {T0 : List Tok} {X0 : XExpr} {b : Nat} {t : Tok} {tl : List Tok}
    (hE : StE T0 X0 b) (hT : T0 = t :: tl) (ht : isStartL t = true) :
    StA (.op .LPAREN :: (T0 ++ [.op .RPAREN])) (.paren X0) (b + 2) := by
  intro lhs tup r res M _ hk n hn
  obtain ⟨n', rfl⟩ : ∃ n', n = n' + 2 := ⟨n - 2, by omega⟩
  have hl : parseLambda n' false (T0 ++ .op .RPAREN :: r) = .ok (X0, .op .RPAREN :: r) :=
    hE (.op .RPAREN :: r) (stopsTop_rparen r) n' (by omega)
  subst hT
  have ho : parseOperand (n' + 1) lhs tup (.op .LPAREN :: t :: (tl ++ .op .RPAREN :: r)) = .ok (.paren X0, r) :=
    parseOperand_paren ht (by simpa using hl)
  have hs : (Tok.op .LPAREN :: (t :: tl ++ [.op .RPAREN])) ++ r = .op .LPAREN :: t :: (tl ++ .op .RPAREN :: r) := by
    simp
  rw [hs, parsePrimary_step ho rfl]
  exact hk (n' + 1) (by omega)

/-! ## Facts about `toks`, `norm`, `exprPrec` on well-formed trees -/

theorem exprPrec_le {e : XExpr} (h : wf e = true) : exprPrec e ≤ highestPrec := by
  cases e with
  | binary op x y =>
    simp only [wf, isBinOp, Bool.and_eq_true, decide_eq_true_eq] at h
    have hu : unaryPrec = 6 := rfl
    simp [exprPrec, highestPrec]; omega
  | errWrap x tok d => cases d <;> simp [exprPrec, highestPrec, unaryPrec]
  | _ => simp [exprPrec, highestPrec, unaryPrec, lowestPrec]

theorem toks_wrap {e : XExpr} {p : Nat} (h : wf e = true) (hp : exprPrec e < p) (hp7 : p ≤ highestPrec) :
    toks e p = .op .LPAREN :: (toks e lowestPrec ++ [.op .RPAREN]) ∧ norm e p = .paren (norm e lowestPrec) := by
  cases e with
  | binary op x y => simp [exprPrec] at hp; simp [toks_binary, wrapT, norm, wrapP, hp, lowestPrec]
  | unary op x => simp [exprPrec] at hp; simp [toks_unary, wrapT, norm, wrapP, hp, lowestPrec]
  | star x => simp [exprPrec] at hp; simp [toks_star, wrapT, norm, wrapP, hp, lowestPrec]
  | errWrap x tok d =>
    cases d with
    | none => simp [exprPrec] at hp; omega
    | some d => simp [exprPrec] at hp; simp [toks_errWrap_some, wrapT, norm, wrapP, hp, lowestPrec]
  | lambda a b c d =>
    simp [exprPrec, lowestPrec] at hp
    simp [toks_lambda, wrapT, norm, wrapP, hp, lowestPrec]
  | _ => simp [exprPrec] at hp; omega

theorem toks_nowrap {e : XExpr} {p p' : Nat} (h : wf e = true) (hp : p ≤ exprPrec e) (hp' : p' ≤ exprPrec e) :
    toks e p = toks e p' ∧ norm e p = norm e p' := by
  cases e with
  | binary op x y =>
    simp [exprPrec] at hp hp'
    simp [toks_binary, wrapT, norm, wrapP, Nat.not_lt.mpr hp, Nat.not_lt.mpr hp']
  | unary op x =>
    simp [exprPrec] at hp hp'
    simp [toks_unary, wrapT, norm, wrapP, Nat.not_lt.mpr hp, Nat.not_lt.mpr hp']
  | star x =>
    simp [exprPrec] at hp hp'
    simp [toks_star, wrapT, norm, wrapP, Nat.not_lt.mpr hp, Nat.not_lt.mpr hp']
  | errWrap x tok d =>
    cases d with
    | none => simp [toks_errWrap_none, norm]
    | some d =>
      simp [exprPrec] at hp hp'
      simp [toks_errWrap_some, wrapT, norm, wrapP, Nat.not_lt.mpr hp, Nat.not_lt.mpr hp']
  | ident s => simp [toks_ident, norm]
  | lit k v => simp [toks_lit, norm]
  | numUnit k v u => simp [toks_numUnit, norm]
  | env s b => simp [toks_env, norm]
  | paren x => simp [toks_paren, norm]
  | selector x s => simp [toks_selector, norm]
  | index x i => simp [toks_index, norm]
  | call f args ell cmd =>
    simp [wf] at h
    obtain ⟨⟨⟨hc, _⟩, _⟩, _⟩ := h
    subst hc
    simp [toks_call, norm]
  | typeAssert x ty => cases ty <;> simp [toks_typeAssert_some, toks_typeAssert_none, norm]
  | lambda a b c d =>
    simp [exprPrec, lowestPrec] at hp hp'
    subst hp; subst hp'; exact ⟨rfl, rfl⟩
  | _ => simp [wf] at h

theorem wf_errWrap_none {x : XExpr} {tok : Op} (h : wf (.errWrap x tok none) = true) :
    (tok = .NOT ∨ tok = .QUESTION) ∧ wf x = true := by
  simpa [wf] using h

theorem wf_errWrap_some {x d : XExpr} {tok : Op} (h : wf (.errWrap x tok (some d)) = true) :
    (tok = .NOT ∨ tok = .QUESTION) ∧ wf x = true ∧ wf d = true := by
  have := h
  simp [wf] at this
  exact ⟨this.1.1, this.1.2, this.2⟩

theorem isStart_unop {o : Op} (h : (isUnaryOp o || o == .ARROW) = true) : isStart (.op o) = true := by
  cases o <;> simp [isUnaryOp] at h <;> simp [isStart]

theorem toks_head : ∀ (e : XExpr), wf e = true → ∀ p, p ≤ highestPrec →
    ∃ t tl, toks e p = t :: tl ∧ isStartL t = true ∧
      (1 ≤ p ∨ exprPrec e ≠ lowestPrec → isStart t = true) ∧
      (exprPrec e < p ∨ exprPrec e = highestPrec → isPrimStart t = true)
  | .ident s, _, p, _ => ⟨.ident s, [], by simp [toks_ident], rfl, fun _ => rfl, fun _ => rfl⟩
  | .lit k v, _, p, _ => ⟨.lit k v, [], by simp [toks_lit], rfl, fun _ => rfl, fun _ => rfl⟩
  | .numUnit k v u, _, p, _ => ⟨.lit k v, [.unit u], by simp [toks_numUnit], rfl, fun _ => rfl, fun _ => rfl⟩
  | .env s b, _, p, _ => by
    cases b
    · exact ⟨.op .ENV, [.ident s], by simp [toks_env], rfl, fun _ => rfl, fun _ => rfl⟩
    · exact ⟨.op .ENV, [.op .LBRACE, .ident s, .op .RBRACE], by simp [toks_env], rfl, fun _ => rfl, fun _ => rfl⟩
  | .binary op x y, h, p, hp => by
    have h' := h
    simp only [wf, isBinOp, Bool.and_eq_true, decide_eq_true_eq] at h'
    have hu : unaryPrec = 6 := rfl
    have h7 : highestPrec = 7 := rfl
    have h0 : lowestPrec = 0 := rfl
    by_cases hw : prec op < p
    · exact ⟨.op .LPAREN, _, by simp [toks_binary, wrapT, hw]; rfl, rfl, fun _ => rfl, fun _ => rfl⟩
    · obtain ⟨t, tl, ht, hsl, hs, _⟩ := toks_head x h'.1.2 (prec op) (by omega)
      refine ⟨t, tl ++ .op op :: toks y (prec op + 1), by simp [toks_binary, wrapT, hw, ht], hsl,
        fun _ => hs (Or.inl (by omega)), ?_⟩
      intro hc
      simp [exprPrec] at hc
      omega
  | .unary op x, h, p, hp => by
    have h' := h
    simp only [wf, Bool.and_eq_true] at h'
    by_cases hw : unaryPrec < p
    · exact ⟨.op .LPAREN, _, by simp [toks_unary, wrapT, hw]; rfl, rfl, fun _ => rfl, fun _ => rfl⟩
    · refine ⟨.op op, toks x unaryPrec, by simp [toks_unary, wrapT, hw],
        isStartL_of_isStart (isStart_unop h'.1), fun _ => isStart_unop h'.1, ?_⟩
      intro hc
      have hu : unaryPrec = 6 := rfl
      have h7 : highestPrec = 7 := rfl
      simp [exprPrec] at hc
      omega
  | .star x, h, p, hp => by
    by_cases hw : unaryPrec < p
    · exact ⟨.op .LPAREN, _, by simp [toks_star, wrapT, hw]; rfl, rfl, fun _ => rfl, fun _ => rfl⟩
    · refine ⟨.op .MUL, toks x unaryPrec, by simp [toks_star, wrapT, hw], rfl, fun _ => rfl, ?_⟩
      intro hc
      have hu : unaryPrec = 6 := rfl
      have h7 : highestPrec = 7 := rfl
      simp [exprPrec] at hc
      omega
  | .paren x, h, p, hp => by
    have h' : wf x = true := by simpa [wf] using h
    by_cases hpn : isParenNode x = true
    · obtain ⟨t, tl, ht, hsl, hs, hps⟩ := toks_head x h' lowestPrec (by decide)
      have hx7 : exprPrec x = highestPrec := by
        cases x <;> simp [isParenNode] at hpn
        rfl
      refine ⟨t, tl, by simp [toks_paren, hpn, ht], hsl, fun _ => hs (Or.inr ?_), fun _ => hps (Or.inr hx7)⟩
      rw [hx7]; decide
    · exact ⟨.op .LPAREN, _, by simp [toks_paren, hpn, wrapT]; rfl, rfl, fun _ => rfl, fun _ => rfl⟩
  | .selector x s, h, p, hp => by
    have h' : wf x = true := by simpa [wf] using h
    obtain ⟨t, tl, ht, hsl, hs, hps⟩ := toks_head x h' highestPrec (Nat.le_refl _)
    refine ⟨t, tl ++ [.op .PERIOD, .ident s], by simp [toks_selector, ht], hsl,
      fun _ => hs (Or.inl (by decide)), fun _ => hps ?_⟩
    have := exprPrec_le h'
    omega
  | .index x i, h, p, hp => by
    have h' : wf x = true ∧ wf i = true := by simpa [wf] using h
    obtain ⟨t, tl, ht, hsl, hs, hps⟩ := toks_head x h'.1 highestPrec (Nat.le_refl _)
    refine ⟨t, tl ++ .op .LBRACK :: (toks i lowestPrec ++ [.op .RBRACK]), by simp [toks_index, ht], hsl,
      fun _ => hs (Or.inl (by decide)), fun _ => hps ?_⟩
    have := exprPrec_le h'.1
    omega
  | .call f args ell cmd, h, p, hp => by
    have h' := h
    simp only [wf, Bool.and_eq_true, Bool.not_eq_true'] at h'
    obtain ⟨⟨⟨hc, hf⟩, _⟩, _⟩ := h'
    subst hc
    obtain ⟨t, tl, ht, hsl, hs, hps⟩ := toks_head f hf highestPrec (Nat.le_refl _)
    refine ⟨t, _, by simp [toks_call, ht]; rfl, hsl, fun _ => hs (Or.inl (by decide)), fun _ => hps ?_⟩
    have := exprPrec_le hf
    omega
  | .errWrap x tok none, h, p, hp => by
    have h' := wf_errWrap_none h
    obtain ⟨t, tl, ht, hsl, hs, hps⟩ := toks_head x h'.2 highestPrec (Nat.le_refl _)
    refine ⟨t, tl ++ [.op tok], by simp [toks_errWrap_none, ht], hsl,
      fun _ => hs (Or.inl (by decide)), fun _ => hps ?_⟩
    have := exprPrec_le h'.2
    omega
  | .errWrap x tok (some d), h, p, hp => by
    have h' := wf_errWrap_some h
    by_cases hw : unaryPrec < p
    · exact ⟨.op .LPAREN, _, by simp [toks_errWrap_some, wrapT, hw]; rfl, rfl, fun _ => rfl, fun _ => rfl⟩
    · obtain ⟨t, tl, ht, hsl, hs, hps⟩ := toks_head x h'.2.1 highestPrec (Nat.le_refl _)
      refine ⟨t, _, by simp [toks_errWrap_some, wrapT, hw, ht]; rfl, hsl, fun _ => hs (Or.inl (by decide)), ?_⟩
      intro hc
      have hu : unaryPrec = 6 := rfl
      have h7 : highestPrec = 7 := rfl
      simp [exprPrec] at hc
      omega
  | .typeAssert x ty, h, p, hp => by
    have h' : wf x = true := by
      cases ty with
      | none => simpa [wf] using h
      | some t => cases t <;> simp [wf] at h; exact h
    obtain ⟨t, tl, ht, hsl, hs, hps⟩ := toks_head x h' highestPrec (Nat.le_refl _)
    have := exprPrec_le h'
    cases ty with
    | none =>
      exact ⟨t, _, by simp [toks_typeAssert_none, ht]; rfl, hsl, fun _ => hs (Or.inl (by decide)),
        fun _ => hps (by omega)⟩
    | some ty =>
      exact ⟨t, _, by simp [toks_typeAssert_some, ht]; rfl, hsl, fun _ => hs (Or.inl (by decide)),
        fun _ => hps (by omega)⟩
  | .lambda lhs lp rhs rp, h, p, hp => by
    have h0 : lowestPrec = 0 := rfl
    by_cases hw : lowestPrec < p
    · exact ⟨.op .LPAREN, _, by simp [toks_lambda, wrapT, hw]; rfl, rfl, fun _ => rfl, fun _ => rfl⟩
    · have hp0 : p = 0 := by omega
      subst hp0
      have hno : ¬ (1 ≤ 0 ∨ exprPrec (.lambda lhs lp rhs rp) ≠ lowestPrec) := by simp [exprPrec]
      have hno2 : ¬ (exprPrec (.lambda lhs lp rhs rp) < 0 ∨ exprPrec (.lambda lhs lp rhs rp) = highestPrec) := by
        simp [exprPrec, lowestPrec, highestPrec]
      cases lp with
      | true =>
        exact ⟨.op .LPAREN, _, by simp [toks_lambda, wrapT, lhsT, lowestPrec]; rfl, rfl,
          fun hc => absurd hc hno, fun hc => absurd hc hno2⟩
      | false =>
        cases lhs with
        | nil =>
          exact ⟨.op .DRARROW, _, by simp [toks_lambda, wrapT, lhsT, lowestPrec]; rfl, rfl,
            fun hc => absurd hc hno, fun hc => absurd hc hno2⟩
        | cons s rest =>
          exact ⟨.ident s, _, by simp [toks_lambda, wrapT, lhsT, lowestPrec]; rfl, rfl,
            fun hc => absurd hc hno, fun hc => absurd hc hno2⟩
  | .slice .., h, _, _ => by simp [wf] at h
  | .composite .., h, _, _ => by simp [wf] at h
  | .kv .., h, _, _ => by simp [wf] at h
  | .sliceLit .., h, _, _ => by simp [wf] at h
  | .range .., h, _, _ => by simp [wf] at h
  | .tuple .., h, _, _ => by simp [wf] at h
  | .bad, h, _, _ => by simp [wf] at h

theorem norm_not_tuple : ∀ (e : XExpr), wf e = true → ∀ p, isTuple (norm e p) = false
  | .ident _, _, _ => by simp [norm, isTuple]
  | .lit _ _, _, _ => by simp [norm, isTuple]
  | .numUnit _ _ _, _, _ => by simp [norm, isTuple]
  | .env _ _, _, _ => by simp [norm, isTuple]
  | .binary op x y, _, p => by simp only [norm, wrapP]; split <;> rfl
  | .unary op x, _, p => by simp only [norm, wrapP]; split <;> rfl
  | .star x, _, p => by simp only [norm, wrapP]; split <;> rfl
  | .paren x, h, p => by
    simp only [norm]
    split
    · exact norm_not_tuple x (by simpa [wf] using h) _
    · rfl
  | .selector _ _, _, _ => by simp [norm, isTuple]
  | .index _ _, _, _ => by simp [norm, isTuple]
  | .call _ _ _ _, _, _ => by simp [norm, isTuple]
  | .errWrap _ _ none, _, _ => by simp [norm, isTuple]
  | .errWrap _ _ (some _), _, p => by simp only [norm, wrapP]; split <;> rfl
  | .slice .., h, _ => by simp [wf] at h
  | .composite .., h, _ => by simp [wf] at h
  | .kv .., h, _ => by simp [wf] at h
  | .sliceLit .., h, _ => by simp [wf] at h
  | .lambda .., _, p => by simp only [norm, wrapP]; split <;> rfl
  | .typeAssert .., _, _ => by simp [norm, isTuple]
  | .range .., h, _ => by simp [wf] at h
  | .tuple .., h, _ => by simp [wf] at h
  | .bad, h, _ => by simp [wf] at h

end GopModel.ExprSyntax
