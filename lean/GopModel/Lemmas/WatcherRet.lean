/- C40 helper: the return-value invariant is preserved by every step. -/
import GopModel.Lemmas.WatcherBasic
namespace GopModel.C40
open GopModel.TS GopModel.Generated.SyncWatcher

set_option hygiene false in
macro "rinv_tac" : tactic => `(tactic| (
  simp only [exec] at hex
  repeat' (split at hex)
  all_goals first
    | (cases hex; done)
    | (cases hex
       refine ⟨?_, ?_, ?_⟩ <;> simp only [State.setThread, State.emit, State.doPanic, List.getElem?_set] <;> grind [holds, goto, Valid, Thread.put, Thread.get, lastDel, RetOk, List.length_eq_zero_iff])))

set_option maxHeartbeats 4000000 in
theorem rinv_step {s s' : State} {l : Label} (B : Basic s) (I : Inv s) (R : RInv s) (h : next sys s l = some s') : RInv s' := by
  cases l with
  | thread j k p v =>
    obtain ⟨hp, t, ht, hst, ins, hins, hex⟩ := next_thread h
    have hv := B.valid j t ht
    have hne := I.nonEmptyAtPick j t ht
    obtain ⟨_, hval, h1, h2⟩ := B
    obtain ⟨r1, r2, r3⟩ := R
    have hjl := getElem?_lt ht
    rcases instr_cases hv hins with ⟨hfn, hpc, rfl⟩ | ⟨hfn, hpc, rfl⟩ | ⟨hfn, hpc, rfl⟩ | ⟨hfn, hpc, rfl⟩ | ⟨hfn, hpc, rfl⟩ | ⟨hfn, hpc, rfl⟩ | ⟨hfn, hpc, rfl⟩ | ⟨hfn, hpc, rfl⟩ | ⟨hfn, hpc, rfl⟩ | ⟨hfn, hpc, rfl⟩ | ⟨hfn, hpc, rfl⟩ | ⟨hfn, hpc, rfl⟩ | ⟨hfn, hpc, rfl⟩ | ⟨hfn, hpc, rfl⟩ | ⟨hfn, hpc, rfl⟩ | ⟨hfn, hpc, rfl⟩ | ⟨hfn, hpc, rfl⟩
    · rinv_tac -- case 0
    · rinv_tac -- case 1
    · rinv_tac -- case 2
    · rinv_tac -- case 3
    · rinv_tac -- case 4
    · rinv_tac -- case 5
    · rinv_tac -- case 6
    · rinv_tac -- case 7
    · rinv_tac -- case 8
    · rinv_tac -- case 9
    · rinv_tac -- case 10
    · rinv_tac -- case 11
    · rinv_tac -- case 12
    · rinv_tac -- case 13
    · rinv_tac -- case 14
    · rinv_tac -- case 15
    · rinv_tac -- case 16
  | spawn fn a b =>
    obtain ⟨_, hval, h1, h2⟩ := B
    obtain ⟨r1, r2, r3⟩ := R
    obtain ⟨hp, hsp, f, hf, rfl⟩ := next_spawn h
    have hfn := spawn_cases hsp hf
    refine ⟨?_, ?_, ?_⟩ <;> simp only [State.emit, List.getElem?_append, FnDef.mkThread] <;>
      grind [holds, Valid, fetchFn, fileChangedFn, regInit, lastDel, RetOk]
  | spurious j =>
    obtain ⟨r1, r2, r3⟩ := R
    obtain ⟨hp, _, rfl⟩ := next_spurious h
    exact ⟨r1, r2, r3⟩

end GopModel.C40
