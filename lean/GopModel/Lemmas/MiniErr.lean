/-
Lemmas for M4: the closures emitted for `f(args)!` and `f(args)?:d` evaluate to their documented
meaning (`Doc.errBang`, `Doc.errDflt`), for callees with up to two values + error.
Core Lean only.
-/
import GopModel.Lemmas.MiniMain
namespace GopModel.Mini

def Val.isTuple : Val → Bool
  | .tuple _ => true
  | _ => false

/-- Named functions return plain values (a multi-value result is never itself an element). -/
def CalleeOK (callee : String → List Val → Trace → CallRes) : Prop :=
  ∀ f as tr vs tr', callee f as tr = .vals vs tr' → ∀ v ∈ vs, v.isTuple = false

theorem agree_tmp_frame (F : Frame) (env : Env) (hF : ∀ x, isTmp x = false → F.get x = none) :
    Agree (F :: env) env := Agree.push_left F hF (Agree.refl env)

theorem splitErr_snoc (i : List Val) (e : Val) : splitErr (i ++ [e]) = some (i, e) := by
  simp [splitErr]

theorem exists_snoc (v : Val) (r : List Val) : ∃ i e, v :: r = i ++ [e] ∧ i.length = r.length :=
  ⟨(v :: r).dropLast, (v :: r).getLast (by simp), (List.dropLast_concat_getLast (by simp)).symm, by simp⟩

theorem splitErr_long (v1 v2 : Val) (r : List Val) :
    ∃ i e, splitErr (v1 :: v2 :: r) = some (i, e) ∧ i.length = r.length + 1 := by
  obtain ⟨i, e, h, hl⟩ := exists_snoc v1 (v2 :: r)
  exact ⟨i, e, by rw [h, splitErr_snoc], by simpa using hl⟩

/-- A frame binding only the listed temporaries is invisible to source code. -/
theorem tmp_frame_invisible (F : Frame) (hF : ∀ p ∈ F, isTmp p.1 = true) :
    ∀ x, isTmp x = false → F.get x = none := by
  intro x hx
  induction F with
  | nil => rfl
  | cons p r ih =>
    obtain ⟨y, w⟩ := p
    rw [Frame.get_cons]
    have hy : isTmp y = true := hF (y, w) (List.mem_cons_self ..)
    have : ¬ x = y := by intro e; subst e; rw [hy] at hx; cases hx
    simp only [this, if_false]
    exact ih (fun p hp => hF p (List.mem_cons_of_mem _ hp))

theorem splitErr0 : splitErr [] = none := rfl
theorem splitErr1 (e : Val) : splitErr [e] = some ([], e) := rfl
theorem splitErr2 (a e : Val) : splitErr [a, e] = some ([a], e) := rfl
theorem splitErr3 (a b e : Val) : splitErr [a, b, e] = some ([a, b], e) := rfl

theorem zero_err : Ty.zero .err = Val.nil := rfl

section
attribute [local simp] spreadVals pack setAll Env.set Env.get Env.declare Frame.has Frame.get Frame.set
  List.lookup splitErr0 splitErr1 splitErr2 splitErr3 ifErr wrapFrameStmt gopErr evalS evalSs evalE evalEs Doc.ifSem evalFilter inFrame
  wrapErr readResults zeroFrame retNames retNamesFrom callSem CallRes.toRes closureSem
  Doc.errBang Doc.errDflt Doc.wrappedCall zero_err

theorem isTuple_false_of_not {v : Val} (h : v.isTuple = false) : ∀ ws, v ≠ .tuple ws := by
  intro ws e; subst e; cases h

/-- `f(args)!` for a callee returning only an error. -/
theorem errBang0 (c : Ctx) (code f : String) (argsL : List Expr) (as : Sem (List Val))
    (ha : evalEs c argsL = as) (hg : Good as) :
    evalE c (.closure (retNames [])
      [.varDecl "_gop_err" .err,
       .assign ((retNames []).map (·.1) ++ ["_gop_err"]) [.call f argsL],
       ifErr [wrapFrameStmt code c.fname, .panic gopErr],
       .ret []]) = Doc.errBang c.callee code c.fname f as 0 := by
  funext env tr
  have hA : Agree ([("_gop_err", Val.nil)] :: env) env :=
    agree_tmp_frame _ env (tmp_frame_invisible _ (by simp [isTmp_gop_err]))
  have hres := hg.resp _ _ tr hA
  simp only [evalE, closureSem, retNames, retNamesFrom, zeroFrame, List.map_nil, evalSs, evalS,
    Env.declare, Frame.has_nil, zero_err, List.nil_append, evalEs, callSem, Res.bind_ok,
    Bool.false_eq_true, if_false, ha, hres, Doc.errBang, Doc.wrappedCall]
  cases h1 : as env tr with
  | ok vs e' tr' =>
    have := hg.ok_env h1; subst this
    simp only [Res.withEnv_ok, Res.bind_ok]
    cases h2 : c.callee f vs tr' with
    | vals ws t =>
      simp only [CallRes.toRes, Res.bind_ok]
      match ws with
      | [] => simp [isNilVal]
      | [v] =>
        cases hv : isNilVal v with
        | none => simp [hv]
        | some b => cases b <;> simp [hv]
      | v1 :: v2 :: r =>
        obtain ⟨i, e, hs, hl⟩ := splitErr_long v1 v2 r
        have hi : i ≠ [] := by intro e; subst e; simp at hl
        rw [hs]
        simp [isNilVal, hi]
    | panic v t => simp
    | timeout t => simp
    | stuck => simp
  | panic v t => simp
  | ret vs e' t => exact absurd h1 (hg.noret _ _ _ _ _)
  | timeout t => simp
  | stuck => simp

theorem splitErr_long3 (v1 v2 v3 : Val) (r : List Val) :
    ∃ i e, splitErr (v1 :: v2 :: v3 :: r) = some (i, e) ∧ i.length = r.length + 2 := by
  obtain ⟨i, e, h, hl⟩ := splitErr_long v1 v2 (v3 :: r)
  exact ⟨i, e, h, by simpa using hl⟩

theorem splitErr_long4 (v1 v2 v3 v4 : Val) (r : List Val) :
    ∃ i e, splitErr (v1 :: v2 :: v3 :: v4 :: r) = some (i, e) ∧ i.length = r.length + 3 := by
  obtain ⟨i, e, h, hl⟩ := splitErr_long v1 v2 (v3 :: v4 :: r)
  exact ⟨i, e, h, by simpa using hl⟩

/-- `f(args)!` for a callee returning one value and an error. -/
theorem errBang1 (c : Ctx) (hc : CalleeOK c.callee) (code f : String) (argsL : List Expr)
    (as : Sem (List Val)) (ha : evalEs c argsL = as) (hg : Good as) (t : Ty) :
    evalE c (.closure (retNames [t])
      [.varDecl "_gop_err" .err,
       .assign ((retNames [t]).map (·.1) ++ ["_gop_err"]) [.call f argsL],
       ifErr [wrapFrameStmt code c.fname, .panic gopErr],
       .ret []]) = Doc.errBang c.callee code c.fname f as 1 := by
  funext env tr
  have hA : Agree ([("_gop_err", Val.nil), ("_gop_ret", t.zero)] :: env) env :=
    agree_tmp_frame _ env (tmp_frame_invisible _ (by simp [isTmp_gop_err, isTmp_gop_ret]))
  have hres := hg.resp _ _ tr hA
  cases h1 : as env tr with
  | ok vs e' tr' =>
    have := hg.ok_env h1; subst this
    cases h2 : c.callee f vs tr' with
    | vals ws t2 =>
      match ws with
      | [] => simp [ha, hres, h1, h2]
      | [v] =>
        have hv : v.isTuple = false := hc _ _ _ _ _ h2 v (by simp)
        cases v with
        | tuple ws => simp [Val.isTuple] at hv
        | _ => simp [ha, hres, h1, h2]
      | [v, e] =>
        cases hv : isNilVal e with
        | none => simp [ha, hres, h1, h2, hv]
        | some b => cases b <;> simp [ha, hres, h1, h2, hv]
      | v1 :: v2 :: v3 :: r =>
        obtain ⟨i, e, hs, hl⟩ := splitErr_long3 v1 v2 v3 r
        simp [ha, hres, h1, h2, hs, hl]
    | panic v t => simp [ha, hres, h1, h2]
    | timeout t => simp [ha, hres, h1, h2]
    | stuck => simp [ha, hres, h1, h2]
  | panic v t => simp [ha, hres, h1]
  | ret vs e' t => exact absurd h1 (hg.noret _ _ _ _ _)
  | timeout t => simp [ha, hres, h1]
  | stuck => simp [ha, hres, h1]

theorem gop_ret2_name : ("_gop_ret" ++ Nat.repr 2) = "_gop_ret2" := by decide
theorem isTmp_gop_ret2 : isTmp "_gop_ret2" = true := by decide

/-- `f(args)!` for a callee returning two values and an error. -/
theorem errBang2 (c : Ctx) (hc : CalleeOK c.callee) (code f : String) (argsL : List Expr)
    (as : Sem (List Val)) (ha : evalEs c argsL = as) (hg : Good as) (t1 t2 : Ty) :
    evalE c (.closure (retNames [t1, t2])
      [.varDecl "_gop_err" .err,
       .assign ((retNames [t1, t2]).map (·.1) ++ ["_gop_err"]) [.call f argsL],
       ifErr [wrapFrameStmt code c.fname, .panic gopErr],
       .ret []]) = Doc.errBang c.callee code c.fname f as 2 := by
  funext env tr
  have hA : Agree ([("_gop_err", Val.nil), ("_gop_ret", t1.zero), ("_gop_ret2", t2.zero)] :: env) env :=
    agree_tmp_frame _ env (tmp_frame_invisible _ (by
      intro p hp
      simp only [List.mem_cons, List.not_mem_nil, or_false] at hp
      rcases hp with rfl | rfl | rfl
      · exact isTmp_gop_err
      · exact isTmp_gop_ret
      · exact isTmp_gop_ret2))
  have hres := hg.resp _ _ tr hA
  cases h1 : as env tr with
  | ok vs e' tr' =>
    have := hg.ok_env h1; subst this
    cases h2 : c.callee f vs tr' with
    | vals ws t3 =>
      match ws with
      | [] => simp [ha, hres, h1, h2, gop_ret2_name]
      | [v] =>
        have hv : v.isTuple = false := hc _ _ _ _ _ h2 v (by simp)
        cases v with
        | tuple ws => simp [Val.isTuple] at hv
        | _ => simp [ha, hres, h1, h2, gop_ret2_name]
      | [a, b] => simp [ha, hres, h1, h2, gop_ret2_name]
      | [a, b, e] =>
        cases hv : isNilVal e with
        | none => simp [ha, hres, h1, h2, hv, gop_ret2_name]
        | some b => cases b <;> simp [ha, hres, h1, h2, hv, gop_ret2_name]
      | v1 :: v2 :: v3 :: v4 :: r =>
        obtain ⟨i, e, hs, hl⟩ := splitErr_long4 v1 v2 v3 v4 r
        simp [ha, hres, h1, h2, hs, hl, gop_ret2_name]
    | panic v t => simp [ha, hres, h1, h2, gop_ret2_name]
    | timeout t => simp [ha, hres, h1, h2, gop_ret2_name]
    | stuck => simp [ha, hres, h1, h2, gop_ret2_name]
  | panic v t => simp [ha, hres, h1, gop_ret2_name]
  | ret vs e' t => exact absurd h1 (hg.noret _ _ _ _ _)
  | timeout t => simp [ha, hres, h1, gop_ret2_name]
  | stuck => simp [ha, hres, h1, gop_ret2_name]

/-- `f(args)?:d`. -/
theorem errDflt1 (c : Ctx) (hc : CalleeOK c.callee) (f : String) (argsL : List Expr)
    (as : Sem (List Val)) (ha : evalEs c argsL = as) (hg : Good as) (t : Ty)
    (dL : Expr) (d : Sem Val) (hd : evalE c dL = d) (hgd : Good d) :
    evalE c (.closure [("_gop_ret", t)]
      [.varDecl "_gop_err" .err,
       .assign ["_gop_ret", "_gop_err"] [.call f argsL],
       ifErr [.ret [dL]],
       .ret []]) = Doc.errDflt c.callee f as d := by
  funext env tr
  have hA : Agree ([("_gop_err", Val.nil), ("_gop_ret", t.zero)] :: env) env :=
    agree_tmp_frame _ env (tmp_frame_invisible _ (by simp [isTmp_gop_err, isTmp_gop_ret]))
  have hres := hg.resp _ _ tr hA
  cases h1 : as env tr with
  | ok vs e' tr' =>
    have := hg.ok_env h1; subst this
    cases h2 : c.callee f vs tr' with
    | vals ws t2 =>
      match ws with
      | [] => simp [ha, hres, h1, h2]
      | [v] =>
        have hv : v.isTuple = false := hc _ _ _ _ _ h2 v (by simp)
        cases v with
        | tuple ws => simp [Val.isTuple] at hv
        | _ => simp [ha, hres, h1, h2]
      | [v, e] =>
        cases hv : isNilVal e with
        | none => simp [ha, hres, h1, h2, hv]
        | some b =>
          cases b with
          | true => simp [ha, hres, h1, h2, hv]
          | false =>
            have hA2 : Agree ([] :: [("_gop_err", e), ("_gop_ret", v)] :: e') e' :=
              Agree.push_nil (agree_tmp_frame _ e' (tmp_frame_invisible _
                (by simp [isTmp_gop_err, isTmp_gop_ret])))
            have hd2 := hgd.resp _ _ t2 hA2
            cases h3 : d e' t2 with
            | ret vs2 e2 t => exact absurd h3 (hgd.noret _ _ _ _ _)
            | ok dv e2 t =>
              have := hgd.ok_env h3; subst this
              simp [ha, hres, h1, h2, hv, hd, hd2, h3]
            | panic w t => simp [ha, hres, h1, h2, hv, hd, hd2, h3]
            | timeout t => simp [ha, hres, h1, h2, hv, hd, hd2, h3]
            | stuck => simp [ha, hres, h1, h2, hv, hd, hd2, h3]
      | v1 :: v2 :: v3 :: r =>
        obtain ⟨i, e, hs, hl⟩ := splitErr_long3 v1 v2 v3 r
        have hi : ∀ x, i ≠ [x] := by intro x hx; subst hx; simp at hl
        simp [ha, hres, h1, h2, hs]
        match i, hi with
        | [], _ => rfl
        | [x], hi => exact absurd rfl (hi x)
        | _ :: _ :: _, _ => rfl
    | panic v t => simp [ha, hres, h1, h2]
    | timeout t => simp [ha, hres, h1, h2]
    | stuck => simp [ha, hres, h1, h2]
  | panic v t => simp [ha, hres, h1]
  | ret vs e' t => exact absurd h1 (hg.noret _ _ _ _ _)
  | timeout t => simp [ha, hres, h1]
  | stuck => simp [ha, hres, h1]

end

end GopModel.Mini
