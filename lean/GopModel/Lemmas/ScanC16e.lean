/-
Lemmas for C16, part 5: the two token loops in lockstep.
-/
import GopModel.Lemmas.ScanC16d
namespace GopModel.Scan
open GopModel.Generated

variable {src : Array UInt8}

theorem lockstep16 (U : UCls) (c n : Bool) : ∀ (fuel : Nat) (sx sg : St) (acc : List Token),
    R16 src n sx sg → goRunOK (cfgG U c n) src fuel sg = true →
    scanLoop (cfgX U c n) src fuel sx acc = scanLoop (cfgG U c n) src fuel sg acc := by
  intro fuel
  induction fuel with
  | zero => intro sx sg acc _ h; simp [goRunOK] at h
  | succ f ih =>
    intro sx sg acc hR hrun
    simp only [goRunOK, Bool.and_eq_true, beq_iff_eq] at hrun
    obtain ⟨⟨hfail, hstep⟩, hrest⟩ := hrun
    have hstep' : goStepOK U src sg (scanStep (cfgG U c n) src (src.size + 1) sg) = true := hstep
    have hleaf := step16 U c n hR hstep'
    have hspec := scanStep_spec (src := src) (cfgX U c n) (by simp [cfgX]) (src.size + 1) (Nat.lt_succ_self _) hR.good
    have hR' : R16 src n (scanStep (cfgX U c n) src (src.size + 1) sx).1 (scanStep (cfgG U c n) src (src.size + 1) sg).1 :=
      ⟨hleaf.same, hspec.good, hleaf.unit, hleaf.nl, hleaf.semi⟩
    simp only [scanLoop]
    generalize scanStep (cfgX U c n) src (src.size + 1) sx = rx at hleaf hR' ⊢
    generalize scanStep (cfgG U c n) src (src.size + 1) sg = rg at hleaf hR' hfail hrest ⊢
    have hfx : rx.1.fail = .ok := by rw [hleaf.same.fail]; exact hfail
    rw [hfx, hfail, hleaf.tok]
    simp only []
    cases hg : rg.2 with
    | none =>
      simp only [hg] at hrest ⊢
      exact ih _ _ _ hR' hrest
    | some t =>
      simp only [hg, Bool.or_eq_true, beq_iff_eq] at hrest ⊢
      have hk : (codes (cfgX U c n).d).EOF = (codes (cfgG U c n).d).EOF := codes16.2.1
      rw [hk]
      by_cases he : t.kind = (codes (cfgG U c n).d).EOF
      · simp only [he, if_true]
        rw [hleaf.same.errs]
      · simp only [he, if_false]
        rcases hrest with h | h
        · exact absurd h he
        · exact ih _ _ _ hR' h

theorem initSt_R16 (n : Bool) (src : Array UInt8) : R16 src n (initSt src) (initSt src) :=
  ⟨Same.rfl' _, ⟨initSt_inv src, initSt_fail src, by simp, by simp [slice_self]⟩, by simp, by simp, Or.inl rfl⟩

/-- On the domain the two models produce the same `ScanOut`: the same tokens (offset, end, kind,
literal), the same error-handler calls in the same order, the same status. -/
theorem scan_xgo_eq_go (U : UCls) (c n : Bool) (src : Array UInt8) (h : goLexemesOnly U c n src = true) :
    scan (cfgX U c n) src = scan (cfgG U c n) src := by
  unfold scan
  exact lockstep16 U c n _ _ _ _ (initSt_R16 n src) h

end GopModel.Scan
