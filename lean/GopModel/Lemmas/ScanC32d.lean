/-
Lemmas for C32, part 4: one pass through `Scan` of tpl and xgo from the same state; the runs.
-/
import GopModel.Lemmas.ScanC32c
namespace GopModel.Scan
open GopModel.Generated

variable {src : Array UInt8}

/-- every token returned by the comment case starts at `pos` -/
theorem scanCommentTok_pos {cfg : Cfg} {F : Nat} {st1 : St} {pos : Nat} {sharp : Bool} {t : Token}
    (h : (scanCommentTok cfg src F st1 pos sharp).2 = some t) : t.pos = pos := by
  unfold scanCommentTok at h
  simp only [] at h
  repeat' split at h
  all_goals first
    | (simp only [finish, mkTok, autoSemi, Option.some.injEq] at h; rw [← h])
    | (simp at h)

theorem numKind32 (k : NumKind) : KindRel (numKindCode (codes .tpl) k) (numKindCode (codes .xgo) k) := by
  obtain ⟨k1, _, _, _, k5, k6, k7, _, _, k10, _⟩ := kinds32
  cases k
  · exact k1
  · exact k5
  · exact k6
  · exact k7
  · exact k10

theorem step32 (U : UCls) (c n : Bool) {st : St} (hg : Good src st)
    (hok : shStepOK src st (scanStep (cfgX' U c n) src (src.size + 1) st) = true) :
    Leaf32 (scanStep (cfgT U c n) src (src.size + 1) st) (scanStep (cfgX' U c n) src (src.size + 1) st) := by
  have hF : src.size < src.size + 1 := Nat.lt_succ_self _
  obtain ⟨k1, k2, k3, k4, k5, k6, k7, k8, k9, k10, k11, k12, k13, k14⟩ := kinds32
  by_cases hu : st.unitVal = []
  · have hsk := skipWs_adv (src := src) (src.size + 1) st hg.inv (by omega)
    unfold scanStep at hok ⊢
    simp only [cfgT, cfgX', reduceCtorEq, if_false, if_true, hu, ne_eq, not_false_eq_true,
      and_true] at hok ⊢
    generalize hax : skipWs src (src.size + 1) st = ax at hsk hok ⊢
    have hi := hsk.inv
    have huA : ax.unitVal = [] := hsk.unit.trans hu
    simp only [huA, not_true_eq_false, if_false] at hok ⊢
    -- the domain hypothesis as a predicate on the xgo result
    let Q : St × Option Token → Prop := fun r => shStepOK src st r = true
    have hq : Q _ := hok
    have qtok : ∀ {r : St × Option Token}, Q r → ∀ t, r.2 = some t → sharedTokOK src t = true :=
      fun h => shStep_tok h
    have qnone : ∀ {r : St × Option Token}, Q r → r.2 = none → commentSpanOK src ax.off r.1.off = true := by
      intro r h hn
      simp only [Q, shStepOK, hn, hax] at h
      exact h
    clear hok
    refine leaf32_ite (Q := Q) hq ?_ ?_
    · intro _ hq
      exact ident32 U c n _ ax ax.off (qtok hq)
    · intro _ hq
      refine leaf32_ite (Q := Q) hq ?_ ?_
      · intro _ _
        rw [scanNumber_tpl_eq_xgo]
        exact finish32 U c n _ _ _ _ _ true (numKind32 _)
      · intro _ hq
        have a1 := Adv.ofNext hi
        refine leaf32_ite (Q := Q) hq ?_ ?_
        · intro _ hq
          refine leaf32_ite (Q := Q) hq ?_ ?_
          · intro _ _; exact autoSemi32 U c n _ _
          · intro _ _; exact finish32 U c n _ _ _ _ _ _ k2
        · intro heof hq
          refine leaf32_ite (Q := Q) hq ?_ ?_
          · intro _ _; exact autoSemi32 U c n _ _
          · intro _ hq
            refine leaf32_ite (Q := Q) hq ?_ ?_
            · intro _ _; exact finish32 U c n _ _ _ _ _ _ k9
            · intro _ hq
              refine leaf32_ite (Q := Q) hq ?_ ?_
              · intro _ _; exact finish32 U c n _ _ _ _ _ _ k8
              · intro _ hq
                refine leaf32_ite (Q := Q) hq ?_ ?_
                · intro _ _; exact finish32 U c n _ _ _ _ _ _ k9
                · intro _ hq
                  refine leaf32_ite (Q := Q) hq ?_ ?_
                  · intro _ hq
                    refine leaf32_ite (Q := Q) hq ?_ ?_
                    · intro _ _; exact finish32 U c n _ _ _ _ _ _ k14
                    · intro _ _; exact finish32 U c n _ _ _ _ _ _ k13
                  · intro _ hq
                    refine leaf32_ite (Q := Q) hq ?_ ?_
                    · intro _ _; exact finish32 U c n _ _ _ _ _ _ k12
                    · intro _ hq
                      refine leaf32_ite (Q := Q) hq ?_ ?_
                      · -- '#'
                        intro hsh hq
                        refine comment32 U c n (src.size + 1) hF ax hi huA true (by simpa using hsh) (by simp) ?_
                        intro e he
                        rcases he with ⟨t, ht, hk, hs⟩ | ⟨hn, hs⟩
                        · have ht' : (scanCommentTok { d := Dialect.xgo, comments := c, noSemis := n, U := U } src (src.size + 1) (next src ax) ax.off true).2 = some t := by
                            simpa [cfgX'] using ht
                          have := (shTok_parts (qtok hq t ht')).2.2.2.2.2 hk
                          have hp : t.pos = ax.off := scanCommentTok_pos ht'
                          rw [hp, hs] at this
                          exact this
                        · have hn' : (scanCommentTok { d := Dialect.xgo, comments := c, noSemis := n, U := U } src (src.size + 1) (next src ax) ax.off true).2 = none := by
                            simpa [cfgX'] using hn
                          have := qnone hq hn'
                          have hs' : (scanCommentTok { d := Dialect.xgo, comments := c, noSemis := n, U := U } src (src.size + 1) (next src ax) ax.off true).1.off = e := by
                            simpa [cfgX'] using hs
                          rw [hs'] at this
                          exact this
                      · intro _ hq
                        refine leaf32_ite (Q := Q) hq ?_ ?_
                        · -- '/' comment
                          intro hcm hq
                          refine comment32 U c n (src.size + 1) hF ax hi huA false (by simpa using hcm.1)
                            (fun _ => hcm.2) ?_
                          intro e he
                          rcases he with ⟨t, ht, hk, hs⟩ | ⟨hn, hs⟩
                          · have ht' : (scanCommentTok { d := Dialect.xgo, comments := c, noSemis := n, U := U } src (src.size + 1) (next src ax) ax.off false).2 = some t := by
                              simpa [cfgX'] using ht
                            have := (shTok_parts (qtok hq t ht')).2.2.2.2.2 hk
                            have hp : t.pos = ax.off := scanCommentTok_pos ht'
                            rw [hp, hs] at this
                            exact this
                          · have hn' : (scanCommentTok { d := Dialect.xgo, comments := c, noSemis := n, U := U } src (src.size + 1) (next src ax) ax.off false).2 = none := by
                              simpa [cfgX'] using hn
                            have := qnone hq hn'
                            have hs' : (scanCommentTok { d := Dialect.xgo, comments := c, noSemis := n, U := U } src (src.size + 1) (next src ax) ax.off false).1.off = e := by
                              simpa [cfgX'] using hs
                            rw [hs'] at this
                            exact this
                        · -- operators
                          intro _ hq
                          have := ops32 (src := src) U c n (next src ax) (by rw [next_unitVal]; exact huA) a1.inv ax.off ax.ch
                            (by simpa only [cfgX'] using qtok hq)
                          simpa only [cfgT, cfgX'] using this
  · -- a pending unit: both return it
    unfold scanStep
    simp only [cfgT, cfgX', reduceCtorEq, if_false, hu, ne_eq, not_false_eq_true, if_true]
    exact finish32 U c n _ _ _ _ _ true k11

end GopModel.Scan
