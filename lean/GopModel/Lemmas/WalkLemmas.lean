/-
Generic lemmas about `WalkModel.walk` (any kind/field types, any step table): if the step table
of every kind lists exactly the child fields of the specification, in order and with the same
guards, then on every tree without nil entries in unguarded positions `walk` makes exactly
the visitor calls of `preorder`.  Core Lean only.
-/
import GopModel.Model.WalkModel
namespace GopModel.WalkModel
variable {K F : Type}

/-- Induction principle for the nested tree type. -/
theorem Node.ind {motive : Node K F → Prop}
    (hnull : ∀ s ty, motive (.null s ty))
    (hmk : ∀ s k id flags kids, (∀ t ∈ kids, motive t) → motive (.mk s k id flags kids)) :
    ∀ t, motive t := by
  intro t
  exact Node.rec (motive_1 := motive) (motive_2 := fun ts => ∀ t ∈ ts, motive t)
    hnull (fun s k id flags kids ih => hmk s k id flags kids ih)
    (by intro t h; cases h)
    (fun t ts iht ihts => by
      intro x hx
      cases hx with
      | head => exact iht
      | tail _ h => exact ihts x h) t

@[simp] theorem Res.seq_ok_ok (a b : List Ev) : (Res.ok a).seq (Res.ok b) = Res.ok (a ++ b) := by
  simp [Res.seq, Res.ok]

theorem Res.seqAll_ok {α} (l : List α) (h : α → List Ev) :
    Res.seqAll (l.map fun x => Res.ok (h x)) = Res.ok (l.flatMap h) := by
  induction l with
  | nil => simp [Res.seqAll]
  | cons a l ih => simp [Res.seqAll, ih]

theorem flatMap_filter {α β} (l : List α) (p : α → Bool) (f : α → List β) :
    (l.filter p).flatMap f = l.flatMap (fun x => if p x then f x else []) := by
  induction l with
  | nil => simp
  | cons a l ih => by_cases h : p a <;> simp [h, ih]

variable [DecidableEq F]

/-- The `case` of kind `k` lists exactly the spec's child fields, in order, same guards. -/
def caseOK (tbl : K → Option (List (Step F))) (spec : ChildSpec K F) (k : K) : Bool :=
  match tbl k with
  | none => false
  | some steps => decide (steps.map (fun s => (s.fld, s.grd)) = spec k)

theorem walkSel_eq (tbl : K → Option (List (Step F))) (spec : ChildSpec K F) (d : Nat → Bool)
    (f : F) (skip : Bool) (strict : List (Step F))
    (hs : skip = true ∨ ∃ s ∈ strict, s.fld = f) :
    ∀ ts : List (Node K F),
      (∀ t ∈ ts, t.isNull = false → wf tbl t = true → walk tbl d t = Res.ok (preorder spec d t)) →
      wfKids tbl strict ts = true →
      walkSel tbl d f skip ts = Res.ok (preSel spec d f ts) := by
  intro ts
  induction ts with
  | nil => intro _ _; simp [walkSel, preSel]
  | cons t ts ih =>
    intro hall hwf
    simp only [wfKids, Bool.and_eq_true] at hwf
    obtain ⟨⟨hnn, hwt⟩, hrest⟩ := hwf
    have ih' := ih (fun x hx => hall x (List.mem_cons_of_mem _ hx)) hrest
    by_cases hslot : t.slot = f
    · cases hnull : t.isNull
      · -- a real node in field f
        have hw := hall t (List.mem_cons_self) hnull hwt
        simp [walkSel, preSel, hslot, hnull, hw, ih']
      · -- nil entry
        cases skip
        · -- not skipped by Walk: excluded by wf
          exfalso
          rcases hs with h | ⟨s, hs1, hs2⟩
          · cases h
          · have : (strict.any fun s => decide (s.fld = t.slot)) = true :=
              List.any_eq_true.mpr ⟨s, hs1, by simp [hs2, hslot]⟩
            simp [hnull, this] at hnn
        · simp [walkSel, preSel, hslot, hnull, ih']
    · simp [walkSel, preSel, hslot, ih']

/-- Main generic theorem. -/
theorem walk_eq_preorder (tbl : K → Option (List (Step F))) (spec : ChildSpec K F)
    (d : Nat → Bool) (hOK : ∀ k, caseOK tbl spec k = true) :
    ∀ t : Node K F, t.isNull = false → wf tbl t = true →
      walk tbl d t = Res.ok (preorder spec d t) := by
  intro t
  induction t using Node.ind with
  | hnull s ty => intro h; simp [Node.isNull] at h
  | hmk s k id flags kids ih =>
    intro _ hwf
    have hk := hOK k
    unfold caseOK at hk
    unfold wf at hwf
    cases htbl : tbl k with
    | none => simp [htbl] at hk
    | some steps =>
      simp only [htbl] at hk hwf
      have hspec : spec k = steps.map (fun s => (s.fld, s.grd)) := (of_decide_eq_true hk).symm
      by_cases hd : d id = true
      · have hstep : ∀ s ∈ steps,
            (if guardSet flags s.grd then Res.ok []
              else walkSel tbl d s.fld s.op.skipsNull kids) =
            Res.ok (if !guardSet flags s.grd then preSel spec d s.fld kids else []) := by
          intro s hs
          by_cases hg : guardSet flags s.grd = true
          · simp [hg]
          · simp only [hg, Bool.false_eq_true, if_false]
            have : walkSel tbl d s.fld s.op.skipsNull kids = Res.ok (preSel spec d s.fld kids) := by
              apply walkSel_eq tbl spec d s.fld s.op.skipsNull _ _ kids ih hwf
              by_cases hsk : s.op.skipsNull = true
              · exact Or.inl hsk
              · exact Or.inr ⟨s, List.mem_filter.mpr ⟨hs, by simp [hsk]⟩, rfl⟩
            simp [this]
        have hmap : (steps.map fun s =>
              if guardSet flags s.grd then Res.ok []
              else walkSel tbl d s.fld s.op.skipsNull kids) =
            steps.map fun s =>
              Res.ok (if !guardSet flags s.grd then preSel spec d s.fld kids else []) :=
          List.map_congr_left hstep
        simp only [walk, preorder, hd, if_true, htbl, hmap, Res.seqAll_ok, Res.seq_ok_ok, hspec,
          flatMap_filter, List.flatMap_map]
        simp [Res.ok]
      · simp [walk, preorder, hd]

/-! ### Trees that respect the documented nil-ability of fields -/

/- `conforms nl t`: a nil entry occurs only in a field listed by `nl` for the parent's kind
(the fields whose declaration comment says "or nil"). -/
mutual
def conforms (nl : K → List F) : Node K F → Bool
  | .null .. => true
  | .mk _ k _ _ kids => conformsKids nl (nl k) kids
def conformsKids (nl : K → List F) (allowed : List F) : List (Node K F) → Bool
  | [] => true
  | t :: ts => (!t.isNull || allowed.contains t.slot) && conforms nl t && conformsKids nl allowed ts
end

/-- Every kind has a case, and a field that may be nil is only walked behind a nil test. -/
def nilableOK (tbl : K → Option (List (Step F))) (nl : K → List F) (k : K) : Bool :=
  match tbl k with
  | none => false
  | some steps => steps.all fun s => s.op.skipsNull || !(nl k).contains s.fld

theorem conformsKids_wfKids (tbl : K → Option (List (Step F))) (nl : K → List F)
    (allowed : List F) (strict : List (Step F))
    (hdisj : ∀ s ∈ strict, allowed.contains s.fld = false) :
    ∀ ts : List (Node K F), (∀ t ∈ ts, conforms nl t = true → wf tbl t = true) →
      conformsKids nl allowed ts = true → wfKids tbl strict ts = true := by
  intro ts
  induction ts with
  | nil => intro _ _; simp [wfKids]
  | cons t ts ih =>
    intro hall hc
    simp only [conformsKids, Bool.and_eq_true] at hc
    obtain ⟨⟨hn, hct⟩, hrest⟩ := hc
    simp only [wfKids, Bool.and_eq_true]
    refine ⟨⟨?_, hall t List.mem_cons_self hct⟩,
      ih (fun x hx => hall x (List.mem_cons_of_mem _ hx)) hrest⟩
    cases hnull : t.isNull
    · simp
    · simp only [hnull, Bool.not_true, Bool.false_or] at hn
      simp only [Bool.true_and, Bool.not_eq_true']
      apply Bool.eq_false_iff.mpr
      intro hany
      obtain ⟨s, hs, hsf⟩ := List.any_eq_true.mp hany
      have := hdisj s hs
      simp only [decide_eq_true_eq] at hsf
      rw [hsf] at this
      rw [this] at hn
      cases hn

theorem conforms_wf (tbl : K → Option (List (Step F))) (nl : K → List F)
    (hN : ∀ k, nilableOK tbl nl k = true) :
    ∀ t : Node K F, conforms nl t = true → wf tbl t = true := by
  intro t
  induction t using Node.ind with
  | hnull s ty => intro _; simp [wf]
  | hmk s k id flags kids ih =>
    intro hc
    have hk := hN k
    unfold nilableOK at hk
    unfold wf
    cases htbl : tbl k with
    | none => simp [htbl] at hk
    | some steps =>
      simp only [htbl] at hk ⊢
      simp only [conforms] at hc
      apply conformsKids_wfKids tbl nl (nl k) _ _ kids ih hc
      intro s hs
      obtain ⟨hs1, hs2⟩ := List.mem_filter.mp hs
      have := List.all_eq_true.mp hk s hs1
      simp only [Bool.not_eq_true'] at hs2
      simpa [hs2] using this

/-! ### Shape of the visitor-call sequence -/

def countNil : List Ev → Nat
  | [] => 0
  | .nil :: r => countNil r + 1
  | .visit _ :: r => countNil r

theorem countNil_append (a b : List Ev) : countNil (a ++ b) = countNil a + countNil b := by
  induction a with
  | nil => simp [countNil]
  | cons e a ih => cases e <;> simp [countNil, ih] <;> omega

theorem visitIds_append (a b : List Ev) : visitIds (a ++ b) = visitIds a ++ visitIds b := by
  induction a with
  | nil => simp [visitIds]
  | cons e a ih => cases e <;> simp [visitIds, ih]

theorem preSel_balanced (spec : ChildSpec K F) (f : F) :
    ∀ ts : List (Node K F),
      (∀ t ∈ ts, countNil (preorder spec (fun _ => true) t) =
        (visitIds (preorder spec (fun _ => true) t)).length) →
      countNil (preSel spec (fun _ => true) f ts) =
        (visitIds (preSel spec (fun _ => true) f ts)).length := by
  intro ts
  induction ts with
  | nil => intro _; simp [preSel, countNil, visitIds]
  | cons t ts ih =>
    intro h
    have ht := h t List.mem_cons_self
    have ih' := ih (fun x hx => h x (List.mem_cons_of_mem _ hx))
    by_cases hc : t.slot = f ∧ (!t.isNull) = true
    · simp only [preSel, hc, and_self, if_true, countNil_append, visitIds_append,
        List.length_append, ht, ih']
    · simp only [preSel, hc, if_false, ih']

/-- Without pruning, every visited node gets its closing `Visit(nil)`. -/
theorem preorder_balanced (spec : ChildSpec K F) :
    ∀ t : Node K F, countNil (preorder spec (fun _ => true) t) =
      (visitIds (preorder spec (fun _ => true) t)).length := by
  intro t
  induction t using Node.ind with
  | hnull s ty => simp [preorder, countNil, visitIds]
  | hmk s k id flags kids ih =>
    simp only [preorder, if_true, countNil, visitIds, countNil_append, visitIds_append,
      List.length_cons, List.length_append, List.length_nil]
    have : ∀ l : List (F × Option F),
        countNil (l.flatMap fun c => preSel spec (fun _ => true) c.1 kids) =
        (visitIds (l.flatMap fun c => preSel spec (fun _ => true) c.1 kids)).length := by
      intro l
      induction l with
      | nil => simp [countNil, visitIds]
      | cons c l ihl =>
        simp only [List.flatMap_cons, countNil_append, visitIds_append, List.length_append, ihl,
          preSel_balanced spec c.1 kids ih]
    rw [this]

end GopModel.WalkModel
