/-
M3 lemmas, part 2: the parser model run on printed token streams (`toks`).
Definitions: `exprPrec`, `norm` (the tree the parser returns for the printed form: the tree
with a `paren` node wherever the printer adds parentheses and directly nested parentheses
collapsed), `wf` (the fragment for which the round trip is proved), one-step equations of the
parser functions, and the abstract statements `StA/StB/StG/StE` with their derivations.
-/
import GopModel.Lemmas.ExprToks
namespace GopModel.ExprSyntax
open Gen

/-! ## Precedence of a node, normal form, well-formedness -/

def exprPrec : XExpr → Nat
  | .binary op _ _ => prec op
  | .unary _ _ => unaryPrec
  | .star _ => unaryPrec
  | .errWrap _ _ (some _) => unaryPrec
  | .lambda .. => lowestPrec
  | _ => highestPrec

def wrapP (b : Bool) (e : XExpr) : XExpr := if b then .paren e else e

mutual
/-- The tree `parseX` returns for the printed form of `e` in a context of precedence `p`. -/
def norm : XExpr → Nat → XExpr
  | .binary op x y, p =>
    wrapP (decide (prec op < p)) (.binary op (norm x (prec op)) (norm y (prec op + 1)))
  | .unary op x, p => wrapP (decide (unaryPrec < p)) (.unary op (norm x unaryPrec))
  | .star x, p => wrapP (decide (unaryPrec < p)) (.star (norm x unaryPrec))
  | .paren x, _ => if isParenNode x then norm x lowestPrec else .paren (norm x lowestPrec)
  | .selector x s, _ => .selector (norm x highestPrec) s
  | .index x i, _ => .index (norm x highestPrec) (norm i lowestPrec)
  | .call f args ell cmd, _ => .call (norm f highestPrec) (normL args) ell cmd
  | .errWrap x tok none, _ => .errWrap (norm x highestPrec) tok none
  | .errWrap x tok (some d), p =>
    wrapP (decide (unaryPrec < p)) (.errWrap (norm x highestPrec) tok (some (norm d unaryPrec)))
  | .typeAssert x ty, _ => .typeAssert (norm x highestPrec) ty
  | .lambda lhs lp rhs rp, p =>
    wrapP (decide (lowestPrec < p)) (.lambda lhs lp (if rp then normL rhs else normB rhs) rp)
  | e, _ => e
def normL : List XExpr → List XExpr
  | [] => []
  | e :: r => norm e lowestPrec :: normL r
/-- The single body expression of a lambda without parenthesised results. -/
def normB : List XExpr → List XExpr
  | [b] => [norm b lowestPrec]
  | l => l
end

def isBinOp (o : Op) : Bool := decide (1 ≤ prec o) && decide (prec o < unaryPrec)

mutual
/-- The fragment of M3 for which the print/parse round trip is proved. -/
def wf : XExpr → Bool
  | .ident _ => true
  | .lit _ _ => true
  | .numUnit _ _ _ => true
  | .env _ _ => true
  | .binary op x y => isBinOp op && wf x && wf y
  | .unary op x => (isUnaryOp op || op == .ARROW) && wf x
  | .star x => wf x
  | .paren x => wf x
  | .selector x _ => wf x
  | .index x i => wf x && wf i
  | .call f args ell cmd => !cmd && wf f && wfL args && (!ell || !args.isEmpty)
  | .errWrap x tok none => (tok == .NOT || tok == .QUESTION) && wf x
  | .errWrap x tok (some d) => (tok == .NOT || tok == .QUESTION) && wf x && wf d
  | .typeAssert x none => wf x                       -- `x.(type)`
  | .typeAssert x (some (.ident _)) => wf x          -- `x.(T)`
  | .lambda lhs lp rhs rp =>
    -- `x => e`, `=> e`, `(x, y) => e`, `… => (e1, e2)`; more than one parameter needs the parentheses
    (lp || decide (lhs.length ≤ 1)) && (if rp then !rhs.isEmpty && wfL rhs else wfB rhs)
  | _ => false
def wfL : List XExpr → Bool
  | [] => true
  | e :: r => wf e && wfL r
/-- Body of a lambda without parenthesised results: one expression whose printed form does not
start with `(` (which the parser would take for a result list; finding
`lambda-body-leading-paren`). -/
def wfB : List XExpr → Bool
  | [b] => wf b && !headIs .LPAREN (toks b lowestPrec)
  | _ => false
end

mutual
def size : XExpr → Nat
  | .binary _ x y => size x + size y + 1
  | .unary _ x => size x + 1
  | .star x => size x + 1
  | .paren x => if isParenNode x then size x else size x + 1   -- `((x))` is printed as `(x)`
  | .selector x _ => size x + 1
  | .index x i => size x + size i + 1
  | .call f args _ _ => size f + sizeL args + 1
  | .errWrap x _ none => size x + 1
  | .errWrap x _ (some d) => size x + size d + 1
  | .typeAssert x _ => size x + 1
  | .lambda lhs _ rhs rp => lhs.length + (if rp then sizeL rhs else sizeB rhs) + 1
  | _ => 1
def sizeL : List XExpr → Nat
  | [] => 0
  | e :: r => size e + 1 + sizeL r
def sizeB : List XExpr → Nat
  | [b] => size b
  | _ => 0
end

/-- Fuel bound per node. -/
def cost (e : XExpr) : Nat := 40 * size e
def costL (l : List XExpr) : Nat := 40 * sizeL l

/-! ## Predicates on the rest of the input -/

def opHead : List Tok → Bool
  | [] => true
  | .op _ :: _ => true
  | _ => false

/-- The postfix loop of `parsePrimaryExpr` stops here. -/
def stopsLoop : List Tok → Bool
  | [] => true
  | .op o :: _ => !(o == .PERIOD || o == .LBRACK || o == .LPAREN || o == .LBRACE || o == .NOT || o == .QUESTION)
  | _ => false

/-- ... and `parseErrWrapExpr` does not take a default value. -/
def stopsPrimary : List Tok → Bool
  | [] => true
  | .op o :: _ =>
    !(o == .PERIOD || o == .LBRACK || o == .LPAREN || o == .LBRACE || o == .NOT || o == .QUESTION || o == .COLON)
  | _ => false

def headPrec : List Tok → Nat
  | .op o :: _ => tokPrec o
  | _ => 0

/-- A complete expression ends here: no postfix, no binary operator, no `=>`. -/
def stopsTop (r : List Tok) : Bool := stopsPrimary r && headPrec r == 0 && !headIs .DRARROW r

/-- Tokens that start an operand. -/
def isPrimStart : Tok → Bool
  | .ident _ => true
  | .lit _ _ => true
  | .op .LPAREN => true
  | .op .ENV => true
  | _ => false

/-- Tokens that start an expression of the fragment. -/
def isStart : Tok → Bool
  | .ident _ => true
  | .lit _ _ => true
  | .op o => o == .LPAREN || o == .ENV || o == .ADD || o == .SUB || o == .NOT || o == .XOR || o == .AND
      || o == .ARROW || o == .MUL
  | _ => false

/-- ... or a lambda without parameters (`=> e`). -/
def isStartL (t : Tok) : Bool := isStart t || t == .op .DRARROW

theorem isStartL_of_isStart {t : Tok} (h : isStart t = true) : isStartL t = true := by
  simp [isStartL, h]

theorem opHead_of_stopsLoop {r : List Tok} (h : stopsLoop r = true) : opHead r = true := by
  cases r with
  | nil => rfl
  | cons t tl => cases t <;> simp [stopsLoop] at h <;> rfl

theorem stopsLoop_of_stopsPrimary {r : List Tok} (h : stopsPrimary r = true) : stopsLoop r = true := by
  cases r with
  | nil => rfl
  | cons t tl =>
    cases t with
    | op o => cases o <;> simp [stopsPrimary] at h <;> simp [stopsLoop]
    | _ => simp [stopsPrimary] at h

theorem opHead_of_stopsPrimary {r : List Tok} (h : stopsPrimary r = true) : opHead r = true :=
  opHead_of_stopsLoop (stopsLoop_of_stopsPrimary h)

theorem isStart_of_isPrimStart {t : Tok} (h : isPrimStart t = true) : isStart t = true := by
  cases t with
  | op o => cases o <;> simp [isPrimStart] at h <;> simp [isStart]
  | _ => first | rfl | simp [isPrimStart] at h

/-! ## One-step equations of the parser -/

theorem primaryLoop_stop (m : Nat) (x : XExpr) (r : List Tok) (h : stopsLoop r = true) :
    primaryLoop (m + 1) x r = .ok (x, r) := by
  cases r with
  | nil => simp [primaryLoop]
  | cons t tl =>
    cases t with
    | op o => cases o <;> simp [stopsLoop] at h <;> simp [primaryLoop]
    | _ => simp [stopsLoop] at h

theorem primaryLoop_sel (m : Nat) (x : XExpr) (s : Str) (r : List Tok) :
    primaryLoop (m + 1) x (.op .PERIOD :: .ident s :: r) = primaryLoop m (.selector x s) r := by
  simp [primaryLoop]

theorem primaryLoop_not (m : Nat) (x : XExpr) (r : List Tok) :
    primaryLoop (m + 1) x (.op .NOT :: r) = primaryLoop m (.errWrap x .NOT none) r := by
  simp [primaryLoop]

theorem primaryLoop_question (m : Nat) (x : XExpr) (r : List Tok) :
    primaryLoop (m + 1) x (.op .QUESTION :: r) = primaryLoop m (.errWrap x .QUESTION none) r := by
  simp [primaryLoop]

theorem primaryLoop_index {m : Nat} {x x' : XExpr} {r r' : List Tok}
    (h : parseIndexOrSlice m x r = .ok (x', r')) :
    primaryLoop (m + 1) x (.op .LBRACK :: r) = primaryLoop m x' r' := by
  simp [primaryLoop, h]

theorem primaryLoop_call {m : Nat} {x : XExpr} {args : List XExpr} {ell : Bool} {r r' : List Tok}
    (h : parseArgs m [] r = .ok ((args, ell), r')) :
    primaryLoop (m + 1) x (.op .LPAREN :: r) = primaryLoop m (.call x args ell false) r' := by
  simp [primaryLoop, h]

theorem parseIndexOrSlice_index {m : Nat} {x i : XExpr} {t : Tok} {tl r : List Tok}
    (ht : isStartL t = true) (h : parseLambda m false (t :: tl) = .ok (i, .op .RBRACK :: r)) :
    parseIndexOrSlice (m + 1) x (t :: tl) = .ok (.index x i, r) := by
  cases t with
  | op o => cases o <;> simp [isStartL, isStart] at ht <;> simp [parseIndexOrSlice, h]
  | ident s => simp [parseIndexOrSlice, h]
  | lit k v => simp [parseIndexOrSlice, h]
  | unit u => simp [isStartL, isStart] at ht
  | kw s => simp [isStartL, isStart] at ht

theorem parseArgs_rparen (m : Nat) (acc : List XExpr) (r : List Tok) :
    parseArgs (m + 1) acc (.op .RPAREN :: r) = .ok ((acc.reverse, false), r) := by
  simp [parseArgs]

theorem parseArgs_comma {m : Nat} {acc : List XExpr} {e : XExpr} {t : Tok} {tl r : List Tok}
    (ht : isStartL t = true) (h : parseLambda m false (t :: tl) = .ok (e, .op .COMMA :: r)) :
    parseArgs (m + 1) acc (t :: tl) = parseArgs m (e :: acc) r := by
  cases t with
  | op o => cases o <;> simp [isStartL, isStart] at ht <;> simp [parseArgs, h]
  | ident s => simp [parseArgs, h]
  | lit k v => simp [parseArgs, h]
  | unit u => simp [isStartL, isStart] at ht
  | kw s => simp [isStartL, isStart] at ht

theorem parseArgs_last {m : Nat} {acc : List XExpr} {e : XExpr} {t : Tok} {tl r : List Tok}
    (ht : isStartL t = true) (h : parseLambda m false (t :: tl) = .ok (e, .op .RPAREN :: r)) :
    parseArgs (m + 1) acc (t :: tl) = .ok (((e :: acc).reverse, false), r) := by
  cases t with
  | op o => cases o <;> simp [isStartL, isStart] at ht <;> simp [parseArgs, h]
  | ident s => simp [parseArgs, h]
  | lit k v => simp [parseArgs, h]
  | unit u => simp [isStartL, isStart] at ht
  | kw s => simp [isStartL, isStart] at ht

theorem parseArgs_ell {m : Nat} {acc : List XExpr} {e : XExpr} {t : Tok} {tl r : List Tok}
    (ht : isStartL t = true)
    (h : parseLambda m false (t :: tl) = .ok (e, .op .ELLIPSIS :: .op .RPAREN :: r)) :
    parseArgs (m + 1) acc (t :: tl) = .ok (((e :: acc).reverse, true), r) := by
  cases t with
  | op o => cases o <;> simp [isStartL, isStart] at ht <;> simp [parseArgs, h]
  | ident s => simp [parseArgs, h]
  | lit k v => simp [parseArgs, h]
  | unit u => simp [isStartL, isStart] at ht
  | kw s => simp [isStartL, isStart] at ht

theorem parseOperand_ident (n : Nat) (lhs tup : Bool) (s : Str) (r : List Tok) (h : opHead r = true) :
    parseOperand (n + 1) lhs tup (.ident s :: r) = .ok (.ident s, r) := by
  cases r with
  | nil => simp [parseOperand]
  | cons t tl => cases t <;> simp [opHead] at h <;> simp [parseOperand]

theorem parseOperand_lit (n : Nat) (lhs tup : Bool) (k : LitKind) (v : Str) (r : List Tok)
    (h : opHead r = true) :
    parseOperand (n + 1) lhs tup (.lit k v :: r) = .ok (.lit k v, r) := by
  cases r with
  | nil => simp [parseOperand]
  | cons t tl => cases t <;> simp [opHead] at h <;> simp [parseOperand]

theorem parseOperand_numUnit (n : Nat) (lhs tup : Bool) (k : LitKind) (v u : Str) (r : List Tok) :
    parseOperand (n + 1) lhs tup (.lit k v :: .unit u :: r) = .ok (.numUnit k v u, r) := by
  simp [parseOperand]

theorem parseOperand_env (n : Nat) (lhs tup : Bool) (s : Str) (r : List Tok) :
    parseOperand (n + 1) lhs tup (.op .ENV :: .ident s :: r) = .ok (.env s false, r) := by
  simp [parseOperand]

theorem parseOperand_envBrace (n : Nat) (lhs tup : Bool) (s : Str) (r : List Tok) :
    parseOperand (n + 1) lhs tup (.op .ENV :: .op .LBRACE :: .ident s :: .op .RBRACE :: r) =
      .ok (.env s true, r) := by
  simp [parseOperand]

theorem parseOperand_paren {n : Nat} {lhs tup : Bool} {x : XExpr} {t : Tok} {tl r : List Tok}
    (ht : isStartL t = true) (h : parseLambda n false (t :: tl) = .ok (x, .op .RPAREN :: r)) :
    parseOperand (n + 1) lhs tup (.op .LPAREN :: t :: tl) = .ok (.paren x, r) := by
  cases tup <;> cases t with
  | op o => cases o <;> simp [isStartL, isStart] at ht <;> simp [parseOperand, h]
  | ident s => simp [parseOperand, h]
  | lit k v => simp [parseOperand, h]
  | unit u => simp [isStartL, isStart] at ht
  | kw s => simp [isStartL, isStart] at ht

theorem parsePrimary_step {n : Nat} {lhs tup : Bool} {ts r : List Tok} {x : XExpr}
    (h : parseOperand n lhs tup ts = .ok (x, r)) (hx : isTuple x = false) :
    parsePrimary (n + 1) lhs tup ts = primaryLoop n x r := by
  simp [parsePrimary, h, hx]

theorem parseErrWrap_plain {n : Nat} {lhs tup : Bool} {ts r : List Tok} {x : XExpr}
    (h : parsePrimary n lhs tup ts = .ok (x, r)) (hr : stopsPrimary r = true) :
    parseErrWrap (n + 1) lhs tup ts = .ok (x, r) := by
  simp only [parseErrWrap, h]
  cases r with
  | nil => cases x <;> rfl
  | cons t tl =>
    cases t with
    | op o => cases o <;> simp [stopsPrimary] at hr <;> cases x <;> rfl
    | _ => simp [stopsPrimary] at hr

theorem parseErrWrap_default {n : Nat} {lhs tup : Bool} {ts r1 r2 : List Tok} {x0 d : XExpr} {tok : Op}
    {o : Option XExpr}
    (h : parsePrimary n lhs tup ts = .ok (.errWrap x0 tok o, .op .COLON :: r1))
    (hd : parseUnary n false false r1 = .ok (d, r2)) :
    parseErrWrap (n + 1) lhs tup ts = .ok (.errWrap x0 tok (some d), r2) := by
  simp [parseErrWrap, h, hd]

theorem parseUnary_prim {n : Nat} {lhs tup : Bool} {t : Tok} {tl : List Tok}
    (ht : isPrimStart t = true) :
    parseUnary (n + 1) lhs tup (t :: tl) = parseErrWrap n lhs tup (t :: tl) := by
  cases t with
  | op o => cases o <;> simp [isPrimStart] at ht <;> simp [parseUnary, isUnaryOp]
  | ident s => simp [parseUnary]
  | lit k v => simp [parseUnary]
  | unit u => simp [isPrimStart] at ht
  | kw s => simp [isPrimStart] at ht

theorem parseUnary_prefix {n : Nat} {lhs tup : Bool} {o : Op} {r r' : List Tok} {x : XExpr}
    (ho : (isUnaryOp o || o == .ARROW) = true)
    (h : parseUnary n false false r = .ok (x, r')) :
    parseUnary (n + 1) lhs tup (.op o :: r) = .ok (.unary o x, r') := by
  cases o <;> simp [isUnaryOp] at ho <;> simp [parseUnary, isUnaryOp, h]

theorem parseUnary_star {n : Nat} {lhs tup : Bool} {r r' : List Tok} {x : XExpr}
    (h : parseUnary n false false r = .ok (x, r')) :
    parseUnary (n + 1) lhs tup (.op .MUL :: r) = .ok (.star x, r') := by
  simp [parseUnary, h]

theorem parseBinary_step {n : Nat} {lhs tup : Bool} {p1 : Nat} {ts r : List Tok} {x : XExpr}
    (h : parseUnary n lhs tup ts = .ok (x, r)) (hx : isTuple x = false) :
    parseBinary (n + 1) lhs p1 tup ts = binaryLoop n p1 x r := by
  simp [parseBinary, h, hx]

theorem binaryLoop_stop (m p1 : Nat) (x : XExpr) (r : List Tok)
    (ho : opHead r = true) (h : headPrec r < p1) :
    binaryLoop (m + 1) p1 x r = .ok (x, r) := by
  cases r with
  | nil => simp [binaryLoop]
  | cons t tl =>
    cases t with
    | op o => simp [headPrec] at h; simp [binaryLoop, h]
    | _ => simp [opHead] at ho

theorem tokPrec_binOp {o : Op} (h : isBinOp o = true) : tokPrec o = prec o ∧ o ≠ .ASSIGN := by
  cases o <;> simp [isBinOp, prec, precedence] at h <;> simp [tokPrec]

theorem binaryLoop_op {m p1 : Nat} {x y : XExpr} {o : Op} {r r' : List Tok}
    (ho : isBinOp o = true) (hp : p1 ≤ prec o)
    (h : parseBinary m false (prec o + 1) false r = .ok (y, r')) :
    binaryLoop (m + 1) p1 x (.op o :: r) = binaryLoop m p1 (.binary o x y) r' := by
  obtain ⟨h1, h2⟩ := tokPrec_binOp ho
  have : ¬ (prec o < p1) := by omega
  simp [binaryLoop, h1, h2, this, h]

theorem headIs_of_isStart {t : Tok} {tl : List Tok} (ht : isStart t = true) :
    headIs .DRARROW (t :: tl) = false := by
  cases t with
  | op o => cases o <;> simp [isStart] at ht <;> simp [headIs]
  | _ => simp [headIs]

theorem parseLambda_plain {n : Nat} {tup : Bool} {t : Tok} {tl r : List Tok} {x : XExpr}
    (ht : isStart t = true)
    (h : parseBinary n false 1 true (t :: tl) = .ok (x, r))
    (hr : headIs .DRARROW r = false) (hx : isTuple x = false) :
    parseLambda (n + 1) tup (t :: tl) = .ok (x, r) := by
  simp [parseLambda, headIs_of_isStart ht, h, hr, hx]

/-! ### Lambda expressions -/

/-- The conversion of the parsed left-hand side at the end of `parseLambdaExpr`. -/
def lamOf (x? : Option XExpr) (rl : List XExpr) (rp : Bool) (r3 : List Tok) : Res XExpr :=
  match x? with
  | none => .ok (.lambda [] false rl rp, r3)
  | some (.tuple items _) =>
    (match toIdents? items with
     | some l => .ok (.lambda l true rl rp, r3)
     | none => .error .err)
  | some (.paren x) =>
    (match toIdent? (unparen x) with
     | some s => .ok (.lambda [s] true rl rp, r3)
     | none => .error .err)
  | some x =>
    (match toIdent? x with
     | some s => .ok (.lambda [s] false rl rp, r3)
     | none => .error .err)

theorem parseLambda_arrow (n : Nat) (tup : Bool) (r : List Tok) :
    parseLambda (n + 1) tup (.op .DRARROW :: r) = parseLamTail n none r := by
  simp [parseLambda, headIs]

theorem parseLambda_lhs {n : Nat} {tup : Bool} {ts r1 : List Tok} {x : XExpr}
    (hh : headIs .DRARROW ts = false)
    (h : parseBinary n false 1 true ts = .ok (x, .op .DRARROW :: r1)) :
    parseLambda (n + 1) tup ts = parseLamTail n (some x) r1 := by
  rw [parseLambda]
  simp only [hh, h]
  simp [headIs]

theorem parseLamTail_body {n : Nat} {x? : Option XExpr} {t : Tok} {tl r3 : List Tok} {e : XExpr}
    (ht : isStartL t = true) (hp : t ≠ .op .LPAREN)
    (h : parseLambda n false (t :: tl) = .ok (e, r3)) :
    parseLamTail (n + 1) x? (t :: tl) = lamOf x? [e] false r3 := by
  cases t with
  | op o =>
    cases o <;> simp [isStartL, isStart] at ht <;> first
      | exact absurd rfl hp
      | (cases x? with
         | none => simp [parseLamTail, h, lamOf]
         | some x => cases x <;> simp [parseLamTail, h, lamOf, toIdent?] <;> rfl)
  | ident s =>
    cases x? with
    | none => simp [parseLamTail, h, lamOf]
    | some x => cases x <;> simp [parseLamTail, h, lamOf, toIdent?] <;> rfl
  | lit k v =>
    cases x? with
    | none => simp [parseLamTail, h, lamOf]
    | some x => cases x <;> simp [parseLamTail, h, lamOf, toIdent?] <;> rfl
  | unit u => simp [isStartL, isStart] at ht
  | kw s => simp [isStartL, isStart] at ht

theorem parseLamTail_paren {n : Nat} {x? : Option XExpr} {r2 r3 : List Tok} {l : List XExpr}
    (h : parseLamRhs n [] r2 = .ok (l, r3)) :
    parseLamTail (n + 1) x? (.op .LPAREN :: r2) = lamOf x? l true r3 := by
  cases x? with
  | none => simp [parseLamTail, h, lamOf]
  | some x => cases x <;> simp [parseLamTail, h, lamOf, toIdent?] <;> rfl

theorem parseLamRhs_comma {n : Nat} {acc : List XExpr} {ts r1 : List Tok} {e : XExpr}
    (h : parseLambda n false ts = .ok (e, .op .COMMA :: r1)) :
    parseLamRhs (n + 1) acc ts = parseLamRhs n (e :: acc) r1 := by
  simp [parseLamRhs, h]

theorem parseLamRhs_last {n : Nat} {acc : List XExpr} {ts r1 : List Tok} {e : XExpr}
    (h : parseLambda n false ts = .ok (e, .op .RPAREN :: r1)) :
    parseLamRhs (n + 1) acc ts = .ok ((e :: acc).reverse, r1) := by
  simp [parseLamRhs, h]

/-- `( )` with allowTuple. -/
theorem parseOperand_unit (n : Nat) (lhs : Bool) (r : List Tok) :
    parseOperand (n + 1) lhs true (.op .LPAREN :: .op .RPAREN :: r) = .ok (.tuple [] false, r) := by
  simp [parseOperand]

/-- `( x , …` with allowTuple: the tuple items follow. -/
theorem parseOperand_tuple {n : Nat} {lhs : Bool} {x : XExpr} {t : Tok} {tl r : List Tok}
    (ht : isStartL t = true) (h : parseLambda n false (t :: tl) = .ok (x, .op .COMMA :: r)) :
    parseOperand (n + 1) lhs true (.op .LPAREN :: t :: tl) = parseTupleItems n [x] (.op .COMMA :: r) := by
  cases t with
  | op o => cases o <;> simp [isStartL, isStart] at ht <;> simp [parseOperand, h]
  | ident s => simp [parseOperand, h]
  | lit k v => simp [parseOperand, h]
  | unit u => simp [isStartL, isStart] at ht
  | kw s => simp [isStartL, isStart] at ht

theorem parseTupleItems_comma {n : Nat} {acc : List XExpr} {r r1 : List Tok} {x : XExpr}
    (h : parseLambda n false r = .ok (x, r1)) :
    parseTupleItems (n + 1) acc (.op .COMMA :: r) = parseTupleItems n (x :: acc) r1 := by
  simp [parseTupleItems, h]

theorem parseTupleItems_rparen (n : Nat) (acc : List XExpr) (r : List Tok) :
    parseTupleItems (n + 1) acc (.op .RPAREN :: r) = .ok (.tuple acc.reverse false, r) := by
  simp [parseTupleItems]

theorem parsePrimary_tuple {n : Nat} {lhs tup : Bool} {ts r : List Tok} {x : XExpr}
    (h : parseOperand n lhs tup ts = .ok (x, r)) (hx : isTuple x = true) :
    parsePrimary (n + 1) lhs tup ts = .ok (x, r) := by
  simp [parsePrimary, h, hx]

theorem parseErrWrap_tuple {n : Nat} {lhs tup : Bool} {ts r : List Tok} {items : List XExpr} {ell : Bool}
    (h : parsePrimary n lhs tup ts = .ok (.tuple items ell, r)) :
    parseErrWrap (n + 1) lhs tup ts = .ok (.tuple items ell, r) := by
  simp [parseErrWrap, h]

theorem parseBinary_tuple {n : Nat} {lhs tup : Bool} {p1 : Nat} {ts r : List Tok} {x : XExpr}
    (h : parseUnary n lhs tup ts = .ok (x, r)) (hx : isTuple x = true) :
    parseBinary (n + 1) lhs p1 tup ts = .ok (x, r) := by
  simp [parseBinary, h, hx]

theorem primaryLoop_typeAssert_ident (m : Nat) (x : XExpr) (a : Str) (r : List Tok) :
    primaryLoop (m + 1) x (.op .PERIOD :: .op .LPAREN :: .ident a :: .op .RPAREN :: r) =
      primaryLoop m (.typeAssert x (some (.ident a))) r := by
  simp [primaryLoop]

theorem primaryLoop_typeAssert_type (m : Nat) (x : XExpr) (r : List Tok) :
    primaryLoop (m + 1) x (.op .PERIOD :: .op .LPAREN :: .kw kwType :: .op .RPAREN :: r) =
      primaryLoop m (.typeAssert x none) r := by
  simp [primaryLoop]

end GopModel.ExprSyntax
