/-
Lemmas for C16, part 3: comments and the operator switch.
-/
import GopModel.Lemmas.ScanC16b
namespace GopModel.Scan
open GopModel.Generated

variable {src : Array UInt8}

/-! ### comments (only reached with no semicolon pending on either side) -/

theorem comment16 (U : UCls) (c n : Bool) (F : Nat) (hF : src.size < F) {a b : St} (h : Same a b) (hi : Inv src a)
    (hu : a.unitVal = []) (hn : b.nlPos = none) (hch : a.ch = 0x2F)
    (hnext : (next src a).ch = 0x2F ∨ (next src a).ch = 0x2A)
    (hax : a.insertSemi = false) (hbx : b.insertSemi = false) :
    Leaf16 src n (scanCommentTok (cfgX U c n) src F (next src a) a.off false)
      (scanCommentTok (cfgG U c n) src F (next src b) b.off false) := by
  have hib := hi.ofSame h
  have hsn := Same.next (src := src) h
  have hlt : a.ch < 0x80 := by omega
  have e1 := next_off_ascii hi hlt
  have hia1 := next_inv hi
  have hib1 := next_inv hib
  have hnextb : (next src b).ch = 0x2F ∨ (next src b).ch = 0x2A := by rw [← hsn.ch]; exact hnext
  have hfa : src.size - (next src a).off < F := by omega
  have hfb : src.size - (next src b).off < F := by rw [← hsn.off]; exact hfa
  have h1a : 1 ≤ (next src a).off := by omega
  have h1b : 1 ≤ (next src b).off := by rw [← hsn.off]; exact h1a
  have oka := scanCommentXG_ok F (next src a) hia1 hfa h1a
  have okb := scanCommentXG_ok F (next src b) hib1 hfb h1b
  have hdial := scanCommentXG_go_eq_xgo F (next src b) hib1 hfb h1b hnextb
  have hS := Same.scanCommentXG (src := src) .xgo F hsn
  unfold scanCommentTok
  simp only [cfgX, cfgG, reduceCtorEq, if_false, if_true, next_insertSemi, hax, Bool.false_eq_true]
  rw [hdial, ← h.off]
  generalize scanCommentXG .xgo src F (next src a) = ca at oka hS ⊢
  generalize scanCommentXG .xgo src F (next src b) = cb at okb hS ⊢
  obtain ⟨hs1, hs2, _⟩ := hS
  have hsemia : ca.st.insertSemi = false := by rw [oka.adv.semi, next_insertSemi]; exact hax
  have hsemib : cb.st.insertSemi = false := by rw [okb.adv.semi, next_insertSemi]; exact hbx
  have hua : ca.st.unitVal = [] := by rw [oka.adv.unit, next_unitVal]; exact hu
  have hnb : cb.st.nlPos = none := by rw [okb.adv.nl, next_nlPos]; exact hn
  simp only [hsemib, Bool.false_eq_true, false_and, if_false]
  rw [← hs2]
  cases c with
  | true =>
    simp only [if_true]
    obtain ⟨_, _, k3, _⟩ := codes16
    rw [k3]
    exact finish16 U true n hs1 hua hnb a.off _ _ false false (fun _ => by rw [hsemia, hsemib]) (Or.inl rfl)
  | false =>
    simp only [Bool.false_eq_true, if_false]
    refine ⟨rfl, ?_, hua, hnb, Or.inl ?_⟩
    · exact (Same.semi ca.st false).symm.trans hs1
    · simp only [hsemib]


/-! ### the operator switch -/

def differing16 : List Nat := [0x2D, 0x3C, 0x3D, 0x21, 0x28, 0x29]

theorem switch_agrees16 {ch : Nat} {tg : Trie} (h : (codes .go).ops.lookup ch = some tg) (hn : ch ∉ differing16) :
    (codes .xgo).ops.lookup ch = some tg := by
  have hall : (ScanSwitch.goOps.all fun e =>
      differing16.contains e.1 || ScanSwitch.xgoOps.lookup e.1 == some e.2) = true := by decide +kernel
  have := (List.all_eq_true.mp hall) _ (mem_of_lookup h)
  simp only [Bool.or_eq_true, beq_iff_eq] at this
  rcases this with h1 | h1
  · exact absurd (List.contains_iff_mem.mp h1) hn
  · exact h1

/-- the shared part of the `<` case -/
def trieLss : Trie :=
  .test 0x3D (.leaf Tokens.Go.LEQ false 0)
    (.test 0x3C (.test 0x3D (.leaf Tokens.Go.SHL_ASSIGN false 0) (.leaf Tokens.Go.SHL false 0)) (.leaf Tokens.Go.LSS false 0))

/-- the go case of `-` -/
def trieSub : Trie :=
  .test 0x3D (.leaf Tokens.Go.SUB_ASSIGN false 0) (.test 0x2D (.leaf Tokens.Go.DEC true 0) (.leaf Tokens.Go.SUB false 0))

theorem switch_explicit16 :
    (codes .go).ops.lookup 0x28 = some (.leaf Tokens.Go.LPAREN false 0) ∧
    (codes .xgo).ops.lookup 0x28 = some (.leaf Tokens.Go.LPAREN false 1) ∧
    (codes .go).ops.lookup 0x29 = some (.leaf Tokens.Go.RPAREN true 0) ∧
    (codes .xgo).ops.lookup 0x29 = some (.leaf Tokens.Go.RPAREN true (-1)) ∧
    (codes .go).ops.lookup 0x21 = some (.test 0x3D (.leaf Tokens.Go.NEQ false 0) (.leaf Tokens.Go.NOT false 0)) ∧
    (codes .xgo).ops.lookup 0x21 = some (.test 0x3D (.leaf Tokens.Go.NEQ false 0) (.leaf Tokens.Go.NOT true 0)) ∧
    (codes .go).ops.lookup 0x2D = some trieSub ∧
    (codes .xgo).ops.lookup 0x2D = some (.test 0x3E (.leaf Tokens.XGo.SRARROW false 0) trieSub) ∧
    (codes .go).ops.lookup 0x3D = some (.test 0x3D (.leaf Tokens.Go.EQL false 0) (.leaf Tokens.Go.ASSIGN false 0)) ∧
    (codes .xgo).ops.lookup 0x3D = some (.test 0x3D (.leaf Tokens.Go.EQL false 0)
      (.test 0x3E (.leaf Tokens.XGo.DRARROW false 0) (.leaf Tokens.Go.ASSIGN false 0))) ∧
    (codes .go).ops.lookup 0x3C = some (.test 0x2D (.leaf Tokens.Go.ARROW false 0) trieLss) ∧
    (codes .xgo).ops.lookup 0x3C = some (.test 0x2D (.leaf Tokens.Go.ARROW false 0)
      (.test 0x3E (.leaf Tokens.XGo.BIDIARROW false 0) trieLss)) := by
  decide +kernel

/-- both sides walk the same trie -/
theorem opSame16 (U : UCls) (c n : Bool) {a b : St} (h : Same a b) (hi : Inv src a) (hu : a.unitVal = [])
    (hn : b.nlPos = none) (hprev : n = true → a.insertSemi = b.insertSemi) (pos : Nat) (t : Trie) (dx dg : Int) :
    Leaf16 src n
      (finish (cfgX U c n) { (walk src t a).1 with nParen := dx } pos (walk src t a).2.1 [] (walk src t a).2.2.1)
      (finish (cfgG U c n) { (walk src t b).1 with nParen := dg } pos (walk src t b).2.1 [] (walk src t b).2.2.1) := by
  have hw := Same.walk (src := src) t h
  have hib := hi.ofSame h
  have wa := walk_adv (src := src) t a hi
  have wb := walk_adv (src := src) t b hib
  rw [← hw.2]
  refine finish16 U c n (a := { (walk src t a).1 with nParen := dx }) (b := { (walk src t b).1 with nParen := dg })
    ?_ ?_ ?_ pos _ _ _ _ ?_ (Or.inl rfl)
  · exact ((Same.paren _ dx).symm.trans hw.1).trans (Same.paren _ dg)
  · simp only; rw [wa.unit]; exact hu
  · simp only; rw [wb.nl]; exact hn
  · intro hn'; simp only; rw [wa.semi, wb.semi]; exact hprev hn'


/-- the go token of a `finish` on a state without pending unit -/
theorem finish_tok_go (cfg : Cfg) (st : St) (pos kind : Nat) (lit : List UInt8) (semi : Bool) (hu : st.unitVal = []) :
    (finish cfg st pos kind lit semi).2 = some ⟨pos, st.off, kind, lit⟩ := by
  rw [(finish_fst cfg st pos kind lit semi).2]
  unfold frontier; rw [hu]; rfl

theorem ops16 (U : UCls) (c n : Bool) {a b : St} (h : Same a b) (hi : Inv src a) (hu : a.unitVal = [])
    (hn : b.nlPos = none) (hprev : n = true → a.insertSemi = b.insertSemi) (pos ch : Nat)
    (hok : ∀ t, (opFinish (cfgG U c n) src b pos ch).2 = some t → goTokOK U src t = true) :
    Leaf16 src n (opFinish (cfgX U c n) src a pos ch) (opFinish (cfgG U c n) src b pos ch) := by
  have hib := hi.ofSame h
  have hub : b.unitVal = [] := by rw [← h.unitVal]; exact hu
  have hdecb := hib.decoded
  have hsn := Same.next (src := src) h
  -- leaves: a token without consuming / after consuming one more byte
  have leaf0 : ∀ (k : Nat) (dx dg : Int) (sx sg : Bool),
      (sx = sg ∨ (sx = true ∧ sg = false ∧ lineEndOrComment src a.off = false)) →
      Leaf16 src n (finish (cfgX U c n) { a with nParen := dx } pos k [] sx)
        (finish (cfgG U c n) { b with nParen := dg } pos k [] sg) := by
    intro k dx dg sx sg hs
    exact finish16 U c n (a := { a with nParen := dx }) (b := { b with nParen := dg })
      (((Same.paren a dx).symm.trans h).trans (Same.paren b dg)) hu hn pos k [] sx sg hprev hs
  have leaf1 : ∀ (k : Nat) (dx dg : Int) (s : Bool),
      Leaf16 src n (finish (cfgX U c n) { next src a with nParen := dx } pos k [] s)
        (finish (cfgG U c n) { next src b with nParen := dg } pos k [] s) := by
    intro k dx dg s
    refine finish16 U c n (a := { next src a with nParen := dx }) (b := { next src b with nParen := dg })
      (((Same.paren _ dx).symm.trans hsn).trans (Same.paren _ dg)) ?_ ?_ pos k [] s s ?_ (Or.inl rfl)
    · simp only [next_unitVal]; exact hu
    · simp only [next_nlPos]; exact hn
    · intro hn'; simp only [next_insertSemi]; exact hprev hn'
  -- a go token `k` returned without consuming anything while the next byte is '>'
  have noArrow : ∀ (k : Nat) (dg : Int) (s : Bool), (k = Tokens.Go.SUB ∨ k = Tokens.Go.ASSIGN ∨ k = Tokens.Go.LSS) →
      b.ch = 0x3E → goTokOK U src ⟨pos, b.off, k, []⟩ = true → False := by
    intro k dg s hk hgt hg
    have := goTokOK_arrow hg hk
    simp only at this
    rw [← hdecb] at this
    exact this hgt
  unfold opFinish at hok ⊢
  simp only [cfgX, cfgG] at hok ⊢
  cases hg : (codes Dialect.go).ops.lookup ch with
  | none =>
    exfalso
    simp only [hg] at hok
    have key : ∀ st2 : St, st2.unitVal = [] →
        (∀ t, (finish { d := Dialect.go, comments := c, noSemis := n, U := U } st2 pos (codes Dialect.go).ILLEGAL
          (encodeRune ch) st2.insertSemi).2 = some t → goTokOK U src t = true) → False := by
      intro st2 hu2 hk
      have := hk _ (finish_tok_go _ st2 pos _ _ _ hu2)
      exact goTokOK_not_illegal this rfl
    refine key _ ?_ hok
    split
    · exact hub
    · split <;> simp [hub]
  | some tg =>
    simp only [hg] at hok ⊢
    by_cases hd : ch ∈ differing16
    · obtain ⟨e1, e2, e3, e4, e5, e6, e7, e8, e9, e10, e11, e12⟩ := switch_explicit16
      simp only [differing16, List.mem_cons, List.mem_nil_iff, or_false] at hd
      rcases hd with rfl | rfl | rfl | rfl | rfl | rfl
      · -- '-'
        have : tg = trieSub := Option.some.inj (hg.symm.trans e7)
        subst this
        rw [e8]
        by_cases hgt : a.ch = 0x3E
        · exfalso
          have hbgt : b.ch = 0x3E := by rw [← h.ch]; exact hgt
          have hw : walk src trieSub b = (b, Tokens.Go.SUB, false, 0) := by
            simp [trieSub, walk, hbgt]
          rw [hw] at hok
          exact noArrow _ 0 false (Or.inl rfl) hbgt (hok _ (finish_tok_go _ _ pos _ _ _ hub))
        · have hw : walk src (.test 0x3E (.leaf Tokens.XGo.SRARROW false 0) trieSub) a = walk src trieSub a := by
            simp [walk, hgt]
          simp only [hw]
          exact opSame16 U c n h hi hu hn hprev pos trieSub _ _
      · -- '<'
        have : tg = .test 0x2D (.leaf Tokens.Go.ARROW false 0) trieLss := Option.some.inj (hg.symm.trans e11)
        subst this
        rw [e12]
        by_cases hm : a.ch = 0x2D
        · have hbm : b.ch = 0x2D := by rw [← h.ch]; exact hm
          simp only [walk, hm, hbm, if_true]
          exact leaf1 _ _ _ _
        · have hbm : ¬ b.ch = 0x2D := by rw [← h.ch]; exact hm
          by_cases hgt : a.ch = 0x3E
          · exfalso
            have hbgt : b.ch = 0x3E := by rw [← h.ch]; exact hgt
            have hw : walk src (.test 0x2D (.leaf Tokens.Go.ARROW false 0) trieLss) b = (b, Tokens.Go.LSS, false, 0) := by
              simp [trieLss, walk, hbgt]
            rw [hw] at hok
            exact noArrow _ 0 false (Or.inr (Or.inr rfl)) hbgt (hok _ (finish_tok_go _ _ pos _ _ _ hub))
          · have hwx : walk src (.test 0x2D (.leaf Tokens.Go.ARROW false 0) (.test 0x3E (.leaf Tokens.XGo.BIDIARROW false 0) trieLss)) a =
                walk src trieLss a := by simp [walk, hm, hgt]
            have hwg : walk src (.test 0x2D (.leaf Tokens.Go.ARROW false 0) trieLss) b = walk src trieLss b := by
              simp [walk, hbm]
            simp only [hwx, hwg]
            exact opSame16 U c n h hi hu hn hprev pos trieLss _ _
      · -- '='
        have : tg = .test 0x3D (.leaf Tokens.Go.EQL false 0) (.leaf Tokens.Go.ASSIGN false 0) :=
          Option.some.inj (hg.symm.trans e9)
        subst this
        rw [e10]
        by_cases hm : a.ch = 0x3D
        · have hbm : b.ch = 0x3D := by rw [← h.ch]; exact hm
          simp only [walk, hm, hbm, if_true]
          exact leaf1 _ _ _ _
        · have hbm : ¬ b.ch = 0x3D := by rw [← h.ch]; exact hm
          by_cases hgt : a.ch = 0x3E
          · exfalso
            have hbgt : b.ch = 0x3E := by rw [← h.ch]; exact hgt
            have hw : walk src (.test 0x3D (.leaf Tokens.Go.EQL false 0) (.leaf Tokens.Go.ASSIGN false 0)) b =
                (b, Tokens.Go.ASSIGN, false, 0) := by simp [walk, hbm]
            rw [hw] at hok
            exact noArrow _ 0 false (Or.inr (Or.inl rfl)) hbgt (hok _ (finish_tok_go _ _ pos _ _ _ hub))
          · simp only [walk, hm, hbm, hgt, if_false]
            exact leaf0 _ _ _ _ _ (Or.inl rfl)
      · -- '!'
        have : tg = .test 0x3D (.leaf Tokens.Go.NEQ false 0) (.leaf Tokens.Go.NOT false 0) :=
          Option.some.inj (hg.symm.trans e5)
        subst this
        rw [e6]
        by_cases hm : a.ch = 0x3D
        · have hbm : b.ch = 0x3D := by rw [← h.ch]; exact hm
          simp only [walk, hm, hbm, if_true]
          exact leaf1 _ _ _ _
        · have hbm : ¬ b.ch = 0x3D := by rw [← h.ch]; exact hm
          simp only [walk, hm, hbm, if_false] at hok ⊢
          apply leaf0
          right
          have := goTokOK_lenient (hok _ (finish_tok_go _ _ pos _ _ _ hub)) (Or.inl rfl)
          simp only at this
          rw [← h.off] at this
          exact ⟨rfl, rfl, this⟩
      · -- '('
        have : tg = .leaf Tokens.Go.LPAREN false 0 := Option.some.inj (hg.symm.trans e1)
        subst this
        rw [e2]
        simp only [walk]
        exact leaf0 _ _ _ _ _ (Or.inl rfl)
      · -- ')'
        have : tg = .leaf Tokens.Go.RPAREN true 0 := Option.some.inj (hg.symm.trans e3)
        subst this
        rw [e4]
        simp only [walk]
        exact leaf0 _ _ _ _ _ (Or.inl rfl)
    · rw [switch_agrees16 hg hd]
      simp only []
      exact opSame16 U c n h hi hu hn hprev pos tg _ _

end GopModel.Scan
