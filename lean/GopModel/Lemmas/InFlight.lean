/- Helper lemmas for Props/C39.lean: association-list maps, the epilogue of updateInFlight,
   `fire`, phases.  Core Lean only. -/
import GopModel.Model.InFlight
set_option linter.unusedSimpArgs false
namespace GopModel.InFlight

/-! ### Association-list maps -/
namespace Map
variable {α : Type}

theorem mem_del {m : Map α} {k k' : ID} {v : α} :
    (k', v) ∈ del m k ↔ (k', v) ∈ m ∧ k' ≠ k := by
  simp [del]

theorem mem_put {m : Map α} {k k' : ID} {v v0 : α} :
    (k', v) ∈ put m k v0 ↔ (k' = k ∧ v = v0) ∨ ((k', v) ∈ m ∧ k' ≠ k) := by
  simp [put, del]

theorem mem_keys {m : Map α} {k : ID} : k ∈ keys m ↔ ∃ v, (k, v) ∈ m := by
  simp [keys]

theorem mem_vals {m : Map α} {v : α} : v ∈ vals m ↔ ∃ k, (k, v) ∈ m := by
  simp [vals]

theorem keys_del (m : Map α) (k : ID) : keys (del m k) = (keys m).filter (· != k) := by
  simp [keys, del, List.filter_map]; rfl

theorem nodup_keys_del {m : Map α} (k : ID) (h : (keys m).Nodup) : (keys (del m k)).Nodup := by
  rw [keys_del]; exact h.filter _

theorem nodup_keys_put {m : Map α} (k : ID) (v : α) (h : (keys m).Nodup) :
    (keys (put m k v)).Nodup := by
  have h2 := nodup_keys_del k h
  simp only [put, keys, List.map_cons, List.nodup_cons]
  refine ⟨?_, h2⟩
  intro hk
  have : k ∈ keys (del m k) := hk
  rw [keys_del] at this
  simp at this

theorem get_eq_none {m : Map α} {k : ID} : get m k = none ↔ k ∉ keys m := by
  induction m with
  | nil => simp [get, keys, List.lookup]
  | cons e t ih =>
    obtain ⟨k1, v1⟩ := e
    simp only [get, List.lookup, keys, List.map_cons, List.mem_cons, not_or] at *
    by_cases h : k = k1
    · subst h; simp
    · have : (k == k1) = false := by simpa using h
      simp [this, h, ih]

theorem get_eq_some {m : Map α} {k : ID} {v : α} (hn : (keys m).Nodup) :
    get m k = some v ↔ (k, v) ∈ m := by
  induction m with
  | nil => simp [get, List.lookup]
  | cons e t ih =>
    obtain ⟨k1, v1⟩ := e
    simp only [keys, List.map_cons, List.nodup_cons] at hn
    simp only [get, List.lookup, List.mem_cons, Prod.mk.injEq] at *
    by_cases h : k = k1
    · subst h
      simp only [beq_self_eq_true, Option.some.injEq, true_and]
      constructor
      · intro h; exact Or.inl h.symm
      · rintro (h | h)
        · exact h.symm
        · exact absurd (List.mem_map.mpr ⟨(k, v), h, rfl⟩) hn.1
    · have hb : (k == k1) = false := by simpa using h
      simp [hb, h, ih hn.2]

theorem get_isSome {m : Map α} {k : ID} : (get m k).isSome = true ↔ k ∈ keys m := by
  cases h : get m k with
  | none => simp [get_eq_none.mp h]
  | some v =>
    simp only [Option.isSome_some, true_iff]
    apply Classical.byContradiction
    intro hk
    rw [get_eq_none.mpr hk] at h; cases h

end Map

/-! ### The epilogue of `updateInFlight`, field by field -/

/-- "This call of updateInFlight finishes the connection's shutdown work": not yet done, idle,
shutting down. -/
def St.fin (s : St) : Bool := !s.done && s.idle && s.shuttingDown.isSome

macro "epi_field" : tactic => `(tactic| (simp only [epilogue]; (repeat' split) <;> rfl))

section epilogue
variable (s : St) (o : Out)

theorem epi_connClosing : (epilogue s o).1.connClosing = s.connClosing := by
  epi_field
theorem epi_reading : (epilogue s o).1.reading = s.reading := by
  epi_field
theorem epi_readErr : (epilogue s o).1.readErr = s.readErr := by
  epi_field
theorem epi_writeErr : (epilogue s o).1.writeErr = s.writeErr := by
  epi_field
theorem epi_outgoing : (epilogue s o).1.outgoing = s.outgoing := by
  epi_field
theorem epi_outNotif : (epilogue s o).1.outNotif = s.outNotif := by
  epi_field
theorem epi_incoming : (epilogue s o).1.incoming = s.incoming := by
  epi_field
theorem epi_byID : (epilogue s o).1.byID = s.byID := by
  epi_field
theorem epi_queue : (epilogue s o).1.queue = s.queue := by
  epi_field
theorem epi_handlerRunning : (epilogue s o).1.handlerRunning = s.handlerRunning := by
  epi_field

theorem epi_closerOpen : (epilogue s o).1.closerOpen = (s.closerOpen && !s.fin) := by
  unfold epilogue St.fin
  cases h1 : s.done <;> cases h2 : s.idle <;> cases h3 : s.shuttingDown.isSome <;> cases h4 : s.reading <;> simp [h1, h2, h3, h4]
theorem epi_done : (epilogue s o).1.done = (s.done || (s.fin && !s.reading)) := by
  unfold epilogue St.fin
  cases h1 : s.done <;> cases h2 : s.idle <;> cases h3 : s.shuttingDown.isSome <;> cases h4 : s.reading <;> simp [h1, h2, h3, h4]

theorem epi_err : (epilogue s o).2.err = o.err := by
  epi_field
theorem epi_attempted : (epilogue s o).2.attempted = o.attempted := by
  epi_field
theorem epi_req : (epilogue s o).2.req = o.req := by
  epi_field
theorem epi_retired : (epilogue s o).2.retired = o.retired := by
  epi_field
theorem epi_clearReqID : (epilogue s o).2.clearReqID = o.clearReqID := by
  epi_field
theorem epi_panic : (epilogue s o).2.panic = (o.panic || (s.done && !s.idle)) := by
  unfold epilogue
  cases h1 : s.done <;> cases h2 : s.idle <;> cases h3 : s.shuttingDown.isSome <;> cases h4 : s.reading <;> cases h5 : s.closerOpen <;> simp [h1, h2, h3, h4, h5]
theorem epi_closedCloser :
    (epilogue s o).2.closedCloser = (o.closedCloser || (s.fin && s.closerOpen)) := by
  unfold epilogue St.fin
  cases h1 : s.done <;> cases h2 : s.idle <;> cases h3 : s.shuttingDown.isSome <;> cases h4 : s.reading <;> cases h5 : s.closerOpen <;> simp [h1, h2, h3, h4, h5]
theorem epi_closedDone :
    (epilogue s o).2.closedDone = (o.closedDone || (s.fin && !s.reading)) := by
  unfold epilogue St.fin
  cases h1 : s.done <;> cases h2 : s.idle <;> cases h3 : s.shuttingDown.isSome <;> cases h4 : s.reading <;> cases h5 : s.closerOpen <;> simp [h1, h2, h3, h4, h5]

end epilogue

/-- `idle` and `shuttingDown` do not look at `closerOpen`/`done`. -/
theorem epi_idle (s : St) (o : Out) : (epilogue s o).1.idle = s.idle := by
  simp [St.idle, epi_outgoing, epi_outNotif, epi_incoming, epi_handlerRunning]
theorem epi_shuttingDown (s : St) (o : Out) : (epilogue s o).1.shuttingDown = s.shuttingDown := by
  simp [St.shuttingDown, epi_connClosing, epi_readErr, epi_writeErr]

theorem shut_isSome (s : St) : s.shuttingDown.isSome = (s.connClosing || s.readErr || s.writeErr) := by
  unfold St.shuttingDown
  cases s.connClosing <;> cases s.readErr <;> cases s.writeErr <;> rfl

theorem shut_eq_none (s : St) : s.shuttingDown = none ↔ (s.connClosing = false ∧ s.readErr = false ∧ s.writeErr = false) := by
  unfold St.shuttingDown
  cases s.connClosing <;> cases s.readErr <;> cases s.writeErr <;> simp

theorem idle_iff (s : St) : s.idle = true ↔
    (s.outgoing = [] ∧ s.outNotif = 0 ∧ s.incoming = 0 ∧ s.handlerRunning = false) := by
  simp [St.idle, and_assoc]

/-! ### retire -/

theorem retire_ok {m : M} {e : Call × ID} (h : e.1 ∉ m.ready.map (·.1)) :
    retire m e = { m with ready := m.ready ++ [e] } := by
  unfold retire
  have : (m.ready.any fun x => x.1 == e.1) = false := by
    rw [Bool.eq_false_iff]; intro hc
    simp only [List.any_eq_true, beq_iff_eq] at hc
    obtain ⟨x, hx, hxe⟩ := hc
    exact h (List.mem_map.mpr ⟨x, hx, hxe⟩)
  simp [this]

theorem retireAll_ok : ∀ (es : List (Call × ID)) (m : M),
    (∀ e ∈ es, e.1 ∉ m.ready.map (·.1)) → (es.map (·.1)).Nodup →
    retireAll es m = { m with ready := m.ready ++ es }
  | [], m, _, _ => by simp [retireAll]
  | e :: es, m, h1, h2 => by
    simp only [List.map_cons, List.nodup_cons] at h2
    have he : e.1 ∉ m.ready.map (·.1) := h1 e (by simp)
    simp only [retireAll, List.foldl_cons, retire_ok he]
    have := retireAll_ok es { m with ready := m.ready ++ [e] } (by
      intro x hx
      simp only [List.map_append, List.map_cons, List.map_nil, List.mem_append, List.mem_singleton, not_or]
      refine ⟨h1 x (by simp [hx]), ?_⟩
      intro hxe
      exact h2.1 (hxe ▸ List.mem_map.mpr ⟨x, hx, rfl⟩)) h2.2
    simp only [retireAll] at this
    rw [this]; simp

end GopModel.InFlight
