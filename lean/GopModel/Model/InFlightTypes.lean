/-
Types shared by the hand-written model of `x/jsonrpc2/conn.go` (`Model/InFlight.lean`)
and by the definitions regenerated from the Go source (`Generated/InFlight.lean`):
the abstract value of `inFlightState` (+ the state of `c.done`), the observable effects
of one closure passed to `updateInFlight`, and association-list maps.  Core Lean only.
-/
namespace GopModel.InFlight

/-- A `jsonrpc2.ID`: invalid (no ID), an int64, or a string. -/
inductive ID where
  | none
  | int (n : Int)
  | str (s : String)
  deriving DecidableEq, Repr
/-- Identity of a heap object (`*AsyncCall`, `*incomingRequest`). -/
abbrev Ref := Nat

def noID : ID := ID.none

/-- An `*AsyncCall`: its identity and its immutable `id` field. -/
structure Call where
  ref : Ref
  id : ID
  deriving DecidableEq, Repr

/-- An `*incomingRequest`: its identity and its current `ID` (`noID` for a notification). -/
structure Req where
  ref : Ref
  id : ID
  deriving DecidableEq, Repr

/-- `req.IsCall()`: the ID is valid. -/
def Req.isCall (r : Req) : Bool := r.id != noID

/-- Go maps with `ID` keys, as association lists (at most one entry per key is kept by `put`). -/
abbrev Map (α : Type) := List (ID × α)

namespace Map
def get (m : Map α) (k : ID) : Option α := List.lookup k m
def del (m : Map α) (k : ID) : Map α := m.filter (fun e => e.1 != k)
def put (m : Map α) (k : ID) (v : α) : Map α := (k, v) :: del m k
def keys (m : Map α) : List ID := m.map (·.1)
def vals (m : Map α) : List α := m.map (·.2)
end Map

/-- Which of the three tests of `shuttingDown` fired. -/
inductive Cause where
  | closing | readErr | writeErr
  deriving DecidableEq, Repr

/-- The error value assigned to a captured `err` variable (only its kind is kept). -/
inductive Err where
  | clientClosing (c : Cause)      -- s.shuttingDown(ErrClientClosing)
  | serverClosing (c : Cause)      -- s.shuttingDown(ErrServerClosing)
  | wrap (sentinel : String)       -- fmt.Errorf("%w …", ErrX, …)
  deriving DecidableEq, Repr

/-- Abstract value of `inFlightState` together with "is `c.done` closed". -/
structure St where
  connClosing : Bool
  reading : Bool
  readErr : Bool                 -- readErr != nil
  writeErr : Bool                -- writeErr != nil
  closerOpen : Bool              -- closer != nil
  done : Bool                    -- c.done is closed
  outgoing : Map Call            -- outgoingCalls
  outNotif : Int                 -- outgoingNotifications (Go int; `--` is unguarded)
  incoming : Int                 -- incoming (Go int; `--` guarded by a panic at 0)
  byID : Map Req                 -- incomingByID
  queue : List Req               -- handlerQueue
  handlerRunning : Bool
  deriving DecidableEq, Repr

/-- State of a fresh `Connection` (`newConnection` before its `updateInFlight` call). -/
def St.init : St :=
  { connClosing := false, reading := false, readErr := false, writeErr := false,
    closerOpen := true, done := false, outgoing := [], outNotif := 0, incoming := 0,
    byID := [], queue := [], handlerRunning := false }

/-- Everything a closure (or the epilogue of `updateInFlight`) does besides updating `St`. -/
structure Out where
  err : Option Err := none              -- captured `err` after the closure
  attempted : Bool := false             -- captured `attempted` (Notify)
  req : Option Req := none              -- captured `req` (Respond, Cancel, handleAsync)
  retired : List (Call × ID) := []      -- `ac.retire(resp)` calls: the call and `resp.ID`
  cancelled : List Req := []            -- `r.cancel()` calls
  spawnReader : Bool := false           -- `go c.readIncoming(…)`
  spawnHandler : Bool := false          -- `go c.handleAsync()`
  clearReqID : Bool := false            -- `req.ID = ID{}`
  closedCloser : Bool := false          -- `s.closer.Close()` was called
  closedDone : Bool := false            -- `close(c.done)` was executed
  onDone : Bool := false                -- `c.onDone()` (if configured)
  panic : Bool := false                 -- a `panic(…)` statement was reached (the closure stops there)
  deriving DecidableEq, Repr

/-- Captured inputs of a closure (each closure uses only the components it mentions):
`call` = the `ac` of `Call`, `req` = the `req` of `acceptRequest`/`processResult`,
`id` = the `id` of `Respond`/`Cancel` or the `msg.ID` of a received response. -/
structure Args where
  call : Call
  req : Req
  id : ID
  deriving DecidableEq, Repr

end GopModel.InFlight
