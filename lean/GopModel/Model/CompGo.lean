/-
C01 kernel — a small Go subset (`GoProg`) with a deterministic abstract machine `evalG`.
Core Lean only (compiled into drv_comp and executed against real `go build` + run).

Subset: int (64-bit wrap-around), bool, string, slices (value semantics — the generator keeps
programs inside the discipline under which Go's aliasing cannot be observed: see
design_notes/C01.md), define, assign, op-assign, inc/dec, parallel assignment, indexed assignment, if/else with
init, 3-clause/condition/bare `for`, `for k, v := range slice`, `switch` with/without tag,
break/continue (innermost), top-level functions with several results and recursion,
immediately-invoked function literals without parameters ("closures as blocks":
`func() { … }()`), fmt.Println / fmt.Sprint, len, append, index, panic(value), os.Exit.

The machine is a CEK-style small-step interpreter with an explicit continuation stack; `run`
iterates `step` under a fuel bound, so determinism and fuel-monotonicity are short proofs
(Props/C01.lean) whatever the size of the language.
Outcomes the real program can have are explicit: stdout lines, exit status, panic text
(runtime errors carry Go's exact messages).  `stuck` marks ill-typed/ill-formed programs (never
produced by the generator; a `stuck` on a generated program is a model defect and shows up as a
disagreement with the real run).
-/
namespace GopModel.CompGo

inductive BinOp where
  | add | sub | mul | div | mod | eq | ne | lt | le | gt | ge | land | lor
  deriving DecidableEq, Repr

inductive UnOp where
  | neg | not
  deriving DecidableEq, Repr

inductive Expr where
  | int (i : Int)
  | bool (b : Bool)
  | str (s : String)
  | var (x : String)
  | bin (op : BinOp) (a b : Expr)
  | un (op : UnOp) (a : Expr)
  | call (f : String) (args : List Expr)
  | len (a : Expr)
  | index (a i : Expr)
  | sliceLit (elems : List Expr)
  | append (a : Expr) (args : List Expr)
  | copy (a : Expr)            -- append([]T{}, a...)
  | sprint (a : Expr)          -- fmt.Sprint(a)

inductive LHS where
  | var (x : String)           -- "_" is the blank identifier
  | idx (x : String) (i : Expr)

inductive Stmt where
  | define (xs : List String) (es : List Expr)
  | assign (ls : List LHS) (es : List Expr)
  | opAssign (l : LHS) (op : BinOp) (e : Expr)
  | incDec (l : LHS) (inc : Bool)
  | println (es : List Expr)
  | exprCall (f : String) (args : List Expr)
  | ifS (init : Option Stmt) (c : Expr) (t e : List Stmt)
  | forS (init : Option Stmt) (c : Option Expr) (post : Option Stmt) (body : List Stmt)
  | rangeS (k v : String) (e : Expr) (body : List Stmt)
  | switchS (init : Option Stmt) (tag : Option Expr) (cases : List (List Expr × List Stmt))
      (dflt : Option (List Stmt))
  | brk
  | cont
  | ret (es : List Expr)
  | block (body : List Stmt)   -- func() { body }()
  | panicS (e : Expr)
  | exit (e : Expr)

structure FuncDecl where
  name : String
  params : List String
  nres : Nat
  body : List Stmt

structure GoProg where
  funcs : List FuncDecl

inductive Val where
  | int (i : Int)
  | bool (b : Bool)
  | str (s : String)
  | slice (vs : List Val)

/-! ### Values -/

def wrap64 (x : Int) : Int := (x + 9223372036854775808) % 18446744073709551616 - 9223372036854775808

mutual
  def fmtVal : Val → String
    | .int i => toString i
    | .bool b => if b then "true" else "false"
    | .str s => s
    | .slice vs => "[" ++ fmtVals vs ++ "]"
  def fmtVals : List Val → String
    | [] => ""
    | [v] => fmtVal v
    | v :: rest => fmtVal v ++ " " ++ fmtVals rest
end

/-- `fmt.Println(args…)`: operands separated by blanks. -/
def fmtLine (vs : List Val) : String := fmtVals vs

/-- Text after "panic: " for `panic(v)` with a string, int or bool value. -/
def panicText : Val → Option String
  | .str s => some s
  | .int i => some (toString i)
  | .bool b => some (if b then "true" else "false")
  | .slice _ => none

/-! ### Environment: a stack of scopes, innermost first -/

abbrev Scope := List (String × Val)
abbrev Env := List Scope

def Scope.get (sc : Scope) (x : String) : Option Val := (sc.find? (fun p => p.1 == x)).map (·.2)

def Scope.set (sc : Scope) (x : String) (v : Val) : Scope :=
  sc.map fun p => if p.1 == x then (x, v) else p

def Env.get : Env → String → Option Val
  | [], _ => none
  | sc :: rest, x => match sc.get x with
    | some v => some v
    | none => Env.get rest x

def Env.set : Env → String → Val → Option Env
  | [], _, _ => none
  | sc :: rest, x, v => match sc.get x with
    | some _ => some (sc.set x v :: rest)
    | none => (Env.set rest x v).map (sc :: ·)

/-- `x := v` in the innermost scope (re-declaration in the same scope assigns). -/
def Env.declare : Env → String → Val → Env
  | [], x, v => [[(x, v)]]
  | sc :: rest, x, v => match sc.get x with
    | some _ => sc.set x v :: rest
    | none => ((x, v) :: sc) :: rest

def Env.truncate (env : Env) (n : Nat) : Env := env.drop (env.length - n)

def declareAll : Env → List String → List Val → Option Env
  | env, [], [] => some env
  | env, x :: xs, v :: vs => if x == "_" then declareAll env xs vs else declareAll (env.declare x v) xs vs
  | _, _, _ => none

/-! ### Outcomes -/

structure Outcome where
  stdout : List String
  exit : Nat
  panic : Option String
  deriving DecidableEq, Repr

inductive Res where
  | done (o : Outcome)
  | timeout
  | stuck (why : String)
  deriving DecidableEq, Repr

/-! ### Machine -/

inductive After where
  | call (f : String) (multi : Bool)
  | sliceLit
  | append
  | define (xs : List String)
  | assign (ls : List LHS)
  | opIdx (x : String) (op : BinOp)
  | println
  | ret

inductive K where
  | binL (op : BinOp) (b : Expr)
  | binR (op : BinOp) (va : Val)
  | un (op : UnOp)
  | lenK
  | sprintK
  | copyK
  | indexL (i : Expr)
  | indexR (va : Val)
  | list (todo : List Expr) (done : List Val)
  | after (a : After)
  | discard
  | opVar (x : String) (op : BinOp)
  | panicK
  | exitK
  | seq (rest : List Stmt)
  | popTo (n : Nat)
  | ifInit (c : Expr) (t e : List Stmt)
  | ifK (t e : List Stmt) (n : Nat)
  | forInit (c : Option Expr) (post : Option Stmt) (body : List Stmt) (n : Nat)
  | forCond (c : Option Expr) (post : Option Stmt) (body : List Stmt) (n : Nat)
  | forBody (c : Option Expr) (post : Option Stmt) (body : List Stmt) (n : Nat)
  | forPost (c : Option Expr) (post : Option Stmt) (body : List Stmt) (n : Nat)
  | rangeStart (k v : String) (body : List Stmt) (n : Nat)
  | rangeK (k v : String) (rest : List Val) (idx : Nat) (body : List Stmt) (n : Nat)
  | switchInit (tag : Option Expr) (cases : List (List Expr × List Stmt)) (dflt : Option (List Stmt)) (n : Nat)
  | switchTag (cases : List (List Expr × List Stmt)) (dflt : Option (List Stmt)) (n : Nat)
  | caseK (tag : Val) (exprs : List Expr) (body : List Stmt) (rest : List (List Expr × List Stmt))
      (dflt : Option (List Stmt)) (n : Nat)
  | switchBody (n : Nat)
  | callK (saved : Env) (multi : Bool)
  | blockK (n : Nat)

inductive Ctl where
  | evalE (e : Expr)
  | val (v : Val)
  | vals (vs : List Val)
  | exec (s : Stmt)
  | next
  | brk
  | cont
  | ret (vs : List Val)

structure State where
  ctl : Ctl
  env : Env
  k : List K
  out : List String        -- stdout lines, newest first

inductive StepRes where
  | cont (s : State)
  | halt (r : Res)

def finish (st : State) (exit : Nat) (panic : Option String) : StepRes :=
  .halt (.done { stdout := st.out.reverse, exit := exit, panic := panic })

def stuck (why : String) : StepRes := .halt (.stuck why)

def goPanic (st : State) (msg : String) : StepRes := finish st 2 (some msg)

/-- Binary operators on two evaluated operands (`&&`/`||` are handled before the right operand
is evaluated). `none` = ill-typed, `some (.inr msg)` = run-time panic. -/
def binop (op : BinOp) (a b : Val) : Option (Val ⊕ String) :=
  match op, a, b with
  | .add, .int x, .int y => some (.inl (.int (wrap64 (x + y))))
  | .sub, .int x, .int y => some (.inl (.int (wrap64 (x - y))))
  | .mul, .int x, .int y => some (.inl (.int (wrap64 (x * y))))
  | .div, .int x, .int y =>
    if y == 0 then some (.inr "runtime error: integer divide by zero")
    else some (.inl (.int (wrap64 (Int.tdiv x y))))
  | .mod, .int x, .int y =>
    if y == 0 then some (.inr "runtime error: integer divide by zero")
    else some (.inl (.int (wrap64 (Int.tmod x y))))
  | .add, .str x, .str y => some (.inl (.str (x ++ y)))
  | .eq, .int x, .int y => some (.inl (.bool (x == y)))
  | .ne, .int x, .int y => some (.inl (.bool (x != y)))
  | .lt, .int x, .int y => some (.inl (.bool (x < y)))
  | .le, .int x, .int y => some (.inl (.bool (x ≤ y)))
  | .gt, .int x, .int y => some (.inl (.bool (x > y)))
  | .ge, .int x, .int y => some (.inl (.bool (x ≥ y)))
  | .eq, .str x, .str y => some (.inl (.bool (x == y)))
  | .ne, .str x, .str y => some (.inl (.bool (x != y)))
  | .lt, .str x, .str y => some (.inl (.bool (x < y)))
  | .le, .str x, .str y => some (.inl (.bool (x ≤ y)))
  | .gt, .str x, .str y => some (.inl (.bool (x > y)))
  | .ge, .str x, .str y => some (.inl (.bool (x ≥ y)))
  | .eq, .bool x, .bool y => some (.inl (.bool (x == y)))
  | .ne, .bool x, .bool y => some (.inl (.bool (x != y)))
  | .land, .bool x, .bool y => some (.inl (.bool (x && y)))
  | .lor, .bool x, .bool y => some (.inl (.bool (x || y)))
  | _, _, _ => none

/-- `s[i]` with Go's run-time error texts. -/
def indexVal (s : Val) (i : Val) : Option (Val ⊕ String) :=
  match s, i with
  | .slice vs, .int n =>
    if n < 0 then some (.inr ("runtime error: index out of range [" ++ toString n ++ "]"))
    else match vs[n.toNat]? with
      | some v => some (.inl v)
      | none => some (.inr ("runtime error: index out of range [" ++ toString n ++ "] with length "
                  ++ toString vs.length))
  | _, _ => none

def setIndex (s : Val) (i : Val) (v : Val) : Option (Val ⊕ String) :=
  match s, i with
  | .slice vs, .int n =>
    if n < 0 then some (.inr ("runtime error: index out of range [" ++ toString n ++ "]"))
    else if n.toNat < vs.length then some (.inl (.slice (vs.set n.toNat v)))
    else some (.inr ("runtime error: index out of range [" ++ toString n ++ "] with length "
                  ++ toString vs.length))
  | _, _ => none

def findFunc (p : GoProg) (f : String) : Option FuncDecl := p.funcs.find? (fun d => d.name == f)

/-- Start evaluating an expression list; the frame below decides what happens to the values. -/
def startList (st : State) (es : List Expr) (k : List K) : State :=
  match es with
  | [] => { st with ctl := .vals [], k := k }
  | e :: rest => { st with ctl := .evalE e, k := .list rest [] :: k }

/-- Index expressions of the left-hand sides, in order. -/
def lhsIndexExprs : List LHS → List Expr
  | [] => []
  | .var _ :: r => lhsIndexExprs r
  | .idx _ i :: r => i :: lhsIndexExprs r

/-- Phase 2 of an assignment: `idxs` are the evaluated index operands, `vs` the right-hand values. -/
def doAssign : Env → List LHS → List Val → List Val → Option (Env ⊕ String)
  | env, [], _, [] => some (.inl env)
  | env, .var x :: ls, idxs, v :: vs =>
    if x == "_" then doAssign env ls idxs vs
    else match env.set x v with
      | some env' => doAssign env' ls idxs vs
      | none => none
  | env, .idx x _ :: ls, i :: idxs, v :: vs =>
    match env.get x with
    | some s => match setIndex s i v with
      | some (.inl s') => match env.set x s' with
        | some env' => doAssign env' ls idxs vs
        | none => none
      | some (.inr msg) => some (.inr msg)
      | none => none
    | none => none
  | _, _, _, _ => none

/-- What to do with an evaluated expression list. -/
def applyAfter (p : GoProg) (st : State) (a : After) (vs : List Val) (k : List K) : StepRes :=
  match a with
  | .call f multi =>
    match findFunc p f with
    | none => stuck ("undefined function " ++ f)
    | some d =>
      if d.params.length != vs.length then stuck ("arity of " ++ f)
      else .cont { st with ctl := .next, env := [d.params.zip vs],
                           k := .seq d.body :: .callK st.env multi :: k }
  | .sliceLit => .cont { st with ctl := .val (.slice vs), k := k }
  | .append =>
    match vs with
    | .slice xs :: rest => .cont { st with ctl := .val (.slice (xs ++ rest)), k := k }
    | _ => stuck "append to non-slice"
  | .define xs =>
    match declareAll st.env xs vs with
    | some env => .cont { st with ctl := .next, env := env, k := k }
    | none => stuck "define: count mismatch"
  | .assign ls =>
    let ni := (lhsIndexExprs ls).length
    match doAssign st.env ls (vs.take ni) (vs.drop ni) with
    | some (.inl env) => .cont { st with ctl := .next, env := env, k := k }
    | some (.inr msg) => goPanic st msg
    | none => stuck "assign"
  | .opIdx x op =>
    match vs, st.env.get x with
    | [i, v], some s =>
      match indexVal s i with
      | some (.inl old) =>
        match binop op old v with
        | some (.inl nv) =>
          match setIndex s i nv with
          | some (.inl s') => match st.env.set x s' with
            | some env => .cont { st with ctl := .next, env := env, k := k }
            | none => stuck "opIdx set"
          | some (.inr msg) => goPanic st msg
          | none => stuck "opIdx"
        | some (.inr msg) => goPanic st msg
        | none => stuck "opIdx operands"
      | some (.inr msg) => goPanic st msg
      | none => stuck "opIdx index"
    | _, _ => stuck "opIdx shape"
  | .println => .cont { st with ctl := .next, out := fmtLine vs :: st.out, k := k }
  | .ret => .cont { st with ctl := .ret vs, k := k }

def truthy : Val → Option Bool
  | .bool b => some b
  | _ => none

/-- Enter a statement list in a fresh scope; afterwards the environment is cut back to `n` scopes. -/
def enterBlock (st : State) (body : List Stmt) (n : Nat) (k : List K) : State :=
  { st with ctl := .next, env := [] :: st.env, k := .seq body :: .popTo n :: k }

/-- Try the next case of a switch (all case expressions of the current clause consumed). -/
def nextCase (st : State) (tag : Val) (rest : List (List Expr × List Stmt)) (dflt : Option (List Stmt))
    (n : Nat) (k : List K) : State :=
  match rest with
  | [] =>
    match dflt with
    | some body => enterBlock st body n (.switchBody n :: k)
    | none => { st with ctl := .next, env := st.env.truncate n, k := k }
  | (exprs, body) :: rest' =>
    match exprs with
    | [] => { st with ctl := .next, k := .caseK tag [] body rest' dflt n :: k }   -- empty clause: falls to next
    | e :: es => { st with ctl := .evalE e, k := .caseK tag es body rest' dflt n :: k }

def valEq (a b : Val) : Option Bool :=
  match a, b with
  | .int x, .int y => some (x == y)
  | .str x, .str y => some (x == y)
  | .bool x, .bool y => some (x == y)
  | _, _ => none

/-- One machine step. -/
def step (p : GoProg) (st : State) : StepRes :=
  match st.ctl with
  -- ---------------------------------------------------------------- expressions
  | .evalE e =>
    match e with
    | .int i => .cont { st with ctl := .val (.int i) }
    | .bool b => .cont { st with ctl := .val (.bool b) }
    | .str s => .cont { st with ctl := .val (.str s) }
    | .var x => match st.env.get x with
      | some v => .cont { st with ctl := .val v }
      | none => stuck ("undefined variable " ++ x)
    | .bin op a b => .cont { st with ctl := .evalE a, k := .binL op b :: st.k }
    | .un op a => .cont { st with ctl := .evalE a, k := .un op :: st.k }
    | .call f args => .cont (startList st args (.after (.call f false) :: st.k))
    | .len a => .cont { st with ctl := .evalE a, k := .lenK :: st.k }
    | .index a i => .cont { st with ctl := .evalE a, k := .indexL i :: st.k }
    | .sliceLit es => .cont (startList st es (.after .sliceLit :: st.k))
    | .append a args => .cont (startList st (a :: args) (.after .append :: st.k))
    | .copy a => .cont { st with ctl := .evalE a, k := .copyK :: st.k }
    | .sprint a => .cont { st with ctl := .evalE a, k := .sprintK :: st.k }
  -- ---------------------------------------------------------------- a value meets a frame
  | .val v =>
    match st.k with
    | [] => stuck "value with empty continuation"
    | fr :: k =>
      match fr with
      | .binL op b =>
        match op, v with
        | .land, .bool false => .cont { st with ctl := .val (.bool false), k := k }
        | .lor, .bool true => .cont { st with ctl := .val (.bool true), k := k }
        | _, _ => .cont { st with ctl := .evalE b, k := .binR op v :: k }
      | .binR op va =>
        match binop op va v with
        | some (.inl r) => .cont { st with ctl := .val r, k := k }
        | some (.inr msg) => goPanic st msg
        | none => stuck "binary operands"
      | .un op =>
        match op, v with
        | .neg, .int i => .cont { st with ctl := .val (.int (wrap64 (-i))), k := k }
        | .not, .bool b => .cont { st with ctl := .val (.bool (!b)), k := k }
        | _, _ => stuck "unary operand"
      | .lenK =>
        match v with
        | .slice vs => .cont { st with ctl := .val (.int vs.length), k := k }
        | .str s => .cont { st with ctl := .val (.int s.utf8ByteSize), k := k }
        | _ => stuck "len operand"
      | .sprintK => .cont { st with ctl := .val (.str (fmtVal v)), k := k }
      | .copyK =>
        match v with
        | .slice vs => .cont { st with ctl := .val (.slice vs), k := k }
        | _ => stuck "copy operand"
      | .indexL i => .cont { st with ctl := .evalE i, k := .indexR v :: k }
      | .indexR va =>
        match indexVal va v with
        | some (.inl r) => .cont { st with ctl := .val r, k := k }
        | some (.inr msg) => goPanic st msg
        | none => stuck "index operands"
      | .list todo done =>
        match todo with
        | [] => .cont { st with ctl := .vals (v :: done).reverse, k := k }
        | e :: rest => .cont { st with ctl := .evalE e, k := .list rest (v :: done) :: k }
      | .opVar x op =>
        match st.env.get x with
        | some old =>
          match binop op old v with
          | some (.inl nv) => match st.env.set x nv with
            | some env => .cont { st with ctl := .next, env := env, k := k }
            | none => stuck "opVar set"
          | some (.inr msg) => goPanic st msg
          | none => stuck "opVar operands"
        | none => stuck ("undefined variable " ++ x)
      | .panicK =>
        match panicText v with
        | some s => goPanic st s
        | none => stuck "panic value"
      | .exitK =>
        match v with
        | .int n => if 0 ≤ n ∧ n < 256 then finish st n.toNat none else stuck "exit status"
        | _ => stuck "exit operand"
      | .ifK t e n =>
        match truthy v with
        | some true => .cont (enterBlock st t n k)
        | some false => .cont (enterBlock st e n k)
        | none => stuck "if condition"
      | .forCond c post body n =>
        match truthy v with
        | some true => .cont { st with ctl := .next, env := [] :: st.env,
                                       k := .seq body :: .forBody c post body n :: k }
        | some false => .cont { st with ctl := .next, env := st.env.truncate n, k := k }
        | none => stuck "for condition"
      | .rangeStart kx vx body n =>
        match v with
        | .slice vs => .cont { st with ctl := .next, k := .rangeK kx vx vs 0 body n :: k }
        | _ => stuck "range operand"
      | .switchTag cases dflt n => .cont (nextCase st v cases dflt n k)
      | .caseK tag exprs body rest dflt n =>
        match valEq tag v with
        | some true => .cont (enterBlock st body n (.switchBody n :: k))
        | some false =>
          match exprs with
          | [] => .cont (nextCase st tag rest dflt n k)
          | e :: es => .cont { st with ctl := .evalE e, k := .caseK tag es body rest dflt n :: k }
        | none => stuck "case operands"
      | .callK saved _ => .cont { st with ctl := .val v, env := saved, k := k }   -- not reached: results come as .ret
      | _ => stuck "value meets statement frame"
  | .vals vs =>
    match st.k with
    | [] => finish st 0 none                                  -- main returned
    | fr :: k =>
      match fr with
      | .after a => applyAfter p st a vs k
      | .discard => .cont { st with ctl := .next, k := k }
      | _ => stuck "values meet a non-list frame"
  -- ---------------------------------------------------------------- statements
  | .exec s =>
    match s with
    | .define xs es =>
      match es with
      | [.call f args] =>
        if xs.length > 1 then .cont (startList st args (.after (.call f true) :: .after (.define xs) :: st.k))
        else .cont (startList st es (.after (.define xs) :: st.k))
      | _ => .cont (startList st es (.after (.define xs) :: st.k))
    | .assign ls es =>
      match es with
      | [.call f args] =>
        if ls.length > 1 then
          -- index operands first, then the call
          .cont (startList st args (.after (.call f true) :: .after (.assign ls) :: st.k))
        else .cont (startList st (lhsIndexExprs ls ++ es) (.after (.assign ls) :: st.k))
      | _ => .cont (startList st (lhsIndexExprs ls ++ es) (.after (.assign ls) :: st.k))
    | .opAssign l op e =>
      match l with
      | .var x => .cont { st with ctl := .evalE e, k := .opVar x op :: st.k }
      | .idx x i => .cont (startList st [i, e] (.after (.opIdx x op) :: st.k))
    | .incDec l inc => .cont { st with ctl := .exec (.opAssign l (if inc then .add else .sub) (.int 1)) }
    | .println es => .cont (startList st es (.after .println :: st.k))
    | .exprCall f args => .cont (startList st args (.after (.call f true) :: .discard :: st.k))
    | .ifS init c t e =>
      let n := st.env.length
      match init with
      | none => .cont { st with ctl := .evalE c, env := [] :: st.env, k := .ifK t e n :: st.k }
      | some s0 => .cont { st with ctl := .exec s0, env := [] :: st.env, k := .ifInit c t e :: .popTo n :: st.k }
    | .forS init c post body =>
      let n := st.env.length
      match init with
      | none => .cont { st with ctl := .next, env := [] :: st.env, k := .forInit c post body n :: st.k }
      | some s0 => .cont { st with ctl := .exec s0, env := [] :: st.env, k := .forInit c post body n :: st.k }
    | .rangeS kx vx e body =>
      .cont { st with ctl := .evalE e, k := .rangeStart kx vx body st.env.length :: st.k }
    | .switchS init tag cases dflt =>
      let n := st.env.length
      match init with
      | none => .cont { st with ctl := .next, env := [] :: st.env, k := .switchInit tag cases dflt n :: st.k }
      | some s0 => .cont { st with ctl := .exec s0, env := [] :: st.env, k := .switchInit tag cases dflt n :: st.k }
    | .brk => .cont { st with ctl := .brk }
    | .cont => .cont { st with ctl := .cont }
    | .ret es => .cont (startList st es (.after .ret :: st.k))
    | .block body => .cont (enterBlock st body st.env.length (.blockK st.env.length :: st.k))
    | .panicS e => .cont { st with ctl := .evalE e, k := .panicK :: st.k }
    | .exit e => .cont { st with ctl := .evalE e, k := .exitK :: st.k }
  | .next =>
    match st.k with
    | [] => finish st 0 none
    | fr :: k =>
      match fr with
      | .seq [] => .cont { st with k := k }
      | .seq (s :: rest) => .cont { st with ctl := .exec s, k := .seq rest :: k }
      | .popTo n => .cont { st with env := st.env.truncate n, k := k }
      | .ifInit c t e =>
        -- the frame below is the popTo of the if statement: its depth is the outer depth
        match k with
        | .popTo n :: k' => .cont { st with ctl := .evalE c, k := .ifK t e n :: k' }
        | _ => stuck "ifInit frame"
      | .forInit c post body n =>
        match c with
        | none => .cont { st with ctl := .val (.bool true), k := .forCond c post body n :: k }
        | some ce => .cont { st with ctl := .evalE ce, k := .forCond c post body n :: k }
      | .forBody c post body n =>
        let st' := { st with env := st.env.truncate (n + 1) }
        match post with
        | none => .cont { st' with ctl := .next, k := .forPost c post body n :: k }
        | some ps => .cont { st' with ctl := .exec ps, k := .forPost c post body n :: k }
      | .forPost c post body n =>
        match c with
        | none => .cont { st with ctl := .val (.bool true), k := .forCond c post body n :: k }
        | some ce => .cont { st with ctl := .evalE ce, k := .forCond c post body n :: k }
      | .rangeK kx vx rest idx body n =>
        match rest with
        | [] => .cont { st with env := st.env.truncate n, k := k }
        | v :: rest' =>
          let sc : Scope := (if kx == "_" then [] else [(kx, Val.int idx)]) ++ (if vx == "_" then [] else [(vx, v)])
          .cont { st with ctl := .next, env := sc :: st.env.truncate n,
                          k := .seq body :: .rangeK kx vx rest' (idx + 1) body n :: k }
      | .switchInit tag cases dflt n =>
        match tag with
        | none => .cont (nextCase st (.bool true) cases dflt n k)
        | some te => .cont { st with ctl := .evalE te, k := .switchTag cases dflt n :: k }
      | .caseK tag _ _ rest dflt n => .cont (nextCase st tag rest dflt n k)
      | .switchBody n => .cont { st with env := st.env.truncate n, k := k }
      | .callK saved multi =>
        -- fell off the end of a function without results
        if multi then .cont { st with ctl := .vals [], env := saved, k := k } else stuck "missing result"
      | .blockK n => .cont { st with env := st.env.truncate n, k := k }
      | .discard => .cont { st with k := k }
      | _ => stuck "next meets expression frame"
  | .brk =>
    match st.k with
    | [] => stuck "break outside loop"
    | fr :: k =>
      match fr with
      | .forBody _ _ _ n => .cont { st with ctl := .next, env := st.env.truncate n, k := k }
      | .rangeK _ _ _ _ _ n => .cont { st with ctl := .next, env := st.env.truncate n, k := k }
      | .switchBody n => .cont { st with ctl := .next, env := st.env.truncate n, k := k }
      | .seq _ => .cont { st with k := k }
      | .popTo _ => .cont { st with k := k }
      | _ => stuck "break crosses a function or expression"
  | .cont =>
    match st.k with
    | [] => stuck "continue outside loop"
    | fr :: k =>
      match fr with
      | .forBody c post body n => .cont { st with ctl := .next, k := .forBody c post body n :: k }
      | .rangeK kx vx rest idx body n => .cont { st with ctl := .next, k := .rangeK kx vx rest idx body n :: k }
      | .switchBody _ => .cont { st with k := k }
      | .seq _ => .cont { st with k := k }
      | .popTo _ => .cont { st with k := k }
      | _ => stuck "continue crosses a function or expression"
  | .ret vs =>
    match st.k with
    | [] => finish st 0 none
    | fr :: k =>
      match fr with
      | .callK saved multi =>
        if multi then .cont { st with ctl := .vals vs, env := saved, k := k }
        else match vs with
          | [v] => .cont { st with ctl := .val v, env := saved, k := k }
          | _ => stuck "single-value context"
      | .blockK n => .cont { st with ctl := .next, env := st.env.truncate n, k := k }
      | _ => .cont { st with k := k }

def run : Nat → GoProg → State → Res
  | 0, _, _ => .timeout
  | n + 1, p, st =>
    match step p st with
    | .cont st' => run n p st'
    | .halt r => r

def initState : State :=
  { ctl := .vals [], env := [[]], k := [.after (.call "main" true)], out := [] }

/-- Outcome of the program within `fuel` machine steps. -/
def evalG (fuel : Nat) (p : GoProg) : Res := run fuel p initState

/-! ### The model lowering of the Go subset

cl compiles a Go construct by walking it and re-issuing it to gogen's code builder; for the Go
subset nothing is rewritten.  `lowerG` is that walk (it rebuilds every node). -/

mutual
  def lowerE : Expr → Expr
    | .int i => .int i
    | .bool b => .bool b
    | .str s => .str s
    | .var x => .var x
    | .bin op a b => .bin op (lowerE a) (lowerE b)
    | .un op a => .un op (lowerE a)
    | .call f args => .call f (lowerEs args)
    | .len a => .len (lowerE a)
    | .index a i => .index (lowerE a) (lowerE i)
    | .sliceLit es => .sliceLit (lowerEs es)
    | .append a args => .append (lowerE a) (lowerEs args)
    | .copy a => .copy (lowerE a)
    | .sprint a => .sprint (lowerE a)
  def lowerEs : List Expr → List Expr
    | [] => []
    | e :: es => lowerE e :: lowerEs es
end

def lowerL : LHS → LHS
  | .var x => .var x
  | .idx x i => .idx x (lowerE i)

def lowerLs : List LHS → List LHS
  | [] => []
  | l :: ls => lowerL l :: lowerLs ls

def lowerOE : Option Expr → Option Expr
  | none => none
  | some e => some (lowerE e)

mutual
  def lowerS : Stmt → Stmt
    | .define xs es => .define xs (lowerEs es)
    | .assign ls es => .assign (lowerLs ls) (lowerEs es)
    | .opAssign l op e => .opAssign (lowerL l) op (lowerE e)
    | .incDec l inc => .incDec (lowerL l) inc
    | .println es => .println (lowerEs es)
    | .exprCall f args => .exprCall f (lowerEs args)
    | .ifS init c t e => .ifS (lowerOS init) (lowerE c) (lowerSs t) (lowerSs e)
    | .forS init c post body => .forS (lowerOS init) (lowerOE c) (lowerOS post) (lowerSs body)
    | .rangeS k v e body => .rangeS k v (lowerE e) (lowerSs body)
    | .switchS init tag cases dflt => .switchS (lowerOS init) (lowerOE tag) (lowerCs cases) (lowerOSs dflt)
    | .brk => .brk
    | .cont => .cont
    | .ret es => .ret (lowerEs es)
    | .block body => .block (lowerSs body)
    | .panicS e => .panicS (lowerE e)
    | .exit e => .exit (lowerE e)
  def lowerSs : List Stmt → List Stmt
    | [] => []
    | s :: ss => lowerS s :: lowerSs ss
  def lowerOS : Option Stmt → Option Stmt
    | none => none
    | some s => some (lowerS s)
  def lowerOSs : Option (List Stmt) → Option (List Stmt)
    | none => none
    | some ss => some (lowerSs ss)
  def lowerCs : List (List Expr × List Stmt) → List (List Expr × List Stmt)
    | [] => []
    | c :: cs => lowerC c :: lowerCs cs
  def lowerC : List Expr × List Stmt → List Expr × List Stmt
    | (es, ss) => (lowerEs es, lowerSs ss)
end

def lowerF (d : FuncDecl) : FuncDecl := { d with body := lowerSs d.body }

def lowerFs : List FuncDecl → List FuncDecl
  | [] => []
  | d :: ds => lowerF d :: lowerFs ds

def lowerG (p : GoProg) : GoProg := { funcs := lowerFs p.funcs }

end GopModel.CompGo
