/-
Model of /repo/x/jsonrpc2/frame.go (headerReader.Read, headerWriter.Write) over byte lists,
of the parts of the Go library they call (bufio.Reader.ReadString('\n'), strings.TrimSpace,
strings.IndexRune(':'), strconv.ParseInt(·,10,32), io.ReadFull, fmt "%v" of an int), and of
messages.go EncodeMessage/DecodeMessage over an abstract JSON codec.  Core Lean only.

The byte stream is a finite list (an in-memory io.Reader that returns data and then io.EOF);
transport errors other than EOF are not modelled.
-/
namespace GopModel.Frame

abbrev Bytes := List UInt8

/-! ## strings.TrimSpace (Unicode White_Space, on UTF-8 bytes) -/

def isAsciiSpace (b : UInt8) : Bool :=
  b == 0x09 || b == 0x0a || b == 0x0b || b == 0x0c || b == 0x0d || b == 0x20

/-- U+0085, U+00A0. -/
def isSpace2 (b0 b1 : UInt8) : Bool := b0 == 0xC2 && (b1 == 0x85 || b1 == 0xA0)

/-- U+1680, U+2000–U+200A, U+2028, U+2029, U+202F, U+205F, U+3000. -/
def isSpace3 (b0 b1 b2 : UInt8) : Bool :=
  (b0 == 0xE1 && b1 == 0x9A && b2 == 0x80) ||
  (b0 == 0xE2 && b1 == 0x80 && ((0x80 ≤ b2 && b2 ≤ 0x8A) || b2 == 0xA8 || b2 == 0xA9 || b2 == 0xAF)) ||
  (b0 == 0xE2 && b1 == 0x81 && b2 == 0x9F) ||
  (b0 == 0xE3 && b1 == 0x80 && b2 == 0x80)

/-- Byte length of the white-space rune the string starts with (0 = none). -/
def spacePrefix : Bytes → Nat
  | [] => 0
  | b0 :: r =>
    if isAsciiSpace b0 then 1
    else if b0 < 0x80 then 0
    else match r with
      | [] => 0
      | b1 :: r2 =>
        if isSpace2 b0 b1 then 2
        else match r2 with
          | [] => 0
          | b2 :: _ => if isSpace3 b0 b1 b2 then 3 else 0

/-- Same for the END of the string, given the string reversed. -/
def spaceSuffixRev : Bytes → Nat
  | [] => 0
  | b2 :: r =>
    if isAsciiSpace b2 then 1
    else if b2 < 0x80 then 0
    else match r with
      | [] => 0
      | b1 :: r2 =>
        if isSpace2 b1 b2 then 2
        else match r2 with
          | [] => 0
          | b0 :: _ => if isSpace3 b0 b1 b2 then 3 else 0

def trimWith (pre : Bytes → Nat) : Nat → Bytes → Bytes
  | 0, s => s
  | fuel + 1, s =>
    let k := pre s
    if k = 0 then s else trimWith pre fuel (s.drop k)

def trimLeft (s : Bytes) : Bytes := trimWith spacePrefix s.length s
def trimRight (s : Bytes) : Bytes := (trimWith spaceSuffixRev s.length s.reverse).reverse
/-- `strings.TrimSpace`. -/
def trimSpace (s : Bytes) : Bytes := trimRight (trimLeft s)

/-! ## strconv.ParseInt(s, 10, 32) and fmt's decimal -/

def isDigit (b : UInt8) : Bool := 0x30 ≤ b && b ≤ 0x39

/-- Decimal value of a digit string continuing from `acc`; `none` on a non-digit. -/
def parseDigits : Bytes → Nat → Option Nat
  | [], acc => some acc
  | b :: t, acc => if isDigit b then parseDigits t (acc * 10 + (b.toNat - 48)) else none

/-- `strconv.ParseInt(s, 10, 32)`: `none` = any error (syntax or range). -/
def parseInt32 (s : Bytes) : Option Int :=
  let (neg, ds) := match s with
    | 0x2b :: t => (false, t)     -- '+'
    | 0x2d :: t => (true, t)      -- '-'
    | _ => (false, s)
  if ds.isEmpty then none
  else match parseDigits ds 0 with
    | none => none
    | some n =>
      if neg then (if n ≤ 2147483648 then some (-(n : Int)) else none)
      else (if n ≤ 2147483647 then some (n : Int) else none)

def digit (d : Nat) : UInt8 := UInt8.ofNat (48 + d)

def decimalFuel : Nat → Nat → Bytes
  | 0, _ => []
  | f + 1, n => if n < 10 then [digit n] else decimalFuel f (n / 10) ++ [digit (n % 10)]

/-- `fmt.Sprintf("%v", n)` for a non-negative int. -/
def decimal (n : Nat) : Bytes := decimalFuel (n + 1) n

/-! ## headerWriter.Write (the framing part) -/

/-- `"Content-Length"`. -/
def contentLength : Bytes :=
  [0x43, 0x6f, 0x6e, 0x74, 0x65, 0x6e, 0x74, 0x2d, 0x4c, 0x65, 0x6e, 0x67, 0x74, 0x68]
def crlf : Bytes := [0x0d, 0x0a]

/-- `"Content-Length: %v\r\n\r\n"` followed by the data. -/
def writeFrame (data : Bytes) : Bytes :=
  contentLength ++ [0x3a, 0x20] ++ decimal data.length ++ crlf ++ crlf ++ data

/-! ## headerReader.Read (the framing part) -/

/-- `ReadString('\n')`: the line including its `'\n'` and the rest; `none` = EOF before `'\n'`. -/
def splitLine : Bytes → Option (Bytes × Bytes)
  | [] => none
  | b :: t =>
    if b = 0x0a then some ([b], t)
    else match splitLine t with
      | none => none
      | some (l, r) => some (b :: l, r)

/-- `strings.IndexRune(line, ':')`. -/
def indexColon : Bytes → Option Nat
  | [] => none
  | b :: t => if b = 0x3a then some 0 else (indexColon t).map (· + 1)

/-- What one header line (with its `'\n'`) means to the reader. -/
inductive LineKind where
  | blank                 -- end of the header
  | invalid               -- no colon: "invalid header line"
  | unknown               -- some other header: ignored
  | length (n : Int)      -- Content-Length with a positive value
  | badLength             -- Content-Length that ParseInt rejects
  | nonPositive (n : Int) -- Content-Length ≤ 0
  deriving Repr, DecidableEq

def classify (line : Bytes) : LineKind :=
  let t := trimSpace line
  if t.isEmpty then .blank
  else match indexColon t with
    | none => .invalid
    | some c =>
      let name := t.take c
      let value := trimSpace (t.drop (c + 1))
      if name = contentLength then
        match parseInt32 value with
        | none => .badLength
        | some n => if n ≤ 0 then .nonPositive n else .length n
      else .unknown

inductive ReadErr where
  | headerEOF        -- io.ErrUnexpectedEOF while reading a header line
  | invalidHeader
  | badLength
  | nonPositive
  | missingLength
  | bodyEOF          -- io.EOF from ReadFull: no body byte at all
  | bodyShort        -- io.ErrUnexpectedEOF from ReadFull
  deriving Repr, DecidableEq

/-- Outcome of the header loop. -/
inductive HdrRes where
  | done (total : Nat) (length : Int) (rest : Bytes)
  | eof                                      -- clean io.EOF, total = 0
  | err (e : ReadErr) (total : Nat) (rest : Bytes)
  | outOfFuel
  deriving Repr, DecidableEq

/-- The `for` loop of `Read`; one header line per unit of fuel. -/
def readHeader : Nat → Bytes → Nat → Int → HdrRes
  | 0, _, _, _ => .outOfFuel
  | fuel + 1, s, total, length =>
    match splitLine s with
    | none =>
      let total' := total + s.length
      if total' = 0 then .eof else .err .headerEOF total' []
    | some (line, rest) =>
      let total' := total + line.length
      match classify line with
      | .blank => .done total' length rest
      | .invalid => .err .invalidHeader total' rest
      | .unknown => readHeader fuel rest total' length
      | .length n => readHeader fuel rest total' n
      | .badLength => .err .badLength total' rest
      | .nonPositive _ => .err .nonPositive total' rest

/-- Result of one `Read`: payload (before DecodeMessage), bytes consumed, remaining stream. -/
inductive ReadRes where
  | ok (data : Bytes) (total : Nat) (rest : Bytes)
  | eof
  | err (e : ReadErr) (total : Nat) (rest : Bytes)
  | outOfFuel
  deriving Repr, DecidableEq

def readFrame (s : Bytes) : ReadRes :=
  match readHeader (s.length + 1) s 0 0 with
  | .outOfFuel => .outOfFuel
  | .eof => .eof
  | .err e t r => .err e t r
  | .done total length rest =>
    if length = 0 then .err .missingLength total rest
    else
      let n := length.toNat
      if n ≤ rest.length then .ok (rest.take n) (total + n) (rest.drop n)
      else if rest.isEmpty then .err .bodyEOF total []
      else .err .bodyShort (total + rest.length) []

/-- How a sequence of `Read` calls ends. -/
inductive Final where
  | eof
  | err (e : ReadErr) (total : Nat)
  | outOfFuel
  deriving Repr, DecidableEq

/-- Call `Read` until it reports EOF or an error. Each frame is (payload, bytes consumed). -/
def readAll : Nat → Bytes → List (Bytes × Nat) × Final
  | 0, _ => ([], .outOfFuel)
  | fuel + 1, s =>
    match readFrame s with
    | .ok d t rest => let (fs, fin) := readAll fuel rest; ((d, t) :: fs, fin)
    | .eof => ([], .eof)
    | .err e t _ => ([], .err e t)
    | .outOfFuel => ([], .outOfFuel)

def readStream (s : Bytes) : List (Bytes × Nat) × Final := readAll (s.length + 1) s

/-! ## Message layer (messages.go) over an abstract JSON codec -/

/-- `ID`: invalid (nil), int64 or string. -/
inductive Id where
  | none
  | int (i : Int)
  | str (s : Bytes)
  deriving Repr, DecidableEq

/-- `wireError`. -/
structure WErr where
  code : Int
  message : Bytes
  data : Bytes
  deriving Repr, DecidableEq

/-- `*Request` / `*Response` (raw JSON fields are byte strings, empty = absent). -/
inductive Msg where
  | request (id : Id) (method : Bytes) (params : Bytes)
  | response (id : Id) (result : Bytes) (err : Option WErr)
  deriving Repr, DecidableEq

/-- `wireCombined` as filled by `marshal`. -/
structure Wire where
  version : Bytes
  id : Id
  method : Bytes
  params : Bytes
  result : Bytes
  error : Option WErr
  deriving Repr, DecidableEq

/-- The dynamic type `json.Unmarshal` leaves in `ID any`. -/
inductive DId where
  | none
  | float (asInt64 : Int)   -- a JSON number, already converted by `int64(v)`
  | str (s : Bytes)
  | other                   -- bool, array, object
  deriving Repr, DecidableEq

/-- `wireCombined` as filled by `json.Unmarshal`. -/
structure DWire where
  version : Bytes
  id : DId
  method : Bytes
  params : Bytes
  result : Bytes
  error : Option WErr
  deriving Repr, DecidableEq

def version20 : Bytes := [0x32, 0x2e, 0x30]

/-- `msg.marshal(&wire)` with `VersionTag: wireVersion`. -/
def marshal : Msg → Wire
  | .request id m p => { version := version20, id := id, method := m, params := p, result := [], error := none }
  | .response id r e => { version := version20, id := id, method := [], params := [], result := r, error := e }

inductive DecErr where
  | json            -- json.Unmarshal failed
  | badVersion
  | badIdType
  | invalidRequest  -- ErrInvalidRequest: neither method nor id
  deriving Repr, DecidableEq

/-- `DecodeMessage` after `json.Unmarshal`. -/
def decodeWire (w : DWire) : Except DecErr Msg :=
  if w.version ≠ version20 then .error .badVersion
  else
    match (match w.id with
      | .none => some Id.none
      | .float v => some (Id.int v)
      | .str s => some (Id.str s)
      | .other => none) with
    | none => .error .badIdType
    | some id =>
      if w.method ≠ [] then .ok (.request id w.method w.params)
      else if id = .none then .error .invalidRequest
      else .ok (.response id w.result w.error)

/-- Nearest float64 (ties to even) of an integer, as an integer. -/
def roundF64Nat (n : Nat) : Nat :=
  if n ≤ 9007199254740992 then n
  else
    let sh := (Nat.log2 n + 1) - 53
    let q := n / 2 ^ sh
    let r := n % 2 ^ sh
    let half := 2 ^ (sh - 1)
    let q' := if r > half || (r == half && q % 2 == 1) then q + 1 else q
    q' * 2 ^ sh

def roundF64 (i : Int) : Int :=
  if i < 0 then -((roundF64Nat i.natAbs : Nat) : Int) else ((roundF64Nat i.natAbs : Nat) : Int)

/-- Go's `int64(v)` for an integral float64 (amd64: out-of-range gives MinInt64). -/
def toInt64 (v : Int) : Int :=
  if -9223372036854775808 ≤ v ∧ v < 9223372036854775808 then v else -9223372036854775808

/-- An int64 id after `json.Marshal` → `json.Unmarshal` into `any` → `int64(float64)`. -/
def idThroughJSON (i : Int) : Int := toInt64 (roundF64 i)

/-- What `json.Unmarshal(json.Marshal(w))` yields. -/
def view (w : Wire) : DWire :=
  { version := w.version,
    id := match w.id with
      | .none => .none
      | .int i => .float (idThroughJSON i)
      | .str s => .str s,
    method := w.method, params := w.params, result := w.result, error := w.error }

/-- The assumption about encoding/json: an injective encoder and a decoder that inverts it up
to `view` (numbers come back as float64). -/
structure Codec where
  enc : Wire → Bytes
  dec : Bytes → Option DWire
  dec_enc : ∀ w, dec (enc w) = some (view w)

/-- `EncodeMessage`. -/
def encodeMessage (c : Codec) (m : Msg) : Bytes := c.enc (marshal m)

/-- `DecodeMessage`. -/
def decodeMessage (c : Codec) (data : Bytes) : Except DecErr Msg :=
  match c.dec data with
  | none => .error .json
  | some w => decodeWire w

end GopModel.Frame
