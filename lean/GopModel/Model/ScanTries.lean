/-
M1: the type of the decision tries into which the translator (extract/scanswitch.go) turns the
operator cases of the `switch ch` of `Scan` (see Generated/ScanSwitch.lean).

  leaf tok semi dparen   emit `tok`; `insertSemi = semi`; `s.nParen += dparen`
  test c yes no          `if s.ch == c { s.next(); yes } else { no }`

switch2(t0,t1)             = test '=' (leaf t1) (leaf t0)
switch3(t0,t1,c2,t2)       = test '=' (leaf t1) (test c2 (leaf t2) (leaf t0))
switch4(t0,t1,c2,t2,t3)    = test '=' (leaf t1) (test c2 (test '=' (leaf t3) (leaf t2)) (leaf t0))
-/
namespace GopModel.Scan

inductive Trie where
  | leaf (tok : Nat) (semi : Bool) (dparen : Int)
  | test (c : Nat) (yes no : Trie)
  deriving DecidableEq, Repr

end GopModel.Scan
