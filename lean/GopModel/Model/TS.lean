/-
M6 — small-step transition system for thread programs in a tiny sync DSL.

The DSL covers exactly what /repo/x/watcher/changes.go (Fetch, FileChanged) and
/repo/x/fakenet/conn.go (connFeeder.do/run/close) use: one mutex, one sync.Cond bound to
it (notify list, spurious wake-ups allowed), one map used as a set, one boolean flag,
unbuffered channels with close, `select` with atomic claim, a call of an opaque source
function, pure string functions (path.Dir, root prefix).  The thread programs are NOT
written here: they are regenerated from the Go source into Generated/SyncWatcher.lean and
Generated/SyncFakenet.lean by extract/sync.go.

Any number of threads: `State.threads` is a list, thread id = index; the environment may
spawn a new thread of any spawnable function at any time (`Label.spawn`).

What is assumed about Go's primitives is DESIGN.md Appendix B; each assumption is a clause
of `next` below.  Core Lean only (this file is linked into drv_conc).
-/
namespace GopModel.TS

inductive Val where
  | nat (n : Nat)
  | str (b : List UInt8)
  | res (n : Nat) (err : Nat)      -- feedResult{n, err}; err is an opaque error id (0 = nil)
  deriving DecidableEq, Repr, Inhabited

inductive Reg where
  | a | b | c
  deriving DecidableEq, Repr

inductive PureFn where
  | pathDir      -- r := path.Dir(r)
  | addRoot      -- r := root + r
  deriving DecidableEq, Repr

inductive SelCase where
  | send (ch : Nat) (r : Reg) (next : Nat)            -- case ch <- r
  | recv (ch : Nat) (r : Option Reg) (next : Nat)     -- case r = <-ch   /  case <-ch
  deriving DecidableEq, Repr

inductive RetVal where
  | unit | reg (r : Reg) | eof
  deriving DecidableEq, Repr

inductive Instr where
  | lock (next : Nat)
  | unlock (next : Nat)
  | waitEnq (next : Nat)          -- first half of Cond.Wait: enqueue on the notify list, unlock
  | waitRelock (next : Nat)       -- second half: once notified, re-acquire the mutex
  | broadcast (next : Nat)
  | signal (next : Nat)
  | setLen (r : Reg) (next : Nat)         -- r := len(set)
  | setInsert (r : Reg) (next : Nat)      -- set[r] = struct{}{}
  | setPick (r : Reg) (next : Nat)        -- for r = range set { delete(set, r); break }
  | brZero (r : Reg) (thenPc elsePc : Nat)
  | brEmpty (thenPc elsePc : Nat)         -- if len(set) == 0
  | pure (f : PureFn) (dst src : Reg) (next : Nat)   -- dst := f(src)
  | select (cases : List SelCase)
  | close (ch : Nat) (next : Nat)
  | call (src dst : Reg) (next : Nat)     -- dst := source(src), result chosen by the environment
  | brFlag (thenPc elsePc : Nat)          -- if flag
  | setFlag (next : Nat)                  -- flag = true
  | ret (v : RetVal)
  deriving DecidableEq, Repr

inductive Status where
  | run | parked | done
  deriving DecidableEq, Repr

structure Thread where
  fn : Nat
  pc : Nat
  a : Val
  b : Val
  c : Val
  st : Status
  deriving DecidableEq, Repr

def Thread.get (t : Thread) : Reg → Val
  | .a => t.a
  | .b => t.b
  | .c => t.c

def Thread.put (t : Thread) (r : Reg) (v : Val) : Thread :=
  match r with
  | .a => { t with a := v }
  | .b => { t with b := v }
  | .c => { t with c := v }

def Thread.putOpt (t : Thread) (r : Option Reg) (v : Val) : Thread :=
  match r with
  | none => t
  | some r => t.put r v

inductive Out where
  | unit | val (v : Val) | eof
  deriving DecidableEq, Repr

/-- Ghost events (newest first in `State.trace`). -/
inductive Ev where
  | insert (j : Nat) (d : Val)
  | delete (j : Nat) (d : Val)
  | xfer (ch : Nat) (sender receiver : Nat) (v : Val)
  | closed (ch : Nat)
  | call (j : Nat) (arg res : Val)
  | ret (j : Nat) (fn : Nat) (v : Out)
  | spawn (j : Nat) (fn : Nat) (a b : Val)
  deriving DecidableEq, Repr

structure State where
  threads : List Thread
  holder : Option Nat        -- the mutex
  notify : List Nat          -- notify list of the condition variable
  set : List Val             -- the map used as a set (no duplicates)
  flag : Bool
  closed : List Nat          -- closed channels
  trace : List Ev
  panic : Bool               -- a Go runtime panic / fatal error happened
  root : List UInt8
  deriving Repr

/-- A function: its code and, per register, `none` = parameter (supplied by the spawner) or
`some v` = local variable initialised to its zero value `v`. -/
structure FnDef where
  code : List Instr
  initA : Option Val
  initB : Option Val
  initC : Option Val

structure Sys where
  fns : List FnDef
  spawnable : List Nat
  initThreads : List Thread

/-- register initial value: a local's zero value, or the spawner's argument for a parameter -/
def regInit : Option Val → Val → Val
  | some v, _ => v
  | none, arg => arg

def FnDef.mkThread (f : FnDef) (fn : Nat) (a b : Val) : Thread :=
  { fn := fn, pc := 0, a := regInit f.initA a, b := regInit f.initB b, c := regInit f.initC (.nat 0), st := .run }

def Sys.init (sys : Sys) (root : List UInt8) : State :=
  { threads := sys.initThreads, holder := none, notify := [], set := [], flag := false,
    closed := [], trace := [], panic := false, root := root }

inductive Label where
  /-- thread `j` takes a step; `k` resolves its internal choice (select case / set element),
  `p` is the rendezvous partner, `v` the value supplied by the environment (source result). -/
  | thread (j k p : Nat) (v : Val)
  | spawn (fn : Nat) (a b : Val)
  | spurious (j : Nat)
  deriving DecidableEq, Repr

/-! ### path.Dir -/

def splitSlash : List UInt8 → List (List UInt8)
  | [] => [[]]
  | c :: cs =>
    if c = 0x2f then [] :: splitSlash cs
    else match splitSlash cs with
      | [] => [[c]]
      | h :: t => (c :: h) :: t

/-- One element of `path.Clean`; `stack` is reversed. -/
def cleanStep (rooted : Bool) (stack : List (List UInt8)) (e : List UInt8) : List (List UInt8) :=
  if e = [] || e = [0x2e] then stack
  else if e = [0x2e, 0x2e] then
    match stack with
    | [] => if rooted then [] else [e]
    | top :: rest => if top = [0x2e, 0x2e] then e :: stack else rest
  else e :: stack

def joinSlash : List (List UInt8) → List UInt8
  | [] => []
  | [e] => e
  | e :: t => e ++ 0x2f :: joinSlash t

/-- `path.Clean`. -/
def pathClean (p : List UInt8) : List UInt8 :=
  if p = [] then [0x2e] else
  let rooted := p.head? = some 0x2f
  let stack := (splitSlash p).foldl (cleanStep rooted) []
  let body := joinSlash stack.reverse
  if rooted then 0x2f :: body else if body = [] then [0x2e] else body

/-- everything up to and including the last '/' (`path.Split`'s dir). -/
def splitDir (p : List UInt8) : List UInt8 :=
  (p.reverse.dropWhile (· ≠ 0x2f)).reverse

/-- `path.Dir`. -/
def pathDir (p : List UInt8) : List UInt8 := pathClean (splitDir p)

def applyPure (root : List UInt8) : PureFn → Val → Val
  | .pathDir, .str s => .str (pathDir s)
  | .addRoot, .str s => .str (root ++ s)
  | _, v => v

/-! ### the step function -/

def instrAt (sys : Sys) (t : Thread) : Option Instr :=
  match sys.fns[t.fn]? with
  | none => none
  | some f => f.code[t.pc]?

def findSend (ch : Nat) : List SelCase → Option (Reg × Nat)
  | [] => none
  | .send c r n :: rest => if c = ch then some (r, n) else findSend ch rest
  | .recv .. :: rest => findSend ch rest

def findRecv (ch : Nat) : List SelCase → Option (Option Reg × Nat)
  | [] => none
  | .recv c r n :: rest => if c = ch then some (r, n) else findRecv ch rest
  | .send .. :: rest => findRecv ch rest

/-- the cases of the `select` a parked thread is parked in -/
def parkedCases (sys : Sys) (t : Thread) : List SelCase :=
  if t.st = .parked then
    match instrAt sys t with
    | some (.select cs) => cs
    | _ => []
  else []

def parkedSender (sys : Sys) (ch : Nat) (t : Thread) : Bool := (findSend ch (parkedCases sys t)).isSome
def parkedRecver (sys : Sys) (ch : Nat) (t : Thread) : Bool := (findRecv ch (parkedCases sys t)).isSome

/-- is this case of an arriving select ready? -/
def caseReady (sys : Sys) (s : State) : SelCase → Bool
  | .send ch _ _ => s.closed.contains ch || s.threads.any (parkedRecver sys ch)
  | .recv ch _ _ => s.closed.contains ch || s.threads.any (parkedSender sys ch)

def State.setThread (s : State) (j : Nat) (t : Thread) : State :=
  { s with threads := s.threads.set j t }

def State.emit (s : State) (e : Ev) : State := { s with trace := e :: s.trace }

def State.doPanic (s : State) : State := { s with panic := true }

/-- `close(ch)` claims every thread parked in a select with a receive case on `ch`. -/
def claimClosed (sys : Sys) (ch : Nat) (t : Thread) : Thread :=
  match findRecv ch (parkedCases sys t) with
  | some (r, n) => { (t.putOpt r (.nat 0)) with pc := n, st := .run }
  | none => t

def goto (t : Thread) (n : Nat) : Thread := { t with pc := n }

/-- One step of thread `j` (= `t`) executing `ins`. -/
def exec (sys : Sys) (s : State) (j : Nat) (t : Thread) (k p : Nat) (v : Val) : Instr → Option State
  | .lock n =>
    match s.holder with
    | none => some ({ s with holder := some j }.setThread j (goto t n))
    | some _ => none
  | .unlock n =>
    match s.holder with
    | some _ => some ({ s with holder := none }.setThread j (goto t n))
    | none => some s.doPanic            -- fatal error: sync: unlock of unlocked mutex
  | .waitEnq n =>
    match s.holder with
    | some _ => some ({ s with holder := none, notify := s.notify ++ [j] }.setThread j (goto t n))
    | none => some s.doPanic
  | .waitRelock n =>
    if s.notify.contains j then none else
    match s.holder with
    | none => some ({ s with holder := some j }.setThread j (goto t n))
    | some _ => none
  | .broadcast n => some ({ s with notify := [] }.setThread j (goto t n))
  | .signal n => some ({ s with notify := s.notify.tail }.setThread j (goto t n))
  | .setLen r n => some (s.setThread j (goto (t.put r (.nat s.set.length)) n))
  | .setInsert r n =>
    let d := t.get r
    some (({ s with set := if s.set.contains d then s.set else s.set ++ [d] }.setThread j (goto t n)).emit (.insert j d))
  | .setPick r n =>
    match s.set with
    | [] => if k = 0 then some (s.setThread j (goto t n)) else none   -- loop body not executed
    | _ :: _ =>
      match s.set[k]? with
      | none => none
      | some d => some (({ s with set := s.set.erase d }.setThread j (goto (t.put r d) n)).emit (.delete j d))
  | .brZero r n1 n2 => some (s.setThread j (goto t (if t.get r = .nat 0 then n1 else n2)))
  | .brEmpty n1 n2 => some (s.setThread j (goto t (if s.set.isEmpty then n1 else n2)))
  | .pure f dst src n => some (s.setThread j (goto (t.put dst (applyPure s.root f (t.get src))) n))
  | .brFlag n1 n2 => some (s.setThread j (goto t (if s.flag then n1 else n2)))
  | .setFlag n => some ({ s with flag := true }.setThread j (goto t n))
  | .call src dst n =>
    match v with
    | .res _ _ => some ((s.setThread j (goto (t.put dst v) n)).emit (.call j (t.get src) v))
    | _ => none
  | .ret rv =>
    let o := match rv with
      | .unit => Out.unit
      | .reg r => Out.val (t.get r)
      | .eof => Out.eof
    some ((s.setThread j { t with st := .done }).emit (.ret j t.fn o))
  | .close ch n =>
    if s.closed.contains ch then some s.doPanic       -- panic: close of closed channel
    else if s.threads.any (parkedSender sys ch) then some s.doPanic   -- parked sender panics
    else
      some (({ s with closed := ch :: s.closed, threads := s.threads.map (claimClosed sys ch) }.setThread j (goto t n)).emit (.closed ch))
  | .select cs =>
    match cs[k]? with
    | none =>
      -- park: only when no case is ready
      if k = cs.length ∧ cs.all (fun c => !caseReady sys s c) then some (s.setThread j { t with st := .parked })
      else none
    | some (.recv ch r n) =>
      if s.closed.contains ch then some (s.setThread j (goto (t.putOpt r (.nat 0)) n))
      else
        match s.threads[p]? with
        | none => none
        | some tp =>
          match findSend ch (parkedCases sys tp) with
          | none => none
          | some (rp, np) =>
            let x := tp.get rp
            some (((s.setThread p { tp with pc := np, st := .run }).setThread j (goto (t.putOpt r x) n)).emit (.xfer ch p j x))
    | some (.send ch r n) =>
      if s.closed.contains ch then some s.doPanic     -- panic: send on closed channel
      else
        match s.threads[p]? with
        | none => none
        | some tp =>
          match findRecv ch (parkedCases sys tp) with
          | none => none
          | some (rp, np) =>
            let x := t.get r
            some (((s.setThread p { (tp.putOpt rp x) with pc := np, st := .run }).setThread j (goto t n)).emit (.xfer ch j p x))

def next (sys : Sys) (s : State) : Label → Option State
  | .thread j k p v =>
    if s.panic then none else
    match s.threads[j]? with
    | none => none
    | some t =>
      if t.st ≠ .run then none else
      match instrAt sys t with
      | none => none
      | some ins => exec sys s j t k p v ins
  | .spawn fn a b =>
    if s.panic then none else
    if sys.spawnable.contains fn then
      match sys.fns[fn]? with
      | none => none
      | some f =>
        some ({ s with threads := s.threads ++ [f.mkThread fn a b] }.emit (.spawn s.threads.length fn a b))
    else none
  | .spurious j =>
    if s.panic then none else
    if s.notify.contains j then some { s with notify := s.notify.erase j } else none

inductive Reachable (sys : Sys) (root : List UInt8) : State → Prop where
  | init : Reachable sys root (sys.init root)
  | step {s s' : State} (l : Label) : Reachable sys root s → next sys s l = some s' → Reachable sys root s'

/-- Invariant principle: `Inv init`, `Inv s → step → Inv s'`. -/
theorem Reachable.induct {sys : Sys} {root : List UInt8} (Inv : State → Prop)
    (h0 : Inv (sys.init root))
    (hstep : ∀ s s' l, Inv s → next sys s l = some s' → Inv s')
    {s : State} (h : Reachable sys root s) : Inv s := by
  induction h with
  | init => exact h0
  | step l _ hn ih => exact hstep _ _ l ih hn

/-! ### bounded exploration (search only; never used by a theorem) -/

/-- candidate labels of a state (finite: environment values restricted to `vals`) -/
def labelsOf (sys : Sys) (s : State) (spawns : List Label) (vals : List Val) : List Label :=
  let n := s.threads.length
  let js := List.range n
  (js.flatMap fun j =>
    match s.threads[j]? with
    | none => []
    | some t =>
      match instrAt sys t with
      | some (.select cs) => (List.range (cs.length + 1)).flatMap fun k => js.map fun p => Label.thread j k p (.nat 0)
      | some (.setPick _ _) => (List.range (max 1 s.set.length)).map fun k => Label.thread j k 0 (.nat 0)
      | some (.call _ _ _) => vals.map fun v => Label.thread j 0 0 v
      | some _ => [Label.thread j 0 0 (.nat 0)]
      | none => [])
  ++ spawns ++ js.map Label.spurious

end GopModel.TS
