/-
C10 kernel — overloaded functions.

Model of
  * /repo/cl/compile.go `preloadFile`, branch `*ast.OverloadFuncDecl` (the loop over `d.Funcs`,
    `overloadFuncName`, `overloadName`, the `Gopo_…` constant), lines ~1132–1297;
  * gogen v1.18.1 import.go `InitThisGopPkgEx` restricted to one overload declaration
    (`checkOverloads`, `checkTypeMethod`, `lookupFunc`, `overloadFuncs`, `toIndex`);
  * gogen ast.go `matchFuncCall`, cases `*TyOverloadFunc` / `*TyOverloadMethod`: the candidates
    are tried in listed order and the first whose parameters accept the arguments wins;
    acceptance of a typed argument is `types.AssignableTo` (template.go `AssignableConv`),
    modelled on a small type universe.

NOT modelled: the bodies of the candidates, untyped-constant arguments, variadic and generic
candidates, interface parameters, `T_Init`/`T_Cast` implicit conversions, overloaded types
(`onameds`), everything else of the compiler.  Strings are `List Char`.  Core Lean only.
-/
import GopModel.Generated.OverloadTab
namespace GopModel.Overload

abbrev Str := List Char

/-! ## index digits -/

/-- `indexTable[idx:idx+1]` (cl) / `indexTable[i:i+1]` (gogen): `none` is the slice-bounds panic. -/
def digit? (i : Nat) : Option Char := Gen.indexTable[i]?

/-- gogen `toIndex`; `none` is `panic("invalid character out of [0-9,a-z]")`. -/
def toIndex? (c : Char) : Option Nat :=
  if '0' ≤ c ∧ c ≤ '9' then some (c.toNat - '0'.toNat)
  else if 'a' ≤ c ∧ c ≤ 'z' then some (c.toNat - ('a'.toNat - 10))
  else none

def us2 : Str := ['_', '_']

/-- `overloadFuncName(name, idx)`. -/
def overloadFuncName? (name : Str) (idx : Nat) : Option Str :=
  (digit? idx).map fun c => name ++ us2 ++ [c]

/-! ## the declaration and its encoding (cl/compile.go) -/

/-- One entry of `d.Funcs`. -/
inductive Cand where
  | lit                         -- *ast.FuncLit
  | ident (n : Str)             -- *ast.Ident
  | sel (t : Str) (n : Str)     -- *ast.SelectorExpr `(t).n` (after getRecvType)
  | other                       -- any other expression
  deriving Repr, DecidableEq

structure Decl where
  name : Str                    -- d.Name.Name (for operators: the operator text)
  recv : Option Str             -- d.Recv type identifier (after class-file defaulting)
  isOp : Bool                   -- d.Operator
  isClass : Bool                -- d.IsClass
  cands : List Cand
  deriving Repr, DecidableEq

inductive EncErr where
  | invalidMethod (idx : Nat)   -- "invalid method %v"
  | invalidFunc (idx : Nat)     -- "invalid func %v"
  | invalidRecv (idx : Nat)     -- "invalid recv type %v"
  | unknownFunc (idx : Nat)     -- "unknown func %v"
  | invalidOperator             -- "invalid overload operator %v"
  deriving Repr, DecidableEq

/-- What the branch leaves behind: the names of the function declarations preloaded for the
literal slots (in order) and, when some candidate is not a literal, the `Gopo_` constant. -/
structure Encoded where
  litFuncs : List Str
  gopo : Option (Str × Str)     -- (constant name, constant value)
  deriving Repr, DecidableEq

inductive EncRes where
  | ok (e : Encoded)
  | err (e : EncErr)            -- handleErrorf + break LoopFunc (compilation fails)
  | panicIndex (idx : Nat)      -- indexTable[idx:idx+1] with idx ≥ len(indexTable)
  deriving Repr, DecidableEq

def hasUnderscore (s : Str) : Bool := s.contains '_'

def strOf (s : String) : Str := s.toList

def lookupOp (name : Str) : Option Str :=
  (Gen.binaryGopNames.lookup (String.ofList name)).map strOf

def gopoPrefix : Str := ['G', 'o', 'p', 'o']

/-- `overloadName(recv, name, isOp)`; `none` = error "invalid overload operator". -/
def overloadName? (recv : Option Str) (name : Str) (isOp : Bool) : Option Str :=
  let name? := if isOp then lookupOp name else some name
  name?.map fun name =>
    let sep : Str :=
      if hasUnderscore name || (match recv with | some r => hasUnderscore r | none => false)
      then us2 else ['_']
    let typ : Str := match recv with | some r => r ++ sep | none => []
    gopoPrefix ++ sep ++ typ ++ name

inductive LoopRes where
  | done (onames : List Str) (lits : List Str) (exov : Bool)
  | err (e : EncErr)
  | panicIndex (idx : Nat)

/-- `d.Recv != nil && !d.Operator && !d.IsClass` (guards "invalid method"). -/
def methodErr (d : Decl) : Bool := d.recv.isSome && !d.isOp && !d.isClass

/-- The loop `for idx, fn := range d.Funcs` (`onames`/`lits` accumulate in reverse). -/
def encLoop (d : Decl) : Nat → List Cand → List Str → List Str → Bool → LoopRes
  | _, [], onames, lits, exov => .done onames.reverse lits.reverse exov
  | idx, c :: rest, onames, lits, exov =>
    match c with
    | .ident n =>
      if methodErr d then .err (.invalidMethod idx)
      else encLoop d (idx + 1) rest ((if d.isClass then '.' :: n else n) :: onames) lits true
    | .sel t n =>
      match d.recv with
      | none => .err (.invalidFunc idx)
      | some r =>
        if d.isClass then .err (.invalidFunc idx)
        else if t ≠ r then .err (.invalidRecv idx)
        else encLoop d (idx + 1) rest (('.' :: n) :: onames) lits true
    | .lit =>
      if methodErr d then .err (.invalidMethod idx)
      else match overloadFuncName? d.name idx with
        | none => .panicIndex idx
        | some name1 => encLoop d (idx + 1) rest ([] :: onames) (name1 :: lits) exov
    | .other => .err (.unknownFunc idx)

def joinComma : List Str → Str
  | [] => []
  | [x] => x
  | x :: y :: r => x ++ ',' :: joinComma (y :: r)

def encode (d : Decl) : EncRes :=
  match encLoop d 0 d.cands [] [] false with
  | .err e => .err e
  | .panicIndex i => .panicIndex i
  | .done onames lits exov =>
    if exov then
      match overloadName? d.recv d.name d.isOp with
      | none => .err .invalidOperator
      | some oname => .ok { litFuncs := lits, gopo := some (oname, joinComma onames) }
    else .ok { litFuncs := lits, gopo := none }

/-! ## decoding (gogen InitThisGopPkgEx) -/

/-- What gogen sees of the package scope. -/
structure Scope where
  funcs : List Str                       -- package-level objects whose type is a signature
  types : List (Str × List Str)          -- named types with their method names
  deriving Repr, DecidableEq

/-- A resolved candidate. -/
inductive Ref where
  | func (n : Str)
  | method (t : Str) (n : Str)
  deriving Repr, DecidableEq

/-- `strings.Split(s, ",")` (never the empty list). -/
def splitAux : Str → Str → List Str
  | [], cur => [cur.reverse]
  | c :: cs, cur => if c = ',' then cur.reverse :: splitAux cs [] else splitAux cs (c :: cur)

def splitComma (s : Str) : List Str := splitAux s []

/-- `lookupFunc(scope, name, tname)`; `name` is never empty here. -/
def lookupFunc (sc : Scope) (name : Str) (tname : Str) : Option Ref :=
  match name with
  | '.' :: m =>
    match sc.types.lookup tname with
    | some ms => if ms.contains m then some (.method tname m) else none
    | none => none
  | _ => if sc.funcs.contains name then some (.func name) else none

/-- index of the first `_` (strings.IndexByte). -/
def indexUnderscore : Str → Option Nat
  | [] => none
  | c :: cs => if c = '_' then some 0 else (indexUnderscore cs).map (· + 1)

/-- index of the first `__` (strings.Index). -/
def indexUs2 : Str → Option Nat
  | [] => none
  | [_] => none
  | a :: b :: r => if a = '_' ∧ b = '_' then some 0 else (indexUs2 (b :: r)).map (· + 1)

inductive TM where
  | func (name : Str)                    -- omthd{nil, name}
  | method (tname : Str) (mname : Str)   -- omthd{named type, mname}
  | panic                                -- log.Panicf("checkTypeMethod: … not found or not a named type")
  deriving Repr, DecidableEq

/-- `checkTypeMethod(scope, name)`. -/
def checkTypeMethod (sc : Scope) (name : Str) : TM :=
  let split (name : Str) (pos nsep : Nat) : TM :=
    let tname := name.take pos
    let mname := name.drop (pos + nsep)
    match sc.types.lookup tname with
    | some _ => .method tname mname
    | none =>
      -- `tobj != nil` (an object that is not a named type) is not representable in `Scope`
      -- except for functions
      if sc.funcs.contains tname || nsep == 2 then .panic else .func name
  match indexUnderscore name with
  | none => .func name
  | some 0 =>
    let t := name.drop 1
    match indexUs2 t with
    | none => .func t
    | some 0 => .func t
    | some pos => split t pos 2
  | some pos => split name pos 1

inductive DecRes where
  | overload (recv : Option Str) (name : Str) (fns : List Ref)
  | none_                         -- no overload object is created (no candidate resolved)
  | panic
  deriving Repr, DecidableEq

/-- the loop `for i, name := range names` of InitThisGopPkgEx. -/
def resolveNames (sc : Scope) (isMethod : Bool) (mname tname : Str) :
    Nat → List Str → Option (List Ref)          -- `none` = index panic
  | _, [] => some []
  | i, nm :: rest =>
    let full? : Option Str :=
      if nm.isEmpty then
        (digit? i).map fun c => (if isMethod then ['.'] else []) ++ mname ++ us2 ++ [c]
      else some nm
    match full? with
    | none => none
    | some full =>
      match resolveNames sc isMethod mname tname (i + 1) rest with
      | none => none
      | some r =>
        match lookupFunc sc full tname with
        | some ref => some (ref :: r)
        | none => some r

/-- gogen on a package that has the constant `gopoName = value`. -/
def decodeConst (sc : Scope) (gopoName value : Str) : DecRes :=
  let key := gopoName.drop 5          -- len("Gopo_")
  let names := splitComma value
  match checkTypeMethod sc key with
  | .panic => .panic
  | .func name =>
    match resolveNames sc false name [] 0 names with
    | none => .panic
    | some [] => .none_
    | some fns => .overload none name fns
  | .method tname mname =>
    match resolveNames sc true mname tname 0 names with
    | none => .panic
    | some [] => .none_
    | some fns => .overload (some tname) mname fns

/-- `isOverload(name)`: `n > 3 && name[n-3:n-1] == "__"`. -/
def isOverloadName (name : Str) : Bool :=
  let n := name.length
  decide (3 < n) && (name.drop (n - 3)).take 2 == us2

/-- gogen `overloadFuncs(off, items)`: place every item at the index its digit denotes.
`none` = a panic (digit out of `[0-9a-z]`, index ≥ len(items), or slot taken). -/
def placeItems (n : Nat) : List (Str × Char) → List (Option Str) → Option (List (Option Str))
  | [], slots => some slots
  | (name, c) :: rest, slots =>
    match toIndex? c with
    | none => none
    | some idx =>
      if idx ≥ n then none
      else match slots[idx]? with
        | some none => placeItems n rest (slots.set idx (some name))
        | _ => none

/-- gogen on a package without a `Gopo_` constant for `name`: the package-level functions called
`name__<digit>` (in the order of `scope.Names()`, i.e. sorted) are the candidates. -/
def decodeNoConst (sc : Scope) (name : Str) : DecRes :=
  let items := sc.funcs.filterMap fun f =>
    if isOverloadName f && f.take (f.length - 3) == name then
      match f.getLast? with
      | some c => some (f, c)
      | none => none
    else none
  if items.isEmpty then .none_
  else match placeItems items.length items (List.replicate items.length none) with
    | none => .panic
    | some slots =>
      -- every slot is filled (pigeonhole); a hole would be a nil entry of `fns`
      match slots.mapM id with
      | some names => .overload none name (names.map Ref.func)
      | none => .panic

/-- gogen applied to what `encode` produced. -/
def decode (sc : Scope) (d : Decl) (e : Encoded) : DecRes :=
  match e.gopo with
  | some (oname, oval) => decodeConst sc oname oval
  | none =>
    -- all candidates are literals; with a receiver (class files) the methods are collected
    -- from the named type instead (not modelled: `none_` is not claimed there)
    decodeNoConst sc d.name

/-- The candidates the declaration lists, as resolved references (what decoding must return). -/
def candRefs (d : Decl) : Nat → List Cand → Option (List Ref)
  | _, [] => some []
  | i, c :: rest =>
    match candRefs d (i + 1) rest with
    | none => none
    | some r =>
      match c with
      | .lit =>
        match overloadFuncName? d.name i, d.recv with
        | some n, none => some (.func n :: r)
        | some n, some t => some (.method t n :: r)
        | none, _ => none
      | .ident n =>
        (match d.isClass, d.recv with
         | true, some t => some (.method t n :: r)
         | _, _ => some (.func n :: r))
      | .sel t n => some (.method t n :: r)
      | .other => none

def candidates (d : Decl) : Option (List Ref) := candRefs d 0 d.cands

/-! ## dispatch (gogen matchFuncCall) over a small type universe -/

/-- predeclared (defined) types -/
inductive Base where
  | int | string | float64 | bool
  deriving Repr, DecidableEq

/-- unnamed type literals -/
inductive Lit where
  | sliceInt | sliceString | funcIntInt | funcString | mapStringInt | ptrInt
  deriving Repr, DecidableEq

inductive Under where
  | base (b : Base)
  | lit (l : Lit)
  deriving Repr, DecidableEq

/-- A parameter / argument type: predeclared, a type literal, or a user-defined `type N<id> u`. -/
inductive Ty where
  | base (b : Base)
  | lit (l : Lit)
  | named (id : Nat) (u : Under)
  deriving Repr, DecidableEq

def Ty.under : Ty → Under
  | .base b => .base b
  | .lit l => .lit l
  | .named _ u => u

def Ty.isLit : Ty → Bool
  | .lit _ => true
  | _ => false

def Under.isLit : Under → Bool
  | .lit _ => true
  | _ => false

/-- `types.AssignableTo(a, p)` on this universe: identical types, or identical underlying types
and at least one of the two is not a named (defined) type. -/
def accepts (a p : Ty) : Bool :=
  a == p || (a.under == p.under && (a.isLit || p.isLit))

def acceptsAll : List Ty → List Ty → Bool
  | [], [] => true
  | a :: as, p :: ps => accepts a p && acceptsAll as ps
  | _, _ => false

structure Candidate where
  id : Nat                -- identity printed by the candidate
  params : List Ty
  deriving Repr, DecidableEq

/-- first candidate (in listed order) whose parameters accept the arguments. -/
def dispatch (cs : List Candidate) (args : List Ty) : Option Candidate :=
  cs.find? fun c => acceptsAll args c.params

/-- Two parameter types can receive the same argument. -/
def overlap (p q : Ty) : Bool :=
  p == q || (p.under == q.under && p.under.isLit)

def overlapAll : List Ty → List Ty → Bool
  | [], [] => true
  | p :: ps, q :: qs => overlap p q && overlapAll ps qs
  | _, _ => false

/-- The decidable "pairwise distinguishable" predicate (the generator uses the same one). -/
def distinguishableFrom (c : Candidate) : List Candidate → Bool
  | [] => true
  | d :: r => !overlapAll c.params d.params && distinguishableFrom c r

def pairwiseDistinguishable : List Candidate → Bool
  | [] => true
  | c :: r => distinguishableFrom c r && pairwiseDistinguishable r

/-! ## function-typed parameters called with lambda / function literals and constants

Candidates `f([lead,] fn func(int×k) results)` (results: none / int / (int, error)), optionally
generic `f[T any](ar []T, fn func(T) T)` (a Go function of the package).  What cl decides before
trying a candidate (`checkLambdaFuncType`, `compileCallArgs`): a lambda fits a func type with the
same number of parameters; an *expression* lambda also needs the same number of results; a
*block* lambda is committed to the first candidate of matching argument count and arity (its
results and the other arguments' types are not examined first), so for block lambdas only those
two numbers distinguish candidates. -/

inductive Lead where
  | none | int | str | sliceInt | sliceStr     -- parameter kinds / typed variable arguments
  | constInt | constStr                         -- untyped constant arguments
  | genSlice                                    -- parameter `[]T` of a generic candidate
  deriving Repr, DecidableEq

inductive LamArg where
  | expr (k r : Nat)      -- (a, …) => e1, …, er
  | block (k : Nat)       -- (a, …) => { … }
  | lit (k r : Nat)       -- func(a int, …) results { … }
  deriving Repr, DecidableEq

structure LCand where
  id : Nat
  lead : Lead
  k : Nat
  r : Nat
  generic : Bool
  deriving Repr, DecidableEq

structure LCall where
  lead : Lead
  arg : LamArg
  deriving Repr, DecidableEq

def leadAccepts (param arg : Lead) : Bool :=
  match param, arg with
  | .none, .none => true
  | .int, .int | .int, .constInt => true
  | .str, .str | .str, .constStr => true
  | .sliceInt, .sliceInt => true
  | .genSlice, .sliceInt | .genSlice, .sliceStr => true
  | _, _ => false

def lamAccepts (c : LCand) (call : LCall) : Bool :=
  match call.arg with
  | .expr k r => k == c.k && r == c.r
  | .block k => k == c.k
  | .lit k r => k == c.k && r == c.r && !(c.generic && call.lead == .sliceStr)

/-- A block lambda is compiled against the first candidate with the same number of arguments and
the same lambda arity, before the other arguments are type-checked (so the leading argument's type
does not help to distinguish candidates there). -/
def lcandAccepts (c : LCand) (call : LCall) : Bool :=
  match call.arg with
  | .block k => ((c.lead == .none) == (call.lead == .none)) && k == c.k
  | _ => leadAccepts c.lead call.lead && lamAccepts c call

/-- first listed candidate that accepts -/
def ldispatch (cs : List LCand) (call : LCall) : Option LCand :=
  cs.find? fun c => lcandAccepts c call

def lacceptors (cs : List LCand) (call : LCall) : Nat :=
  (cs.filter fun c => lcandAccepts c call).length

end GopModel.Overload
