/-
Models of the small functions of package token that C33 speaks about, over the regenerated
tables (Generated/Tokens.lean): `Token.String`, `Token.Precedence`, tpl `Token.Len`.
Their guards / case lists are regenerated from the source; the two-line wrappers below are the
fixed statement shapes that the translator checks (extract/tokens.go: stringGuard, lenGuard,
precedence).  Core Lean only.
-/
import GopModel.Generated.Tokens
namespace GopModel.Scan.TokFns
open GopModel.Generated

/-- `tokens[tok]` under the guard of `String` (none: guard false or empty entry) -/
def tableEntry (guard : Nat → Bool) (tbl : List (Nat × List UInt8)) (tok : Nat) : Option (List UInt8) :=
  if guard tok then tbl.lookup tok else none

/-- `String()`: `s := ""; if guard { s = tokens[tok] }; if s == "" { s = "token(" + Itoa(tok) + ")" }` -/
def tokenString (guard : Nat → Bool) (tbl : List (Nat × String)) (tok : Nat) : String :=
  let s := if guard tok then (tbl.lookup tok).getD "" else ""
  if s = "" then "token(" ++ toString tok ++ ")" else s

/-- `Precedence()` -/
def precedence (cases : List (Nat × Nat)) (dflt : Nat) (tok : Nat) : Nat :=
  (cases.lookup tok).getD dflt

/-- tpl `Len()`: `if guard { return len(tokens[tok]) }; return 0` -/
def tplLen (tok : Nat) : Nat :=
  if Tokens.Tpl.lenGuard tok then ((Tokens.Tpl.tokenBytes.lookup tok).getD []).length else 0

end GopModel.Scan.TokFns
