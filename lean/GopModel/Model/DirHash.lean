/-
Model of /repo/tool/imp.go: `dirHash` (the exact bytes written to the SHA-256 state — the
*preimage* of the package hash), `canCl`, and of `modfile.ClassExt`/`SplitFname`
(github.com/goplus/mod) and the `%x` verbs of `fmt` that they use.

`mod.IsClass` (a map lookup on the module's registered class extensions) enters as the
parameter `isClass`.  SHA-256 and the base64 rendering are applied outside the model.
Core Lean only.
-/
import GopModel.Model.DirClassify
namespace GopModel.DirHash
open GopModel.DirClassify (ext dotGo dotXgo dotGop dotGox underscore)

abbrev Name := List UInt8

/-! ## `%x` -/

def hexDigit (n : Nat) : UInt8 := if n < 10 then UInt8.ofNat (48 + n) else UInt8.ofNat (87 + n)

/-- Hex digits of `n`, least significant first; one loop iteration per unit of fuel. -/
def hexRev : Nat → Nat → List UInt8
  | 0, _ => []
  | fuel + 1, n =>
    if n < 16 then [hexDigit n] else hexDigit (n % 16) :: hexRev fuel (n / 16)

/-- `%x` of a non-negative integer: lower case, no leading zeros, "0" for zero. -/
def hexNat (n : Nat) : List UInt8 := (hexRev (n + 1) n).reverse

/-- `%x` of a signed integer (`int64` in the source): sign, then magnitude. -/
def hexInt (i : Int) : List UInt8 :=
  if i < 0 then 0x2d :: hexNat i.natAbs else hexNat i.toNat

/-- `%x` of a string: two lower-case hex digits per byte. -/
def hexBytes : List UInt8 → List UInt8
  | [] => []
  | b :: t => hexDigit (b.toNat / 16) :: hexDigit (b.toNat % 16) :: hexBytes t

/-! ## `canCl` -/

/-- `strings.LastIndexByte(s, c)`, `none` for -1. -/
def lastIndexOf (c : UInt8) : List UInt8 → Option Nat
  | [] => none
  | x :: t =>
    match lastIndexOf c t with
    | some i => some (i + 1)
    | none => if x = c then some 0 else none

/-- `modfile.ClassExt(fname)` (second result of `SplitFname`). -/
def classExt (fname : Name) : Name :=
  let e := ext fname
  if e = dotGox then
    let className := fname.take (fname.length - e.length)
    match lastIndexOf 0x5f className with
    | some n => if n > 0 then fname.drop n else e
    | none => e
  else e

/-- `canCl(mod, fname)`; `isClass` is `mod.IsClass`. -/
def canCl (isClass : Name → Bool) (fname : Name) : Bool :=
  let e := ext fname
  if e = dotGo ∨ e = dotXgo ∨ e = dotGop ∨ e = dotGox then true
  else isClass (classExt fname)

/-! ## `dirHash` -/

structure Entry where
  name : Name
  isDir : Bool
  /-- `fi.Info()`: `(Size(), ModTime().UnixNano())`, or `none` when it fails. -/
  info : Option (Int × Int)
  deriving DecidableEq, Repr

/-- What the hash is meant to depend on: name, size, mtime. -/
abbrev Rec := Name × Int × Int

def tab : UInt8 := 0x09
def nl : UInt8 := 0x0a
def fileTag : List UInt8 := [0x66, 0x69, 0x6c, 0x65]   -- "file"
def goTag : List UInt8 := [0x67, 0x6f]                 -- "go"
def xgoTag : List UInt8 := [0x78, 0x67, 0x6f]          -- "xgo"

/-- `fmt.Fprintf(h, "file\t%x\t%x\t%x\n", fname, size, mtime)`. -/
def line (r : Rec) : List UInt8 :=
  fileTag ++ tab :: (hexBytes r.1 ++ tab :: (hexInt r.2.1 ++ tab :: (hexInt r.2.2 ++ [nl])))

/-- The loop body's selection: non-directory, no underscore prefix, `canCl`, `Info()` ok. -/
def relevantOf (isClass : Name → Bool) (e : Entry) : Option Rec :=
  if e.isDir then none
  else if underscore e.name || !canCl isClass e.name then none
  else match e.info with
    | some (s, m) => some (e.name, s, m)
    | none => none

def relevant (isClass : Name → Bool) (l : List Entry) : List Rec :=
  l.filterMap (relevantOf isClass)

structure Config where
  self : Bool
  goVersion : List UInt8     -- runtime.Version()
  xgoVersion : List UInt8    -- xgo.Version
  isClass : Name → Bool

/-- `"go\t%s\n" "xgo\t%s\n"` when `self`. -/
def header (c : Config) : List UInt8 :=
  if c.self then goTag ++ tab :: (c.goVersion ++ nl :: (xgoTag ++ tab :: (c.xgoVersion ++ [nl])))
  else []

/-- Bytes fed to SHA-256 by `dirHash`; `listing = none` is a failing `os.ReadDir`. -/
def preimage (c : Config) (listing : Option (List Entry)) : List UInt8 :=
  header c ++ (match listing with
    | some l => (relevant c.isClass l).flatMap line
    | none => [])

/-! ## the encoding used before the `fix:` commit (kept only for the collision witness) -/

/-- `fmt.Fprintf(h, "file\t%s\t%x\t%x\n", fname, size, mtime)` — the name written raw. -/
def lineOld (r : Rec) : List UInt8 :=
  fileTag ++ tab :: (r.1 ++ tab :: (hexInt r.2.1 ++ tab :: (hexInt r.2.2 ++ [nl])))

def preimageOld (c : Config) (listing : Option (List Entry)) : List UInt8 :=
  header c ++ (match listing with
    | some l => (relevant c.isClass l).flatMap lineOld
    | none => [])

end GopModel.DirHash
