/-
M1 (part 3 of 3): `Scan` and the scan-to-EOF loop — one byte-level scanner, three dialects.

INTERFACE (for later users, e.g. parser-level models)
  * `Cfg`      : dialect (`.xgo` = /repo/scanner, `.tpl` = /repo/tpl/scanner, `.go` = go/scanner 1.23),
                 `comments` (Go: `mode&ScanComments != 0`), `noSemis` (`dontInsertSemis`), and
                 `U : UCls` — `unicode.IsLetter/IsDigit` on runes ≥ 0x80 (a parameter; every
                 theorem holds for every `U`).
  * `scan cfg src : ScanOut`  — all tokens up to and including the first EOF, the error-handler
                 calls in call order, and a status (`done` / `panic` / `outOfFuel`).
                 `scan` uses fuel `2 * src.size + 3` for the token loop and `src.size + 1` for
                 every inner loop; Props/C15 proves `status = .done` for xgo and tpl.
  * `Token`    : `pos` (byte offset returned by Scan), `stop` (the scanner's offset after the
                 token, minus a pending unit suffix: the token's source span is `[pos, stop)`;
                 inserted semicolons and EOF have `pos = stop`), `kind` (numeric value of the
                 dialect's `token.Token`, see Generated/Tokens.lean), `lit` (the literal string
                 as bytes, exactly what Scan returns).
  * `scanStep cfg src fuel st` — one pass through the body of `Scan` (from `scanAgain:`): the next
                 state and `some token`, or `none` when a comment was skipped (`goto scanAgain`).
  * Token kinds and the operator decision tries are *regenerated* from the source on every run
    (Generated/Tokens.lean, Generated/ScanSwitch.lean); everything else is a hand transcription
    of scanner.go that is validated against the real scanners by the differential harness
    (harness/cmd/c15).
Core Lean only.
-/
import GopModel.Model.ScanLex
import GopModel.Generated.Tokens
import GopModel.Generated.ScanSwitch
namespace GopModel.Scan
open GopModel.Generated

/-- token codes of a dialect that the hand-written part of `Scan` mentions, its keyword table
and operator tries -/
structure Codes where
  ILLEGAL : Nat
  EOF : Nat
  COMMENT : Nat
  IDENT : Nat
  INT : Nat
  FLOAT : Nat
  IMAG : Nat
  CHAR : Nat
  STRING : Nat
  RAT : Nat
  UNIT : Nat
  CSTRING : Nat
  PYSTRING : Nat
  SEMICOLON : Nat
  PERIOD : Nat
  ELLIPSIS : Nat
  /-- `keywords` map of package token: spelling ↦ token -/
  keywords : List (List UInt8 × Nat)
  /-- keywords after which a newline becomes a semicolon -/
  semiKw : List Nat
  ops : List (Nat × Trie)

/-- `for i := keyword_beg + 1; i < keyword_end; i++ { keywords[tokens[i]] = i }` -/
def keywordTable (tokenBytes : List (Nat × List UInt8)) (kbeg kend : Nat) : List (List UInt8 × Nat) :=
  tokenBytes.filterMap fun e => if kbeg < e.1 ∧ e.1 < kend then some (e.2, e.1) else none

def xgoCodes : Codes :=
  { ILLEGAL := Tokens.XGo.ILLEGAL, EOF := Tokens.XGo.EOF, COMMENT := Tokens.XGo.COMMENT,
    IDENT := Tokens.XGo.IDENT, INT := Tokens.XGo.INT, FLOAT := Tokens.XGo.FLOAT,
    IMAG := Tokens.XGo.IMAG, CHAR := Tokens.XGo.CHAR, STRING := Tokens.XGo.STRING,
    RAT := Tokens.XGo.RAT, UNIT := Tokens.XGo.UNIT, CSTRING := Tokens.XGo.CSTRING,
    PYSTRING := Tokens.XGo.PYSTRING, SEMICOLON := Tokens.XGo.SEMICOLON,
    PERIOD := Tokens.XGo.PERIOD, ELLIPSIS := Tokens.XGo.ELLIPSIS,
    keywords := keywordTable Tokens.XGo.tokenBytes Tokens.XGo.keyword_beg Tokens.XGo.keyword_end,
    semiKw := [Tokens.XGo.BREAK, Tokens.XGo.CONTINUE, Tokens.XGo.FALLTHROUGH, Tokens.XGo.RETURN],
    ops := ScanSwitch.xgoOps }

/-- tpl has no keywords, no `c"…"`/`py"…"` (those two codes are unused) -/
def tplCodes : Codes :=
  { ILLEGAL := Tokens.Tpl.ILLEGAL, EOF := Tokens.Tpl.EOF, COMMENT := Tokens.Tpl.COMMENT,
    IDENT := Tokens.Tpl.IDENT, INT := Tokens.Tpl.INT, FLOAT := Tokens.Tpl.FLOAT,
    IMAG := Tokens.Tpl.IMAG, CHAR := Tokens.Tpl.CHAR, STRING := Tokens.Tpl.STRING,
    RAT := Tokens.Tpl.RAT, UNIT := Tokens.Tpl.UNIT, CSTRING := Tokens.Tpl.ILLEGAL,
    PYSTRING := Tokens.Tpl.ILLEGAL, SEMICOLON := Tokens.Tpl.SEMICOLON,
    PERIOD := Tokens.Tpl.PERIOD, ELLIPSIS := Tokens.Tpl.ELLIPSIS,
    keywords := [], semiKw := [], ops := ScanSwitch.tplOps }

/-- go/scanner has no RAT/UNIT/CSTRING/PYSTRING (unused codes) -/
def goCodes : Codes :=
  { ILLEGAL := Tokens.Go.ILLEGAL, EOF := Tokens.Go.EOF, COMMENT := Tokens.Go.COMMENT,
    IDENT := Tokens.Go.IDENT, INT := Tokens.Go.INT, FLOAT := Tokens.Go.FLOAT,
    IMAG := Tokens.Go.IMAG, CHAR := Tokens.Go.CHAR, STRING := Tokens.Go.STRING,
    RAT := Tokens.Go.ILLEGAL, UNIT := Tokens.Go.ILLEGAL, CSTRING := Tokens.Go.ILLEGAL,
    PYSTRING := Tokens.Go.ILLEGAL, SEMICOLON := Tokens.Go.SEMICOLON,
    PERIOD := Tokens.Go.PERIOD, ELLIPSIS := Tokens.Go.ELLIPSIS,
    keywords := keywordTable Tokens.Go.tokenBytes Tokens.Go.keyword_beg Tokens.Go.keyword_end,
    semiKw := [Tokens.Go.BREAK, Tokens.Go.CONTINUE, Tokens.Go.FALLTHROUGH, Tokens.Go.RETURN],
    ops := ScanSwitch.goOps }

def codes : Dialect → Codes
  | .xgo => xgoCodes
  | .tpl => tplCodes
  | .go => goCodes

structure Cfg where
  d : Dialect
  comments : Bool
  noSemis : Bool
  U : UCls

structure Token where
  pos : Nat
  stop : Nat
  kind : Nat
  lit : List UInt8
  deriving DecidableEq, Repr

/-- walk a decision trie from the state after the first byte -/
def walk (src : Array UInt8) : Trie → St → St × Nat × Bool × Int
  | .leaf t s dp, st => (st, t, s, dp)
  | .test c y n, st => if st.ch = c then walk src y (next src st) else walk src n st

def mkTok (st : St) (pos kind : Nat) (lit : List UInt8) : Token :=
  ⟨pos, st.off - st.unitVal.length, kind, lit⟩

/-- `done:` — `if s.mode&dontInsertSemis == 0 { s.insertSemi = insertSemi }; return` -/
def finish (cfg : Cfg) (st : St) (pos kind : Nat) (lit : List UInt8) (semi : Bool) : St × Option Token :=
  let st' := if cfg.noSemis then st else { st with insertSemi := semi }
  (st', some (mkTok st' pos kind lit))

/-- the early `s.insertSemi = false; return pos, s.tokSEMICOLON(), "\n"` (go: `token.SEMICOLON`) -/
def autoSemi (cfg : Cfg) (st : St) (pos : Nat) : St × Option Token :=
  let st' := { st with insertSemi := false, nParen := if cfg.d = .go then st.nParen else 0 }
  (st', some (mkTok st' pos (codes cfg.d).SEMICOLON [0x0A]))

def numKindCode (C : Codes) : NumKind → Nat
  | .illegal => C.ILLEGAL
  | .int => C.INT
  | .float => C.FLOAT
  | .imag => C.IMAG
  | .rat => C.RAT

def strPy : List UInt8 := [0x70, 0x79]

/-- the `case isLetter(ch):` branch -/
def scanIdentTok (cfg : Cfg) (src : Array UInt8) (fuel : Nat) (st : St) (pos : Nat) : St × Option Token :=
  let C := codes cfg.d
  let r := scanIdentifier cfg.U src fuel st
  let st1 := r.1
  let lit := r.2
  if cfg.d = .tpl then finish cfg st1 pos C.IDENT lit true
  else if 1 < lit.length then
    match C.keywords.lookup lit with
    | some kw => finish cfg st1 pos kw lit (C.semiKw.contains kw)
    | none =>
      if cfg.d = .xgo ∧ lit = strPy ∧ st1.ch = 0x22 then
        let s := scanString src fuel (next src st1)
        finish cfg s.1 pos C.PYSTRING s.2 true
      else finish cfg st1 pos C.IDENT lit true
  else if cfg.d = .xgo ∧ (lit = [0x63] ∨ lit = [0x43]) ∧ st1.ch = 0x22 then
    let s := scanString src fuel (next src st1)
    finish cfg s.1 pos C.CSTRING s.2 true
  else finish cfg st1 pos C.IDENT lit true

/-- comment cases: `st` is the state after `s.next()` consumed the `/` (or `#`), `pos` its offset.
`sharp` selects the `#` case (xgo, tpl). -/
def scanCommentTok (cfg : Cfg) (src : Array UInt8) (fuel : Nat) (st : St) (pos : Nat) (sharp : Bool) :
    St × Option Token :=
  let C := codes cfg.d
  if cfg.d = .go then
    let c := scanCommentXG .go src fuel st
    -- `if s.insertSemi && nlOffset != 0 { s.nlPos = …; s.insertSemi = false } else { insertSemi = s.insertSemi }`
    let hit := c.st.insertSemi ∧ c.nlOffset ≠ 0
    let st1 := if hit then { c.st with nlPos := some c.nlOffset, insertSemi := false } else c.st
    let semi := if hit then false else c.st.insertSemi
    if cfg.comments then finish cfg st1 pos C.COMMENT c.lit semi
    else (st1, none)
  else
    -- `if s.insertSemi { reset; return ";" }` for `#`; `if s.insertSemi && s.findLineEnd() {…}` for `/`
    let look : St × Bool :=
      if st.insertSemi then (if sharp then (st, true) else findLineEnd src fuel st) else (st, false)
    if look.2 then
      autoSemi cfg { look.1 with ch := if sharp then 0x23 else 0x2F, off := pos, rdOff := pos + 1 } pos
    else
      let c :=
        if cfg.d = .tpl then (if sharp then scanSharpCommentTpl src fuel look.1 else scanCommentTpl src fuel look.1)
        else scanCommentXG .xgo src fuel look.1
      if cfg.comments then finish cfg c.st pos C.COMMENT c.lit false
      else
        -- `s.insertSemi = false; goto scanAgain` (tpl `#`: plain `goto scanAgain`)
        ((if cfg.d = .tpl ∧ sharp then c.st else { c.st with insertSemi := false }), none)

/-- the operator cases of the `switch ch` (decision tries) and its `default:` (ILLEGAL);
`st1` is the state after `s.next()`, `ch` the consumed character at offset `pos` -/
def opFinish (cfg : Cfg) (src : Array UInt8) (st1 : St) (pos ch : Nat) : St × Option Token :=
  match (codes cfg.d).ops.lookup ch with
  | some t =>
    let w := walk src t st1
    finish cfg { w.1 with nParen := w.1.nParen + w.2.2.2 } pos w.2.1 [] w.2.2.1
  | none =>
    -- next reports unexpected BOMs - don't repeat
    let st2 :=
      if ch = bomCh then st1
      else if cfg.d = .go ∧ (ch = 0x201C ∨ ch = 0x201D) then st1.error pos (.curlyQuote ch)
      else st1.error pos (.illegalChar ch)
    finish cfg st2 pos (codes cfg.d).ILLEGAL (encodeRune ch) st2.insertSemi

/-- one pass through `Scan` from `scanAgain:` -/
def scanStep (cfg : Cfg) (src : Array UInt8) (fuel : Nat) (st0 : St) : St × Option Token :=
  let C := codes cfg.d
  match (if cfg.d = .go then st0.nlPos else none) with
  | some p =>
    -- go 1.23: artificial ';' after a /*...*/ comment containing a newline
    ({ st0 with nlPos := none }, some ⟨p, p, C.SEMICOLON, [0x0A]⟩)
  | none =>
  let st := if st0.unitVal = [] then skipWs src fuel st0 else st0
  let pos := st.off
  if st.unitVal ≠ [] then
    -- number with unit
    finish cfg { st with unitVal := [] } (pos - st.unitVal.length) C.UNIT st.unitVal true
  else
  let ch := st.ch
  if isLetter cfg.U ch then scanIdentTok cfg src fuel st pos
  else if isDecimal ch || (ch = 0x2E && isDecimal (peek src st)) then
    let r := scanNumber cfg.d cfg.U src fuel st
    finish cfg r.1 pos (numKindCode C r.2.1) r.2.2 true
  else
    let st1 := next src st   -- always make progress
    if ch = eofCh then
      if st1.insertSemi then autoSemi cfg st1 pos
      else finish cfg st1 pos C.EOF [] false
    else if ch = 0x0A then autoSemi cfg st1 pos
    else if ch = 0x22 then
      let s := scanString src fuel st1
      finish cfg s.1 pos C.STRING s.2 true
    else if ch = 0x27 then
      let s := scanRune src fuel st1
      finish cfg s.1 pos C.CHAR s.2 true
    else if ch = 0x60 then
      let s := scanRawString src fuel st1
      finish cfg s.1 pos C.STRING s.2 true
    else if ch = 0x2E then
      -- fractions starting with a '.' are handled above
      if st1.ch = 0x2E ∧ peek src st1 = 0x2E then
        let st3 := next src (next src st1)
        finish cfg st3 pos C.ELLIPSIS [] (cfg.d ≠ .go ∧ st3.nParen = 0)
      else finish cfg st1 pos C.PERIOD [] false
    else if ch = 0x3B then
      finish cfg { st1 with nParen := if cfg.d = .go then st1.nParen else 0 } pos C.SEMICOLON [0x3B] false
    else if ch = 0x23 ∧ cfg.d ≠ .go then scanCommentTok cfg src fuel st1 pos true
    else if ch = 0x2F ∧ (st1.ch = 0x2F ∨ st1.ch = 0x2A) then scanCommentTok cfg src fuel st1 pos false
    else opFinish cfg src st1 pos ch

inductive Status where
  | done | panic | outOfFuel
  deriving DecidableEq, Repr

structure ScanOut where
  toks : List Token
  errs : List Err
  status : Status
  deriving Repr

/-- repeat `Scan` until EOF: one `scanStep` per unit of fuel -/
def scanLoop (cfg : Cfg) (src : Array UInt8) : Nat → St → List Token → ScanOut
  | 0, st, acc => ⟨acc.reverse, st.errs.reverse, .outOfFuel⟩
  | f + 1, st, acc =>
    let r := scanStep cfg src (src.size + 1) st
    match r.1.fail with
    | .panic => ⟨acc.reverse, r.1.errs.reverse, .panic⟩
    | .fuel => ⟨acc.reverse, r.1.errs.reverse, .outOfFuel⟩
    | .ok =>
      match r.2 with
      | none => scanLoop cfg src f r.1 acc
      | some t =>
        if t.kind = (codes cfg.d).EOF then ⟨(t :: acc).reverse, r.1.errs.reverse, .done⟩
        else scanLoop cfg src f r.1 (t :: acc)

def scanFuel (src : Array UInt8) : Nat := 2 * src.size + 3

/-- `Init` followed by `Scan` until EOF -/
def scan (cfg : Cfg) (src : Array UInt8) : ScanOut :=
  scanLoop cfg src (scanFuel src) (initSt src) []

end GopModel.Scan
