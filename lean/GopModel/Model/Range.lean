/-
Model of the two lowerings of an XGo range expression `start:end:step` (C04).

* `forLoopG` / `forLoop`: the Go `for` statement that `cl/stmt.go: toForStmt` builds for a
  for-in loop (`ForPhraseStmt`) and a for-range statement (`RangeStmt`) whose operand is a
  range expression:

      for k[, _gop_end][, _gop_step] := first[, last][, step]; k <op> end; k <inc>= step { body }

  The comparison operator, the increment operator, the defaults for an omitted start / step
  and whether non-trivial `last` / `step` expressions are first stored in `_gop_end` /
  `_gop_step` are *parameters* (`LoopShape`); the values used for the property theorems are
  regenerated from the Go source of `toForStmt` into `Generated/RangeLoop.lean` on every run.
  There is no sign handling in `toForStmt`, and none here.

* `enumCount` / `iterLoop` / `enumRun`: the iterator used by every other context
  (`cl/expr.go: compileRangeExpr` emits `newRange(start, end, step)`; gogen's for-range over
  the resulting `*xgo.IntRange` calls `Gop_Enum()` once and `Next()` until `ok` is false),
  transcribed from `github.com/qiniu/x/xgo/range.go`.  Go's `/` on `int` truncates toward zero
  (`Int.tdiv`); `step = 0` makes `Gop_Enum` panic (integer divide by zero).

Integers are unbounded here; the property theorems carry the "no overflow" reading
(see `C04_values_in_bounds`).  Core Lean only.
-/
namespace GopModel.Range

/-- Comparison operators a `for` condition may use. -/
inductive Cmp where
  | lt | le | gt | ge | ne
  deriving Repr, DecidableEq

def Cmp.eval : Cmp → Int → Int → Bool
  | .lt, a, b => decide (a < b)
  | .le, a, b => decide (a ≤ b)
  | .gt, a, b => decide (a > b)
  | .ge, a, b => decide (a ≥ b)
  | .ne, a, b => decide (a ≠ b)

/-- Assignment operator of the post statement. -/
inductive Inc where
  | add | sub
  deriving Repr, DecidableEq

def Inc.apply : Inc → Int → Int → Int
  | .add, k, st => k + st
  | .sub, k, st => k - st

/-- What `toForStmt` emits (extracted from its source). -/
structure LoopShape where
  cond : Cmp          -- `Cond.Op`
  inc : Inc           -- `Post.Tok`
  defStart : Int      -- `first` when `re.First == nil`
  defStep : Int       -- `post` when `re.Expr3 == nil`
  endTemp : Bool      -- a `last` that is not an identifier / basic literal is stored in `_gop_end` by the init statement
  stepTemp : Bool     -- same for `step` / `_gop_step`
  deriving Repr, DecidableEq

/-- Outcome of running a loop for a bounded number of iterations. -/
inductive Out where
  | done (l : List Int)        -- the loop ended; `l` = values the body saw, in order
  | outOfFuel (l : List Int)   -- still running after `fuel` iterations; `l` = values so far
  | panic                      -- runtime panic (integer divide by zero in `Gop_Enum`)
  deriving Repr, DecidableEq

def Out.cons (v : Int) : Out → Out
  | .done l => .done (v :: l)
  | .outOfFuel l => .outOfFuel (v :: l)
  | .panic => .panic

/-- The emitted `for` statement.  `endAt j` / `stepAt j` are the values the condition / post
statement read at their `j`-th evaluation (constant for temporaries, literals and unmodified
variables).  One unit of fuel per evaluation of the condition. -/
def forLoopG (sh : LoopShape) (endAt stepAt : Nat → Int) : Nat → Nat → Int → Out
  | 0, _, _ => .outOfFuel []
  | fuel + 1, j, k =>
    if sh.cond.eval k (endAt j) then
      (forLoopG sh endAt stepAt fuel (j + 1) (sh.inc.apply k (stepAt j))).cons k
    else .done []

/-- The emitted loop when `end` and `step` do not change during the loop. -/
def forLoop (sh : LoopShape) (fuel : Nat) (s e st : Int) : Out :=
  forLoopG sh (fun _ => e) (fun _ => st) fuel 0 s

/-- A bound of a range expression as `toForStmt` classifies it: an identifier / basic literal
is left in place (`simple`, value `v` on every read — the property does not cover bodies that
assign to it); any other expression (`expr f`) yields `f i` at its `i`-th evaluation
(a call may have side effects). -/
inductive Bound where
  | simple (v : Int)
  | expr (f : Nat → Int)

/-- Value of the first evaluation. -/
def Bound.first : Bound → Int
  | .simple v => v
  | .expr f => f 0

/-- Value read by the `j`-th evaluation of the condition / post statement. -/
def Bound.at (temp : Bool) : Bound → Nat → Int
  | .simple v, _ => v
  | .expr f, j => if temp then f 0 else f j

/-- The whole `for` statement over bound *expressions*: the init statement evaluates
`first`, and `last` / `step` when they go to temporaries (without a temporary the
expression sits in the condition / post statement and is evaluated there each time). -/
def forStmt (sh : LoopShape) (fuel : Nat) (first last step : Bound) : Out :=
  forLoopG sh (last.at sh.endTemp) (step.at sh.stepTemp) fuel 0 first.first

/-! ## The iterator (`qiniu/x/xgo/range.go`) -/

/-- `Gop_Enum`: `n := End - Start + step; if step > 0 { n = (n-1)/step } else { n = (n+1)/step }`.
`none` = the division panics (`step = 0`). -/
def enumCount (s e st : Int) : Option Int :=
  if st = 0 then none
  else
    let n := e - s + st
    some (if st > 0 then (n - 1).tdiv st else (n + 1).tdiv st)

/-- `for it := r.Gop_Enum(); ; { x, ok := it.Next(); if !ok { break }; body }` with
`Next`: `if p.n > 0 { val = p.val; p.val += p.step; p.n-- }`.  One unit of fuel per `Next`. -/
def iterLoop : Nat → Int → Int → Int → Out
  | 0, _, _, _ => .outOfFuel []
  | fuel + 1, n, val, st =>
    if n > 0 then (iterLoop fuel (n - 1) (val + st) st).cons val else .done []

def enumRun (fuel : Nat) (s e st : Int) : Out :=
  match enumCount s e st with
  | none => .panic
  | some n => iterLoop fuel n s st

/-- Fuel that suffices for the iterator (`n` calls returning a value, one returning `!ok`). -/
def enumFuel (s e st : Int) : Nat :=
  match enumCount s e st with
  | none => 0
  | some n => n.toNat + 1

/-- The sequence a comprehension / any `newRange` consumer sees. -/
def enumSeq (s e st : Int) : Out := enumRun (enumFuel s e st) s e st

/-- The closed form: `n` values `s, s+st, …, s+(n-1)·st`. -/
def closedSeq (s st : Int) (n : Nat) : List Int := (List.range n).map (fun (i : Nat) => s + st * (i : Int))

/-! ## Range expressions with omitted parts -/

/-- `first:last:step` with optional `first` and `step` (`ast.RangeExpr`). -/
structure RangeExpr where
  first : Option Int
  last : Int
  step : Option Int
  deriving Repr, DecidableEq

/-- for-in / for-range lowering (`toForStmt`). -/
def RangeExpr.runFor (sh : LoopShape) (fuel : Nat) (r : RangeExpr) : Out :=
  forLoop sh fuel
    (match r.first with | some v => v | none => sh.defStart) r.last
    (match r.step with | some v => v | none => sh.defStep)

/-- comprehension lowering (`compileRangeExpr`): `newRange(first|d0, last, step|d1)`. -/
def RangeExpr.runEnum (d0 d1 : Int) (fuel : Nat) (r : RangeExpr) : Out :=
  enumRun fuel
    (match r.first with | some v => v | none => d0) r.last
    (match r.step with | some v => v | none => d1)

end GopModel.Range
