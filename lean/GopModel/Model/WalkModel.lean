/-
Model of /repo/ast/walk.go (`Walk`, `walkList`, `Inspect`) as a generic interpreter of the
per-kind child-step table that the translator target `walk` regenerates from the type switch
of `Walk` (Generated/Walk.lean), over rose trees of AST nodes.  Core Lean only.

A tree node carries the name of the parent's field that holds it (`slot`), its kind, an
identity (`id`), the boolean fields of the Go struct (`flags`) and all the nodes held in its
Node-typed fields (`kids`, in dump order, nil pointers/interfaces included as `null`).
The value of field `f` of a node is the sub-list of `kids` with `slot = f`.
-/
namespace GopModel.WalkModel

/-- What `Walk` does with one field of the node in one statement of a `case` body. -/
inductive Op where
  | one     -- `Walk(v, n.f)`                              (a nil `n.f` is visited, then Walk panics)
  | opt     -- `if n.f != nil { Walk(v, n.f) }`
  | list    -- `walkList(v, n.f)`
  | range   -- `for _, x := range n.f { Walk(v, x) }`      (slice or map values)
  | rows    -- `for _, r := range n.f { walkList(v, r) }`  (slice of slices)
  | parts   -- `for _, p := range <carrier>.Parts { if e, ok := p.(Expr); ok { Walk(v, e) } }`
  deriving DecidableEq, Repr

/-- `true` for the forms that skip a nil entry instead of passing it to `Walk`. -/
def Op.skipsNull : Op → Bool
  | .opt => true
  | .parts => true
  | _ => false

/-- One child-visiting statement; `grd = some g` when it sits inside `if !n.g { … }`. -/
structure Step (F : Type) where
  op : Op
  fld : F
  grd : Option F := none
  deriving DecidableEq, Repr

/-- Static classification of a struct field by its declared Go type (Generated/Walk.lean). -/
inductive FKind where
  | one      -- `*T` (T a node struct) or a node interface (Expr, Stmt, Decl, Spec, Node)
  | list     -- slice of `one`
  | lists    -- slice of slices of `one`
  | mapv     -- map with `one` values
  | parts    -- `[]any` inside a carrier struct reached through a pointer field (`*StringLitEx`)
  | dyn      -- `any` at node level (DomainTextLit.Extra): carrier chosen at run time
  | foreign  -- node types of another package (go/ast) — not XGo nodes
  | flag     -- bool
  | other
  deriving DecidableEq, Repr

inductive Node (K F : Type) where
  /-- a nil entry: `ty = none` is a nil interface, `ty = some k` a nil `*k` (a typed nil pointer is
  a non-nil interface value for `Walk`, whose type switch selects the case of `k`) -/
  | null (slot : F) (ty : Option K)
  | mk (slot : F) (kind : K) (id : Nat) (flags : List (F × Bool)) (kids : List (Node K F))

namespace Node
def slot {K F} : Node K F → F
  | .null s _ => s
  | .mk s _ _ _ _ => s
def isNull {K F} : Node K F → Bool
  | .null .. => true
  | .mk .. => false
end Node

/-- A call of the visitor: `Visit(node)` with the node's id, or `Visit(nil)`. -/
inductive Ev where
  | visit (id : Nat)
  | nil
  deriving DecidableEq, Repr

/-- Outcome of a (partial) traversal: the visitor calls made so far and whether Walk panicked. -/
structure Res where
  evs : List Ev
  panicked : Bool
  deriving DecidableEq, Repr

def Res.ok (evs : List Ev) : Res := ⟨evs, false⟩
def Res.panic (evs : List Ev) : Res := ⟨evs, true⟩

/-- Sequential composition: nothing runs after a panic. -/
def Res.seq (a b : Res) : Res :=
  if a.panicked then a else ⟨a.evs ++ b.evs, b.panicked⟩

def Res.seqAll : List Res → Res
  | [] => .ok []
  | r :: rs => r.seq (Res.seqAll rs)

/-- Is the guard flag of a step set on this node (`if !n.g { … }` skipped)? -/
def guardSet {F} [DecidableEq F] (flags : List (F × Bool)) : Option F → Bool
  | none => false
  | some g => (flags.lookup g).getD false

section
variable {K F : Type} [DecidableEq F]

/-
`walk tbl d t`: `Walk(v, t)` for a visitor that records its calls, descends into node `id`
iff `d id` (Inspect's `f(node)` result; `d = fun _ => true` is the plain traversal) and keeps
going when called with nil.  `tbl k = none`: kind `k` has no `case` and reaches the `default:`
clause, which panics.
-/
mutual
def walk (tbl : K → Option (List (Step F))) (d : Nat → Bool) : Node K F → Res
  -- Visit(nil) is called (a typed nil pointer is recorded like nil); a nil interface reaches
  -- `default:` and panics; a nil `*k` selects k's case, whose first statement dereferences it —
  -- unless the case body is empty, then Walk goes on to the closing Visit(nil)
  | .null _ none => .panic [.nil]
  | .null _ (some k) =>
    match tbl k with
    | some [] => .ok [.nil, .nil]
    | _ => .panic [.nil]
  | .mk _ k id flags kids =>
    if d id then
      match tbl k with
      | none => .panic [.visit id]
      | some steps =>
        (Res.ok [.visit id]).seq
          ((Res.seqAll (steps.map fun s =>
              if guardSet flags s.grd then Res.ok []
              else walkSel tbl d s.fld s.op.skipsNull kids)).seq (Res.ok [.nil]))
    else .ok [.visit id]
/-- Walk, in order, the entries of field `f` (entries with `slot = f`), skipping nil entries
when `skip`. -/
def walkSel (tbl : K → Option (List (Step F))) (d : Nat → Bool) (f : F) (skip : Bool) :
    List (Node K F) → Res
  | [] => .ok []
  | t :: ts =>
    if t.slot = f ∧ !(skip && t.isNull) then (walk tbl d t).seq (walkSel tbl d f skip ts)
    else walkSel tbl d f skip ts
end

/-! ### Specification side: the children of a node in source order -/

/-- `childFields`: per kind, the fields holding children, in source order, each with the flag
that (when set) withdraws it (`FuncDecl.Shadow`, `File.NoPkgDecl`). -/
abbrev ChildSpec (K F : Type) := K → List (F × Option F)

mutual
/-- Every node reachable through the child fields once, parent first, children in source
order, `Visit(nil)` after the children of each node; pruned below nodes with `d id = false`. -/
def preorder (spec : ChildSpec K F) (d : Nat → Bool) : Node K F → List Ev
  | .null .. => []
  | .mk _ k id flags kids =>
    if d id then
      .visit id :: (((spec k).filter fun c => !guardSet flags c.2).flatMap fun c =>
        preSel spec d c.1 kids) ++ [.nil]
    else [.visit id]
def preSel (spec : ChildSpec K F) (d : Nat → Bool) (f : F) : List (Node K F) → List Ev
  | [] => []
  | t :: ts =>
    if t.slot = f ∧ !t.isNull then preorder spec d t ++ preSel spec d f ts
    else preSel spec d f ts
end

/- `wf`: the tree is walkable without panic: every kind has a case, and no nil entry sits in a
field that `Walk` passes on without a nil test. -/
mutual
def wf (tbl : K → Option (List (Step F))) : Node K F → Bool
  | .null .. => true
  | .mk _ k _ _ kids =>
    match tbl k with
    | none => false
    | some steps => wfKids tbl (steps.filter fun s => !s.op.skipsNull) kids
/-- No kid is a nil entry of a field walked without nil test (`strict`), and every kid is `wf`. -/
def wfKids (tbl : K → Option (List (Step F))) (strict : List (Step F)) : List (Node K F) → Bool
  | [] => true
  | t :: ts =>
    !(t.isNull && strict.any fun s => s.fld = t.slot) && wf tbl t && wfKids tbl strict ts
end

/-- Ids of the nodes in the spec's child relation, preorder (pruned like `preorder`). -/
def visitIds : List Ev → List Nat
  | [] => []
  | .visit i :: r => i :: visitIds r
  | .nil :: r => visitIds r

end

end GopModel.WalkModel
