/-
Model of /repo/ast/import.go: SortImports, sortSpecs (position recording, sort, dedup, position
reassignment), collapse, importPath/importName/importComment — as used by format.Source.
An import spec is abstracted to what these functions read: name, unquoted path, the path
literal, the trailing comment (nil or its Text()), and the lines of Pos()/End().
Comment re-attachment (`importComments`, `cgPos`) only moves comment positions and is not
modelled.  `sort.Slice` is modelled as a stable sort (it is an insertion sort up to 12 elements;
beyond that the order of specs with equal (path, name, comment) keys is unspecified — such specs
are indistinguishable in what is observed).  Core Lean only.
-/
namespace GopModel.ImportSort

abbrev Bytes := List UInt8

structure Spec where
  name : Bytes              -- importName: "" when there is no name
  path : Bytes              -- importPath: strconv.Unquote(Path.Value), "" on error
  lit : Bytes               -- Path.Value as written
  comment : Option Bytes    -- Comment == nil → none, else Comment.Text()
  line : Nat                -- line of s.Pos()
  endLine : Nat             -- line of s.End()
  deriving Repr, DecidableEq

/-- Go's `<` on strings: bytewise lexicographic. -/
def bytesLt : Bytes → Bytes → Bool
  | [], [] => false
  | [], _ :: _ => true
  | _ :: _, [] => false
  | a :: as, b :: bs =>
    if a.toNat < b.toNat then true
    else if b.toNat < a.toNat then false
    else bytesLt as bs

/-- `importComment`. -/
def Spec.commentText (s : Spec) : Bytes := s.comment.getD []

/-- The `less` function given to `sort.Slice`. -/
def less (a b : Spec) : Bool :=
  if a.path ≠ b.path then bytesLt a.path b.path
  else if a.name ≠ b.name then bytesLt a.name b.name
  else bytesLt a.commentText b.commentText

/-- Insert `a` before the first element that is not smaller (stable). -/
def insertSorted (a : Spec) : List Spec → List Spec
  | [] => [a]
  | b :: t => if less b a then b :: insertSorted a t else a :: b :: t

/-- Stable insertion sort by `less` (elements are inserted from the right end, so equal
elements keep their order). -/
def sortByLess : List Spec → List Spec
  | [] => []
  | a :: t => insertSorted a (sortByLess t)

/-- `collapse(prev, next)`: prev may be removed. -/
def collapse (prev next : Spec) : Bool :=
  if next.path ≠ prev.path || next.name ≠ prev.name then false
  else prev.comment.isNone

/-- The dedup loop over adjacent pairs. -/
def dedupe : List Spec → List Spec
  | [] => []
  | [s] => [s]
  | s :: n :: t => if collapse s n then dedupe (n :: t) else s :: dedupe (n :: t)

/-- "Reassign the import paths to have the same position sequence". -/
def reassign : List Spec → List (Nat × Nat) → List Spec
  | [], _ => []
  | s :: t, [] => s :: t            -- unreachable: there are at least as many positions
  | s :: t, p :: ps => { s with line := p.1, endLine := p.2 } :: reassign t ps

/-- `sortSpecs` on one run. -/
def sortRun (run : List Spec) : List Spec :=
  if run.length ≤ 1 then run
  else reassign (dedupe (sortByLess run)) (run.map fun s => (s.line, s.endLine))

/-- Runs of specs on successive lines: `cur` (reversed) is the run being collected,
`prev` its last spec. -/
def splitRuns : Spec → List Spec → List Spec → List (List Spec)
  | _, cur, [] => [cur.reverse]
  | prev, cur, s :: t =>
    if s.line > 1 + prev.endLine then cur.reverse :: splitRuns s [s] t
    else splitRuns s (s :: cur) t

def runsOf : List Spec → List (List Spec)
  | [] => []
  | s :: t => splitRuns s [s] t

/-- The body of the loop of `SortImports` for a parenthesised import declaration. -/
def sortBlock (specs : List Spec) : List Spec := (runsOf specs).flatMap sortRun

inductive Decl where
  | imp (grouped : Bool) (specs : List Spec)   -- GenDecl with Tok == IMPORT; grouped = Lparen.IsValid()
  | other                                      -- any other declaration
  deriving Repr, DecidableEq

/-- `SortImports`: stops at the first declaration that is not an import. -/
def sortImports : List Decl → List Decl
  | [] => []
  | .other :: ds => .other :: ds
  | .imp false specs :: ds => .imp false specs :: sortImports ds
  | .imp true specs :: ds => .imp true (sortBlock specs) :: sortImports ds

end GopModel.ImportSort
