/-
Model of /repo/tpl/matcher/match.go (every `Match` method and every `First` method,
`Choices.CheckConflicts`, `Context.SetLastError`), of the tail of `cl.NewEx`
(tpl/cl/compile.go: conflict check of every choice, then the left-recursion check of every
rule) and of `Compiler.Match/Parse/ParseExpr` (tpl/tpl.go) on an already scanned token list.

Input of the model is the *compiled* grammar: the matcher tree `G` (one constructor per
matcher type of match.go) and the rule table `Env` (`Var.Name ↦ Var.Elem`), together with the
token list produced by the real scanner (`kind`, `lit`, `pos`, `end`).

What is not modelled: `ListRetProc`, return procedures that panic (`Dyn` errors and the
`recover` in `Var.Match`), the debug log of `enableMatchVar`, the text after "but got" of
error messages (it is determined by the error position).  A return procedure is a total
function `V α → V α`.

All recursion is structural on an explicit fuel argument (first argument), so that the
kernel can evaluate the definitions; `Props/C28.lean` proves an explicit adequate fuel.
Core Lean only.
-/
namespace GopModel.Tpl

abbrev Bytes := List UInt8

/-- `types.Token` plus its `End()` (computed by the real code, passed in). -/
structure Tok where
  kind : Nat
  lit : Bytes
  pos : Nat
  endp : Nat
  deriving DecidableEq, Repr, Inhabited

/-- Matching results (`any`): `nil`, `*Token` (index into the token list), `[]any`, and
values produced by return procedures (`leaf`). -/
inductive V (α : Type) where
  | nil
  | tok (i : Nat)
  | list (xs : List (V α))
  | leaf (a : α)
  deriving Repr, Inhabited

/-- Matching errors: a small enum + position (positions are `token.Pos` values). -/
inductive Err where
  | expect (what : Bytes) (pos : Nat)   -- "expect `what`, but got …" at pos
  | noWS                                 -- errNoWhitespace
  | adjoinEmpty                          -- errAdjoinEmpty
  | multi                                -- errMultiMismatch
  | notAdjoin (pos : Nat)                -- "not adjoin" at pos
  | unassigned (name : Bytes)            -- "variable `name` not assigned"
  deriving DecidableEq, Repr, Inhabited

inductive Abort where
  | fuel    -- the model ran out of fuel: the Go code does not return (loop / unbounded recursion)
  | panic   -- the Go code panics (index out of range)
  deriving DecidableEq, Repr, Inhabited

/-- `(n, result, err)` of a `Match` call.  On failure Go returns `result = nil`; `n` of a
failure is an `int` that can be `-1` (`Choices.Match` with no options), hence `Int`. -/
inductive Res (β : Type) where
  | ok (n : Nat) (r : β)
  | fail (n : Int) (e : Err)
  | abort (a : Abort)
  deriving Repr, Inhabited

/-- One `ctx.SetLastError(left, err)` call. -/
abbrev LogE := Int × Option Err
abbrev Log := List LogE
/-- Outcome of a match + the `SetLastError` calls it made, in order. -/
abbrev Out (β : Type) := Res β × Log

/-- The matcher tree: one constructor per matcher type of match.go. -/
inductive G where
  | tru                                  -- gTrue
  | ws                                   -- gWS
  | str (q : UInt8)                      -- gString(quoteCh)
  | tok (k : Nat) (label : Bytes)        -- *gToken{tok}; label = tok.String()
  | lit (k : Nat) (l : Bytes)            -- *gLiteral{Tok, Lit}
  | choice (opts : List G) (stops : List Bool)   -- *Choices{options, stops}
  | seq (items : List G)                 -- *gSequence{items}
  | rep0 (g : G)                         -- *gRepeat0
  | rep1 (g : G)                         -- *gRepeat1
  | rep01 (g : G)                        -- *gRepeat01
  | adjoin (a b : G)                     -- *gAdjoin
  | var (name : Bytes)                   -- *Var (Elem is looked up in Env)
  deriving Repr, Inhabited

/-- `R1 % R2` is compiled by `matcher.List` to `Sequence(a, Repeat0(Sequence(b, a)))`. -/
def G.listOf (a b : G) : G := .seq [a, .rep0 (.seq [b, a])]

/-- Rule table: `Var.Name ↦ Var.Elem`; a variable without entry has `Elem == nil`. -/
abbrev Env := List (Bytes × G)

def Env.find (env : Env) (name : Bytes) : Option G := env.lookup name

/-- `token.STRING`. -/
def tokSTRING : Nat := 9
/-- `token.SEMICOLON` (';') and `token.EOF`. -/
def tokSEMICOLON : Nat := 59
def tokEOF : Nat := 1

def bQSTRING : Bytes := [0x51, 0x53, 0x54, 0x52, 0x49, 0x4e, 0x47]
def bRAWSTRING : Bytes := [0x52, 0x41, 0x57, 0x53, 0x54, 0x52, 0x49, 0x4e, 0x47]
/-- `stringType`. -/
def stringType (q : UInt8) : Bytes := if q = 0x22 then bQSTRING else bRAWSTRING

/-- Everything that stays fixed during one match. -/
structure Cx (α : Type) where
  env : Env
  toks : List Tok
  fileEnd : Nat
  procs : Bytes → Option (V α → V α)

variable {α : Type}

def Cx.N (c : Cx α) : Nat := c.toks.length

/-- `src[0].Pos`, or `ctx.FileEnd` if `src` is empty. -/
def Cx.posAt (c : Cx α) (i : Nat) : Nat :=
  match c.toks[i]? with
  | some t => t.pos
  | none => c.fileEnd

/-! ### loops of the composite matchers, parametrised by the recursive call -/

/-- `gSequence.Match`: the items in order, each at the position the previous one reached. -/
def seqLoop (m : G → Nat → Out (V α)) : List G → Nat → Out (List (V α))
  | [], _ => (.ok 0 [], [])
  | g :: rest, p =>
    match m g p with
    | (.ok n1 r1, l1) =>
      match seqLoop m rest (p + n1) with
      | (.ok n2 rs, l2) => (.ok (n1 + n2) (r1 :: rs), l1 ++ l2)
      | (.fail n2 e, l2) => (.fail (n1 + n2) e, l1 ++ l2)
      | (.abort a, l2) => (.abort a, l1 ++ l2)
    | (.fail n1 e, l1) => (.fail n1 e, l1)
    | (.abort a, l1) => (.abort a, l1)

/-- The `for` loop of `gRepeat0.Match` / `gRepeat1.Match` from position `p` on; `N = len(toks)`.
An iteration that fails ends the loop (`SetLastError(len(src)-n1, err1)`); an iteration that
succeeds without consuming a token ends the loop as well (its result is dropped).
The first argument bounds the number of iterations. -/
def repLoop (m : Nat → Out (V α)) (N : Nat) : Nat → Nat → Out (List (V α))
  | 0, _ => (.abort .fuel, [])
  | k + 1, p =>
    match m p with
    | (.fail n1 e, l1) => (.ok 0 [], l1 ++ [((N : Int) - (p : Int) - n1, some e)])
    | (.ok n1 r1, l1) =>
      if n1 = 0 then (.ok 0 [], l1)
      else
        match repLoop m N k (p + n1) with
        | (.ok n2 rs, l2) => (.ok (n1 + n2) (r1 :: rs), l1 ++ l2)
        | (.fail n2 e, l2) => (.fail n2 e, l1 ++ l2)
        | (.abort a, l2) => (.abort a, l1 ++ l2)
    | (.abort a, l1) => (.abort a, l1)

/-- State update of `Choices.Match` after a failed option: `nMax, errMax, multiErr`. -/
def choiceUpd (nMax : Int) (errMax : Err) (multi : Bool) (n : Int) (e : Err) : Int × Err × Bool :=
  if n ≥ nMax then
    if n = nMax then (nMax, errMax, true) else (n, e, false)
  else (nMax, errMax, multi)

/-- `Choices.Match`: options in order; `stops` is the remaining suffix of `p.stops`. -/
def choiceLoop (m : G → Out (V α)) : List G → List Bool → Int → Err → Bool → Out (V α)
  | [], _, nMax, errMax, multi => (.fail nMax (if multi then .multi else errMax), [])
  | g :: gs, stops, nMax, errMax, multi =>
    match m g with
    | (.ok n r, l) => (.ok n r, l)
    | (.abort a, l) => (.abort a, l)
    | (.fail n e, l) =>
      let st := choiceUpd nMax errMax multi n e
      if n > 0 then
        match stops with
        | [] => (.abort .panic, l)      -- stops[i]: index out of range
        | s :: _ =>
          if s then (.fail n e, l)
          else
            let o := choiceLoop m gs stops.tail st.1 st.2.1 st.2.2
            (o.1, l ++ o.2)
      else
        let o := choiceLoop m gs stops.tail st.1 st.2.1 st.2.2
        (o.1, l ++ o.2)

def mapOut {β γ : Type} (f : β → γ) : Out β → Out γ
  | (.ok n r, l) => (.ok n (f r), l)
  | (.fail n e, l) => (.fail n e, l)
  | (.abort a, l) => (.abort a, l)

/-- `g.Match(toks[i:], ctx)`. -/
def matchF (c : Cx α) : Nat → G → Nat → Out (V α)
  | 0, _, _ => (.abort .fuel, [])
  | f + 1, g, i =>
    match g with
    | .tru => (.ok 0 .nil, [])
    | .ws =>
      match c.toks[i]? with
      | none => (.fail 0 .noWS, [])
      | some t =>
        if i > 0 then
          match c.toks[i - 1]? with
          | some tp => if tp.endp ≠ t.pos then (.ok 0 .nil, []) else (.fail 0 .noWS, [])
          | none => (.abort .panic, [])
        else (.fail 0 .noWS, [])
    | .str q =>
      match c.toks[i]? with
      | none => (.fail 0 (.expect (stringType q) c.fileEnd), [])
      | some t =>
        if t.kind ≠ tokSTRING then (.fail 0 (.expect (stringType q) t.pos), [])
        else match t.lit with
          | [] => (.abort .panic, [])          -- t.Lit[0]
          | b :: _ =>
            if b ≠ q then (.fail 0 (.expect (stringType q) t.pos), [])
            else (.ok 1 (.tok i), [])
    | .tok k label =>
      match c.toks[i]? with
      | none => (.fail 0 (.expect label c.fileEnd), [])
      | some t =>
        if t.kind ≠ k then (.fail 0 (.expect label t.pos), [])
        else (.ok 1 (.tok i), [])
    | .lit k l =>
      match c.toks[i]? with
      | none => (.fail 0 (.expect l c.fileEnd), [])
      | some t =>
        if t.kind ≠ k ∨ t.lit ≠ l then (.fail 0 (.expect l t.pos), [])
        else (.ok 1 (.tok i), [])
    | .choice opts stops =>
      choiceLoop (fun g => matchF c f g i) opts stops (-1) .multi true
    | .seq items => mapOut V.list (seqLoop (fun g p => matchF c f g p) items i)
    | .rep0 g => mapOut V.list (repLoop (fun p => matchF c f g p) c.N f i)
    | .rep1 g =>
      match matchF c f g i with
      | (.ok n r0, l0) =>
        match repLoop (fun p => matchF c f g p) c.N f (i + n) with
        | (.ok n2 rs, l2) => (.ok (n + n2) (.list (r0 :: rs)), l0 ++ l2)
        | (.fail n2 e, l2) => (.fail n2 e, l0 ++ l2)
        | (.abort a, l2) => (.abort a, l0 ++ l2)
      | o => o
    | .rep01 g =>
      match matchF c f g i with
      | (.fail _ _, l) => (.ok 0 .nil, l)
      | o => o
    | .adjoin a b =>
      match matchF c f a i with
      | (.ok n r0, l0) =>
        if n = 0 then (.fail 0 .adjoinEmpty, l0)
        else
          match matchF c f b (i + n) with
          | (.ok n1 r1, l1) =>
            if n1 = 0 then (.fail n .adjoinEmpty, l0 ++ l1)
            else
              match c.toks[i + n - 1]?, c.toks[i + n]? with
              | some t0, some t1 =>
                if t0.endp ≠ t1.pos then (.fail n (.notAdjoin t1.pos), l0 ++ l1)
                else (.ok (n + n1) (.list [r0, r1]), l0 ++ l1)
              | _, _ => (.abort .panic, l0 ++ l1)      -- src[n-1] / src[n]
          | (.fail _ e, l1) => (.fail n e, l0 ++ l1)
          | (.abort ab, l1) => (.abort ab, l0 ++ l1)
      | o => o
    | .var name =>
      match c.env.find name with
      | none => (.fail 0 (.unassigned name), [])
      | some body =>
        match matchF c f body i with
        | (.ok n r, l) =>
          (.ok n (match c.procs name with | some p => p r | none => r), l)
        | (.fail n e, l) =>
          if e = .multi then (.fail n (.expect name (c.posAt i)), l) else (.fail n e, l)
        | o => o

/-! ### `Context.Left` / `Context.LastErr` -/

/-- `SetLastError`. -/
def setLast (st : Int × Option Err) (e : LogE) : Int × Option Err :=
  if e.1 < st.1 then e else st

def foldLog (init : Int × Option Err) (l : Log) : Int × Option Err := l.foldl setLast init

/-- `Compiler.Match` after scanning: `(N, result, err)`, `ctx.Left`, `ctx.LastErr`. -/
structure TopOut (α : Type) where
  res : Res (V α)
  left : Int
  lastErr : Option Err

def matchTop (c : Cx α) (fuel : Nat) (doc : Bytes) : TopOut α :=
  let o := matchF c fuel (.var doc) 0
  let last : Log := match o.1 with
    | .ok n _ => [((c.N : Int) - n, none)]
    | .fail n e => [((c.N : Int) - n, some e)]
    | .abort _ => []
  let st := foldLog ((c.N : Int), none) (o.2 ++ last)
  ⟨o.1, st.1, st.2⟩

/-- Outcome of `Compiler.Parse` / `Compiler.ParseExpr`. -/
inductive ParseRes (α : Type) where
  | ok (r : V α)
  | err (e : Err)
  | unexpected (pos : Nat)     -- "unexpected token: …" at pos
  | abort (a : Abort)

/-- `ms.Next().Pos`: the token at `len(toks) - ctx.Left`, or `FileEnd`. -/
def nextPos (c : Cx α) (left : Int) : Option Nat :=
  if left > 0 then
    match c.toks[((c.N : Int) - left).toNat]? with
    | some t => some t.pos
    | none => none
  else some c.fileEnd

/-- `Compiler.Parse`. -/
def parseTop (c : Cx α) (fuel : Nat) (doc : Bytes) : ParseRes α :=
  let t := matchTop c fuel doc
  match t.res with
  | .abort a => .abort a
  | .fail _ e => .err e
  | .ok n r =>
    if c.N > n then
      match nextPos c t.left with
      | some p => .unexpected p
      | none => .abort .panic
    else .ok r

/-- `Compiler.ParseExpr`. -/
def parseExprTop (c : Cx α) (fuel : Nat) (doc : Bytes) : ParseRes α :=
  let t := matchTop c fuel doc
  match t.res with
  | .abort a => .abort a
  | .fail _ e => .err e
  | .ok n r =>
    match c.toks[n]? with
    | none => .ok r            -- len(ms.Toks) == ms.N  (n ≤ N is `consumed_le`)
    | some tk =>
      if tk.kind = tokSEMICOLON ∨ tk.kind = tokEOF then .ok r
      else
        match nextPos c t.left with
        | some p => .unexpected p
        | none => .abort .panic

/-! ### `First`, `CheckConflicts`, and the checks at the end of `cl.NewEx` -/

/-- An element of a first set: `token.Token` or `*MatchToken`. -/
inductive FI where
  | tok (k : Nat)
  | lit (k : Nat) (l : Bytes)
  deriving DecidableEq, Repr, Inhabited

inductive FRes where
  | ok (first : List FI) (mayEmpty : Bool)
  | recur (name : Bytes)       -- panic(RecursiveError{p})
  | fuel
  deriving DecidableEq, Repr, Inhabited

/-- `Choices.First`: all options; `mayEmpty` if one of them may be empty. -/
def firstChoice (m : G → FRes) : List G → FRes
  | [] => .ok [] false
  | g :: gs =>
    match m g with
    | .ok f1 me1 =>
      match firstChoice m gs with
      | .ok f2 me2 => .ok (f1 ++ f2) (me1 || me2)
      | o => o
    | o => o

/-- `gSequence.First`: items up to and including the first one that may not be empty. -/
def firstSeq (m : G → FRes) : List G → FRes
  | [] => .ok [] false
  | g :: gs =>
    match m g with
    | .ok f1 me1 =>
      if me1 then
        match gs with
        | [] => .ok f1 true
        | _ :: _ =>
          match firstSeq m gs with
          | .ok f2 me2 => .ok (f1 ++ f2) me2
          | o => o
      else .ok f1 false
    | o => o

/-- `g.First(in)` returns `in ++ first` where `(first, mayEmpty) = firstF env fuel g`.
`Var.First` sets `p.Elem = nil` while it visits the element ("to stop recursion") and panics
with `RecursiveError` on a variable whose `Elem` is nil: here the variable is removed from
the rule table for the nested call. -/
def firstF : Nat → Env → G → FRes
  | 0, _, _ => .fuel
  | f + 1, env, g =>
    match g with
    | .tru => .ok [] true
    | .ws => .ok [] true
    | .str _ => .ok [.tok tokSTRING] false
    | .tok k _ => .ok [.tok k] false
    | .lit k l => .ok [.lit k l] false
    | .choice opts _ => firstChoice (fun g => firstF f env g) opts
    | .seq items => firstSeq (fun g => firstF f env g) items
    | .rep0 g =>
      match firstF f env g with
      | .ok fs _ => .ok fs true
      | o => o
    | .rep1 g => firstF f env g
    | .rep01 g =>
      match firstF f env g with
      | .ok fs _ => .ok fs true
      | o => o
    | .adjoin a _ =>
      match firstF f env a with
      | .ok fs _ => .ok fs false
      | o => o
    | .var name =>
      match env.find name with
      | none => .recur name
      | some body => firstF f (env.filter (fun e => e.1 != name)) body

/-- `hasConflictMe`. -/
def conflictMe (me : FI) (next : List FI) : Bool :=
  match me with
  | .tok k => next.any (fun n => match n with | .tok k' => k' == k | .lit k' _ => k' == k)
  | .lit k l => next.any (fun n => match n with | .tok _ => false | .lit k' l' => k' == k && l' == l)

/-- `hasConflict`. -/
def hasConflict (me next : List FI) : Bool := me.any (fun m => conflictMe m next)

/-- `stops` as computed by `CheckConflicts` from the first sets of the options:
`stops[i] = (conflictWith(firsts[i], firsts, i+1) < 0)`. -/
def stopsOf : List (List FI) → List Bool
  | [] => []
  | me :: rest => (!rest.any (fun nx => hasConflict me nx)) :: stopsOf rest

/-- First sets of all options (`g.First(nil)` for each), or the first failure. -/
def firstsOf (m : G → FRes) : List G → Except FRes (List (List FI))
  | [] => .ok []
  | g :: gs =>
    match m g with
    | .ok fs _ =>
      match firstsOf m gs with
      | .ok r => .ok (fs :: r)
      | .error e => .error e
    | o => .error o

def G.size : G → Nat
  | .choice opts _ => 1 + sizeL opts
  | .seq items => 1 + sizeL items
  | .rep0 g => 1 + g.size
  | .rep1 g => 1 + g.size
  | .rep01 g => 1 + g.size
  | .adjoin a b => 1 + a.size + b.size
  | _ => 1
where sizeL : List G → Nat
  | [] => 0
  | g :: r => g.size + sizeL r

/-- The `*Choices` nodes of a matcher in the order `compileExpr` appends them to
`ctx.choices` (operands first, then the node itself). -/
def G.choices : G → List (List G)
  | .choice opts _ => choicesL opts ++ [opts]
  | .seq items => choicesL items
  | .rep0 g => g.choices
  | .rep1 g => g.choices
  | .rep01 g => g.choices
  | .adjoin a b => a.choices ++ b.choices
  | _ => []
where choicesL : List G → List (List G)
  | [] => []
  | g :: r => g.choices ++ choicesL r

def Env.maxSize : Env → Nat
  | [] => 1
  | (_, g) :: r => max g.size (Env.maxSize r)

/-- Fuel given to `firstF` by the check: enough for any visit (each nested variable visit
removes a rule; between two variables at most `maxSize` structural steps). -/
def Env.firstFuel (env : Env) : Nat := (env.length + 1) * (env.maxSize + 1) + 1

inductive CheckRes where
  | ok
  | recur (name : Bytes)     -- "recursive variable <name>"
  | fuel
  deriving DecidableEq, Repr, Inhabited

/-- `item.m.CheckConflicts(...)` for every choice, in order. -/
def checkChoices (env : Env) : List (List G) → CheckRes
  | [] => .ok
  | opts :: rest =>
    match firstsOf (fun g => firstF env.firstFuel env g) opts with
    | .ok _ => checkChoices env rest
    | .error (.recur name) => .recur name
    | .error _ => .fuel

/-- `v.First(nil)` for every rule, in declaration order. -/
def checkRules (env : Env) : List (Bytes × G) → CheckRes
  | [] => .ok
  | (name, _) :: rest =>
    match firstF env.firstFuel env (.var name) with
    | .ok _ _ => checkRules env rest
    | .recur n => .recur n
    | .fuel => .fuel

def Env.allChoices : Env → List (List G)
  | [] => []
  | (_, g) :: r => g.choices ++ Env.allChoices r

/-- The checks at the end of `cl.NewEx`: conflicts of every choice, then left recursion of
every rule; the first `RecursiveError` ends the compilation with that error. -/
def checkAll (env : Env) : CheckRes :=
  match checkChoices env env.allChoices with
  | .ok => checkRules env env
  | o => o

/-! ### structural well-formedness guaranteed by `tpl/parser` + `cl.compileExpr` -/

/-- No empty sequence, every referenced variable has an element. -/
def G.wf (env : Env) : G → Bool
  | .choice opts _ => wfL env opts
  | .seq items => !items.isEmpty && wfL env items
  | .rep0 g => g.wf env
  | .rep1 g => g.wf env
  | .rep01 g => g.wf env
  | .adjoin a b => a.wf env && b.wf env
  | .var name => (env.find name).isSome
  | _ => true
where wfL (env : Env) : List G → Bool
  | [] => true
  | g :: r => g.wf env && wfL env r

def Env.wfAux (env : Env) : List (Bytes × G) → Bool
  | [] => true
  | (_, g) :: r => g.wf env && Env.wfAux env r

def Env.wf (env : Env) : Bool := Env.wfAux env env

/-- Every `*Choices` node has one `stops` entry per option (set by `CheckConflicts`). -/
def G.stopsLen : G → Bool
  | .choice opts stops => stops.length == opts.length && stopsLenL opts
  | .seq items => stopsLenL items
  | .rep0 g => g.stopsLen
  | .rep1 g => g.stopsLen
  | .rep01 g => g.stopsLen
  | .adjoin a b => a.stopsLen && b.stopsLen
  | _ => true
where stopsLenL : List G → Bool
  | [] => true
  | g :: r => g.stopsLen && stopsLenL r

def Env.stopsLen : Env → Bool
  | [] => true
  | (_, g) :: r => g.stopsLen && Env.stopsLen r

/-- `STRING` tokens carry their text (the scanner never yields an empty literal). -/
def toksOk : List Tok → Bool
  | [] => true
  | t :: r => (t.kind != tokSTRING || !t.lit.isEmpty) && toksOk r

/-- Fuel that `Props/C28.lean` proves sufficient for any match with a checked grammar. -/
def matchBound (env : Env) (ntoks : Nat) : Nat :=
  ntoks * (env.firstFuel + env.maxSize + 1) + (env.firstFuel + env.maxSize)

end GopModel.Tpl
