/-
Hand-written semantics of the Pos()/End() bodies that lie outside the translated fragment
(tied to the source by fingerprint in extract/spans.go), and the regenerated method tables
packaged for `SpanModel`.  Core Lean only.
-/
import GopModel.Model.SpanModel
import GopModel.Generated.Spans
namespace GopModel.SpanModel
open GopModel.Generated.Walk GopModel.Generated.Spans

def isShadowFunc (k : Kid Kind Fld) : Bool :=
  k.kind == some Kind.FuncDecl && val k.vals Fld.Shadow != 0

/-- `File.End` (ast/ast_gop.go): the shadow entry's End if there is one; else the End of the last
declaration that is not a shadow function; else the end (with package clause) or the start
(without) of the package name. -/
def fileEnd (vals : List (Fld × Nat)) (kids : List (Kid Kind Fld)) : Option Nat :=
  let rest : Option Nat :=
    match (kidsAt kids Fld.Decls).reverse.find? (fun d => !isShadowFunc d) with
    | some d => if d.null then none else d.stop
    | none =>
      if val vals Fld.Package != 0 then kidGet kids Fld.Name (·.stop)
      else kidGet kids Fld.Name (·.pos)
  match kidsAt kids Fld.ShadowEntry with
  | k :: _ => if !k.null then k.stop else rest
  | [] => rest

def opaqueSem : String → List (Fld × Nat) → List (Kid Kind Fld) → Option Nat
  | "File.End", vals, kids => fileEnd vals kids
  | _, _, _ => none

/-- The regenerated method tables. -/
def tables : Tables Kind Fld := ⟨posBody, endBody, opaqueSem⟩

end GopModel.SpanModel
