/-
C07 kernel — panic propagation through deferred functions (Go's defer/recover discipline),
instantiated with the entry points and recover sites the translator extracts from cl/*.go and
x/build/build.go (`Generated/ErrSinks.lean`).  Core Lean only.

Modelled: a function body either returns or panics; its deferred functions then run in LIFO
order; a deferred function that calls `recover()` stops an ongoing panic and performs its
extracted actions (report an error, assign the named result `err`, clean up, re-panic); a deferred
function without `recover()` may itself panic (environment's choice).
NOT modelled (cannot be exhibited by this model): runtime fatal errors (stack overflow, out of
memory, deadlock), wall-clock time, panics in other goroutines.
-/
namespace GopModel.CompRecover

inductive Guard where
  | always
  | enableRecover      -- `if enableRecover { defer … }`
  | recorder           -- `if conf.Recorder != nil { defer … }`
  | noPanic            -- `if noPanic != nil { defer … }`
  deriving DecidableEq, Repr

/-- Where the error assigned to the named result comes from. -/
inductive ErrSrc where
  | errsToError        -- `ctx.errs.ToError()`: non-nil iff something was reported
  | errorfRecovered    -- `fmt.Errorf(…, r)` with the recovered value
  | errorfOther        -- `fmt.Errorf(…)` NOT mentioning the recovered value (still non-nil)
  | recoverErr         -- `ctx.recoverErr(r, node)`
  | newCodeError       -- `ctx.newCodeError(pos, msg)`
  deriving DecidableEq, Repr

inductive Act where
  | report                      -- `X.handleRecover(e, …)`: converted panic appended to errs
  | setErr (s : ErrSrc)         -- `err = …`
  | cleanup (callee : String)   -- `cb.ResetStmt()` / `cb.ResetInit()`: assumed not to panic
  | rethrow                     -- `panic(e)`
  deriving DecidableEq, Repr

structure DeferFact where
  guard : Guard
  recovers : Bool
  acts : List Act          -- if recovers: executed when recover() returned non-nil
  calls : List String      -- if not: what the deferred function calls
  deriving DecidableEq, Repr

structure RecoverSite where
  file : String
  fn : String
  d : DeferFact
  deriving Repr

structure Entry where
  file : String
  name : String
  namedErr : Bool
  defers : List DeferFact    -- top-level defers in registration order
  deriving Repr

structure Flags where
  enableRecover : Bool
  recorder : Bool
  noPanic : Bool
  deriving DecidableEq, Repr

def Flags.on (fl : Flags) : Guard → Bool
  | .always => true
  | .enableRecover => fl.enableRecover
  | .recorder => fl.recorder
  | .noPanic => fl.noPanic

structure St where
  panicking : Bool      -- a panic is propagating
  recovered : Bool      -- some deferred function recovered a panic
  reported : Nat        -- errors appended to errs by the recover actions
  errSet : Bool         -- the named result err holds a non-nil error
  deriving DecidableEq, Repr

def runAct (st : St) : Act → St
  | .report => { st with reported := st.reported + 1 }
  | .setErr .errsToError => { st with errSet := decide (0 < st.reported) }
  | .setErr _ => { st with errSet := true }
  | .cleanup _ => st
  | .rethrow => { st with panicking := true }

/-- One deferred function runs. `mis`: a non-recovering deferred function panics. -/
def runDefer (fl : Flags) (mis : Bool) (st : St) (d : DeferFact) : St :=
  if !fl.on d.guard then st
  else if d.recovers then
    if st.panicking then d.acts.foldl runAct { st with panicking := false, recovered := true }
    else st
  else if mis then { st with panicking := true } else st

/-- Deferred functions run in reverse registration order; `mis i` is the misbehaviour of the
i-th registered one. -/
def runDefers (fl : Flags) (mis : Nat → Bool) (ds : List DeferFact) (st : St) : St :=
  (ds.zipIdx.reverse).foldl (fun s (d, i) => runDefer fl (mis i) s d) st

/-- The entry point: the body returns (`bodyPanics = false`) or panics, then the defers run. -/
def runEntry (fl : Flags) (mis : Nat → Bool) (e : Entry) (bodyPanics : Bool) : St :=
  runDefers fl mis e.defers { panicking := bodyPanics, recovered := false, reported := 0, errSet := false }

/-- A recover site converts or forwards: it reports, sets err, or re-panics (never swallows). -/
def DeferFact.handles (d : DeferFact) : Bool :=
  d.acts.any fun a => match a with
    | .report => true
    | .setErr _ => true
    | .rethrow => true
    | .cleanup _ => false

end GopModel.CompRecover
