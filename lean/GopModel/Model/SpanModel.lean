/-
Model of the Pos()/End() methods of the XGo AST node types (ast/ast.go, ast/ast_gop.go).

The method bodies are regenerated from the Go source on every run by the translator target
`spans` as terms of the small language below (`Body`), one per node kind and method
(Generated/Spans.lean); `evalBody` is its evaluator over a node's field values and the
already-computed spans of its children, with the panics of the Go code (nil dereference,
index out of range) as the explicit outcome `none`.

The specification side is a *layout* per kind (`Item`s: the node's own tokens and its
children in source order, hand-written in extract/c17_layout.txt): `elems` gives the spans
of the elements present in a node, `canonPos`/`canonEnd` the method bodies that return the
start of the first / the stop of the last element.  Core Lean only.
-/
namespace GopModel.SpanModel

/-- Position-valued expressions of a method body (`x` is the receiver). -/
inductive PExpr (F : Type) where
  | noPos                              -- token.NoPos
  | fld (f : F)                        -- x.f                    (a token.Pos field)
  | childPos (f : F)                   -- x.f.Pos()
  | childEnd (f : F)                   -- x.f.End()
  | firstPos (f : F)                   -- x.f[0].Pos()
  | firstEnd (f : F)                   -- x.f[0].End()
  | lastEnd (f : F)                    -- x.f[len(x.f)-1].End()
  | add (e : PExpr F) (n : Nat)        -- e + n
  | addLen (e : PExpr F) (g : F)       -- e + len(x.g)   (string field; len(x.g.String()) for a token field)
  deriving DecidableEq, Repr

inductive Cond (F : Type) where
  | notNil (f : F)                     -- x.f != nil
  | posSet (f : F)                     -- x.f != token.NoPos / x.f.IsValid() / x.f != 0
  | nonEmpty (f : F)                   -- len(x.f) > 0
  | flag (f : F)                       -- x.f (bool field) / x.Implicit()
  | not (c : Cond F)
  | or (a b : Cond F)
  | and (a b : Cond F)
  deriving DecidableEq, Repr

inductive Body (F : Type) where
  | ret (e : PExpr F)
  | ite (c : Cond F) (t e : Body F)
  /-- a body outside the translated fragment, tied by fingerprint to a hand-written semantics -/
  | opaque (name : String)
  deriving DecidableEq, Repr

/-- What a method sees of one entry of a Node-typed field. -/
structure Kid (K F : Type) where
  slot : F
  null : Bool
  kind : Option K
  vals : List (F × Nat)
  pos : Option Nat       -- result of the entry's own Pos() (`none`: it panics)
  stop : Option Nat      -- result of the entry's own End()

variable {K F : Type} [DecidableEq F]

def val (vals : List (F × Nat)) (f : F) : Nat := (vals.lookup f).getD 0

def kidsAt (kids : List (Kid K F)) (f : F) : List (Kid K F) := kids.filter fun k => k.slot = f

/-- `x.f.m()` for a single-node field: nil dereference → `none`. -/
def kidGet (kids : List (Kid K F)) (f : F) (m : Kid K F → Option Nat) : Option Nat :=
  match kidsAt kids f with
  | [] => none
  | k :: _ => if k.null then none else m k

def evalP (vals : List (F × Nat)) (kids : List (Kid K F)) : PExpr F → Option Nat
  | .noPos => some 0
  | .fld f => some (val vals f)
  | .childPos f => kidGet kids f (·.pos)
  | .childEnd f => kidGet kids f (·.stop)
  | .firstPos f => kidGet kids f (·.pos)
  | .firstEnd f => kidGet kids f (·.stop)
  | .lastEnd f =>
    match (kidsAt kids f).getLast? with
    | none => none
    | some k => if k.null then none else k.stop
  | .add e n => (evalP vals kids e).map (· + n)
  | .addLen e g => (evalP vals kids e).map (· + val vals g)

def evalC (vals : List (F × Nat)) (kids : List (Kid K F)) : Cond F → Bool
  | .notNil f => match kidsAt kids f with
    | [] => false
    | k :: _ => !k.null
  | .posSet f => val vals f != 0
  | .nonEmpty f => !(kidsAt kids f).isEmpty
  | .flag f => val vals f != 0
  | .not c => !evalC vals kids c
  | .or a b => evalC vals kids a || evalC vals kids b
  | .and a b => evalC vals kids a && evalC vals kids b

/-- `opq` gives the hand-written semantics of fingerprinted bodies. -/
def evalBody (opq : String → List (F × Nat) → List (Kid K F) → Option Nat)
    (vals : List (F × Nat)) (kids : List (Kid K F)) : Body F → Option Nat
  | .ret e => evalP vals kids e
  | .ite c t e => if evalC vals kids c then evalBody opq vals kids t else evalBody opq vals kids e
  | .opaque name => opq name vals kids

/-! ### Trees -/

inductive SNode (K F : Type) where
  | null (slot : F)
  | mk (slot : F) (kind : K) (id : Nat) (vals : List (F × Nat)) (kids : List (SNode K F))

structure Tables (K F : Type) where
  posBody : K → Body F
  endBody : K → Body F
  opq : String → List (F × Nat) → List (Kid K F) → Option Nat

mutual
/-- The node as its parent's methods see it (its Pos()/End() evaluated). -/
def kidOf (T : Tables K F) : SNode K F → Kid K F
  | .null s => ⟨s, true, none, [], none, none⟩
  | .mk s k _ vals kids =>
    let ks := kidsOf T kids
    ⟨s, false, some k, vals, evalBody T.opq vals ks (T.posBody k), evalBody T.opq vals ks (T.endBody k)⟩
def kidsOf (T : Tables K F) : List (SNode K F) → List (Kid K F)
  | [] => []
  | t :: ts => kidOf T t :: kidsOf T ts
end

mutual
/-- `(id, Pos(), End())` of every node, preorder (`none` = the method panics). -/
def allSpans (T : Tables K F) : SNode K F → List (Nat × Option Nat × Option Nat)
  | .null _ => []
  | .mk s k id vals kids =>
    let me := kidOf T (.mk s k id vals kids)
    (id, me.pos, me.stop) :: allSpansL T kids
def allSpansL (T : Tables K F) : List (SNode K F) → List (Nat × Option Nat × Option Nat)
  | [] => []
  | t :: ts => allSpans T t ++ allSpansL T ts
end

/-! ### Layout specification -/

/-- One element of a node's source layout. -/
inductive Item (F : Type) where
  | tok (f : F) (n : Nat)              -- own token at x.f, n bytes long, always present
  | tokOpt (f : F) (n : Nat)           -- present iff x.f != NoPos
  | tokStr (f : F) (gs : List F)       -- token(s) at x.f, Σ len(x.g) bytes (literal text / operator spelling)
  | tokIfUnset (f : F) (n : Nat) (g : F)   -- own token at x.f, present iff x.g == NoPos (the ")" of a call that is not command-style)
  | tokUnless (f : F) (n : Nat) (fl : F)   -- zero width when flag fl is set (implicit semicolon)
  | tokStrUnless (f : F) (g : F) (fl : F)  -- zero width when flag fl is set (implicit identifier)
  | start (f : F)                      -- x.f records where the node's first token starts
  | stop (f : F)                       -- x.f records where the node's last token stops
  | stopOpt (f : F)                    -- the same, present iff x.f != NoPos
  | child (f : F)                      -- single child, always present
  | childOpt (f : F)                   -- single child or nil
  | list (f : F)                       -- children, possibly none
  | list1 (f : F)                      -- children, at least one
  deriving DecidableEq, Repr

def kidSpan (k : Kid K F) : Nat × Nat := (k.pos.getD 0, k.stop.getD 0)

/-- Spans `(start, stop)` of the elements an item contributes in this node. -/
def itemSpans (vals : List (F × Nat)) (kids : List (Kid K F)) : Item F → List (Nat × Nat)
  | .tok f n => [(val vals f, val vals f + n)]
  | .tokOpt f n => if val vals f != 0 then [(val vals f, val vals f + n)] else []
  | .tokIfUnset f n g => if val vals g != 0 then [] else [(val vals f, val vals f + n)]
  | .tokStr f gs => [(val vals f, gs.foldl (fun a g => a + val vals g) (val vals f))]
  | .tokUnless f n fl => [(val vals f, if val vals fl != 0 then val vals f else val vals f + n)]
  | .tokStrUnless f g fl => [(val vals f, if val vals fl != 0 then val vals f else val vals f + val vals g)]
  | .start f => [(val vals f, val vals f)]
  | .stop f => [(val vals f, val vals f)]
  | .stopOpt f => if val vals f != 0 then [(val vals f, val vals f)] else []
  | .child f => ((kidsAt kids f).take 1).map kidSpan
  | .childOpt f => (((kidsAt kids f).take 1).filter fun k => !k.null).map kidSpan
  | .list f => (kidsAt kids f).map kidSpan
  | .list1 f => (kidsAt kids f).map kidSpan

def elems (vals : List (F × Nat)) (kids : List (Kid K F)) (items : List (Item F)) : List (Nat × Nat) :=
  items.flatMap (itemSpans vals kids)

def firstStart (l : List (Nat × Nat)) : Nat := (l.head?.map (·.1)).getD 0
def lastStop (l : List (Nat × Nat)) : Nat := (l.getLast?.map (·.2)).getD 0

def addLens (e : PExpr F) : List F → PExpr F
  | [] => e
  | g :: gs => addLens (.addLen e g) gs

/-- The Pos() body that returns the start of the first element present. -/
def canonPos : List (Item F) → Body F
  | [] => .ret .noPos
  | .tok f _ :: _ => .ret (.fld f)
  | .tokStr f _ :: _ => .ret (.fld f)
  | .tokUnless f _ _ :: _ => .ret (.fld f)
  | .tokStrUnless f _ _ :: _ => .ret (.fld f)
  | .start f :: _ => .ret (.fld f)
  | .stop f :: _ => .ret (.fld f)
  | .child f :: _ => .ret (.childPos f)
  | .list1 f :: _ => .ret (.firstPos f)
  | .tokOpt f _ :: r => .ite (.posSet f) (.ret (.fld f)) (canonPos r)
  | .tokIfUnset f _ g :: r => .ite (.posSet g) (canonPos r) (.ret (.fld f))
  | .stopOpt f :: r => .ite (.posSet f) (.ret (.fld f)) (canonPos r)
  | .childOpt f :: r => .ite (.notNil f) (.ret (.childPos f)) (canonPos r)
  | .list f :: r => .ite (.nonEmpty f) (.ret (.firstPos f)) (canonPos r)

/-- The End() body that returns the stop of the last element present; the argument is the
layout in REVERSE order. -/
def canonEndR : List (Item F) → Body F
  | [] => .ret .noPos
  | .tok f n :: _ => .ret (.add (.fld f) n)
  | .tokStr f gs :: _ => .ret (addLens (.fld f) gs)
  | .tokUnless f n fl :: _ => .ite (.flag fl) (.ret (.fld f)) (.ret (.add (.fld f) n))
  | .tokStrUnless f g fl :: _ => .ite (.flag fl) (.ret (.fld f)) (.ret (.addLen (.fld f) g))
  | .start f :: _ => .ret (.fld f)
  | .stop f :: _ => .ret (.fld f)
  | .child f :: _ => .ret (.childEnd f)
  | .list1 f :: _ => .ret (.lastEnd f)
  | .tokOpt f n :: r => .ite (.posSet f) (.ret (.add (.fld f) n)) (canonEndR r)
  | .tokIfUnset f n g :: r => .ite (.posSet g) (canonEndR r) (.ret (.add (.fld f) n))
  | .stopOpt f :: r => .ite (.posSet f) (.ret (.fld f)) (canonEndR r)
  | .childOpt f :: r => .ite (.notNil f) (.ret (.childEnd f)) (canonEndR r)
  | .list f :: r => .ite (.nonEmpty f) (.ret (.lastEnd f)) (canonEndR r)

def canonEnd (items : List (Item F)) : Body F := canonEndR items.reverse

/-- Remove tests whose outcome is already decided by an enclosing test of the same condition
(`known`): `if c {A}; if c {B}; C` is `if c {A}; C`. -/
def prune (known : List (Cond F × Bool)) : Body F → Body F
  | .ret e => .ret e
  | .opaque n => .opaque n
  | .ite c t e =>
    match known.lookup c with
    | some true => prune known t
    | some false => prune known e
    | none => .ite c (prune ((c, true) :: known) t) (prune ((c, false) :: known) e)

/-- The node supplies what the layout makes mandatory, and every child entry it uses has a
defined span: single children present and non-nil, `list1` non-empty, no nil list entries. -/
def itemWF (kids : List (Kid K F)) : Item F → Bool
  | .child f => match kidsAt kids f with
    | [] => false
    | k :: _ => !k.null && k.pos.isSome && k.stop.isSome
  | .childOpt f => match kidsAt kids f with
    | [] => true
    | k :: _ => k.null || (k.pos.isSome && k.stop.isSome)
  | .list f => (kidsAt kids f).all fun k => !k.null && k.pos.isSome && k.stop.isSome
  | .list1 f => !(kidsAt kids f).isEmpty &&
      (kidsAt kids f).all fun k => !k.null && k.pos.isSome && k.stop.isSome
  | _ => true

/-- Elements in source order, none overlapping the next. -/
def ordered : List (Nat × Nat) → Bool
  | [] => true
  | [a] => a.1 ≤ a.2
  | a :: b :: r => a.1 ≤ a.2 && a.2 ≤ b.1 && ordered (b :: r)

end GopModel.SpanModel
