/-
C08 kernel — abstract model of the symbol loader of /repo/cl/compile.go.

What is modelled (and only this):
* `pkgCtx.syms : map[string]loader` — here a `Prog`: the symbols of the package in SOURCE order
  (files sorted by path, declarations in file order), each with the list of symbols whose load
  its own load triggers *on demand* (`loadSymbol`/`loadType` called from `compileIdent`,
  `toType`, `loadNamed`), in the order they are triggered.
* `loadSymbol` (`delete(p.syms, name); f.load()`) and `typeLoader.load` (the `typ/typInit/methods`
  closures are set to nil before they run): a symbol is loaded at most once; a request for a symbol
  that is loaded or in progress is a no-op; a name that is not in `syms` is a no-op.
* where a loaded symbol appears in the output file of gogen:
  - `slot = true`  (types: `NewTypeDefs` and consts: `NewConstDefs` are called at PRELOAD time, so
    the `GenDecl` is appended to `file.decls` in source order, before any load happens);
  - `slot = false` (funcs: `NewFuncWith`, vars: `NewVarDefs` append the declaration when the
    symbol is first LOADED, before its body / initialiser is compiled → pre-order).
* `ctx.errs = append(ctx.errs, err)`: an error is appended when it is met, i.e. after the loads
  triggered before it (post-order).
* the drivers: a phase that iterates a Go map (`initGopPkg: for name, f := range ctx.syms`,
  `for _, gof := range pkg.GoFiles`) — modelled as an arbitrary order `π` of root names — followed
  by the phases that iterate slices (`loadFile` over the sorted files), the list `fixed`.

Not modelled: what the declarations contain (gogen, the statement/expression compilers), class
files' generated members, `ctx.inits`/`ctx.tylds` (slices, appended in load order), gogen's import
table, go/format.  For those C08 rests on the search oracle only.

Recursion is by explicit fuel (one unit per nesting level of on-demand loading); running out of
fuel is an explicit outcome (`oof`), and `C08_fuel_adequate` shows it does not happen with
`P.length + 1` units.  Core Lean only.
-/
namespace GopModel.DetSched

abbrev Name := Nat

structure Sym where
  name : Name
  deps : List Name      -- loads triggered (in this order) while this symbol is being loaded
  slot : Bool           -- output position reserved at preload (type/const) vs appended at load (func/var)
  err  : Option Nat     -- error reported at the end of its load (after the triggered loads)
  deriving Repr, DecidableEq

/-- The package's symbols in source order. -/
abbrev Prog := List Sym

def find (P : Prog) (n : Name) : Option Sym := P.find? (fun s => s.name == n)

structure St where
  vis  : List Name      -- symbols loaded or in progress, most recent first
  errs : List Nat       -- `ctx.errs`, most recent first
  oof  : Bool           -- out of fuel (never with adequate fuel)
  deriving Repr, DecidableEq

def St.init : St := ⟨[], [], false⟩

/-- `loadSymbol name` / `loadType name` with on-demand loading of dependencies. -/
def load (P : Prog) : Nat → St → Name → St
  | 0, st, n =>
    if n ∈ st.vis then st else
    match find P n with
    | none => st
    | some _ => { st with oof := true }
  | f + 1, st, n =>
    if n ∈ st.vis then st else
    match find P n with
    | none => st
    | some s =>
      let st1 := s.deps.foldl (load P f) { st with vis := n :: st.vis }
      match s.err with
      | none => st1
      | some e => { st1 with errs := e :: st1.errs }

def fuelFor (P : Prog) : Nat := P.length + 1

/-- Whole loading: the map-ordered phase `π`, then the slice-ordered phases `fixed`. -/
def run (P : Prog) (π fixed : List Name) : St :=
  (π ++ fixed).foldl (load P (fuelFor P)) St.init

/-- Order of first load. -/
def loadOrder (st : St) : List Name := st.vis.reverse

/-- Declarations with a position reserved at preload time, in source order. -/
def slotOut (P : Prog) (st : St) : List Name :=
  (P.filter (fun s => s.slot && st.vis.contains s.name)).map (·.name)

/-- Declarations appended when first loaded, in load order. -/
def appOut (P : Prog) (st : St) : List Name :=
  (loadOrder st).filter (fun n => match find P n with
    | some s => !s.slot
    | none => false)

/-- The order of top-level declarations in the generated file: reserved slots, then appended. -/
def declOut (P : Prog) (st : St) : List Name := slotOut P st ++ appOut P st

/-- `ctx.errs` in the order reported. -/
def errOut (st : St) : List Nat := st.errs.reverse

/-- `sort.Strings(keys)` on the key set of a map: the iteration order used by the repaired code. -/
def sortNames (π : List Name) : List Name := π.mergeSort (fun a b => decide (a ≤ b))

end GopModel.DetSched
