/-
Specification side of C37 (independent of the converters' tables):
  * which trees are *supported* Go declaration trees (`supported`): well-typed `go/ast` values
    built from the node kinds `go/parser` produces for an error-free file,
  * what the *header* of a tree is (`hdr`): the part of a declaration that go/printer shows as
    names, receivers, type parameters, parameter/result types, type definitions and const/var
    values.  Positions are dropped except where their *validity* changes the printed text
    (`GenDecl.Lparen`: grouped declaration, `TypeSpec.Assign`: alias, `CallExpr.Ellipsis`:
    `f(xs...)`); doc comments, function bodies and function-literal bodies are dropped; a nil
    and an empty slice are the same.
`d ≃hdr d'` is `hdr d = hdr d'`.  Core Lean only (the driver evaluates both functions).
-/
import GopModel.Model.Conv
namespace GopModel.Conv

/-- Static types of `go/ast` fields (classes of nodes). -/
inductive Cls where
  | expr | ident | lit | fieldList | funcType | field
  | importSpec | typeSpec | valueSpec | decl | file
  deriving DecidableEq, Repr

/-- How a field takes part in the header. -/
inductive FSpec where
  | flag              -- token.Pos whose validity is visible in the printed header
  | atom              -- scalar shown verbatim (name, literal text, operator, direction)
  | sub (c : Cls)     -- child node of class `c`
  | subs (c : Cls)    -- slice of children of class `c` (nil ≃ empty)
  | specs             -- `GenDecl.Specs`: class of the elements is chosen by `Tok`
  deriving DecidableEq, Repr

/-- nil is a legal value (the converters return nil for nil); the other classes are
dereferenced without a guard by the converters and are never nil in a parsed file. -/
def Cls.nilable : Cls → Bool
  | .expr => true
  | .ident => true
  | .lit => true
  | .fieldList => true
  | _ => false

/-- every `go/ast` expression kind except `BadExpr`. -/
def exprKinds : List String :=
  ["Ident", "Ellipsis", "BasicLit", "FuncLit", "CompositeLit", "ParenExpr", "SelectorExpr",
   "IndexExpr", "IndexListExpr", "SliceExpr", "TypeAssertExpr", "StarExpr", "UnaryExpr",
   "BinaryExpr", "KeyValueExpr", "CallExpr", "ArrayType", "StructType", "FuncType",
   "InterfaceType", "MapType", "ChanType"]

def Cls.kinds : Cls → List String
  | .expr => exprKinds
  | .ident => ["Ident"]
  | .lit => ["BasicLit"]
  | .fieldList => ["FieldList"]
  | .funcType => ["FuncType"]
  | .field => ["Field"]
  | .importSpec => ["ImportSpec"]
  | .typeSpec => ["TypeSpec"]
  | .valueSpec => ["ValueSpec"]
  | .decl => ["GenDecl", "FuncDecl"]
  | .file => ["File"]

/-- Header-relevant fields of every Go node kind (all other fields — layout positions, `Doc`,
`Comment`, `Body`, `Obj`, `EndPos` — are not part of the header). -/
def hdrTable : List (String × List (String × FSpec)) :=
  [ ("File", [("Name", .sub .ident), ("Decls", .subs .decl)]),
    ("GenDecl", [("Tok", .atom), ("Lparen", .flag), ("Specs", .specs)]),
    ("FuncDecl", [("Recv", .sub .fieldList), ("Name", .sub .ident), ("Type", .sub .funcType)]),
    ("ImportSpec", [("Name", .sub .ident), ("Path", .sub .lit)]),
    ("TypeSpec", [("Name", .sub .ident), ("TypeParams", .sub .fieldList), ("Assign", .flag),
                  ("Type", .sub .expr)]),
    ("ValueSpec", [("Names", .subs .ident), ("Type", .sub .expr), ("Values", .subs .expr)]),
    ("FieldList", [("List", .subs .field)]),
    ("Field", [("Names", .subs .ident), ("Type", .sub .expr), ("Tag", .sub .lit)]),
    ("Ident", [("Name", .atom)]),
    ("BasicLit", [("Kind", .atom), ("Value", .atom)]),
    ("Ellipsis", [("Elt", .sub .expr)]),
    ("FuncLit", [("Type", .sub .funcType)]),
    ("CompositeLit", [("Type", .sub .expr), ("Elts", .subs .expr)]),
    ("ParenExpr", [("X", .sub .expr)]),
    ("SelectorExpr", [("X", .sub .expr), ("Sel", .sub .ident)]),
    ("IndexExpr", [("X", .sub .expr), ("Index", .sub .expr)]),
    ("IndexListExpr", [("X", .sub .expr), ("Indices", .subs .expr)]),
    ("SliceExpr", [("X", .sub .expr), ("Low", .sub .expr), ("High", .sub .expr),
                   ("Max", .sub .expr)]),   -- go/printer prints 3 indices iff Max ≠ nil, not from Slice3
    ("TypeAssertExpr", [("X", .sub .expr), ("Type", .sub .expr)]),
    ("CallExpr", [("Fun", .sub .expr), ("Args", .subs .expr), ("Ellipsis", .flag)]),
    ("StarExpr", [("X", .sub .expr)]),
    ("UnaryExpr", [("Op", .atom), ("X", .sub .expr)]),
    ("BinaryExpr", [("X", .sub .expr), ("Op", .atom), ("Y", .sub .expr)]),
    ("KeyValueExpr", [("Key", .sub .expr), ("Value", .sub .expr)]),
    ("ArrayType", [("Len", .sub .expr), ("Elt", .sub .expr)]),
    ("StructType", [("Fields", .sub .fieldList)]),
    ("FuncType", [("TypeParams", .sub .fieldList), ("Params", .sub .fieldList),
                  ("Results", .sub .fieldList)]),
    ("InterfaceType", [("Methods", .sub .fieldList)]),
    ("MapType", [("Key", .sub .expr), ("Value", .sub .expr)]),
    ("ChanType", [("Dir", .atom), ("Value", .sub .expr)]) ]

def hdrFields (k : String) : List (String × FSpec) :=
  match List.find? (fun e => e.1 == k) hdrTable with
  | some e => e.2
  | none => []

def specOf (spec : List (String × FSpec)) (n : String) : Option FSpec :=
  match List.find? (fun e => e.1 == n) spec with
  | some e => some e.2
  | none => none

/-- go/token values: IMPORT = 75, TYPE = 84, VAR = 85, CONST = 64
(checked against the toolchain by `C37_go_token_values`). -/
def specCls (tok : Nat) : Option Cls :=
  if tok == 75 then some .importSpec
  else if tok == 84 then some .typeSpec
  else if tok == 85 then some .valueSpec
  else if tok == 64 then some .valueSpec
  else none

/-- class of the specs of a GenDecl with fields `fs`. -/
def specClsOf (fs : Forest) : Option Cls :=
  match (fs.get "Tok").asNum with
  | some n => specCls n
  | none => none

def Tree.isFlag : Tree → Bool
  | .nil => true
  | .pos _ => true
  | _ => false

def Tree.isAtom : Tree → Bool
  | .nil => true
  | .num _ => true
  | .str _ => true
  | _ => false

/-- fields that must be there: non-nilable children, a declaration keyword for `Specs`. -/
def requiredOK (fs : Forest) : List (String × FSpec) → Bool
  | [] => true
  | (f, .sub c) :: r =>
    (match fs.get f with
     | .nil => c.nilable
     | _ => true) && requiredOK fs r
  | (_, .specs) :: r => (specClsOf fs).isSome && requiredOK fs r
  | _ :: r => requiredOK fs r

mutual
/-- `sup c t`: `t` is a supported value of class `c`. -/
def sup (c : Cls) : Tree → Bool
  | .nil => c.nilable
  | .node k fs => c.kinds.contains k && (supFields (hdrFields k) fs fs && requiredOK fs (hdrFields k))
  | .list _ => false
  | .pos _ => false
  | .num _ => false
  | .str _ => false
  | .opaque _ => false
def supFields (spec : List (String × FSpec)) (ctx : Forest) : Forest → Bool
  | .nil => true
  | .cons n v r =>
    (match specOf spec n with
     | none => true
     | some .flag => v.isFlag
     | some .atom => v.isAtom
     | some (.sub c) => sup c v
     | some (.subs c) => supList c v
     | some .specs =>
       match specClsOf ctx with
       | some c => supList c v
       | none => false) && supFields spec ctx r
def supList (c : Cls) : Tree → Bool
  | .nil => true
  | .list xs => supElems c xs
  | .node _ _ => false
  | .pos _ => false
  | .num _ => false
  | .str _ => false
  | .opaque _ => false
def supElems (c : Cls) : Forest → Bool
  | .nil => true
  | .cons _ v r => sup c v && supElems c r
end

/-- Supported Go file tree (the domain of the round-trip theorem). -/
def supported (t : Tree) : Bool := sup .file t

/-! ## Headers -/

def Tree.flagNorm : Tree → Tree
  | .pos 0 => .nil
  | .pos _ => .num 1
  | _ => .nil

def Tree.atomNorm : Tree → Tree
  | .num 0 => .nil
  | .str s => if s.isEmpty then .nil else .str s
  | t => t

def pickFields (norm : Forest) : List (String × FSpec) → Forest
  | [] => .nil
  | (f, _) :: r => .cons f (norm.get f) (pickFields norm r)

mutual
def hdr : Tree → Tree
  | .node k fs => .node k (pickFields (hdrFs (hdrFields k) fs) (hdrFields k))
  | .list xs => .list (hdrElems xs)
  | .nil => .nil
  | .pos p => .pos p
  | .num n => .num n
  | .str s => .str s
  | .opaque s => .opaque s
/-- normalised header fields that are present (in source order). -/
def hdrFs (spec : List (String × FSpec)) : Forest → Forest
  | .nil => .nil
  | .cons n v r =>
    match specOf spec n with
    | none => hdrFs spec r
    | some .flag => .cons n v.flagNorm (hdrFs spec r)
    | some .atom => .cons n v.atomNorm (hdrFs spec r)
    | some (.sub _) => .cons n (hdr v) (hdrFs spec r)
    | some (.subs _) => .cons n (hdrList v) (hdrFs spec r)
    | some .specs => .cons n (hdrList v) (hdrFs spec r)
/-- header of a slice: nil and empty are identified. -/
def hdrList : Tree → Tree
  | .list xs =>
    match xs with
    | .nil => .nil
    | .cons _ _ _ => .list (hdrElems xs)
  | .nil => .nil
  | .node k fs => .node k fs
  | .pos p => .pos p
  | .num n => .num n
  | .str s => .str s
  | .opaque s => .opaque s
def hdrElems : Forest → Forest
  | .nil => .nil
  | .cons _ v r => .cons "" (hdr v) (hdrElems r)
end

/-- `a ≃hdr b`: same printed header. -/
def HdrEq (a b : Tree) : Prop := hdr a = hdr b

infix:50 " ≃hdr " => HdrEq

instance (a b : Tree) : Decidable (a ≃hdr b) := inferInstanceAs (Decidable (hdr a = hdr b))

end GopModel.Conv
