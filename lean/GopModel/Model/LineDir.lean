/-
C09 kernel — Go's `//line` directive semantics and the layout in which cl emits directives.

Part 1 (`parseDirBody`, `dirOf`, `posFor`) transcribes go/scanner.updateLineInfo + trailingDigits and
go/token.File's alternative-position table (the same rules cmd/compile implements) for the
`//line filename:line[:col]` form:
  * the comment must start at the beginning of a line (and not inside a multi-line token);
  * `trailingDigits`: the text after the LAST ':' must be a decimal number (strconv.ParseUint base 10),
    otherwise the directive is ignored; if the text before it again ends in ":number" the form is
    `file:line:col`, else `file:line`;
  * line (and col) must be in 1 ‥ 2^30, otherwise ignored;
  * an empty file name with a column keeps the previous file name;
  * the directive gives the position of the line FOLLOWING the comment; later lines count on.
The `/*line …*/` form is not modelled (cl never emits it).

Part 2 (`Item`, `flatten`) is the emission layout of cl/stmt.go: `commentStmtEx` attaches
`\n//line <file>:<L>:1` to the next statement that gogen prints, `commentFunc` puts
`//line <file>:<L>:1` (or `//line <file>:<L>` for the shadow entry) in front of the function's doc
comment.  What gogen/go-printer then do with the statement's own text is NOT modelled: text lines
are arbitrary.  Core Lean only.
-/
namespace GopModel.LineDir

abbrev Bytes := List UInt8

/-- One physical line of the generated file (without its '\n'). `inTok`: the start of the line lies
inside a multi-line token (raw string, general comment), so no comment can start there. -/
structure Line where
  text : Bytes
  inTok : Bool
  deriving Repr, DecidableEq

inductive FileRef where
  | phys                    -- the generated file itself
  | named (f : Bytes)
  deriving Repr, DecidableEq

def maxLineCol : Nat := 2 ^ 30

def isDigit (c : UInt8) : Bool := 0x30 ≤ c && c ≤ 0x39

def digitVal (c : UInt8) : Nat := c.toNat - 0x30

/-- `strconv.ParseUint(s, 10, 0)` restricted to what matters: non-empty, decimal digits only.
(Values ≥ 2^64 are a ParseUint error; they are rejected by the 2^30 cap all the same.) -/
def parseUint (s : Bytes) : Option Nat :=
  if s.isEmpty || !s.all isDigit then none
  else some (s.foldl (fun a c => a * 10 + digitVal c) 0)

/-- Split at the last ':' : (text before it, text after it). -/
def splitLastColon (s : Bytes) : Option (Bytes × Bytes) :=
  let r := s.reverse
  match r.dropWhile (· != 0x3a) with
  | [] => none
  | _ :: pre => some (pre.reverse, (r.takeWhile (· != 0x3a)).reverse)

/-- The text after `//line `: (file name, line, optional column), or `none` = ignored. -/
def parseDirBody (t : Bytes) : Option (Bytes × Nat × Option Nat) :=
  match splitLastColon t with
  | none => none
  | some (pre, suf) =>
    match parseUint suf with
    | none => none
    | some n =>
      match (splitLastColon pre).bind (fun p => (parseUint p.2).map (fun n2 => (p.1, n2))) with
      | some (pre2, n2) =>
        if n == 0 || n > maxLineCol then none
        else if n2 == 0 || n2 > maxLineCol then none
        else some (pre2, n2, some n)
      | none =>
        if n == 0 || n > maxLineCol then none else some (pre, n, none)

def linePrefix : Bytes := [0x2f, 0x2f, 0x6c, 0x69, 0x6e, 0x65, 0x20]   -- "//line "

def stripCR (s : Bytes) : Bytes :=
  match s.reverse with
  | 0x0d :: r => r.reverse
  | _ => s

/-- The directive carried by a physical line, if any: new (file, line). -/
def dirOf (cur : FileRef) (ln : Line) : Option (FileRef × Nat) :=
  if ln.inTok then none
  else if linePrefix.isPrefixOf ln.text then
    match parseDirBody (stripCR (ln.text.drop 7)) with
    | none => none
    | some (f, l, col) =>
      if f.isEmpty && col.isSome then some (cur, l) else some (.named f, l)
  else none

/-- Position `(file, line0)` holds at physical line `phys0`. -/
structure Cur where
  file : FileRef
  line0 : Nat
  phys0 : Nat
  deriving Repr, DecidableEq

def Cur.init : Cur := ⟨.phys, 1, 1⟩

def step (cur : Cur) (j : Nat) (ln : Line) : Cur :=
  match dirOf cur.file ln with
  | some (f, l) => ⟨f, l, j + 1⟩
  | none => cur

/-- Process lines whose first one has physical number `j`. -/
def scan : List Line → Nat → Cur → Cur
  | [], _, cur => cur
  | l :: t, j, cur => scan t (j + 1) (step cur j l)

/-- Position (file, line) of physical line `k` (1-based) of the file `ls`. -/
def posFor (ls : List Line) (k : Nat) : FileRef × Nat :=
  let cur := scan (ls.take (k - 1)) 1 Cur.init
  (cur.file, cur.line0 + (k - cur.phys0))

/-! ### Emission layout -/

/-- Least significant digit first. -/
def digitsLE : Nat → Nat → Bytes
  | 0, _ => []
  | f + 1, n => UInt8.ofNat (0x30 + n % 10) :: (if n < 10 then [] else digitsLE f (n / 10))

/-- `fmt.Sprintf("%d", n)`. -/
def digits (n : Nat) : Bytes := (digitsLE (n + 1) n).reverse

/-- `fmt.Sprintf("//line %s:%d:1", f, l)` resp. `"//line %s:%d"`. -/
def render (f : Bytes) (l : Nat) (withCol : Bool) : Bytes :=
  linePrefix ++ f ++ [0x3a] ++ digits l ++ (if withCol then [0x3a, 0x31] else [])

/-- What the emitter writes, line by line: the directive of a statement / function whose source
line is `srcLine`, or a line of program text. -/
inductive Item where
  | dir (srcLine : Nat) (withCol : Bool)
  | text (l : Line)
  deriving Repr

def flattenItem (f : Bytes) : Item → Line
  | .dir l c => ⟨render f l c, false⟩
  | .text l => l

def flatten (f : Bytes) (its : List Item) : List Line := its.map (flattenItem f)

/-- A text line that is not (mis)read as a directive, whatever the current file. -/
def NotDirective (l : Line) : Prop := ∀ cur, dirOf cur l = none

end GopModel.LineDir
