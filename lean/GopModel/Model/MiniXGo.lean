/-
M4 (2/4) — MiniXGo: the documented meaning of the XGo sugar and the interpreter.

INTERFACE
* `Doc.*`     the DOCUMENTED meaning of each sugar construct (doc/docs.md: "Slices", "Maps",
              "for, <-, if", "List comprehension", "Select data…", "Check if data exists…", "Error
              handling"), written on semantic functions (`Sem`) — no syntax, no `lower`, no
              compiler temporaries:
                `Doc.loops`      nested iteration of for-phrases (outermost first) with filters,
                                 threading an accumulator, with early exit;
                `Doc.listCompr / mapCompr / selCompr / existsCompr`  (the LAST phrase in source
                                 order is the OUTERMOST loop: docs.md `[[a, b] for a <- arr if a < b
                                 for b <- arr if b > 2]`);
                `Doc.forIn`, `Doc.send`, `Doc.errBang`, `Doc.errQ`, `Doc.errDflt`.
* `Ctx`       what an evaluation needs from its surroundings: `callee` (named functions, already
              applied to a smaller fuel), `loopFuel` (budget of each `for cond` loop), `fname`
              ("main.g": recorded in error frames), `rtys` (result types of the enclosing function,
              for the zero values of `f()?`).
* `evalE ctx : Expr → Sem Val`, `evalEs`, `evalS ctx : Stmt → Sem Unit`, `evalSs` — structural
              recursion on the syntax (kernel-reducible: `decide`/`rfl` work).  Go-core constructors
              get Go's meaning; sugar constructors get `Doc.*`.
* `evalFn funcs fuel`, `evalProg fuel prog : Outcome` — fuel is consumed ONLY by calls of named
              functions and `for cond` loops (the only sources of divergence), so sugar and its
              lowering use the same fuel and theorems need no fuel offsets.
* `evalGo` = `evalProg` read on programs with `Prog.isGo` (Lower.lean); `specEval` = `evalProg`
              read on XGo programs.  C02/C03 prove `evalGo (lower p) = specEval p` construct by
              construct.
Core Lean only.
-/
import GopModel.Model.MiniGo
namespace GopModel.Mini

/-! ## semantic helpers -/

def Sem.pure (a : α) : Sem α := fun env tr => .ok a env tr

def evalBin (op : BinOp) (va : Val) (mb : Sem Val) : Sem Val := fun env tr =>
  match op, va with
  | .land, .bool false => .ok (.bool false) env tr
  | .land, .bool true => (mb env tr).bind fun vb env1 tr1 =>
      match vb with
      | .bool _ => .ok vb env1 tr1
      | _ => .stuck
  | .land, _ => .stuck
  | .lor, .bool true => .ok (.bool true) env tr
  | .lor, .bool false => (mb env tr).bind fun vb env1 tr1 =>
      match vb with
      | .bool _ => .ok vb env1 tr1
      | _ => .stuck
  | .lor, _ => .stuck
  | _, _ => (mb env tr).bind fun vb env1 tr1 => (binop op va vb).toRes env1 tr1

def mkMap : List (Val × Val) → Option (List (Val × Val))
  | [] => some []
  | (k, v) :: r => match mkMap r with
    | some m => mapInsert m k v
    | none => none

/-- Build a map value from evaluated pairs; LATER pairs win on equal keys. -/
def mapOfPairs (kvs : List (Val × Val)) : Option Val :=
  match mkMap kvs.reverse with
  | some m => some (.map m)
  | none => none

/-- Values appended by `append(a, vs...)` / `a <- vs...`: with `spread` the single operand is a slice. -/
def spreadArgs (spread : Bool) (vs : List Val) : Option (List Val) :=
  if spread then
    match vs with
    | [.list ws] => some ws
    | _ => none
  else some vs

/-- The wrapped error of `!`/`?`. -/
def wrapErr (e : Val) (code fn : String) : Val := .frame e code fn

/-- Split the results of a call `(values…, error)`. -/
def splitErr (vs : List Val) : Option (List Val × Val) :=
  match vs.reverse with
  | e :: r => some (r.reverse, e)
  | [] => none

def isNilVal : Val → Option Bool
  | .nil => some true
  | .err _ => some false
  | .frame _ _ _ => some false
  | .nilMap => some true
  | .map _ => some false
  | _ => none

/-! ## documented meaning of the sugar -/
namespace Doc

inductive FilterSem where
  | none
  | cond (c : Sem Val)
  | initCond (x : String) (i c : Sem Val)

structure PhraseSem where
  key : Option String
  val : String
  x : Sem Val
  filt : FilterSem

/-- `… if c`: run `inner` only when the filter holds; otherwise the accumulator is unchanged.
`if x := i; c` binds `x` in a new scope for the filter and everything inside it. -/
def filter (f : FilterSem) (s : σ) (inner : Sem (σ ⊕ β)) : Sem (σ ⊕ β) :=
  match f with
  | .none => inner
  | .cond c => fun env tr => (c env tr).bind fun v env1 tr1 =>
      match v with
      | .bool true => inner env1 tr1
      | .bool false => .ok (.inl s) env1 tr1
      | _ => .stuck
  | .initCond x i c => inFrame [] fun env tr => (i env tr).bind fun iv env1 tr1 =>
      match env1.declare x iv with
      | none => .stuck
      | some env2 => (c env2 tr1).bind fun v env3 tr3 =>
          match v with
          | .bool true => inner env3 tr3
          | .bool false => .ok (.inl s) env3 tr3
          | _ => .stuck

/-- Iterate over the entries of a container in order; stop at the first early exit. -/
def iter (step : Val → Val → σ → Sem (σ ⊕ β)) : List (Val × Val) → σ → Sem (σ ⊕ β)
  | [], s => fun env tr => .ok (.inl s) env tr
  | (k, v) :: es, s => fun env tr => (step k v s env tr).bind fun r env1 tr1 =>
      match r with
      | .inl s' => iter step es s' env1 tr1
      | .inr b => .ok (.inr b) env1 tr1

/-- Nested for-phrases, OUTERMOST FIRST: for every entry of the first phrase's container (its
expression is evaluated once per execution of the phrase) bind key/value in a new scope, apply the
filter, and run the remaining phrases; innermost runs `body`. -/
def loops : List PhraseSem → (σ → Sem (σ ⊕ β)) → σ → Sem (σ ⊕ β)
  | [], body, s => body s
  | p :: ps, body, s => fun env tr => (p.x env tr).bind fun c env1 tr1 =>
      match entriesOf c with
      | none => .stuck
      | some es =>
        iter (fun k v s' => inFrame (loopFrame p.key (some p.val) k v)
                (filter p.filt s' (loops ps body s'))) es s env1 tr1

/-- `[elt for …]`: the values of `elt` in iteration order (source-order phrases; last = outermost). -/
def listCompr (elt : Sem Val) (fors : List PhraseSem) : Sem Val := fun env tr =>
  (loops (β := Empty) fors.reverse
      (fun acc env tr => (elt env tr).bind fun v env1 tr1 => .ok (.inl (acc ++ [v])) env1 tr1)
      [] env tr).bind fun r env1 tr1 =>
    match r with
    | .inl acc => .ok (.list acc) env1 tr1
    | .inr e => nomatch e

/-- `{k: v for …}`: a new map; each iteration evaluates `k` then `v` and stores (later wins). -/
def mapCompr (k v : Sem Val) (fors : List PhraseSem) : Sem Val := fun env tr =>
  (loops (β := Empty) fors.reverse
      (fun acc env tr => (k env tr).bind fun kv env1 tr1 => (v env1 tr1).bind fun vv env2 tr2 =>
        match mapInsert acc kv vv with
        | some acc' => .ok (.inl acc') env2 tr2
        | none => .stuck)
      [] env tr).bind fun r env1 tr1 =>
    match r with
    | .inl acc => .ok (.map acc) env1 tr1
    | .inr e => nomatch e

/-- `{elt for …}`: `elt` of the FIRST entry that passes the filters (nothing after it is evaluated);
zero value (and `false`) when there is none.  `two` selects the `v, ok :=` form. -/
def selCompr (t : Ty) (elt : Sem Val) (fors : List PhraseSem) (two : Bool) : Sem Val := fun env tr =>
  (loops (σ := Unit) fors.reverse
      (fun _ env tr => (elt env tr).bind fun v env1 tr1 => .ok (.inr v) env1 tr1)
      () env tr).bind fun r env1 tr1 =>
    match r with
    | .inl _ => .ok (if two then .tuple [t.zero, .bool false] else t.zero) env1 tr1
    | .inr v => .ok (if two then .tuple [v, .bool true] else v) env1 tr1

/-- `{for …}`: whether some entry passes the filters; stops at the first one. -/
def existsCompr (fors : List PhraseSem) : Sem Val := fun env tr =>
  (loops (σ := Unit) (β := Unit) fors.reverse
      (fun _ env tr => .ok (.inr ()) env tr)
      () env tr).bind fun r env1 tr1 =>
    match r with
    | .inl _ => .ok (.bool false) env1 tr1
    | .inr _ => .ok (.bool true) env1 tr1

/-- `if [x := i;] c { thn } else { els }` (Go): header scope, then one block scope. -/
def ifSem (f : FilterSem) (thn els : Sem Unit) : Sem Unit :=
  match f with
  | .none => fun _ _ => .stuck
  | .cond c => fun env tr => (c env tr).bind fun v env1 tr1 =>
      match v with
      | .bool true => inFrame [] thn env1 tr1
      | .bool false => inFrame [] els env1 tr1
      | _ => .stuck
  | .initCond x i c => inFrame [] fun env tr => (i env tr).bind fun iv env1 tr1 =>
      match env1.declare x iv with
      | none => .stuck
      | some env2 => (c env2 tr1).bind fun v env3 tr3 =>
          match v with
          | .bool true => inFrame [] thn env3 tr3
          | .bool false => inFrame [] els env3 tr3
          | _ => .stuck

/-- `for key, val := range x { body }` (Go): `x` once; per entry a scope with the loop variables
and a block scope for the body. -/
def rangeSem (key val : Option String) (x : Sem Val) (body : Sem Unit) : Sem Unit := fun env tr =>
  (x env tr).bind fun c env1 tr1 =>
    match entriesOf c with
    | none => .stuck
    | some es => rangeLoop key val (inFrame [] body) es env1 tr1

/-- `for key, val <- x [if c] { body }` — documented as the Go loop
`for key, val := range x { if c { body } }` (docs.md "for, <-, if"): for each entry in order, bind,
test the filter, run the body. -/
def forIn (key : Option String) (val : String) (x : Sem Val) (f : FilterSem) (body : Sem Unit) :
    Sem Unit :=
  match f with
  | .none => rangeSem key (some val) x body
  | f => rangeSem key (some val) x (ifSem f body (Sem.pure ()))

/-- `a <- v1, …, vn` / `a <- v...` on a slice variable: `a = append(a, v1, …, vn)`; operands are
evaluated once, left to right. -/
def send (a : String) (vs : Sem (List Val)) (spread : Bool) : Sem Unit := fun env tr =>
  match env.get a with
  | none => .stuck
  | some av => (vs env tr).bind fun ws env1 tr1 =>
      match spreadArgs spread ws with
      | none => .stuck
      | some xs => match appendVals av xs with
        | none => .stuck
        | some r => match env1.set a r with
          | some env2 => .ok () env2 tr1
          | none => .stuck

/-- The call wrapped by an error-wrapping operator: arguments left to right, then the callee,
exactly once; yields its (values…, error) split. -/
def wrappedCall (callee : String → List Val → Trace → CallRes) (f : String)
    (args : Sem (List Val)) : Sem (List Val × Val) := fun env tr =>
  (args env tr).bind fun as env1 tr1 =>
    match callee f as tr1 with
    | .vals vs tr2 => (match splitErr vs with
      | some r => .ok r env1 tr2
      | none => .stuck)
    | .panic v tr2 => .panic v tr2
    | .timeout tr2 => .timeout tr2
    | .stuck => .stuck

/-- `f(args)!`: the values when the error is nil, otherwise panic with the error wrapped in a
frame (`Unwrap` of the panic value is the callee's error). -/
def errBang (callee : String → List Val → Trace → CallRes) (code fn f : String)
    (args : Sem (List Val)) (n : Nat) : Sem Val := fun env tr =>
  (wrappedCall callee f args env tr).bind fun r env1 tr1 =>
    if r.1.length ≠ n then .stuck else
    match isNilVal r.2 with
    | some true => .ok (pack r.1) env1 tr1
    | some false => .panic (wrapErr r.2 code fn) tr1
    | none => .stuck

/-- `f(args)?`: the values when the error is nil, otherwise the ENCLOSING FUNCTION returns zero
values for its other results and the wrapped error as its last result. -/
def errQ (callee : String → List Val → Trace → CallRes) (code fn f : String) (rtys : List Ty)
    (args : Sem (List Val)) (n : Nat) : Sem Val := fun env tr =>
  (wrappedCall callee f args env tr).bind fun r env1 tr1 =>
    if r.1.length ≠ n then .stuck else
    match isNilVal r.2 with
    | some true => .ok (pack r.1) env1 tr1
    | some false =>
      (match rtys.reverse with
       | .err :: others => .ret (others.reverse.map Ty.zero ++ [wrapErr r.2 code fn]) env1 tr1
       | _ => .stuck)
    | none => .stuck

/-- `f(args)?:d` (single value): the value when the error is nil; otherwise `d`, which is
evaluated only then. -/
def errDflt (callee : String → List Val → Trace → CallRes) (f : String)
    (args : Sem (List Val)) (d : Sem Val) : Sem Val := fun env tr =>
  (wrappedCall callee f args env tr).bind fun r env1 tr1 =>
    match r.1, isNilVal r.2 with
    | [v], some true => .ok v env1 tr1
    | [_], some false => d env1 tr1
    | _, _ => .stuck

end Doc

/-! ## the interpreter -/

structure Ctx where
  callee : String → List Val → Trace → CallRes
  loopFuel : Nat
  fname : String
  rtys : List Ty

def callSem (c : Ctx) (f : String) (args : Sem (List Val)) : Sem Val := fun env tr =>
  (args env tr).bind fun as env1 tr1 => (c.callee f as tr1).toRes env1

mutual
def evalE (c : Ctx) : Expr → Sem Val
  | .lit v => fun env tr => .ok v env tr
  | .zero t => fun env tr => .ok t.zero env tr
  | .var x => fun env tr =>
    match env.get x with
    | some v => .ok v env tr
    | none => .stuck
  | .bin op a b => fun env tr => (evalE c a env tr).bind fun va => evalBin op va (evalE c b)
  | .not a => fun env tr => (evalE c a env tr).bind fun va env1 tr1 =>
    match va with
    | .bool b => .ok (.bool (!b)) env1 tr1
    | _ => .stuck
  | .listLit _ es => fun env tr => (evalEs c es env tr).bind fun vs env1 tr1 => .ok (.list vs) env1 tr1
  | .mapLit _ _ kvs => fun env tr => (evalKVs c kvs env tr).bind fun ps env1 tr1 =>
    match mapOfPairs ps with
    | some m => .ok m env1 tr1
    | none => .stuck
  | .index vt a i => fun env tr => (evalE c a env tr).bind fun va env1 tr1 =>
    (evalE c i env1 tr1).bind fun vi env2 tr2 => (indexVal vt va vi).toRes env2 tr2
  | .len a => fun env tr => (evalE c a env tr).bind fun va env1 tr1 =>
    match lenVal va with
    | some n => .ok n env1 tr1
    | none => .stuck
  | .append a vs spread => fun env tr => (evalE c a env tr).bind fun va env1 tr1 =>
    (evalEs c vs env1 tr1).bind fun ws env2 tr2 =>
      match spreadArgs spread ws with
      | none => .stuck
      | some xs => match appendVals va xs with
        | some r => .ok r env2 tr2
        | none => .stuck
  | .call f args => callSem c f (evalEs c args)
  | .probe id e => fun env tr => (evalE c e env tr).bind fun v env1 tr1 => .ok v env1 (tr1 ++ [(id, v)])
  | .closure rs body => closureSem rs (evalSs c body)
  | .newFrame e code fn => fun env tr => (evalE c e env tr).bind fun v env1 tr1 =>
    .ok (wrapErr v code fn) env1 tr1
  | .neNil e => fun env tr => (evalE c e env tr).bind fun v env1 tr1 =>
    match isNilVal v with
    | some b => .ok (.bool (!b)) env1 tr1
    | none => .stuck
  -- XGo sugar: documented meaning
  | .sliceLit _ es => fun env tr => (evalEs c es env tr).bind fun vs env1 tr1 => .ok (.list vs) env1 tr1
  | .xmapLit _ _ kvs => fun env tr => (evalKVs c kvs env tr).bind fun ps env1 tr1 =>
    match mapOfPairs ps with
    | some m => .ok m env1 tr1
    | none => .stuck
  | .listCompr _ elt fors => Doc.listCompr (evalE c elt) (evalPhrases c fors)
  | .mapCompr _ _ k v fors => Doc.mapCompr (evalE c k) (evalE c v) (evalPhrases c fors)
  | .selCompr t elt fors two => Doc.selCompr t (evalE c elt) (evalPhrases c fors) two
  | .existsCompr fors => Doc.existsCompr (evalPhrases c fors)
  | .errBang code f args tys => Doc.errBang c.callee code c.fname f (evalEs c args) tys.length
  | .errQ code f args tys => Doc.errQ c.callee code c.fname f c.rtys (evalEs c args) tys.length
  | .errDflt f args _ d => Doc.errDflt c.callee f (evalEs c args) (evalE c d)
  | .cmdCall f args => callSem c f (evalEs c args)
def evalEs (c : Ctx) : List Expr → Sem (List Val)
  | [] => fun env tr => .ok [] env tr
  | e :: es => fun env tr => (evalE c e env tr).bind fun v env1 tr1 =>
    (evalEs c es env1 tr1).bind fun vs env2 tr2 => .ok (v :: vs) env2 tr2
def evalKVs (c : Ctx) : List KV → Sem (List (Val × Val))
  | [] => fun env tr => .ok [] env tr
  | .mk k v :: r => fun env tr => (evalE c k env tr).bind fun kv env1 tr1 =>
    (evalE c v env1 tr1).bind fun vv env2 tr2 =>
      (evalKVs c r env2 tr2).bind fun ps env3 tr3 => .ok ((kv, vv) :: ps) env3 tr3
def evalFilter (c : Ctx) : Filter → Doc.FilterSem
  | .none => .none
  | .cond e => .cond (evalE c e)
  | .initCond x i e => .initCond x (evalE c i) (evalE c e)
def evalPhrases (c : Ctx) : List Phrase → List Doc.PhraseSem
  | [] => []
  | .mk key val x f :: r => ⟨key, val, evalE c x, evalFilter c f⟩ :: evalPhrases c r
def evalS (c : Ctx) : Stmt → Sem Unit
  | .define xs es => fun env tr => (evalEs c es env tr).bind fun vs env1 tr1 =>
    match spreadVals xs.length vs with
    | none => .stuck
    | some ws => match declareAll xs ws env1 with
      | some env2 => .ok () env2 tr1
      | none => .stuck
  | .assign xs es => fun env tr => (evalEs c es env tr).bind fun vs env1 tr1 =>
    match spreadVals xs.length vs with
    | none => .stuck
    | some ws => match setAll xs ws env1 with
      | some env2 => .ok () env2 tr1
      | none => .stuck
  | .setIndex m k v => fun env tr => (evalE c k env tr).bind fun kv env1 tr1 =>
    (evalE c v env1 tr1).bind fun vv env2 tr2 =>
      match env2.get m with
      | some (.map kvs) => (match mapInsert kvs kv vv with
        | some kvs' => (match env2.set m (.map kvs') with
          | some env3 => .ok () env3 tr2
          | none => .stuck)
        | none => .stuck)
      | some .nilMap => .panic (.rt "nilmap") tr2
      | _ => .stuck
  | .varDecl x t => fun env tr =>
    match env.declare x t.zero with
    | some env1 => .ok () env1 tr
    | none => .stuck
  | .expr e => fun env tr => (evalE c e env tr).bind fun _ env1 tr1 => .ok () env1 tr1
  | .ifS f thn els => Doc.ifSem (evalFilter c f) (evalSs c thn) (evalSs c els)
  | .forRange key val x body => Doc.rangeSem key val (evalE c x) (evalSs c body)
  | .forC init cond post body => inFrame [] fun env tr =>
    (evalSs c init env tr).bind fun _ =>
      condLoop (evalE c cond) (evalSs c post) (evalSs c body) c.loopFuel
  | .ret es => fun env tr => (evalEs c es env tr).bind fun vs env1 tr1 => .ret vs env1 tr1
  | .panic e => fun env tr => (evalE c e env tr).bind fun v _ tr1 => .panic v tr1
  | .block ss => inFrame [] (evalSs c ss)
  -- XGo sugar: documented meaning
  | .send a vs spread => Doc.send a (evalEs c vs) spread
  | .forIn key val x f body => Doc.forIn key val (evalE c x) (evalFilter c f) (evalSs c body)
def evalSs (c : Ctx) : List Stmt → Sem Unit
  | [] => fun env tr => .ok () env tr
  | s :: ss => fun env tr => (evalS c s env tr).bind fun _ => evalSs c ss
end

/-! ## programs -/

def paramFrame : List (String × Ty) → List Val → Option Frame
  | [], [] => some []
  | (x, _) :: ps, v :: vs => match paramFrame ps vs with
    | some f => some ((x, v) :: f)
    | none => none
  | _, _ => none

def namedResults (rs : List (String × Ty)) : List (String × Ty) := rs.filter fun r => r.1 ≠ ""

/-- Call of a named function; `fuel` bounds the call depth. -/
def evalFn (funcs : List FuncDecl) : Nat → String → List Val → Trace → CallRes
  | 0, _, _, tr => .timeout tr
  | n + 1, f, args, tr =>
    match funcs.find? (fun d => d.name == f) with
    | none => .stuck
    | some d =>
      match paramFrame d.params args with
      | none => .stuck
      | some pf =>
        let c : Ctx := { callee := evalFn funcs n, loopFuel := n, fname := "main." ++ f,
                         rtys := d.results.map (·.2) }
        match evalSs c d.body [pf ++ zeroFrame (namedResults d.results)] tr with
        | .ok _ _ tr' => if d.results.isEmpty then .vals [] tr' else .stuck
        | .ret [] env tr' =>
          if d.results.isEmpty then .vals [] tr'
          else if (namedResults d.results).length ≠ d.results.length then .stuck
          else (match env with
            | fr :: _ => (match readResults d.results fr with
              | some vs => .vals vs tr'
              | none => .stuck)
            | [] => .stuck)
        | .ret vs _ tr' => if vs.length = d.results.length then .vals vs tr' else .stuck
        | .panic v tr' => .panic v tr'
        | .timeout tr' => .timeout tr'
        | .stuck => .stuck

inductive Outcome where
  | done (tr : Trace)
  | panic (v : Val) (tr : Trace)
  | timeout (tr : Trace)
  | stuck

/-- Run the function `entry` (no parameters) of a program. -/
def evalProg (fuel : Nat) (funcs : List FuncDecl) (entry : String) : Outcome :=
  match evalFn funcs fuel entry [] [] with
  | .vals _ tr => .done tr
  | .panic v tr => .panic v tr
  | .timeout tr => .timeout tr
  | .stuck => .stuck

/-- Go reading (programs without sugar constructors) and XGo reading of the one interpreter. -/
abbrev evalGo := evalProg
abbrev specEval := evalProg

end GopModel.Mini
