/-
Model of the two declaration-tree converters
  /repo/ast/fromgo/gopast.go  (Go tree  -> XGo tree:  ASTFile, gopDecl, gopExpr, …)
  /repo/ast/togo/goast.go     (XGo tree -> Go tree :  ASTFile, goDecl,  goExpr,  …)

Both files are straight-line "one composite literal per node kind" code.  The translator
(`/verif/extract/conv.go`) regenerates from them a table per converter function
(`Generated/Conv.lean : fromgoProg, togoProg`): for every accepted node kind the destination
kind and, per destination field, the source field and what is applied to it (copied, cast,
passed to which converter function, or a constant).  This file contains
  * the tree datatype (generic nodes: kind name + named fields; the node kinds are the ones the
    two Go files mention),
  * the table language (`Prog`), and
  * the interpreter `conv` that runs a table on a tree — *that* is the model of the converter
    functions, with the outcomes the code has: a result tree, or a panic (`log.Panicln` of an
    "unknown expr/decl/spec", a failed type assertion, a nil dereference).
Core Lean only.
-/
namespace GopModel.Conv

/-! ## Trees -/

mutual
/-- A Go or XGo syntax tree value.
`nil` is any zero value that the serialiser omits (nil pointer/interface/slice, `NoPos`, `""`,
token 0, `false`); an absent field reads as `nil`. -/
inductive Tree where
  | nil
  | pos (p : Nat)                      -- token.Pos (file offset + base), `NoPos` = 0
  | num (n : Nat)                      -- token.Token / ChanDir / bool as a number
  | str (s : String)                   -- string (kept in the hex form of the wire format)
  | opaque (tag : String)              -- referenced value that is not modelled (comment group, body, Obj)
  | node (kind : String) (fs : Forest) -- pointer to a struct of the given kind
  | list (xs : Forest)                 -- non-nil slice (element names are "")
  deriving DecidableEq, Repr
/-- Named fields of a node / elements of a slice. -/
inductive Forest where
  | nil
  | cons (name : String) (t : Tree) (rest : Forest)
  deriving DecidableEq, Repr
end

/-- Field access `v.F` (first field of that name; absent = zero value). -/
def Forest.get : Forest → String → Tree
  | .nil, _ => .nil
  | .cons n t r, x => if n == x then t else r.get x

def Forest.length : Forest → Nat
  | .nil => 0
  | .cons _ _ r => r.length + 1

def Forest.ofList : List (String × Tree) → Forest
  | [] => .nil
  | (n, t) :: r => .cons n t (Forest.ofList r)

def Forest.toList : Forest → List (String × Tree)
  | .nil => []
  | .cons n t r => (n, t) :: r.toList

/-! ## Outcomes -/

inductive Outcome (α : Type) where
  | ok (a : α)
  | panic (msg : String)   -- the Go code panics (message class)
  | illTyped               -- the tree is not a value of the converter's static parameter type
  deriving DecidableEq, Repr

def Outcome.map {α β : Type} (f : α → β) : Outcome α → Outcome β
  | .ok a => .ok (f a)
  | .panic m => .panic m
  | .illTyped => .illTyped

def Outcome.bind {α β : Type} (o : Outcome α) (f : α → Outcome β) : Outcome β :=
  match o with
  | .ok a => f a
  | .panic m => .panic m
  | .illTyped => .illTyped

/-! ## The table language (what the translator emits) -/

/-- How a destination field of a composite literal is computed. -/
inductive Via where
  | copy                    -- `F: v.G`  or a numeric type conversion `F: T(v.G)`
  | call (f : String)       -- `F: f(v.G)`  (also `f(typeparams.ForX(v))`, an inline `make`+loop)
  | const (what : String)   -- `Body: &BlockStmt{}` ("EmptyBlock"), `Obj: &Object{Data: v}` ("ObjData")
  deriving DecidableEq, Repr

structure FieldConv where
  dst : String
  src : String
  via : Via
  deriving DecidableEq, Repr

/-- One `case *ast.K: return &gopast.K'{…}` (or the body of a one-kind function). -/
structure KindCase where
  src : String
  dst : String
  fields : List FieldConv
  deriving DecidableEq, Repr

/-- What a converter function does with a nil argument. -/
inductive NilBeh where
  | retNil        -- `if v == nil { return nil }`
  | panicDeref    -- no guard: `v.F` dereferences nil
  | panicUnknown  -- falls into the type switch's `log.Panicln("… unknown …", reflect.TypeOf(v))`
  deriving DecidableEq, Repr

/-- Element conversion of a slice loop. -/
inductive Elem where
  | fn (f : String)
  /-- `switch v.Tok { case T: specs[i] = f(spec.(*K)) … default: log.Panicln(msg) }`:
  cases map the token value to (asserted kind, function). -/
  | tokSwitch (field : String) (cases : List (Nat × String × String)) (msg : String)
  deriving DecidableEq, Repr

inductive Shape where
  /-- a function on one node: nil behaviour, accepted kinds, and the default
  (`some msg`: `log.Panicln(msg, type)`; `none`: excluded by the static parameter type). -/
  | switch (onNil : NilBeh) (cases : List KindCase) (dflt : Option String)
  /-- a function on a slice; `emptyToNil`: `if len(x) == 0 { return nil }` (otherwise
  `make([]T, len(x))`, so nil becomes an empty non-nil slice). -/
  | listMap (elem : Elem) (emptyToNil : Bool)
  deriving DecidableEq, Repr

structure Fn where
  name : String
  shape : Shape
  deriving DecidableEq, Repr

abbrev Prog := List Fn

def Prog.find (P : Prog) (f : String) : Option Shape :=
  match List.find? (fun fn => fn.name == f) P with
  | some fn => some fn.shape
  | none => none

def findCase (cases : List KindCase) (k : String) : Option KindCase :=
  List.find? (fun c => c.src == k) cases

/-! ## The interpreter -/

def panicNilDeref : String := "nil-deref"
def panicAssert : String := "type-assertion"

/-- A converter function applied to nil. -/
def convNil (P : Prog) (f : String) : Outcome Tree :=
  match P.find f with
  | some (.switch .retNil _ _) => .ok .nil
  | some (.switch .panicDeref _ _) => .panic panicNilDeref
  | some (.switch .panicUnknown _ (some m)) => .panic (m ++ "<nil>")
  | some (.switch .panicUnknown _ none) => .illTyped
  | some (.listMap _ e2n) => .ok (if e2n then .nil else .list .nil)
  | none => .illTyped

/-- Numeric reading of a scalar field (`nil` = omitted zero). -/
def Tree.asNum : Tree → Option Nat
  | .num n => some n
  | .nil => some 0
  | _ => none

/-- Element function after evaluating the `switch v.Tok` against the enclosing node's fields. -/
inductive ElemR where
  | fn (f : String)
  | assertFn (kind f : String)
  | panic (msg : String)
  | illTyped
  deriving DecidableEq, Repr

def lookupTok (cases : List (Nat × String × String)) (n : Nat) : Option (String × String) :=
  match List.find? (fun c => c.1 == n) cases with
  | some c => some c.2
  | none => none

def Elem.resolve : Elem → Forest → ElemR
  | .fn f, _ => .fn f
  | .tokSwitch field cases msg, ctx =>
    match (ctx.get field).asNum with
    | some n =>
      match lookupTok cases n with
      | some (k, f) => .assertFn k f
      | none => .panic msg
    | none => .illTyped

/-- The (source field, function) pairs a kind case needs. -/
def callPairs : List FieldConv → List (String × String)
  | [] => []
  | fc :: r =>
    match fc.via with
    | .call f => (fc.src, f) :: callPairs r
    | _ => callPairs r

abbrev Results := List ((String × String) × Outcome Tree)

def lookupR (rs : Results) (p : String × String) : Option (Outcome Tree) :=
  match List.find? (fun r => r.1 == p) rs with
  | some r => some r.2
  | none => none

/-- Result of a call whose source field may be absent (absent = nil argument). -/
def orNilArg (o : Option (Outcome Tree)) (nilCase : Outcome Tree) : Outcome Tree :=
  match o with
  | some r => r
  | none => nilCase

/-- Value of one destination field, given the converted source fields `rs`. -/
def fieldValue (P : Prog) (fs : Forest) (rs : Results) (fc : FieldConv) : Outcome Tree :=
  match fc.via with
  | .copy => .ok (fs.get fc.src)
  | .const w => .ok (.opaque w)
  | .call f => orNilArg (lookupR rs (fc.src, f)) (convNil P f)

/-- The composite literal: fields are evaluated in order, the first panic wins. -/
def assembleWith (val : FieldConv → Outcome Tree) : List FieldConv → Outcome Forest
  | [] => .ok .nil
  | fc :: r =>
    match val fc with
    | .ok v =>
      match assembleWith val r with
      | .ok out => .ok (.cons fc.dst v out)
      | .panic m => .panic m
      | .illTyped => .illTyped
    | .panic m => .panic m
    | .illTyped => .illTyped

def assemble (P : Prog) (fs : Forest) (rs : Results) (fcs : List FieldConv) : Outcome Forest :=
  assembleWith (fieldValue P fs rs) fcs

/-- A node value from its assembled fields. -/
def mkNode (kind : String) : Outcome Forest → Outcome Tree
  | .ok out => .ok (.node kind out)
  | .panic m => .panic m
  | .illTyped => .illTyped

mutual
/-- `conv P f ctx t`: converter function `f` of program `P` applied to `t`; `ctx` are the fields
of the enclosing node (read only by a `switch v.Tok` inside a slice loop). -/
def conv (P : Prog) (f : String) (ctx : Forest) : Tree → Outcome Tree
  | .nil => convNil P f
  | .node k fs =>
    match P.find f with
    | some (.switch _ cases dflt) =>
      match findCase cases k with
      | some c =>
        mkNode c.dst (assemble P fs (convFields P (callPairs c.fields) fs fs) c.fields)
      | none =>
        match dflt with
        | some m => .panic (m ++ k)
        | none => .illTyped
    | _ => .illTyped
  | .list xs =>
    match P.find f with
    | some (.listMap e e2n) =>
      match xs with
      | .nil => .ok (if e2n then .nil else .list .nil)
      | .cons _ _ _ =>
        match convElems P (e.resolve ctx) xs with
        | .ok out => .ok (.list out)
        | .panic m => .panic m
        | .illTyped => .illTyped
    | _ => .illTyped
  | .pos _ => .illTyped
  | .num _ => .illTyped
  | .str _ => .illTyped
  | .opaque _ => .illTyped
/-- every needed (source field, function) pair applied to the fields that are present. -/
def convFields (P : Prog) (pairs : List (String × String)) (ctx : Forest) : Forest → Results
  | .nil => []
  | .cons name v rest =>
    (List.filter (fun p => p.1 == name) pairs).map (fun p => (p, conv P p.2 ctx v))
      ++ convFields P pairs ctx rest
/-- the slice loop. -/
def convElems (P : Prog) (e : ElemR) : Forest → Outcome Forest
  | .nil => .ok .nil
  | .cons name v rest =>
    let r : Outcome Tree :=
      match e with
      | .fn f => conv P f .nil v
      | .assertFn k f =>
        match v with
        | .node k' _ => if k' == k then conv P f .nil v else .panic panicAssert
        | .nil => .panic panicAssert
        | _ => .illTyped
      | .panic m => .panic m
      | .illTyped => .illTyped
    match r with
    | .ok v' =>
      match convElems P e rest with
      | .ok out => .ok (.cons name v' out)
      | .panic m => .panic m
      | .illTyped => .illTyped
    | .panic m => .panic m
    | .illTyped => .illTyped
end

/-- `togo (fromgo t)`: run `P`'s entry, then `Q`'s entry on the result. -/
def roundTrip (P Q : Prog) (entryP entryQ : String) (t : Tree) : Outcome Tree :=
  match conv P entryP .nil t with
  | .ok m => conv Q entryQ .nil m
  | .panic m => .panic m
  | .illTyped => .illTyped

end GopModel.Conv
