/-
Model of the result helpers of /repo/tpl/tpl.go: `List`, `ListOp`, `RangeOp`,
`BinaryOpNR/R` (`BinaryOp`), `BinaryExprNR/R` (`BinaryExpr`), and of the README calculator
(grammar + return procedures) together with a precedence-climbing reference evaluator.

Values are `V α` (Model/TplMatch.lean): `[]any` = `.list`, `*Token` = `.tok i`, any other
dynamic value (a `float64`, an `ast.Expr`, …) = `.leaf a`.  A failed type assertion or an index
out of range is the explicit outcome `HRes.panic`.  The callback `fn` is a total function
(`fncall`'s re-panic of a panicking callback is not modelled).  Core Lean only.
-/
import GopModel.Model.TplMatch
namespace GopModel.Tpl

variable {α : Type}

inductive HRes (β : Type) where
  | ok (v : β)
  | panic           -- failed type assertion / index out of range
  | fuel            -- model ran out of fuel (only `binaryOpR`/`binaryExprR` recurse)
  deriving Repr, Inhabited

/-- `v.([]any)[1]`. -/
def second : V α → HRes (V α)
  | .list (_ :: y :: _) => .ok y
  | _ => .panic

/-- `for i, v := range next { ret[i+1] = f(v.([]any)[1]) }`. -/
def mapSeconds {β : Type} (f : V α → β) : List (V α) → HRes (List β)
  | [] => .ok []
  | v :: rest =>
    match second v with
    | .ok y =>
      match mapSeconds f rest with
      | .ok ys => .ok (f y :: ys)
      | .panic => .panic
      | .fuel => .fuel
    | .panic => .panic
    | .fuel => .fuel

/-- `tpl.ListOp(in, fn)`; `tpl.List(in)` is `listOp id`. -/
def listOp {β : Type} (f : V α → β) : List (V α) → HRes (List β)
  | x :: .list next :: _ =>
    match mapSeconds f next with
    | .ok ys => .ok (f x :: ys)
    | .panic => .panic
    | .fuel => .fuel
  | _ => .panic

/-- `tpl.List(in)`. -/
def listOf (inp : List (V α)) : HRes (List (V α)) := listOp id inp

/-- Values visited by the loop of `RangeOp` until the first malformed element. -/
def rangeSeconds : List (V α) → List (V α) × Bool
  | [] => ([], false)
  | v :: rest =>
    match second v with
    | .ok y => let r := rangeSeconds rest; (y :: r.1, r.2)
    | _ => ([], true)

/-- `tpl.RangeOp(in, fn)`: the values `fn` is called with, in call order, and whether the
call panicked (before any call if `in[1]` is not a list). -/
def rangeOp : List (V α) → List (V α) × Bool
  | x :: .list next :: _ => let r := rangeSeconds next; (x :: r.1, r.2)
  | _ => ([], true)

/-- One `(op, y)` element of `in[1]`: `next := v.([]any); op := next[0].(*Token); y := next[1]`. -/
def opAndY : V α → HRes (Nat × V α)
  | .list (.tok o :: y :: _) => .ok (o, y)
  | _ => .panic

/-- The loop of `BinaryOpNR`. -/
def foldOps (fn : Nat → V α → V α → V α) : V α → List (V α) → HRes (V α)
  | acc, [] => .ok acc
  | acc, v :: rest =>
    match opAndY v with
    | .ok (o, y) => foldOps fn (fn o acc y) rest
    | .panic => .panic
    | .fuel => .fuel

/-- `tpl.BinaryOpNR(in, fn)`. -/
def binaryOpNR (fn : Nat → V α → V α → V α) : List (V α) → HRes (V α)
  | x :: .list next :: _ => foldOps fn x next
  | _ => .panic

/-- An operand of `BinaryOpR`: `if v, ok := y.([]any); ok { y = BinaryOpR(v, fn) }`. -/
def operandWith {β : Type} (recur : List (V α) → HRes β) (other : V α → HRes β) : V α → HRes β
  | .list l => recur l
  | o => other o

/-- The loop of `BinaryOpR`; `operand` evaluates an operand (recursively if it is a list). -/
def foldOpsR (operand : V α → HRes (V α)) (fn : Nat → V α → V α → V α) : V α → List (V α) → HRes (V α)
  | acc, [] => .ok acc
  | acc, v :: rest =>
    match opAndY v with
    | .ok (o, y) =>
      match operand y with
      | .ok y' => foldOpsR operand fn (fn o acc y') rest
      | .panic => .panic
      | .fuel => .fuel
    | .panic => .panic
    | .fuel => .fuel

/-- `tpl.BinaryOpR(in, fn)`: operands that are lists are folded recursively first
(`in[0]` is folded before `in[1].([]any)` is evaluated). -/
def binaryOpR (fn : Nat → V α → V α → V α) : Nat → List (V α) → HRes (V α)
  | 0, _ => .fuel
  | fuel + 1, inp =>
    let operand := operandWith (binaryOpR fn fuel) HRes.ok
    match inp with
    | [] => .panic
    | x :: rest =>
      match operand x with
      | .ok x' =>
        match rest with
        | .list next :: _ => foldOpsR operand fn x' next
        | _ => .panic
      | .panic => .panic
      | .fuel => .fuel

/-- `ast.Expr` values built by `BinaryExpr`: opaque operands and `&ast.BinaryExpr{X, OpPos, Op, Y}`
(`op` = index of the operator token, which determines `OpPos` and `Op`). -/
inductive E where
  | atom (n : Nat)
  | bin (x : E) (op : Nat) (y : E)
  deriving Repr, Inhabited, DecidableEq

/-- `v.(ast.Expr)`. -/
def asExpr : V E → HRes E
  | .leaf e => .ok e
  | _ => .panic

/-- The loop of `BinaryExprNR`. -/
def foldExprs : E → List (V E) → HRes E
  | acc, [] => .ok acc
  | acc, v :: rest =>
    match v with
    | .list (.tok o :: y :: _) =>
      match asExpr y with
      | .ok e => foldExprs (.bin acc o e) rest
      | .panic => .panic
      | .fuel => .fuel
    | _ => .panic

/-- `tpl.BinaryExprNR(in)`. -/
def binaryExprNR : List (V E) → HRes E
  | x :: rest =>
    match asExpr x with
    | .ok e =>
      match rest with
      | .list next :: _ => foldExprs e next
      | _ => .panic
    | .panic => .panic
    | .fuel => .fuel
  | [] => .panic

/-- The loop of `BinaryExprR`. -/
def foldExprsR (operand : V E → HRes E) : E → List (V E) → HRes E
  | acc, [] => .ok acc
  | acc, v :: rest =>
    match v with
    | .list (.tok o :: y :: _) =>
      match operand y with
      | .ok e => foldExprsR operand (.bin acc o e) rest
      | .panic => .panic
      | .fuel => .fuel
    | _ => .panic

/-- `tpl.BinaryExprR(in)`. -/
def binaryExprR : Nat → List (V E) → HRes E
  | 0, _ => .fuel
  | fuel + 1, inp =>
    let operand := operandWith (binaryExprR fuel) asExpr
    match inp with
    | [] => .panic
    | x :: rest =>
      match operand x with
      | .ok e =>
        match rest with
        | .list next :: _ => foldExprsR operand e next
        | _ => .panic
      | .panic => .panic
      | .fuel => .fuel

/-! ## callbacks with state: the ORDER in which the helpers call `fn`

`ListOp`, `RangeOp` and `BinaryOp` take a Go closure, whose effects (numbering, logging,
duplicate detection, emitted code) depend on the order of the calls.  Here the callback is
a state transformer `σ → … → σ × result`; the helpers thread the state through their calls in
exactly the order the Go code makes them, and return the final state together with the outcome
(after a panic: the state reached by the calls made before it). -/

variable {σ : Type}

/-- the loop of `ListOp`: `ret[i+1] = fn(v.([]any)[1])`, first to last -/
def mapSecondsS {β : Type} (f : σ → V α → σ × β) : σ → List (V α) → σ × HRes (List β)
  | s, [] => (s, .ok [])
  | s, v :: rest =>
    match second v with
    | .ok y =>
      let r := f s y
      match mapSecondsS f r.1 rest with
      | (s2, .ok ys) => (s2, .ok (r.2 :: ys))
      | (s2, .panic) => (s2, .panic)
      | (s2, .fuel) => (s2, .fuel)
    | .panic => (s, .panic)
    | .fuel => (s, .fuel)

/-- `tpl.ListOp(in, fn)` with a stateful `fn`: `fn(in[0])` first, then the loop. -/
def listOpS {β : Type} (f : σ → V α → σ × β) (s : σ) : List (V α) → σ × HRes (List β)
  | x :: .list next :: _ =>
    let r := f s x
    match mapSecondsS f r.1 next with
    | (s2, .ok ys) => (s2, .ok (r.2 :: ys))
    | (s2, .panic) => (s2, .panic)
    | (s2, .fuel) => (s2, .fuel)
  | _ => (s, .panic)

/-- the loop of `RangeOp` -/
def rangeSecondsS (f : σ → V α → σ) : σ → List (V α) → σ × Bool
  | s, [] => (s, false)
  | s, v :: rest =>
    match second v with
    | .ok y => rangeSecondsS f (f s y) rest
    | _ => (s, true)

/-- `tpl.RangeOp(in, fn)` with a stateful `fn`: final state and whether it panicked. -/
def rangeOpS (f : σ → V α → σ) (s : σ) : List (V α) → σ × Bool
  | x :: .list next :: _ => rangeSecondsS f (f s x) next
  | _ => (s, true)

/-- the loop of `BinaryOpNR` -/
def foldOpsS (fn : σ → Nat → V α → V α → σ × V α) : σ → V α → List (V α) → σ × HRes (V α)
  | s, acc, [] => (s, .ok acc)
  | s, acc, v :: rest =>
    match opAndY v with
    | .ok (o, y) => let r := fn s o acc y; foldOpsS fn r.1 r.2 rest
    | .panic => (s, .panic)
    | .fuel => (s, .fuel)

/-- `tpl.BinaryOpNR(in, fn)` with a stateful `fn`. -/
def binaryOpNRS (fn : σ → Nat → V α → V α → σ × V α) (s : σ) : List (V α) → σ × HRes (V α)
  | x :: .list next :: _ => foldOpsS fn s x next
  | _ => (s, .panic)

def operandWithS (recur : σ → List (V α) → σ × HRes (V α)) (s : σ) : V α → σ × HRes (V α)
  | .list l => recur s l
  | o => (s, .ok o)

/-- the loop of `BinaryOpR`: the operand `y` is evaluated (its nested calls happen) before
`fn(op, ret, y)` -/
def foldOpsRS (operand : σ → V α → σ × HRes (V α)) (fn : σ → Nat → V α → V α → σ × V α) :
    σ → V α → List (V α) → σ × HRes (V α)
  | s, acc, [] => (s, .ok acc)
  | s, acc, v :: rest =>
    match opAndY v with
    | .ok (o, y) =>
      match operand s y with
      | (s1, .ok y') => let r := fn s1 o acc y'; foldOpsRS operand fn r.1 r.2 rest
      | (s1, .panic) => (s1, .panic)
      | (s1, .fuel) => (s1, .fuel)
    | .panic => (s, .panic)
    | .fuel => (s, .fuel)

/-- `tpl.BinaryOpR(in, fn)` with a stateful `fn`. -/
def binaryOpRS (fn : σ → Nat → V α → V α → σ × V α) : Nat → σ → List (V α) → σ × HRes (V α)
  | 0, s, _ => (s, .fuel)
  | fuel + 1, s, inp =>
    let operand := operandWithS (binaryOpRS fn fuel)
    match inp with
    | [] => (s, .panic)
    | x :: rest =>
      match operand s x with
      | (s1, .ok x') =>
        match rest with
        | .list next :: _ => foldOpsRS operand fn s1 x' next
        | _ => (s1, .panic)
      | (s1, .panic) => (s1, .panic)
      | (s1, .fuel) => (s1, .fuel)

/-! ## sequences of helper calls on the same match result

The Go helpers receive the match result by reference (`[]any`); the property speaks about
"every match result", so a helper must leave it as it found it: a later helper call on the same
result sees the same tree.  In the model a result tree is a value, so the k-th call of a
sequence is a function of (helper, tree) only — `seqOuts` is what the correspondence run
compares with successive real calls on ONE real tree (in several memory layouts). -/

inductive HOp where
  | list | listop | rangeop | bopnr | bopr
  deriving DecidableEq, Repr, Inhabited

inductive HOut (σ α : Type) where
  | lst (s : σ) (r : HRes (List (V α)))        -- final callback state, returned list
  | visited (vs : List (V α)) (panicked : Bool)
  | val (s : σ) (r : HRes (V α))

/-- One helper call with stateful callbacks starting in state `s0` (`wrapf`: callback of
`ListOp`, `fn`: callback of `BinaryOp`). -/
def applyOp (wrapf : σ → V α → σ × V α) (fn : σ → Nat → V α → V α → σ × V α) (s0 : σ) (fuel : Nat)
    (op : HOp) (inp : List (V α)) : HOut σ α :=
  match op with
  | .list => .lst s0 (listOf inp)
  | .listop => let r := listOpS wrapf s0 inp; .lst r.1 r.2
  | .rangeop => let r := rangeOp inp; .visited r.1 r.2
  | .bopnr => let r := binaryOpNRS fn s0 inp; .val r.1 r.2
  | .bopr => let r := binaryOpRS fn fuel s0 inp; .val r.1 r.2

/-- What successive helper calls on the same result tree return (each with a fresh callback state). -/
def seqOuts (wrapf : σ → V α → σ × V α) (fn : σ → Nat → V α → V α → σ × V α) (s0 : σ) (fuel : Nat)
    (ops : List HOp) (inp : List (V α)) : List (HOut σ α) :=
  ops.map fun op => applyOp wrapf fn s0 fuel op inp

/-- `BinaryExpr(recursive, in)`. -/
def applyExprOp (fuel : Nat) (recursive : Bool) (inp : List (V E)) : HRes E :=
  if recursive then binaryExprR fuel inp else binaryExprNR inp

def seqExprOuts (fuel : Nat) (ops : List Bool) (inp : List (V E)) : List (HRes E) :=
  ops.map fun r => applyExprOp fuel r inp

/-! ## the README calculator

```
expr = operand % ("*" | "/") % ("+" | "-") => { return tpl.BinaryOp(true, self, (op, x, y) => …) }
operand = basicLit | unaryExpr
unaryExpr = "-" operand => { return -(self[1].(float64)) }
basicLit = INT | FLOAT => { return self.(*tpl.Token).Lit.float! }
```
over an abstract number type `α` with operations `Arith α` (no number representation is
assumed); `num t` is the value of a literal token. -/

structure Arith (α : Type) where
  add : α → α → α
  sub : α → α → α
  mul : α → α → α
  quo : α → α → α
  neg : α → α

def kINT : Nat := 5
def kFLOAT : Nat := 6
def kADD : Nat := 43
def kSUB : Nat := 45
def kMUL : Nat := 42
def kQUO : Nat := 47

def bExpr : Bytes := [0x65, 0x78, 0x70, 0x72]
def bOperand : Bytes := [0x6f, 0x70, 0x65, 0x72, 0x61, 0x6e, 0x64]
def bUnaryExpr : Bytes := [0x75, 0x6e, 0x61, 0x72, 0x79, 0x45, 0x78, 0x70, 0x72]
def bBasicLit : Bytes := [0x62, 0x61, 0x73, 0x69, 0x63, 0x4c, 0x69, 0x74]

def gMulOp : G := .choice [.tok kMUL [0x2a], .tok kQUO [0x2f]] [true, true]
def gAddOp : G := .choice [.tok kADD [0x2b], .tok kSUB [0x2d]] [true, true]

/-- The matcher tree `tpl/cl` builds for the calculator grammar (compared with the real one
by the correspondence run). -/
def calcEnv : Env :=
  [ (bExpr, G.listOf (G.listOf (.var bOperand) gMulOp) gAddOp),
    (bOperand, .choice [.var bBasicLit, .var bUnaryExpr] [true, true]),
    (bUnaryExpr, .seq [.tok kSUB [0x2d], .var bOperand]),
    (bBasicLit, .choice [.tok kINT [0x49, 0x4e, 0x54], .tok kFLOAT [0x46, 0x4c, 0x4f, 0x41, 0x54]] [true, true]) ]

/-- The callback of the calculator's `BinaryOp`; `.nil` stands for its `panic("unexpected")` /
failed `.(float64)` assertion (shown unreachable for matched input by `C30_calc_correct`). -/
def calcFn (A : Arith α) (toks : List Tok) (o : Nat) (x y : V α) : V α :=
  match x, y, toks[o]? with
  | .leaf a, .leaf b, some t =>
    if t.kind = kADD then .leaf (A.add a b)
    else if t.kind = kSUB then .leaf (A.sub a b)
    else if t.kind = kMUL then .leaf (A.mul a b)
    else if t.kind = kQUO then .leaf (A.quo a b)
    else .nil
  | _, _, _ => .nil

/-- The return procedures of the calculator. -/
def calcProcs (A : Arith α) (num : Tok → α) (toks : List Tok) (name : Bytes) : Option (V α → V α) :=
  if name = bExpr then
    some fun v => match v with
      | .list l => (match binaryOpR (calcFn A toks) 3 l with | .ok r => r | _ => .nil)
      | _ => .nil
  else if name = bUnaryExpr then
    some fun v => match v with
      | .list [_, .leaf x] => .leaf (A.neg x)
      | _ => .nil
  else if name = bBasicLit then
    some fun v => match v with
      | .tok i => (match toks[i]? with | some t => .leaf (num t) | none => .nil)
      | _ => .nil
  else none

def calcCx (A : Arith α) (num : Tok → α) (toks : List Tok) (fileEnd : Nat) : Cx α :=
  ⟨calcEnv, toks, fileEnd, calcProcs A num toks⟩

/-- `cl.ParseExpr(text)` of the calculator on the scanned tokens. -/
def calcParseExpr (A : Arith α) (num : Tok → α) (toks : List Tok) (fileEnd : Nat) : ParseRes α :=
  parseExprTop (calcCx A num toks fileEnd) (matchBound calcEnv toks.length) bExpr

/-! ### reference: precedence climbing over abstract tokens -/

inductive ATok (α : Type) where
  | num (a : α)
  | add | sub | mul | quo
  | other

def ATok.prec : ATok α → Nat
  | .add => 1
  | .sub => 1
  | .mul => 2
  | .quo => 2
  | _ => 0

def ATok.apply (A : Arith α) : ATok α → α → α → α
  | .add, a, b => A.add a b
  | .sub, a, b => A.sub a b
  | .mul, a, b => A.mul a b
  | .quo, a, b => A.quo a b
  | _, a, _ => a

/-- Unary level: a number, or `-` applied to a unary. -/
def pcUnary (A : Arith α) : Nat → List (ATok α) → Option (α × List (ATok α))
  | 0, _ => none
  | f + 1, ts =>
    match ts with
    | .num a :: r => some (a, r)
    | .sub :: r =>
      match pcUnary A f r with
      | some (v, r') => some (A.neg v, r')
      | none => none
    | _ => none

mutual
/-- `parseExpr(minPrec)`: a unary, then the operator loop. -/
def pcExpr (A : Arith α) : Nat → Nat → List (ATok α) → Option (α × List (ATok α))
  | 0, _, _ => none
  | f + 1, minPrec, ts =>
    match pcUnary A f ts with
    | some (lhs, r) => pcLoop A f minPrec lhs r
    | none => none
/-- While the next token is a binary operator of precedence ≥ minPrec: parse the right operand
with `minPrec = prec + 1` (left associativity) and combine. -/
def pcLoop (A : Arith α) : Nat → Nat → α → List (ATok α) → Option (α × List (ATok α))
  | 0, _, _, _ => none
  | f + 1, minPrec, lhs, ts =>
    match ts with
    | [] => some (lhs, [])
    | op :: r =>
      if op.prec ≥ minPrec ∧ op.prec > 0 then
        match pcExpr A f (op.prec + 1) r with
        | some (rhs, r') => pcLoop A f minPrec (op.apply A lhs rhs) r'
        | none => none
      else some (lhs, op :: r)
end

/-- Abstract view of a scanned token. -/
def abstr (num : Tok → α) (t : Tok) : ATok α :=
  if t.kind = kINT ∨ t.kind = kFLOAT then .num (num t)
  else if t.kind = kADD then .add
  else if t.kind = kSUB then .sub
  else if t.kind = kMUL then .mul
  else if t.kind = kQUO then .quo
  else .other

/-- The reference evaluator on a whole input: value if the input is one expression. -/
def pcEval (A : Arith α) (ts : List (ATok α)) : Option α :=
  match pcExpr A (3 * ts.length + 3) 1 ts with
  | some (v, []) => some v
  | _ => none

end GopModel.Tpl
