/-
Model of the result helpers of /repo/tpl/tpl.go: `List`, `ListOp`, `RangeOp`,
`BinaryOpNR/R` (`BinaryOp`), `BinaryExprNR/R` (`BinaryExpr`), and of the README calculator
(grammar + return procedures) together with a precedence-climbing reference evaluator.

Values are `V α` (Model/TplMatch.lean): `[]any` = `.list`, `*Token` = `.tok i`, any other
dynamic value (a `float64`, an `ast.Expr`, …) = `.leaf a`.  A failed type assertion or an index
out of range is the explicit outcome `HRes.panic`.  The callback `fn` is a total function
(`fncall`'s re-panic of a panicking callback is not modelled).  Core Lean only.
-/
import GopModel.Model.TplMatch
namespace GopModel.Tpl

variable {α : Type}

inductive HRes (β : Type) where
  | ok (v : β)
  | panic           -- failed type assertion / index out of range
  | fuel            -- model ran out of fuel (only `binaryOpR`/`binaryExprR` recurse)
  deriving Repr, Inhabited

/-- `v.([]any)[1]`. -/
def second : V α → HRes (V α)
  | .list (_ :: y :: _) => .ok y
  | _ => .panic

/-- `for i, v := range next { ret[i+1] = f(v.([]any)[1]) }`. -/
def mapSeconds {β : Type} (f : V α → β) : List (V α) → HRes (List β)
  | [] => .ok []
  | v :: rest =>
    match second v with
    | .ok y =>
      match mapSeconds f rest with
      | .ok ys => .ok (f y :: ys)
      | .panic => .panic
      | .fuel => .fuel
    | .panic => .panic
    | .fuel => .fuel

/-- `tpl.ListOp(in, fn)`; `tpl.List(in)` is `listOp id`. -/
def listOp {β : Type} (f : V α → β) : List (V α) → HRes (List β)
  | x :: .list next :: _ =>
    match mapSeconds f next with
    | .ok ys => .ok (f x :: ys)
    | .panic => .panic
    | .fuel => .fuel
  | _ => .panic

/-- `tpl.List(in)`. -/
def listOf (inp : List (V α)) : HRes (List (V α)) := listOp id inp

/-- Values visited by the loop of `RangeOp` until the first malformed element. -/
def rangeSeconds : List (V α) → List (V α) × Bool
  | [] => ([], false)
  | v :: rest =>
    match second v with
    | .ok y => let r := rangeSeconds rest; (y :: r.1, r.2)
    | _ => ([], true)

/-- `tpl.RangeOp(in, fn)`: the values `fn` is called with, in call order, and whether the
call panicked (before any call if `in[1]` is not a list). -/
def rangeOp : List (V α) → List (V α) × Bool
  | x :: .list next :: _ => let r := rangeSeconds next; (x :: r.1, r.2)
  | _ => ([], true)

/-- One `(op, y)` element of `in[1]`: `next := v.([]any); op := next[0].(*Token); y := next[1]`. -/
def opAndY : V α → HRes (Nat × V α)
  | .list (.tok o :: y :: _) => .ok (o, y)
  | _ => .panic

/-- The loop of `BinaryOpNR`. -/
def foldOps (fn : Nat → V α → V α → V α) : V α → List (V α) → HRes (V α)
  | acc, [] => .ok acc
  | acc, v :: rest =>
    match opAndY v with
    | .ok (o, y) => foldOps fn (fn o acc y) rest
    | .panic => .panic
    | .fuel => .fuel

/-- `tpl.BinaryOpNR(in, fn)`. -/
def binaryOpNR (fn : Nat → V α → V α → V α) : List (V α) → HRes (V α)
  | x :: .list next :: _ => foldOps fn x next
  | _ => .panic

/-- An operand of `BinaryOpR`: `if v, ok := y.([]any); ok { y = BinaryOpR(v, fn) }`. -/
def operandWith {β : Type} (recur : List (V α) → HRes β) (other : V α → HRes β) : V α → HRes β
  | .list l => recur l
  | o => other o

/-- The loop of `BinaryOpR`; `operand` evaluates an operand (recursively if it is a list). -/
def foldOpsR (operand : V α → HRes (V α)) (fn : Nat → V α → V α → V α) : V α → List (V α) → HRes (V α)
  | acc, [] => .ok acc
  | acc, v :: rest =>
    match opAndY v with
    | .ok (o, y) =>
      match operand y with
      | .ok y' => foldOpsR operand fn (fn o acc y') rest
      | .panic => .panic
      | .fuel => .fuel
    | .panic => .panic
    | .fuel => .fuel

/-- `tpl.BinaryOpR(in, fn)`: operands that are lists are folded recursively first
(`in[0]` is folded before `in[1].([]any)` is evaluated). -/
def binaryOpR (fn : Nat → V α → V α → V α) : Nat → List (V α) → HRes (V α)
  | 0, _ => .fuel
  | fuel + 1, inp =>
    let operand := operandWith (binaryOpR fn fuel) HRes.ok
    match inp with
    | [] => .panic
    | x :: rest =>
      match operand x with
      | .ok x' =>
        match rest with
        | .list next :: _ => foldOpsR operand fn x' next
        | _ => .panic
      | .panic => .panic
      | .fuel => .fuel

/-- `ast.Expr` values built by `BinaryExpr`: opaque operands and `&ast.BinaryExpr{X, OpPos, Op, Y}`
(`op` = index of the operator token, which determines `OpPos` and `Op`). -/
inductive E where
  | atom (n : Nat)
  | bin (x : E) (op : Nat) (y : E)
  deriving Repr, Inhabited, DecidableEq

/-- `v.(ast.Expr)`. -/
def asExpr : V E → HRes E
  | .leaf e => .ok e
  | _ => .panic

/-- The loop of `BinaryExprNR`. -/
def foldExprs : E → List (V E) → HRes E
  | acc, [] => .ok acc
  | acc, v :: rest =>
    match v with
    | .list (.tok o :: y :: _) =>
      match asExpr y with
      | .ok e => foldExprs (.bin acc o e) rest
      | .panic => .panic
      | .fuel => .fuel
    | _ => .panic

/-- `tpl.BinaryExprNR(in)`. -/
def binaryExprNR : List (V E) → HRes E
  | x :: rest =>
    match asExpr x with
    | .ok e =>
      match rest with
      | .list next :: _ => foldExprs e next
      | _ => .panic
    | .panic => .panic
    | .fuel => .fuel
  | [] => .panic

/-- The loop of `BinaryExprR`. -/
def foldExprsR (operand : V E → HRes E) : E → List (V E) → HRes E
  | acc, [] => .ok acc
  | acc, v :: rest =>
    match v with
    | .list (.tok o :: y :: _) =>
      match operand y with
      | .ok e => foldExprsR operand (.bin acc o e) rest
      | .panic => .panic
      | .fuel => .fuel
    | _ => .panic

/-- `tpl.BinaryExprR(in)`. -/
def binaryExprR : Nat → List (V E) → HRes E
  | 0, _ => .fuel
  | fuel + 1, inp =>
    let operand := operandWith (binaryExprR fuel) asExpr
    match inp with
    | [] => .panic
    | x :: rest =>
      match operand x with
      | .ok e =>
        match rest with
        | .list next :: _ => foldExprsR operand e next
        | _ => .panic
      | .panic => .panic
      | .fuel => .fuel

end GopModel.Tpl
