/-
M4 (4/4) — MiniPrint: canonical text of values (what a probe line shows) and Go source text of
MiniGo programs (for the structural tie: `printProg (lowerProg p)` is parsed by go/parser and
compared, after normalisation, with what the real compiler emitted for the same source).

INTERFACE
* `showVal : Val → String`   = Go's `fmt.Sprint` on ints/bools/strings/slices/maps (maps print
  sorted by key), `<nil>`, `E(msg)` for `errors.New(msg)`, `F(<inner>|code|fn)` for an
  `*errors.Frame`, `RT(kind)` for runtime-error panics.  The harness helper `sv` prints the same.
* `printTy`, `printE`, `printS`, `printFn`, `printProg` — Go text; binary expressions are fully
  parenthesised (the comparison drops parentheses on both sides).  Sugar constructors print as
  `/*sugar*/` markers (they never occur in `lowerProg p` of a compilable program).
String literals are printed with plain quotes: generators only use `[a-z0-9_ ]`.
Core Lean only.
-/
import GopModel.Model.MiniXGo
namespace GopModel.Mini

mutual
def showVal : Val → String
  | .int n => toString n
  | .bool b => if b then "true" else "false"
  | .str s => s
  | .list vs => "[" ++ showVals vs ++ "]"
  | .map kvs => "map[" ++ showKVs kvs ++ "]"
  | .nilMap => "map[]"
  | .tuple vs => "(" ++ showVals vs ++ ")"
  | .err m => "E(" ++ m ++ ")"
  | .frame i code fn => "F(" ++ showVal i ++ "|" ++ code ++ "|" ++ fn ++ ")"
  | .rt k => "RT(" ++ k ++ ")"
  | .nil => "<nil>"
def showVals : List Val → String
  | [] => ""
  | [v] => showVal v
  | v :: vs => showVal v ++ " " ++ showVals vs
def showKVs : List (Val × Val) → String
  | [] => ""
  | [(k, v)] => showVal k ++ ":" ++ showVal v
  | (k, v) :: r => showVal k ++ ":" ++ showVal v ++ " " ++ showKVs r
end

def printTy : Ty → String
  | .int => "int"
  | .bool => "bool"
  | .str => "string"
  | .err => "error"
  | .list t => "[]" ++ printTy t
  | .map k v => "map[" ++ printTy k ++ "]" ++ printTy v

def printOp : BinOp → String
  | .add => "+" | .sub => "-" | .mul => "*" | .rem => "%" | .eq => "==" | .ne => "!="
  | .lt => "<" | .le => "<=" | .gt => ">" | .ge => ">=" | .land => "&&" | .lor => "||"

def printLit : Val → String
  | .int n => toString n
  | .bool b => if b then "true" else "false"
  | .str s => "\"" ++ s ++ "\""
  | .err m => "errors.New(\"" ++ m ++ "\")"
  | .nil => "nil"
  | _ => "/*unprintable literal*/"

def printZero : Ty → String
  | .int => "0"
  | .bool => "false"
  | .str => "\"\""
  | _ => "nil"

def commaSep (xs : List String) : String := ", ".intercalate xs

def printResults (rs : List (String × Ty)) : String :=
  match rs with
  | [] => ""
  | _ => " (" ++ commaSep (rs.map fun r => if r.1 = "" then printTy r.2 else r.1 ++ " " ++ printTy r.2) ++ ")"

mutual
def printE : Expr → String
  | .lit v => printLit v
  | .zero t => printZero t
  | .var x => x
  | .bin op a b => "(" ++ printE a ++ " " ++ printOp op ++ " " ++ printE b ++ ")"
  | .not a => "!" ++ printE a
  | .listLit t es => "[]" ++ printTy t ++ "{" ++ commaSep (printEs es) ++ "}"
  | .mapLit k v kvs => "map[" ++ printTy k ++ "]" ++ printTy v ++ "{" ++ commaSep (printKVs kvs) ++ "}"
  | .index _ a i => printE a ++ "[" ++ printE i ++ "]"
  | .len a => "len(" ++ printE a ++ ")"
  | .append a vs sp =>
    "append(" ++ commaSep (printE a :: printEs vs) ++ (if sp then "..." else "") ++ ")"
  | .call f args => f ++ "(" ++ commaSep (printEs args) ++ ")"
  | .probe id e => "probe(" ++ toString id ++ ", " ++ printE e ++ ")"
  | .closure rs body => "func()" ++ printResults rs ++ " {\n" ++ printSs body ++ "}()"
  | .newFrame e code fn =>
    "errors1.NewFrame(" ++ printE e ++ ", \"" ++ code ++ "\", \"FILE\", 0, \"" ++ fn ++ "\")"
  | .neNil e => printE e ++ " != nil"
  | _ => "/*sugar*/"
def printEs : List Expr → List String
  | [] => []
  | e :: es => printE e :: printEs es
def printKVs : List KV → List String
  | [] => []
  | .mk k v :: r => (printE k ++ ": " ++ printE v) :: printKVs r
def printFilter : Filter → String
  | .none => "/*nofilter*/"
  | .cond c => printE c
  | .initCond x i c => x ++ " := " ++ printE i ++ "; " ++ printE c
def printS : Stmt → String
  | .define xs es => commaSep xs ++ " := " ++ commaSep (printEs es) ++ "\n"
  | .assign xs es => commaSep xs ++ " = " ++ commaSep (printEs es) ++ "\n"
  | .setIndex m k v => m ++ "[" ++ printE k ++ "] = " ++ printE v ++ "\n"
  | .varDecl x t => "var " ++ x ++ " " ++ printTy t ++ "\n"
  | .expr e => printE e ++ "\n"
  | .ifS f thn els =>
    "if " ++ printFilter f ++ " {\n" ++ printSs thn ++ "}" ++
      (match els with
       | [] => "\n"
       | _ => " else {\n" ++ printSs els ++ "}\n")
  | .forRange key val x body =>
    "for " ++ (match key, val with
      | some k, some v => k ++ ", " ++ v ++ " := "
      | some k, none => k ++ " := "
      | none, some v => "_, " ++ v ++ " := "
      | none, none => "") ++ "range " ++ printE x ++ " {\n" ++ printSs body ++ "}\n"
  | .forC init cond post body =>
    "for " ++ (printSs init).replace "\n" "" ++ "; " ++ printE cond ++ "; " ++
      (printSs post).replace "\n" "" ++ " {\n" ++ printSs body ++ "}\n"
  | .ret es => (match es with
    | [] => "return\n"
    | _ => "return " ++ commaSep (printEs es) ++ "\n")
  | .panic e => "panic(" ++ printE e ++ ")\n"
  | .block ss => "{\n" ++ printSs ss ++ "}\n"
  | _ => "/*sugar*/\n"
def printSs : List Stmt → String
  | [] => ""
  | s :: ss => printS s ++ printSs ss
end

def printFn (d : FuncDecl) : String :=
  "func " ++ d.name ++ "(" ++ commaSep (d.params.map fun p => p.1 ++ " " ++ printTy p.2) ++ ")" ++
    printResults d.results ++ " {\n" ++ printSs d.body ++ "}\n"

def printProg (p : Prog) : String := String.join (p.funcs.map printFn)

end GopModel.Mini
