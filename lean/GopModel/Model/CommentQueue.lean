/-
Model of the comment queue of /repo/printer/printer.go (the XGo fork of go/printer):

  commentInfo { cindex, comment, commentOffset, commentNewline }   (printer.go:58)
  nextComment            (printer.go:146)    commentBefore   (printer.go:166)
  commentSizeBefore      (printer.go:172)    intersperseComments (printer.go:754, the loop)
  flush                  (printer.go:1034)   printNode's `p.nextComment()` (printer.go:1138)
  fprint's final `p.impliedSemi = false; p.flush({Offset: infinity,…}, EOF)` (printer.go:1311)

What is modelled: which comment groups are written, and when, as a function of the sequence
of print positions (`next.Offset`) and of `p.impliedSemi` at each call — both ARBITRARY inputs
of the model.  What is not modelled: the text layout (writeCommentPrefix / writeComment /
writeCommentSuffix / white space), i.e. a written comment is recorded as "emitted".

`p.comments` is a parameter (`cs`): in format.Source it is `file.Comments` and never
reassigned (setComment is inert when `useNodeComments` is false — see Generated/CommentSites).
Core Lean only.
-/
namespace GopModel.CommentQueue

/-- `const infinity = 1 << 30` (printer.go). -/
def infinity : Nat := 1073741824

/-- A comment group as the queue sees it: offset of its first comment
(`posFor(List[0].Pos()).Offset`), `commentsHaveNewline(List)`, and its comments `List`
(any payload: texts or ids). -/
structure Group (α : Type) where
  offset : Nat
  newline : Bool
  cs : List α
  deriving Repr, DecidableEq

/-- The queue part of `printer` plus the comments written so far (ghost of `p.output`). -/
structure St (α : Type) where
  cindex : Nat
  comment : Option (Group α)      -- `p.comment` (nil before the first nextComment)
  commentOffset : Nat
  commentNewline : Bool
  emitted : List α
  deriving Repr, DecidableEq

/-- Zero value of the printer: `cindex = 0, comment = nil, commentOffset = 0`. -/
def init {α : Type} : St α := ⟨0, none, 0, false, []⟩

/-- Outcome of a loop of the real code. -/
inductive Out (α : Type) where
  | ok (s : St α)
  | nilDeref            -- `p.comment.List` with `p.comment == nil` (run-time panic)
  | outOfFuel           -- the loop wants more iterations than the fuel given
  deriving Repr, DecidableEq

variable {α : Type}

/-- All comments of a queue, in order. -/
def allComments (cs : List (Group α)) : List α := cs.flatMap (·.cs)

/-- `nextComment`'s loop `for p.cindex < len(p.comments)`, run over the not yet visited
groups `rest = p.comments[p.cindex:]`: empty groups are skipped, the first non-empty one
becomes current; when none is left `commentOffset = infinity` (and `p.comment` keeps its
old value). -/
def nextCommentFrom : List (Group α) → St α → St α
  | [], s => { s with commentOffset := infinity }
  | g :: rest, s =>
    let s1 := { s with cindex := s.cindex + 1 }
    if g.cs.isEmpty then nextCommentFrom rest s1
    else { s1 with comment := some g, commentOffset := g.offset, commentNewline := g.newline }

def nextComment (cs : List (Group α)) (s : St α) : St α :=
  nextCommentFrom (cs.drop s.cindex) s

/-- `commentBefore(next)`: `p.commentOffset < next.Offset && (!p.impliedSemi || !p.commentNewline)`. -/
def commentBefore (s : St α) (next : Nat) (semi : Bool) : Bool :=
  decide (s.commentOffset < next) && (!semi || !s.commentNewline)

/-- The loop of `intersperseComments`:
`for p.commentBefore(next) { for c in p.comment.List { …writeComment(c) }; p.nextComment() }`. -/
def intersperseLoop (cs : List (Group α)) (next : Nat) (semi : Bool) : Nat → St α → Out α
  | 0, s => if commentBefore s next semi then .outOfFuel else .ok s
  | fuel + 1, s =>
    if commentBefore s next semi then
      match s.comment with
      | none => .nilDeref
      | some g => intersperseLoop cs next semi fuel (nextComment cs { s with emitted := s.emitted ++ g.cs })
    else .ok s

/-- Fuel that is always enough under the hypotheses of the theorems (see `loop_ok`). -/
def fuelFor (cs : List (Group α)) : Nat := cs.length + 1

/-- `flush(next, tok)`: `if p.commentBefore(next) { p.intersperseComments(next, tok) } else { write white space }`. -/
def flush (cs : List (Group α)) (next : Nat) (semi : Bool) (s : St α) : Out α :=
  if commentBefore s next semi then intersperseLoop cs next semi (fuelFor cs) s else .ok s

/-- Result of the look-ahead loop of `commentSizeBefore`. -/
inductive SizeOut where
  | size (n : Nat)
  | nilDeref
  | outOfFuel
  deriving Repr, DecidableEq

/-- The loop of `commentSizeBefore`: same traversal, sums `len(c.Text)`, writes nothing. -/
def sizeLoop (cs : List (Group α)) (len : α → Nat) (next : Nat) (semi : Bool) :
    Nat → St α → Nat → SizeOut
  | 0, s, acc => if commentBefore s next semi then .outOfFuel else .size acc
  | fuel + 1, s, acc =>
    if commentBefore s next semi then
      match s.comment with
      | none => .nilDeref
      | some g => sizeLoop cs len next semi fuel (nextComment cs s) (acc + (g.cs.map len).sum)
    else .size acc

/-- `commentSizeBefore(next)`: the deferred `p.commentInfo = info` restores the queue state,
so the state after the call is the state before it. -/
def commentSizeBefore (cs : List (Group α)) (len : α → Nat) (next : Nat) (semi : Bool)
    (s : St α) : SizeOut × St α :=
  (sizeLoop cs len next semi (fuelFor cs) s 0, s)

/-- What the node-printing code (nodes.go, `print`) does to the queue. -/
inductive Op where
  | print (next : Nat) (semi : Bool)        -- `p.print(tok)`: `p.flush(next, tok)` with the current impliedSemi
  | sizeBefore (next : Nat) (semi : Bool)   -- `p.commentSizeBefore(next)` (funcBody)
  | before (next : Nat) (semi : Bool)       -- a bare `p.commentBefore(next)` query (nodes.go:472, 1537)
  deriving Repr, DecidableEq

def Op.next : Op → Nat
  | .print n _ => n
  | .sizeBefore n _ => n
  | .before n _ => n

def step (cs : List (Group α)) : Op → St α → Out α
  | .print n b, s => flush cs n b s
  | .sizeBefore n b, s =>
    match (commentSizeBefore cs (fun _ => 1) n b s).1 with
    | .size _ => .ok (commentSizeBefore cs (fun _ => 1) n b s).2
    | .nilDeref => .nilDeref
    | .outOfFuel => .outOfFuel
  | .before _ _, s => .ok s

def runOps (cs : List (Group α)) : List Op → St α → Out α
  | [], s => .ok s
  | op :: ops, s =>
    match step cs op s with
    | .ok s' => runOps cs ops s'
    | o => o

/-- `printNode`: `p.comments = n.Comments; …; p.nextComment()`. -/
def start (cs : List (Group α)) : St α := nextComment cs init

/-- `fprint` after `printNode`: `p.impliedSemi = false; p.flush({Offset: infinity}, EOF)`. -/
def finish (cs : List (Group α)) (s : St α) : Out α := flush cs infinity false s

/-- A whole `Fprint`: start the queue, any sequence of operations, final flush. -/
def printAll (cs : List (Group α)) (ops : List Op) : Out α :=
  match runOps cs ops (start cs) with
  | .ok s => finish cs s
  | o => o

/-! ## Facts about the source (shape of the queue code) — filled in by the translator
(`extract/commentsites.go` → `Generated/CommentSites.lean`) and checked in Props/C21. -/

inductive Fn where
  | nextComment | commentBefore | commentSizeBefore | intersperseComments | flush
  | setComment | printNode | fprint | print | other
  deriving Repr, DecidableEq

inductive CmpOp where
  | lt | le | other
  deriving Repr, DecidableEq

/-- How a queue field is written at one assignment site. -/
inductive WKind where
  | inc          -- `p.cindex++`
  | zero         -- `p.cindex = 0`
  | fromQueue    -- `p.comment = c` with `c := p.comments[p.cindex]`
  | groupOffset  -- `p.commentOffset = p.posFor(list[0].Pos()).Offset`
  | inf          -- `p.commentOffset = infinity`
  | haveNewline  -- `p.commentNewline = p.commentsHaveNewline(list)`
  | restore      -- `p.commentInfo = info` in a defer whose argument is `p.commentInfo`
  | other
  deriving Repr, DecidableEq

structure Sites where
  infinityValue : Nat
  /-- functions calling `writeComment` / `intersperseComments` / `nextComment` -/
  writeCommentCallers : List Fn
  intersperseCallers : List Fn
  nextCommentCallers : List Fn
  /-- every assignment to cindex / comment / commentOffset / commentNewline / commentInfo -/
  queueWrites : List (Fn × WKind)
  /-- functions assigning `p.comments` -/
  commentsWriters : List Fn
  /-- `setComment` starts with `if g == nil || !p.useNodeComments { return }` -/
  setCommentGuarded : Bool
  /-- the only assignment to useNodeComments is printNode's `p.useNodeComments = p.comments == nil` -/
  useNodeCommentsIsCommentsNil : Bool
  /-- printNode: comments assigned, then useNodeComments, then `p.nextComment()`, then the node switch -/
  printNodeStartsQueue : Bool
  /-- nextComment: `for p.cindex < len(p.comments) { c := p.comments[p.cindex]; p.cindex++;
      if list := c.List; len(list) > 0 { …; return } }; p.commentOffset = infinity` -/
  nextCommentShape : Bool
  /-- commentBefore: `return p.commentOffset <op> next.Offset && (!p.impliedSemi || !p.commentNewline)` -/
  commentBeforeOp : CmpOp
  commentBeforeGuard : Bool
  /-- intersperseComments: `for p.commentBefore(next) { for _, c := range p.comment.List {
      writeCommentPrefix; writeComment(c); last = c }; p.nextComment() }`, no break/continue/return inside -/
  intersperseShape : Bool
  /-- flush: `if p.commentBefore(next) { … = p.intersperseComments(next, tok) } else { … }` -/
  flushShape : Bool
  /-- commentSizeBefore: deferred restore of `p.commentInfo`, loop `for p.commentBefore(next) { …; p.nextComment() }` -/
  sizeBeforeShape : Bool
  /-- fprint: after the error check of `p.printNode(node)`: `p.impliedSemi = false` and
      `p.flush(token.Position{Offset: infinity, …}, token.EOF)`, before `p.output` is written -/
  finalFlushImpliedSemiCleared : Bool
  finalFlushToInfinity : Bool
  deriving Repr, DecidableEq

/-- The hypotheses about the code under which `printAll` is the queue behaviour of
`format.Source` on a file that has comments (so `p.comments != nil`, `useNodeComments = false`). -/
def Sites.ok (f : Sites) : Bool :=
  f.infinityValue == infinity &&
  f.writeCommentCallers == [.intersperseComments] &&
  f.intersperseCallers == [.flush] &&
  f.nextCommentCallers == [.commentSizeBefore, .intersperseComments, .setComment, .printNode] &&
  -- sorted by (function, kind) as the translator emits them
  f.queueWrites == [(.nextComment, .inc), (.nextComment, .fromQueue), (.nextComment, .groupOffset),
                    (.nextComment, .inf), (.nextComment, .haveNewline),
                    (.commentSizeBefore, .restore), (.setComment, .zero)] &&
  f.commentsWriters == [.setComment, .printNode] &&
  f.setCommentGuarded && f.useNodeCommentsIsCommentsNil && f.printNodeStartsQueue &&
  f.nextCommentShape && f.commentBeforeOp == .lt && f.commentBeforeGuard &&
  f.intersperseShape && f.flushShape && f.sizeBeforeShape &&
  f.finalFlushImpliedSemiCleared && f.finalFlushToInfinity

end GopModel.CommentQueue
