/-
M3 (part 1): tokens of the XGo expression fragment.

`Op` lists every operator / delimiter token of /repo/token/token.go; the constructor names are
the Go constant names so that the translator target `prec` (extract/prec.go) can regenerate
`Generated/Prec.lean` (the function `Token.Precedence` and the three precedence constants)
as a Lean `match` over this type.  Core Lean only.
-/
namespace GopModel.ExprSyntax

/-- Byte strings (identifier names, literal texts). Opaque to the model. -/
abbrev Str := List UInt8

inductive Op where
  | ADD | SUB | MUL | QUO | REM
  | AND | OR | XOR | SHL | SHR | AND_NOT
  | ADD_ASSIGN | SUB_ASSIGN | MUL_ASSIGN | QUO_ASSIGN | REM_ASSIGN
  | AND_ASSIGN | OR_ASSIGN | XOR_ASSIGN | SHL_ASSIGN | SHR_ASSIGN | AND_NOT_ASSIGN
  | LAND | LOR | ARROW | INC | DEC
  | EQL | LSS | GTR | ASSIGN | NOT
  | NEQ | LEQ | GEQ | DEFINE | ELLIPSIS
  | LPAREN | LBRACK | LBRACE | COMMA | PERIOD
  | RPAREN | RBRACK | RBRACE | SEMICOLON | COLON
  | QUESTION | DRARROW | SRARROW | BIDIARROW | ENV | TILDE
  deriving DecidableEq, Repr, Inhabited

/-- Literal kinds (`BasicLit.Kind`). -/
inductive LitKind where
  | INT | FLOAT | IMAG | CHAR | STRING | CSTRING | PYSTRING | RAT
  deriving DecidableEq, Repr, Inhabited

/-- A scanned token (positions are not modelled). -/
inductive Tok where
  | ident (s : Str)
  | lit (k : LitKind) (v : Str)
  | unit (u : Str)          -- token.UNIT, the unit part of `1km`
  | op (o : Op)
  | kw (s : Str)            -- keyword (for, func, map, ...)
  deriving DecidableEq, Repr, Inhabited

/-- First byte of the spelling of an operator (`tokens[op][0]` in token.go). -/
def Op.first : Op → Char
  | .ADD | .ADD_ASSIGN | .INC => '+'
  | .SUB | .SUB_ASSIGN | .DEC | .SRARROW => '-'
  | .MUL | .MUL_ASSIGN => '*'
  | .QUO | .QUO_ASSIGN => '/'
  | .REM | .REM_ASSIGN => '%'
  | .AND | .AND_NOT | .AND_ASSIGN | .AND_NOT_ASSIGN | .LAND => '&'
  | .OR | .OR_ASSIGN | .LOR => '|'
  | .XOR | .XOR_ASSIGN => '^'
  | .SHL | .SHL_ASSIGN | .ARROW | .LSS | .LEQ | .BIDIARROW => '<'
  | .SHR | .SHR_ASSIGN | .GTR | .GEQ => '>'
  | .EQL | .ASSIGN | .DRARROW => '='
  | .NOT | .NEQ => '!'
  | .DEFINE | .COLON => ':'
  | .ELLIPSIS | .PERIOD => '.'
  | .LPAREN => '(' | .LBRACK => '[' | .LBRACE => '{' | .COMMA => ','
  | .RPAREN => ')' | .RBRACK => ']' | .RBRACE => '}' | .SEMICOLON => ';'
  | .QUESTION => '?' | .ENV => '$' | .TILDE => '~'

end GopModel.ExprSyntax
