/-
M1 (part 1 of 3): scanner state, `next`/`peek`, UTF-8 decoding, character classes, slices.

Model of the low-level part shared by the three scanners
  /repo/scanner/scanner.go      (dialect `xgo`)
  /repo/tpl/scanner/scanner.go  (dialect `tpl`)
  GOROOT/src/go/scanner/scanner.go (dialect `go`, the reference of C16; Go 1.23)
Core Lean only.  Everything is structurally recursive (explicit fuel where the Go code loops)
so that the kernel can evaluate it (`decide`).

Conventions
* `src : Array UInt8` is the source; offsets are byte offsets (Nat).
* a rune is a `Nat`; Go's `s.ch = -1` (EOF) is the sentinel `eofCh = 0x110000` (one above the
  largest rune), so `s.ch >= 0` reads `ch ≠ eofCh` / `ch < eofCh`.
* outcomes the Go code can have besides returning are explicit and sticky in `St.fail`:
  `panic` (index/slice out of range) and `fuel` (a model loop ran out of fuel; proved impossible
  in Props/C15).
-/
namespace GopModel.Scan

def eofCh : Nat := 0x110000
def runeError : Nat := 0xFFFD
def bomCh : Nat := 0xFEFF

/-- `litname(prefix)` -/
inductive LitName where
  | dec | hex | oct | bin
  deriving DecidableEq, Repr

/-- number prefix: Go's `prefix` rune: 0, '0', 'x', 'o', 'b' -/
inductive Pfx where
  | none | zero | x | o | b
  deriving DecidableEq, Repr

def litname : Pfx → LitName
  | .x => .hex
  | .o => .oct
  | .zero => .oct
  | .b => .bin
  | .none => .dec

/-- Error messages of the scanners (the text is rendered/compared by the harness). -/
inductive Msg where
  | nul                       -- "illegal character NUL"
  | badUtf8                   -- "illegal UTF-8 encoding"
  | bom                       -- "illegal byte order mark"
  | commentNotTerminated
  | invalidLineNumber (text : List UInt8)    -- "invalid line number: " + text
  | invalidColumnNumber (text : List UInt8)  -- "invalid column number: " + text
  | radixPoint (l : LitName)  -- "invalid radix point in " + litname
  | noDigits (l : LitName)    -- litname + " has no digits"
  | expDecimal (ch : Nat)     -- "%q exponent requires decimal mantissa"
  | expHex (ch : Nat)         -- "%q exponent requires hexadecimal mantissa"
  | expNoDigits               -- "exponent has no digits"
  | hexMantissaP              -- "hexadecimal mantissa requires a 'p' exponent"
  | invalidDigit (digit : Nat) (l : LitName)  -- "invalid digit %q in %s"
  | sepMustSeparate           -- "'_' must separate successive digits"
  | escUnknown                -- "unknown escape sequence"
  | escNotTerminated          -- "escape sequence not terminated"
  | escIllegalChar (ch : Nat) -- "illegal character %#U in escape sequence"
  | escInvalidCodePoint       -- "escape sequence is invalid Unicode code point"
  | runeNotTerminated         -- "rune literal not terminated"
  | illegalRune               -- "illegal rune literal"
  | stringNotTerminated       -- "string literal not terminated"
  | rawStringNotTerminated    -- "raw string literal not terminated"
  | illegalChar (ch : Nat)    -- "illegal character %#U"
  | curlyQuote (ch : Nat)     -- go only: "curly quotation mark %q (use neutral %q)"
  deriving DecidableEq, Repr

structure Err where
  off : Nat
  msg : Msg
  deriving DecidableEq, Repr

inductive Fail where
  | ok | panic | fuel
  deriving DecidableEq, Repr

/-- The scanning state of `Scanner` (fields `ch, offset, rdOffset, lineOffset, nParen, unitVal,
insertSemi`; go 1.23: `nlPos`), the error-handler calls so far (newest first) and the sticky
failure flag. -/
structure St where
  ch : Nat
  off : Nat
  rdOff : Nat
  lineOff : Nat
  nParen : Int
  unitVal : List UInt8
  insertSemi : Bool
  nlPos : Option Nat
  errs : List Err
  fail : Fail
  deriving Repr

def St.error (st : St) (off : Nat) (m : Msg) : St := { st with errs := ⟨off, m⟩ :: st.errs }

def St.setFail (st : St) (f : Fail) : St :=
  if st.fail = .ok then { st with fail := f } else st

/-- `src[i]` as a number; 0 outside (only used after an explicit length test, as in Go;
this is also exactly `peek`'s result at EOF). -/
def byteAt (src : Array UInt8) (i : Nat) : Nat :=
  if h : i < src.size then src[i].toNat else 0

/-- `s.src[a:b]` as a byte list, `none` where Go panics (slice bounds out of range). -/
def slice? (src : Array UInt8) (a b : Nat) : Option (List UInt8) :=
  if a ≤ b ∧ b ≤ src.size then some ((src.toList.drop a).take (b - a)) else none

/-- `utf8.DecodeRune(src[i:])` for `i < src.size`: (rune, width).  The continuation-byte
arithmetic is written with `-`/`*` instead of masks and shifts (same value: the bit fields
are disjoint). -/
def decodeRune (src : Array UInt8) (i : Nat) : Nat × Nat :=
  let n := src.size - i
  let p0 := byteAt src i
  if p0 < 0x80 then (p0, 1)
  else if p0 < 0xC2 then (runeError, 1)
  else if p0 < 0xE0 then
    if n < 2 then (runeError, 1) else
    let b1 := byteAt src (i + 1)
    if b1 < 0x80 ∨ 0xBF < b1 then (runeError, 1)
    else ((p0 - 0xC0) * 64 + (b1 - 0x80), 2)
  else if p0 < 0xF0 then
    let lo := if p0 = 0xE0 then 0xA0 else 0x80
    let hi := if p0 = 0xED then 0x9F else 0xBF
    if n < 3 then (runeError, 1) else
    let b1 := byteAt src (i + 1)
    if b1 < lo ∨ hi < b1 then (runeError, 1) else
    let b2 := byteAt src (i + 2)
    if b2 < 0x80 ∨ 0xBF < b2 then (runeError, 1)
    else ((p0 - 0xE0) * 4096 + (b1 - 0x80) * 64 + (b2 - 0x80), 3)
  else if p0 < 0xF5 then
    let lo := if p0 = 0xF0 then 0x90 else 0x80
    let hi := if p0 = 0xF4 then 0x8F else 0xBF
    if n < 4 then (runeError, 1) else
    let b1 := byteAt src (i + 1)
    if b1 < lo ∨ hi < b1 then (runeError, 1) else
    let b2 := byteAt src (i + 2)
    if b2 < 0x80 ∨ 0xBF < b2 then (runeError, 1) else
    let b3 := byteAt src (i + 3)
    if b3 < 0x80 ∨ 0xBF < b3 then (runeError, 1)
    else ((p0 - 0xF0) * 262144 + (b1 - 0x80) * 4096 + (b2 - 0x80) * 64 + (b3 - 0x80), 4)
  else (runeError, 1)

/-- the rune that starts at offset i (EOF behind the end): what `next` puts into `s.ch` -/
def runeAt (src : Array UInt8) (i : Nat) : Nat :=
  if i < src.size then (if byteAt src i < 0x80 then byteAt src i else (decodeRune src i).1) else eofCh

/-- `func (s *Scanner) next()` (line table side effects are not modelled; `lineOffset` is,
because `//line` directives are only interpreted at the beginning of a line). -/
def next (src : Array UInt8) (st : St) : St :=
  if st.rdOff < src.size then
    let lineOff := if st.ch = 0x0A then st.rdOff else st.lineOff
    let b := byteAt src st.rdOff
    if b = 0 then
      { st with off := st.rdOff, lineOff := lineOff, rdOff := st.rdOff + 1, ch := 0,
                errs := ⟨st.rdOff, .nul⟩ :: st.errs }
    else if b < 0x80 then
      { st with off := st.rdOff, lineOff := lineOff, rdOff := st.rdOff + 1, ch := b }
    else
      let rw := decodeRune src st.rdOff
      let errs :=
        if rw.1 = runeError ∧ rw.2 = 1 then ⟨st.rdOff, .badUtf8⟩ :: st.errs
        else if rw.1 = bomCh ∧ 0 < st.rdOff then ⟨st.rdOff, .bom⟩ :: st.errs
        else st.errs
      { st with off := st.rdOff, lineOff := lineOff, rdOff := st.rdOff + rw.2, ch := rw.1,
                errs := errs }
  else
    { st with off := src.size, lineOff := if st.ch = 0x0A then src.size else st.lineOff,
              ch := eofCh }

/-- `func (s *Scanner) peek() byte` -/
def peek (src : Array UInt8) (st : St) : Nat := byteAt src st.rdOff

/-- `Init` (offset 0): `ch = ' '`, everything zero, `next()`, and a leading BOM is skipped. -/
def initSt (src : Array UInt8) : St :=
  let st0 : St := { ch := 0x20, off := 0, rdOff := 0, lineOff := 0, nParen := 0, unitVal := [],
                    insertSemi := false, nlPos := none, errs := [], fail := .ok }
  let st1 := next src st0
  if st1.ch = bomCh then next src st1 else st1

/-! ### character classes -/

def isAsciiLetter (ch : Nat) : Bool :=
  (0x41 ≤ ch && ch ≤ 0x5A) || (0x61 ≤ ch && ch ≤ 0x7A)

def isDecimal (ch : Nat) : Bool := 0x30 ≤ ch && ch ≤ 0x39

def isHex (ch : Nat) : Bool :=
  (0x30 ≤ ch && ch ≤ 0x39) || (0x41 ≤ ch && ch ≤ 0x46) || (0x61 ≤ ch && ch ≤ 0x66)

/-- `digitVal` (16 for a non-digit) -/
def digitVal (ch : Nat) : Nat :=
  if 0x30 ≤ ch ∧ ch ≤ 0x39 then ch - 0x30
  else if 0x61 ≤ ch ∧ ch ≤ 0x66 then ch - 0x61 + 10
  else if 0x41 ≤ ch ∧ ch ≤ 0x46 then ch - 0x41 + 10
  else 16

/-- `unicode.IsLetter` / `unicode.IsDigit` on runes ≥ 0x80: parameters of the model. -/
structure UCls where
  isLetter : Nat → Bool
  isDigit : Nat → Bool

/-- `isLetter(ch)`: `'a' <= lower(ch) && lower(ch) <= 'z' || ch == '_' || ch >= utf8.RuneSelf && unicode.IsLetter(ch)`
(`lower(ch)` is in a..z exactly for the ASCII letters; EOF is no letter). -/
def isLetter (U : UCls) (ch : Nat) : Bool :=
  isAsciiLetter ch || ch = 0x5F || (0x80 ≤ ch && ch < eofCh && U.isLetter ch)

def isDigit (U : UCls) (ch : Nat) : Bool :=
  isDecimal ch || (0x80 ≤ ch && ch < eofCh && U.isDigit ch)

/-! ### stripCR -/

/-- xgo / go `stripCR(b, comment)`: a CR is kept only inside a general comment, when the output
so far is longer than 2 bytes and ends in `*` and the next input byte is `/`. -/
def stripCRAux (comment : Bool) : List UInt8 → List UInt8 → List UInt8
  | [], acc => acc.reverse
  | c :: rest, acc =>
    if c ≠ 0x0D then stripCRAux comment rest (c :: acc)
    else if comment && decide (2 < acc.length) && acc.head? == some 0x2A && rest.head? == some 0x2F then
      stripCRAux comment rest (c :: acc)
    else stripCRAux comment rest acc

def stripCR (b : List UInt8) (comment : Bool) : List UInt8 := stripCRAux comment b []

/-- tpl `stripCR(b)`: every CR removed -/
def stripCRAll (b : List UInt8) : List UInt8 := b.filter (· ≠ 0x0D)

/-- UTF-8 encoding of a rune, `string(ch)` (the literal of an ILLEGAL token);
surrogates and out-of-range values encode U+FFFD. -/
def encodeRune (r : Nat) : List UInt8 :=
  if r < 0x80 then [UInt8.ofNat r]
  else if r < 0x800 then [UInt8.ofNat (0xC0 + r / 64), UInt8.ofNat (0x80 + r % 64)]
  else if (0xD800 ≤ r ∧ r < 0xE000) ∨ 0x10FFFF < r then [0xEF, 0xBF, 0xBD]
  else if r < 0x10000 then
    [UInt8.ofNat (0xE0 + r / 4096), UInt8.ofNat (0x80 + r / 64 % 64), UInt8.ofNat (0x80 + r % 64)]
  else
    [UInt8.ofNat (0xF0 + r / 262144), UInt8.ofNat (0x80 + r / 4096 % 64),
     UInt8.ofNat (0x80 + r / 64 % 64), UInt8.ofNat (0x80 + r % 64)]

end GopModel.Scan
