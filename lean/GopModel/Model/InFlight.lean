/-
Hand-written model of the in-flight state machine of `x/jsonrpc2/conn.go` (property C39).

Part 1: one transition `Args → St → St × Out` per closure passed to `updateInFlight`
(tied to the Go source by `Props/C39.lean`: each is proved equal to the function regenerated
from conn.go into `Generated/InFlight.lean`), the epilogue of `updateInFlight`, `idle`,
`shuttingDown`.

Part 2: the whole connection as a transition system `step : Act → M → Option M` for an
unbounded number of goroutines.  Goroutine program counters are abstracted into *pending
obligations* carried in the state (`pendingReg`, `pendingWrite`, `owedNotif`, the phase of
every accepted request).  The control flow of the Go functions around the closures (which
closure follows which, on which outcome) is what the actions encode; that part is tied to
conn.go by the fingerprints of `extract/inflight_expect.txt`.  Guards are *liberal* (a
superset of the real interleavings: e.g. reader actions are enabled whenever `reading`,
`writeFail` always), so safety theorems transfer.  Core Lean only.
-/
import GopModel.Model.InFlightTypes
namespace GopModel.InFlight

/-! ## Part 1 — the closures -/

/-- `inFlightState.idle`. -/
def St.idle (s : St) : Bool :=
  s.outgoing.length == 0 && s.outNotif == 0 && s.incoming == 0 && !s.handlerRunning

/-- `inFlightState.shuttingDown`: which of its tests fires (`none` = returns nil). -/
def St.shuttingDown (s : St) : Option Cause :=
  if s.connClosing then some .closing
  else if s.readErr then some .readErr
  else if s.writeErr then some .writeErr
  else none

/-- `updateInFlight` after `f(s)`: if `done` is already closed the state must be idle
(else panic); otherwise, when idle and shutting down, close the closer (once) and, if the
reader is not running, call `onDone` and close `done`. -/
def epilogue (s : St) (o : Out) : St × Out :=
  if s.done then
    if s.idle then (s, o) else (s, { o with panic := true })
  else if s.idle && s.shuttingDown.isSome then
    let o := if s.closerOpen then { o with closedCloser := true } else o
    let s := { s with closerOpen := false }
    if s.reading then (s, o)
    else ({ s with done := true }, { o with onDone := true, closedDone := true })
  else (s, o)

/-- `updateInFlight(f)`: run the closure; a panic inside it skips the epilogue. -/
def update (t : Args → St → St × Out) (a : Args) (s : St) : St × Out :=
  let r := t a s
  if r.2.panic then r else epilogue r.1 r.2

/-- newConnection#0: start the reader unless Bind already closed the connection. -/
def tStart (_ : Args) (s : St) : St × Out :=
  if s.done then (s, {}) else ({ s with reading := true }, { spawnReader := true })

/-- Notify#0 (deferred; runs only if `attempted`). -/
def tNotifyExit (_ : Args) (s : St) : St × Out :=
  ({ s with outNotif := s.outNotif - 1 }, {})

/-- Notify#1: refused only when no call is in flight in either direction and shutting down. -/
def tNotifyEnter (_ : Args) (s : St) : St × Out :=
  if s.outgoing.length == 0 && s.byID.length == 0 && s.shuttingDown.isSome then
    (s, { err := s.shuttingDown.map Err.clientClosing })
  else ({ s with outNotif := s.outNotif + 1 }, { attempted := true })

/-- Call#0: register `ac` unless shutting down. -/
def tCallRegister (a : Args) (s : St) : St × Out :=
  match s.shuttingDown with
  | some c => (s, { err := some (.clientClosing c) })
  | none => ({ s with outgoing := Map.put s.outgoing a.call.id a.call }, {})

/-- Call#1 (the write failed): retire `ac` unless the reader already did. -/
def tCallWriteFailed (a : Args) (s : St) : St × Out :=
  if Map.get s.outgoing a.call.id == some a.call then
    ({ s with outgoing := Map.del s.outgoing a.call.id }, { retired := [(a.call, a.call.id)] })
  else (s, {})

/-- Respond#0, Cancel#0: look the request up by ID. -/
def tLookup (a : Args) (s : St) : St × Out := (s, { req := Map.get s.byID a.id })

/-- Wait#0: reads `closeErr` (not modelled). -/
def tWait (_ : Args) (s : St) : St × Out := (s, {})

/-- Close#0. -/
def tClose (_ : Args) (s : St) : St × Out := ({ s with connClosing := true }, {})

/-- readIncoming#0: a response with ID `a.id` arrived. -/
def tResponse (a : Args) (s : St) : St × Out :=
  match Map.get s.outgoing a.id with
  | some ac => ({ s with outgoing := Map.del s.outgoing a.id }, { retired := [(ac, a.id)] })
  | none => (s, {})

/-- readIncoming#1: the reader exits; every outstanding call is retired with its own key. -/
def tReaderExit (_ : Args) (s : St) : St × Out :=
  ({ s with reading := false, readErr := true, outgoing := [] },
   { retired := s.outgoing.map (fun e => (e.2, e.1)) })

/-- acceptRequest#0. -/
def tAccept (a : Args) (s : St) : St × Out :=
  let s := { s with incoming := s.incoming + 1 }
  if a.req.isCall then
    if (Map.get s.byID a.req.id).isSome then
      (s, { err := some (.wrap "ErrInvalidRequest"), clearReqID := true })
    else
      let s := { s with byID := Map.put s.byID a.req.id a.req }
      (s, { err := s.shuttingDown.map Err.serverClosing })
  else (s, {})

/-- acceptRequest#1. -/
def tEnqueue (a : Args) (s : St) : St × Out :=
  match s.shuttingDown with
  | some c => (s, { err := some (.serverClosing c) })
  | none =>
    ({ s with queue := s.queue ++ [a.req], handlerRunning := true },
     { spawnHandler := !s.handlerRunning })

/-- handleAsync#0. -/
def tDequeue (_ : Args) (s : St) : St × Out :=
  match s.queue with
  | r :: q => ({ s with queue := q }, { req := some r })
  | [] => ({ s with handlerRunning := false }, {})

/-- handleAsync#1: the request's context was already cancelled. -/
def tHandleCancelled (_ : Args) (s : St) : St × Out :=
  (s, { err := if s.writeErr then some (.wrap "ErrServerClosing") else none })

/-- processResult#0. -/
def tPrDelete (a : Args) (s : St) : St × Out :=
  ({ s with byID := Map.del s.byID a.req.id }, {})

/-- processResult#1. -/
def tPrFinish (_ : Args) (s : St) : St × Out :=
  if s.incoming == 0 then (s, { panic := true })
  else ({ s with incoming := s.incoming - 1 }, {})

/-- write#0: the first failed write records the error and cancels all incoming calls. -/
def tWriteFailed (_ : Args) (s : St) : St × Out :=
  if s.writeErr then (s, {})
  else ({ s with writeErr := true }, { cancelled := s.byID.map (fun e => e.2) })

/-- closure name (Go function # ordinal) → model transition. -/
def transitions : List (String × (Args → St → St × Out)) := [
  ("newConnection#0", tStart), ("Notify#0", tNotifyExit), ("Notify#1", tNotifyEnter),
  ("Call#0", tCallRegister), ("Call#1", tCallWriteFailed), ("Respond#0", tLookup),
  ("Cancel#0", tLookup), ("Wait#0", tWait), ("Close#0", tClose),
  ("readIncoming#0", tResponse), ("readIncoming#1", tReaderExit),
  ("acceptRequest#0", tAccept), ("acceptRequest#1", tEnqueue),
  ("handleAsync#0", tDequeue), ("handleAsync#1", tHandleCancelled),
  ("processResult#0", tPrDelete), ("processResult#1", tPrFinish), ("write#0", tWriteFailed)]

/-! ## Part 2 — the connection as a transition system -/

/-- Where an accepted incoming request is (the program counter of whoever processes it). -/
inductive Phase where
  | accepted   -- acceptRequest#0 succeeded; the reader is about to preempt / enqueue it
  | queued     -- in `handlerQueue`
  | handling   -- dequeued; `Handle` is running (or about to)
  | async      -- a handler/preempter returned ErrAsyncResponse; `Respond` is owed
  | result     -- `processResult` was entered (its result is to be recorded)
  | writing    -- processResult#0 done; the response is being written
  | leaked     -- ErrAsyncResponse for a notification (contract violation): processResult
               --   returned early, `incoming` is never decremented
  deriving DecidableEq, Repr

/-- Phases in which a call is still in `incomingByID`. -/
def Phase.pre16 : Phase → Bool
  | .writing => false
  | .leaked => false
  | _ => true

structure M where
  st : St
  /-- heap: the `AsyncCall`s whose `ready` channel is closed, with the ID of the stored response -/
  ready : List (Call × ID)
  seq : Nat                       -- `c.seq`
  pendingReg : List Call          -- `Call`: created, before Call#0
  pendingWrite : List Call        -- `Call`: registered, `c.write` in progress
  registered : List Call          -- history: calls ever inserted in `outgoingCalls`
  owedNotif : Nat                 -- `Notify`: between Notify#1 (attempted) and Notify#0
  reqs : List (Req × Phase)       -- accepted requests whose processResult#1 has not run
  nextReq : Nat                   -- allocation counter for `*incomingRequest`
  answered : List Req             -- history: calls for which processResult wrote a response
  started : Bool                  -- newConnection#0 has run
  closerCloses : Nat              -- history: number of `closer.Close()` calls
  doneCloses : Nat                -- history: number of `close(c.done)`
  panicked : Bool                 -- some `panic` was reached (absorbing)
  deriving DecidableEq, Repr

def M.init : M :=
  { st := St.init, ready := [], seq := 0, pendingReg := [], pendingWrite := [], registered := [],
    owedNotif := 0, reqs := [], nextReq := 0, answered := [], started := false,
    closerCloses := 0, doneCloses := 0, panicked := false }

def noArgs : Args := ⟨⟨0, noID⟩, ⟨0, noID⟩, noID⟩
def argsCall (c : Call) : Args := { noArgs with call := c }
def argsReq (r : Req) : Args := { noArgs with req := r }
def argsID (id : ID) : Args := { noArgs with id := id }

/-- `AsyncCall.retire`: panics if `ready` is already closed, else stores the response and
closes `ready`. -/
def retire (m : M) (e : Call × ID) : M :=
  if m.ready.any (fun x => x.1 == e.1) then { m with panicked := true }
  else { m with ready := m.ready ++ [e] }

def retireAll (es : List (Call × ID)) (m : M) : M := es.foldl retire m

/-- One `updateInFlight` call on the connection: the closure, the epilogue, and the effects
outside `inFlightState` (retired calls, closer/done closes, panics). -/
def fire (t : Args → St → St × Out) (a : Args) (m : M) : M × Out :=
  let r := update t a m.st
  let m := { m with st := r.1,
                    closerCloses := m.closerCloses + (if r.2.closedCloser then 1 else 0),
                    doneCloses := m.doneCloses + (if r.2.closedDone then 1 else 0),
                    panicked := m.panicked || r.2.panic }
  (retireAll r.2.retired m, r.2)

def phaseOf (m : M) (r : Req) : Option Phase := List.lookup r m.reqs

def setPhase (m : M) (r : Req) (p : Phase) : M :=
  { m with reqs := m.reqs.map (fun e => if e.1 = r then (e.1, p) else e) }

def dropReq (m : M) (r : Req) : M :=
  { m with reqs := m.reqs.filter (fun e => e.1 != r) }

inductive Act where
  | start                       -- newConnection: newConnection#0
  | notifyEnter | notifyExit    -- Notify
  | callNew                     -- Call: id := seq+1, allocate the AsyncCall
  | callMarshalFail (c : Call)  -- Call: NewCall failed → ac.retire, return
  | callRegister (c : Call)     -- Call: Call#0; on error ac.retire
  | callWriteOk (c : Call)      -- Call: c.write succeeded
  | callWriteFail (c : Call)    -- Call: c.write failed → Call#1
  | respond (r : Req)           -- Respond for a request in phase `async` (the handler contract)
  | cancel (id : ID)            -- Cancel
  | wait                        -- Wait, after `<-c.done`
  | close                       -- Close#0
  | recvResponse (id : ID)      -- reader: a response arrived
  | readerExit                  -- reader: Read failed
  | accept (id : ID)            -- reader: a request arrived (noID = notification)
  | preemptAsync (r : Req) | preemptDone (r : Req) | preemptLeak (r : Req)
  | enqueue (r : Req)           -- acceptRequest#1
  | dequeue                     -- handleAsync#0
  | handleCancelled (r : Req)   -- handleAsync#1, then processResult
  | handleDone (r : Req)        -- Handle returned a result / error
  | handleAsyncResp (r : Req)   -- Handle returned ErrAsyncResponse for a call
  | handleLeak (r : Req)        -- Handle returned ErrAsyncResponse for a notification
  | prDelete (r : Req)          -- processResult#0 (calls), then the response is written
  | prFinish (r : Req)          -- processResult#1
  | writeFail                   -- write#0
  deriving DecidableEq, Repr

def guard (b : Bool) (m : M) : Option M := if b then some m else none

/-- The transition function; `none` = the action is not enabled. -/
def step (act : Act) (m : M) : Option M :=
  if m.panicked then none else
  match act with
  | .start =>
    if m.started then none else
    some { (fire tStart noArgs m).1 with started := true }
  | .notifyEnter =>
    let r := fire tNotifyEnter noArgs m
    some (if r.2.attempted then { r.1 with owedNotif := r.1.owedNotif + 1 } else r.1)
  | .notifyExit =>
    if m.owedNotif = 0 then none else
    some { (fire tNotifyExit noArgs m).1 with owedNotif := m.owedNotif - 1 }
  | .callNew =>
    let c : Call := ⟨m.seq + 1, ID.int (Int.ofNat (m.seq + 1))⟩
    some { m with seq := m.seq + 1, pendingReg := c :: m.pendingReg }
  | .callMarshalFail c =>
    if c ∈ m.pendingReg then
      some (retire { m with pendingReg := m.pendingReg.erase c } (c, c.id))
    else none
  | .callRegister c =>
    if c ∈ m.pendingReg then
      let r := fire tCallRegister (argsCall c) { m with pendingReg := m.pendingReg.erase c }
      if r.2.err.isSome then some (retire r.1 (c, c.id))
      else some { r.1 with pendingWrite := c :: r.1.pendingWrite, registered := c :: r.1.registered }
    else none
  | .callWriteOk c =>
    if c ∈ m.pendingWrite then some { m with pendingWrite := m.pendingWrite.erase c } else none
  | .callWriteFail c =>
    if c ∈ m.pendingWrite then
      some (fire tCallWriteFailed (argsCall c) { m with pendingWrite := m.pendingWrite.erase c }).1
    else none
  | .respond r =>
    if phaseOf m r = some .async then
      let x := fire tLookup (argsID r.id) m
      match x.2.req with
      | some r' => some (setPhase x.1 r' .result)
      | none => some x.1      -- "Request not found": internal error, nothing else happens
    else none
  | .cancel id => some (fire tLookup (argsID id) m).1
  | .wait => if m.st.done then some (fire tWait noArgs m).1 else none
  | .close => some (fire tClose noArgs m).1
  | .recvResponse id =>
    if m.st.reading then some (fire tResponse (argsID id) m).1 else none
  | .readerExit =>
    if m.st.reading then some (fire tReaderExit noArgs m).1 else none
  | .accept id =>
    if m.st.reading then
      let r : Req := ⟨m.nextReq, id⟩
      let x := fire tAccept (argsReq r) { m with nextReq := m.nextReq + 1 }
      let r' : Req := if x.2.clearReqID then { r with id := noID } else r
      some { x.1 with reqs := (r', if x.2.err.isSome then Phase.result else Phase.accepted) :: x.1.reqs }
    else none
  | .preemptAsync r =>
    if phaseOf m r = some .accepted && r.isCall then some (setPhase m r .async) else none
  | .preemptDone r =>
    if phaseOf m r = some .accepted then some (setPhase m r .result) else none
  | .preemptLeak r =>
    if phaseOf m r = some .accepted && !r.isCall then some (setPhase m r .leaked) else none
  | .enqueue r =>
    if phaseOf m r = some .accepted then
      let x := fire tEnqueue (argsReq r) m
      some (setPhase x.1 r (if x.2.err.isSome then .result else .queued))
    else none
  | .dequeue =>
    if m.st.handlerRunning then
      let x := fire tDequeue noArgs m
      match x.2.req with
      | some r => some (setPhase x.1 r .handling)
      | none => some x.1
    else none
  | .handleCancelled r =>
    if phaseOf m r = some .handling then
      some (setPhase (fire tHandleCancelled noArgs m).1 r .result)
    else none
  | .handleDone r =>
    if phaseOf m r = some .handling then some (setPhase m r .result) else none
  | .handleAsyncResp r =>
    if phaseOf m r = some .handling && r.isCall then some (setPhase m r .async) else none
  | .handleLeak r =>
    if phaseOf m r = some .handling && !r.isCall then some (setPhase m r .leaked) else none
  | .prDelete r =>
    if phaseOf m r = some .result && r.isCall then
      let x := (fire tPrDelete (argsReq r) m).1
      some { setPhase x r .writing with answered := r :: x.answered }
    else none
  | .prFinish r =>
    if phaseOf m r = some .writing || (phaseOf m r = some .result && !r.isCall) then
      some (dropReq (fire tPrFinish noArgs m).1 r)
    else none
  | .writeFail => some (fire tWriteFailed noArgs m).1

/-- Run a list of actions (`none` if one of them is not enabled). -/
def run : List Act → M → Option M
  | [], m => some m
  | a :: as, m => (step a m).bind (run as)

/-- States reachable from a fresh connection by any interleaving of any number of actions. -/
inductive Reachable : M → Prop where
  | init : Reachable M.init
  | step {m m' : M} (a : Act) : Reachable m → step a m = some m' → Reachable m'

end GopModel.InFlight
