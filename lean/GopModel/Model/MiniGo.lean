/-
M4 (1/4) — MiniGo: semantic domain, Go-core combinators and the syntax tree.

INTERFACE (for C01, C02, C03, C09, C10, C11 …)
* `Ty`        the few Go types needed for zero values / literal printing.
* `Val`       run-time values: int (unbounded `Int`; generators stay inside ±2³¹), bool, string,
              list (slice, by value), map (association list kept SORTED by key; keys int/str/bool),
              nilMap (zero value of a map type; writing into it panics), tuple (multi-value result),
              err msg (`errors.New(msg)`), frame inner code fn (`*errors.Frame` of qiniu/x/errors:
              wraps `inner`; `Unwrap` gives `inner`; file/line are not modelled), rt kind (a Go
              runtime-error panic value: "index" | "divide" | "nilmap"), nil.
* `Event`/`Trace`   every evaluation of `probe id e` appends `(id, value of e)`: the observable
              trace.  A generated program prints one line per event, so stdout = trace.
* `Env`       stack of frames (innermost first); `Env.get/set/declare`.
* `Res α`     outcome of evaluating something: `ok a env tr | panic v tr | ret vs env tr |
              timeout tr | stuck`.  `ret` is a `return` in flight (also raised by the in-place
              meaning of `f()?`); `stuck` is a model-level type error (an ill-typed program: the
              real compilers reject it; it is never compared with real behaviour).
* `Sem α := Env → Trace → Res α` and the Go-core combinators `inFrame`, `rangeLoop`, `condLoop`,
              `closureSem`, `binop`, `appendVals`, `entriesOf`, `Ty.zero` …
* `Expr`/`Stmt`/`Phrase`/`Filter`/`KV`   ONE syntax tree for Go and XGo.  Lean inductives are
              closed, so the XGo-only constructors live in the same types; they are listed under
              "XGo sugar" below and `Expr.isGo`/`Stmt.isGo` (Model/Lower.lean) is the predicate
              "contains none of them" = MiniGo.  The interpreter is in Model/MiniXGo.lean
              (`evalE`, `evalS`, `evalFn`, `evalProg`; `evalGo`/`specEval` are its two readings).

Modelling decisions (what differs from real Go, all outside the generators' reach):
* ints are unbounded; slices are values (no aliasing; no element assignment);
* `range` over a map iterates in sorted key order (Go: unspecified order; the harness only
  compares order-insensitive observations for maps with ≥ 2 entries);
* loop variables and the loop body share one frame; no closures capture variables except
  immediately-invoked ones, so per-iteration vs shared loop variables cannot be told apart;
* `recover`, `defer`, goroutines, pointers, structs, labels/goto are not modelled (gogen's
  `goto _autoGo_n; _autoGo_n:` at the end of an inlined `?` block is a jump to the next statement).
Core Lean only.
-/
namespace GopModel.Mini

inductive Ty where
  | int | bool | str | err
  | list (e : Ty)
  | map (k v : Ty)
  deriving DecidableEq, Repr, Inhabited

inductive Val where
  | int (n : Int)
  | bool (b : Bool)
  | str (s : String)
  | list (vs : List Val)
  | map (kvs : List (Val × Val))
  | nilMap
  | tuple (vs : List Val)
  | err (msg : String)
  | frame (inner : Val) (code fn : String)
  | rt (kind : String)
  | nil
  deriving Repr, Inhabited

/-- Zero value of a type (`ReturnErr` zero literals, named results, missing map keys). -/
def Ty.zero : Ty → Val
  | .int => .int 0
  | .bool => .bool false
  | .str => .str ""
  | .err => .nil
  | .list _ => .list []
  | .map _ _ => .nilMap

abbrev Event := Nat × Val
abbrev Trace := List Event          -- oldest first
abbrev Frame := List (String × Val)
abbrev Env := List Frame            -- innermost first

def Frame.get (f : Frame) (x : String) : Option Val := f.lookup x

def Frame.set : Frame → String → Val → Frame
  | [], _, _ => []
  | (y, w) :: r, x, v => if y = x then (y, v) :: r else (y, w) :: Frame.set r x v

def Frame.has (f : Frame) (x : String) : Bool := (f.lookup x).isSome

def Env.get : Env → String → Option Val
  | [], _ => none
  | f :: r, x => match f.get x with
    | some v => some v
    | none => Env.get r x

/-- Assignment `x = v`: updates the innermost frame that binds `x`; `_` discards. -/
def Env.set : Env → String → Val → Option Env
  | [], _, _ => none
  | f :: r, x, v =>
    if f.has x then some (f.set x v :: r)
    else match Env.set r x v with
      | some r' => some (f :: r')
      | none => none

/-- `x := v` / `var x T`: (re)binds `x` in the innermost frame. -/
def Env.declare : Env → String → Val → Option Env
  | [], _, _ => none
  | f :: r, x, v => if f.has x then some (f.set x v :: r) else some (((x, v) :: f) :: r)

inductive Res (α : Type) where
  | ok (a : α) (env : Env) (tr : Trace)
  | panic (v : Val) (tr : Trace)
  | ret (vs : List Val) (env : Env) (tr : Trace)
  | timeout (tr : Trace)
  | stuck
  deriving Inhabited

abbrev Sem (α : Type) := Env → Trace → Res α

def Res.bind : Res α → (α → Sem β) → Res β
  | .ok a env tr, f => f a env tr
  | .panic v tr, _ => .panic v tr
  | .ret vs env tr, _ => .ret vs env tr
  | .timeout tr, _ => .timeout tr
  | .stuck, _ => .stuck

/-- Drop the innermost frame of the resulting environment (leaving a scope). -/
def Res.pop : Res α → Res α
  | .ok a env tr => .ok a env.tail tr
  | .ret vs env tr => .ret vs env.tail tr
  | r => r

/-- Run `m` in a new innermost scope initialised with `f`. -/
def inFrame (f : Frame) (m : Sem α) : Sem α := fun env tr => (m (f :: env) tr).pop

def pack : List Val → Val
  | [v] => v
  | vs => .tuple vs

def unpack : Val → List Val
  | .tuple vs => vs
  | v => [v]

/-! ### keys and maps -/

def keyLt : Val → Val → Option Bool
  | .int a, .int b => some (decide (a < b))
  | .str a, .str b => some (decide (a < b))
  | .bool a, .bool b => some (!a && b)
  | _, _ => none

def keyEq : Val → Val → Option Bool
  | .int a, .int b => some (decide (a = b))
  | .str a, .str b => some (decide (a = b))
  | .bool a, .bool b => some (a == b)
  | _, _ => none

/-- Insert/overwrite in a key-sorted association list; `none` = unusable key (ill-typed). -/
def mapInsert : List (Val × Val) → Val → Val → Option (List (Val × Val))
  | [], k, v => match keyEq k k with
    | some _ => some [(k, v)]
    | none => none
  | (k', v') :: r, k, v =>
    match keyEq k' k, keyLt k k' with
    | some true, _ => some ((k', v) :: r)
    | some false, some true => some ((k, v) :: (k', v') :: r)
    | some false, some false => match mapInsert r k v with
      | some r' => some ((k', v') :: r')
      | none => none
    | _, _ => none

def mapLookup : List (Val × Val) → Val → Option (Option Val)
  | [], k => match keyEq k k with
    | some _ => some none
    | none => none
  | (k', v') :: r, k => match keyEq k' k with
    | some true => some (some v')
    | some false => mapLookup r k
    | none => none

def indexEntries : Nat → List Val → List (Val × Val)
  | _, [] => []
  | i, v :: r => (.int i, v) :: indexEntries (i + 1) r

/-- What `range c` enumerates: (index, element) of a slice, (key, value) of a map in key order. -/
def entriesOf : Val → Option (List (Val × Val))
  | .list vs => some (indexEntries 0 vs)
  | .map kvs => some kvs
  | .nilMap => some []
  | _ => none

/-! ### operators -/

inductive BinOp where
  | add | sub | mul | rem | eq | ne | lt | le | gt | ge | land | lor
  deriving DecidableEq, Repr, Inhabited

inductive Prim where          -- result of a strict operator
  | val (v : Val)
  | panic (v : Val)
  | stuck

/-- Strict binary operators (`&&`/`||` are short-circuit and handled by the interpreter). -/
def binop : BinOp → Val → Val → Prim
  | .add, .int a, .int b => .val (.int (a + b))
  | .add, .str a, .str b => .val (.str (a ++ b))
  | .sub, .int a, .int b => .val (.int (a - b))
  | .mul, .int a, .int b => .val (.int (a * b))
  | .rem, .int a, .int b => if b = 0 then .panic (.rt "divide") else .val (.int (Int.tmod a b))
  | .eq, a, b => match keyEq a b with
    | some r => .val (.bool r)
    | none => .stuck
  | .ne, a, b => match keyEq a b with
    | some r => .val (.bool (!r))
    | none => .stuck
  | .lt, .int a, .int b => .val (.bool (decide (a < b)))
  | .le, .int a, .int b => .val (.bool (decide (a ≤ b)))
  | .gt, .int a, .int b => .val (.bool (decide (a > b)))
  | .ge, .int a, .int b => .val (.bool (decide (a ≥ b)))
  | .lt, .str a, .str b => .val (.bool (decide (a < b)))
  | .gt, .str a, .str b => .val (.bool (decide (b < a)))
  | _, _, _ => .stuck

def Prim.toRes : Prim → Sem Val
  | .val v => fun env tr => .ok v env tr
  | .panic v => fun _ tr => .panic v tr
  | .stuck => fun _ _ => .stuck

/-- `append(a, vs...)`. -/
def appendVals : Val → List Val → Option Val
  | .list a, vs => some (.list (a ++ vs))
  | _, _ => none

def indexVal (vt : Ty) : Val → Val → Prim
  | .list vs, .int i =>
    if i < 0 then .panic (.rt "index")
    else match vs[i.toNat]? with
      | some v => .val v
      | none => .panic (.rt "index")
  | .map kvs, k => match mapLookup kvs k with
    | some (some v) => .val v
    | some none => .val vt.zero
    | none => .stuck
  | .nilMap, k => match keyEq k k with
    | some _ => .val vt.zero
    | none => .stuck
  | _, _ => .stuck

def lenVal : Val → Option Val
  | .list vs => some (.int vs.length)
  | .map kvs => some (.int kvs.length)
  | .nilMap => some (.int 0)
  | .str s => some (.int s.utf8ByteSize)
  | _ => none

/-! ### Go-core control combinators (on semantic functions) -/

/-- Bind the loop variables of one iteration (`_`/absent names bind nothing). -/
def loopFrame (key : Option String) (val : Option String) (k v : Val) : Frame :=
  (match key with
   | some x => if x = "_" then [] else [(x, k)]
   | none => []) ++
  (match val with
   | some x => if x = "_" then [] else [(x, v)]
   | none => [])

/-- `for key, val := range <entries> { body }`. -/
def rangeLoop (key val : Option String) (body : Sem Unit) : List (Val × Val) → Sem Unit
  | [], env, tr => .ok () env tr
  | (k, v) :: es, env, tr =>
    (inFrame (loopFrame key val k v) body env tr).bind fun _ => rangeLoop key val body es

/-- `for ; cond; post { body }` with an iteration budget. -/
def condLoop (cond : Sem Val) (post body : Sem Unit) : Nat → Sem Unit
  | 0, _, tr => .timeout tr
  | n + 1, env, tr =>
    (cond env tr).bind fun c env1 tr1 =>
      match c with
      | .bool true => (inFrame [] body env1 tr1).bind fun _ env2 tr2 =>
          (post env2 tr2).bind fun _ => condLoop cond post body n
      | .bool false => .ok () env1 tr1
      | _ => .stuck

def zeroFrame (rs : List (String × Ty)) : Frame := rs.map fun r => (r.1, r.2.zero)

def readResults (rs : List (String × Ty)) (f : Frame) : Option (List Val) :=
  rs.mapM fun r => f.get r.1

/-- `func() (named results) { body }()` — an immediately invoked closure: a scope holding the
named results (zero-initialised) that also ends a `return`. -/
def closureSem (rs : List (String × Ty)) (body : Sem Unit) : Sem Val := fun env tr =>
  match body (zeroFrame rs :: env) tr with
  | .ok _ env' tr' => if rs.isEmpty then .ok (.tuple []) env'.tail tr' else .stuck
  | .ret [] env' tr' =>
    (match env' with
     | f :: rest => match readResults rs f with
       | some vs => .ok (pack vs) rest tr'
       | none => .stuck
     | [] => .stuck)
  | .ret vs env' tr' => if vs.length = rs.length then .ok (pack vs) env'.tail tr' else .stuck
  | .panic v tr' => .panic v tr'
  | .timeout tr' => .timeout tr'
  | .stuck => .stuck

/-- Result of calling a named function. -/
inductive CallRes where
  | vals (vs : List Val) (tr : Trace)
  | panic (v : Val) (tr : Trace)
  | timeout (tr : Trace)
  | stuck

def CallRes.toRes : CallRes → Env → Res Val
  | .vals vs tr, env => .ok (pack vs) env tr
  | .panic v tr, _ => .panic v tr
  | .timeout tr, _ => .timeout tr
  | .stuck, _ => .stuck

/-- Multi-assignment helper: values for `n` targets from the evaluated right-hand sides. -/
def spreadVals (n : Nat) (vs : List Val) : Option (List Val) :=
  if vs.length = n then some vs
  else match vs with
    | [.tuple ws] => if ws.length = n then some ws else none
    | _ => none

def declareAll : List String → List Val → Env → Option Env
  | [], [], env => some env
  | x :: xs, v :: vs, env =>
    if x = "_" then declareAll xs vs env
    else match env.declare x v with
      | some env' => declareAll xs vs env'
      | none => none
  | _, _, _ => none

def setAll : List String → List Val → Env → Option Env
  | [], [], env => some env
  | x :: xs, v :: vs, env =>
    if x = "_" then setAll xs vs env
    else match env.set x v with
      | some env' => setAll xs vs env'
      | none => none
  | _, _, _ => none

/-! ### syntax -/

mutual
inductive Expr where
  -- Go core
  | lit (v : Val)                        -- int / bool / string literal, `nil`, `errors.New("msg")`
  | zero (t : Ty)                        -- zero literal of a type (0, "", false, nil)
  | var (x : String)
  | bin (op : BinOp) (a b : Expr)
  | not (a : Expr)
  | listLit (t : Ty) (es : List Expr)    -- `[]T{e1, …}`
  | mapLit (k v : Ty) (kvs : List KV)    -- `map[K]V{k1: v1, …}`
  | index (vt : Ty) (a i : Expr)         -- `a[i]` (`vt`: element type, for the zero of a missing key)
  | len (a : Expr)
  | append (a : Expr) (vs : List Expr) (spread : Bool)   -- `append(a, v1, …)` / `append(a, v...)`
  | call (f : String) (args : List Expr)
  | probe (id : Nat) (e : Expr)          -- `probe(id, e)`: logs `(id, value)` and yields the value
  | closure (rs : List (String × Ty)) (body : List Stmt)  -- `func() (rs) { body }()`
  | newFrame (e : Expr) (code fn : String)  -- `errors.NewFrame(e, code, file, line, fn)`
  | neNil (e : Expr)                     -- `e != nil`
  -- XGo sugar
  | sliceLit (t : Ty) (es : List Expr)   -- `[e1, …]`
  | xmapLit (k v : Ty) (kvs : List KV)   -- `{k1: v1, …}`
  | listCompr (t : Ty) (elt : Expr) (fors : List Phrase)        -- `[elt for … ]`, `t` = type of elt
  | mapCompr (kt vt : Ty) (k v : Expr) (fors : List Phrase)     -- `{k: v for …}`
  | selCompr (t : Ty) (elt : Expr) (fors : List Phrase) (two : Bool) -- `{elt for …}` (one/two values)
  | existsCompr (fors : List Phrase)                            -- `{for …}`
  | errBang (code f : String) (args : List Expr) (tys : List Ty)        -- `f(args)!`
  | errQ (code f : String) (args : List Expr) (tys : List Ty)           -- `f(args)?`
  | errDflt (f : String) (args : List Expr) (t : Ty) (d : Expr)         -- `f(args)?:d`
  | cmdCall (f : String) (args : List Expr)                             -- `f a1, a2`
inductive KV where
  | mk (k v : Expr)
/-- `for key, val <- x <filter>`; comprehensions list their phrases in SOURCE order. -/
inductive Phrase where
  | mk (key : Option String) (val : String) (x : Expr) (filt : Filter)
inductive Filter where
  | none
  | cond (c : Expr)                              -- `if c`
  | initCond (x : String) (i : Expr) (c : Expr)  -- `if x := i; c`
inductive Stmt where
  -- Go core
  | define (xs : List String) (es : List Expr)   -- `x1, … := e1, …` (or one multi-value expression)
  | assign (xs : List String) (es : List Expr)   -- `x1, … = e1, …`
  | setIndex (m : String) (k v : Expr)           -- `m[k] = v` (maps)
  | varDecl (x : String) (t : Ty)                -- `var x T`
  | expr (e : Expr)
  | ifS (filt : Filter) (thn els : List Stmt)    -- `if [x := i;] c { thn } else { els }` (`Filter.none` is not Go)
  | forRange (key val : Option String) (x : Expr) (body : List Stmt)
  | forC (init : List Stmt) (cond : Expr) (post : List Stmt) (body : List Stmt)
  | ret (es : List Expr)
  | panic (e : Expr)
  | block (ss : List Stmt)
  -- XGo sugar
  | send (a : String) (vs : List Expr) (spread : Bool)      -- `a <- v1, …` / `a <- v...`
  | forIn (key : Option String) (val : String) (x : Expr) (filt : Filter) (body : List Stmt)  -- `for key, val <- x [if c] { body }`
end

structure FuncDecl where
  name : String
  params : List (String × Ty)
  results : List (String × Ty)     -- name "" = unnamed
  body : List Stmt

/-- A program: named functions and the name of the parameterless entry function. -/
structure Prog where
  funcs : List FuncDecl
  entry : String

end GopModel.Mini
