/-
C12 kernel (M5) — Go block scoping for a small program model.

A function body (or a whole file) is linearised into a flat stream of scope events:
  `decl n p`  the identifier `n` at position `p` declares a new entity whose scope STARTS HERE
              (`:=`, `var`/`const` specs after their right-hand sides, parameters, range variables,
               the per-clause variable of a type switch, local type names, func names, imports);
  `use n p`   the identifier `n` at position `p` denotes an entity (lexical lookup);
  `open` / `close`  entry to / exit from a block (function, `{}`, if/for/switch headers, clauses,
              function literals).
The order of events encodes the Go spec's "the scope begins after the ShortVarDecl / ValueSpec":
the linearisation (harness/cmd/c12, trusted) emits the uses of a right-hand side before the
declarations of the left-hand side.

`resolve` keeps a stack of frames; the bottom frame is the package block (all package-level
declarations and the file's imports, visible regardless of order).  A `use` that finds no binding
denotes a universe object (`none`).  An unbalanced `close` is an explicit error (`unbalanced`).
Labels, struct fields and methods (selected, not looked up lexically) are outside this model.
Core Lean only.
-/
namespace GopModel.Scope

abbrev Name := String
abbrev Pos := Nat

inductive Tok where
  | decl (n : Name) (p : Pos)
  | use (n : Name) (p : Pos)
  | «open»
  | close
  deriving Repr, DecidableEq

abbrev Frame := List (Name × Pos)      -- most recent declaration first

/-- Innermost frame first; the last frame is the package block. -/
abbrev Stack := List Frame

def lookupFrame (n : Name) : Frame → Option Pos
  | [] => none
  | (m, p) :: t => if m = n then some p else lookupFrame n t

/-- First binding of `n`, innermost frame first, latest declaration first within a frame. -/
def lookup (n : Name) : Stack → Option Pos
  | [] => none
  | f :: fs => match lookupFrame n f with
    | some p => some p
    | none => lookup n fs

structure Res where
  uses : List (Pos × Option Pos)   -- (position of the use, position of its declaration / none = universe), most recent first
  defs : List (Pos × Pos)          -- (position of the declaring identifier, position of the declared entity)
  deriving Repr, DecidableEq

inductive Outcome where
  | ok (r : Res) (stack : Stack)
  | unbalanced
  deriving Repr, DecidableEq

/-- Process the events with the given stack. -/
def run : List Tok → Stack → Res → Outcome
  | [], st, r => .ok r st
  | .decl n p :: t, f :: fs, r => run t (((n, p) :: f) :: fs) { r with defs := (p, p) :: r.defs }
  | .decl _ _ :: _, [], _ => .unbalanced
  | .use n p :: t, st, r => run t st { r with uses := (p, lookup n st) :: r.uses }
  | .open :: t, st, r => run t ([] :: st) r
  | .close :: t, _ :: f :: fs, r => run t (f :: fs) r
  | .close :: _, _, _ => .unbalanced      -- would leave the package block

/-- `resolve pkg toks`: `pkg` = the package block. -/
def resolve (pkg : Frame) (toks : List Tok) : Outcome := run toks [pkg] ⟨[], []⟩

def declPositions : List Tok → List Pos
  | [] => []
  | .decl _ p :: t => p :: declPositions t
  | _ :: t => declPositions t

def usePositions : List Tok → List Pos
  | [] => []
  | .use _ p :: t => p :: usePositions t
  | _ :: t => usePositions t

/-- What cl + gogen record TODAY for a declaration that introduces several names at once
(`a, b := …`, `var a, b = …`: `DefineVarStart(expr.Pos(), names...)`, `NewVarDefs.New(Names[0].Pos(), …)`
take ONE position for all names; range / for-phrase variables get no position at all, modelled as 0).
Kept next to the faithful `run` (which gives every name its own position) because the two differ:
see `C12_impl_group_position_witness` and known_findings.txt. -/
def implDefsOfGroup (ids : List (Name × Pos)) : List (Pos × Pos) :=
  match ids with
  | [] => []
  | (_, p0) :: _ => ids.map (fun e => (e.2, p0))

/-- Well-nested event streams. -/
inductive Balanced : List Tok → Prop where
  | nil : Balanced []
  | decl (n p t) : Balanced t → Balanced (.decl n p :: t)
  | use (n p t) : Balanced t → Balanced (.use n p :: t)
  | block (b t) : Balanced b → Balanced t → Balanced (.open :: b ++ .close :: t)

end GopModel.Scope
