/-
Model of /repo/tpl/cl/compile.go (NewEx, compileExpr, tokenExpr, checkToken, onConflictDefault),
of tpl/token (Token.Len, ForEach) and of the parts of tpl/matcher that `NewEx` runs
(`First` of every matcher, `Choices.CheckConflicts`, `Var.First` with its RecursiveError panic),
plus the composition `tpl.New = parse + compile`.

Outcomes the Go code can have are explicit:
* `none` of `compileExpr`/… and `NewRes.panic` = a Go panic that escapes `NewEx`
  (index out of range in `Token.Len`/`ForEach`, slice bounds in `lit[1:len(lit)-1]`, a method call on
  the nil `ast.Expr`, `Items[0]`/`Options[0]` of an empty Sequence/Choice in `Pos()`);
* a `RecursiveError` panic is recovered by `NewEx` and becomes an error (modelled as such);
* `strconv.UnquoteChar` / `strconv.Unquote` are not modelled: their results are the parameter `U`
  (theorems hold for every `U`; the driver receives the real results for every literal).
Core Lean only.
-/
import GopModel.Model.TplParse
namespace GopModel.Tpl
open GopModel.Generated.TplToken (tokens lenGuard stringGuard identClasses operator_beg operator_end)

/-- result of `strconv.UnquoteChar(lit[1:len(lit)-1], '\'')` -/
inductive CharUnq where
  | err
  | ok (value : Nat) (multibyte : Bool) (tailEmpty : Bool)
  deriving Repr, DecidableEq

/-- the real `strconv` results, per literal source text -/
structure Unq where
  char : Bytes → CharUnq
  str : Bytes → Option Bytes         -- strconv.Unquote(lit): none = error

/-- matchers built by the compiler (tpl/matcher constructors) -/
inductive G where
  | tok (t : Nat)                    -- matcher.Token
  | lit (t : Nat) (s : Bytes)        -- matcher.Literal
  | str (quote : Nat)                -- matcher.String
  | ws                               -- matcher.WhiteSpace
  | tru                              -- matcher.True
  | seq (items : List G)             -- matcher.Sequence
  | choice (opts : List G)           -- matcher.Choice
  | rep0 (g : G)
  | rep1 (g : G)
  | rep01 (g : G)
  | adjoin (a b : G)
  | var (name : Bytes)               -- the *matcher.Var of rule `name`
  deriving Repr

inductive CErr where
  | dupRule (name : Bytes)           -- "duplicate rule `%s`, previous declaration at %v"
  | undefined (name : Bytes)         -- "`%s` is undefined"
  | invalidLit (lit : Bytes)         -- "invalid literal %s[: %v]"
  | invalidTok (lit : Bytes)         -- "invalid token: %s"
  | invalidOp                        -- "invalid token %v" (operator of a Unary/BinaryExpr)
  | assigned (name : Bytes)          -- ErrVarAssigned at the rule's name
  | recursive (name : Bytes)         -- RecursiveError, recovered
  deriving Repr, DecidableEq

/-- `context`: errors (most recent first) and the recorded choices (most recent first), each with the
matchers of its options and the option expressions (for `c.Options[i].Pos()`). -/
structure Ctx where
  errs : List CErr
  choices : List (List G × List Expr)

def Ctx.addErr (c : Ctx) (e : CErr) : Ctx := { c with errs := e :: c.errs }

/-! ### tpl/token -/

/-- `Token.Len`; `none` = index out of range. -/
def tokLen (tok : Nat) : Option Nat :=
  if lenGuard tok then
    match tokens[tok]? with
    | some s => some s.length
    | none => none
  else some 0

/-- `Token.String` only needs to be panic free here: `none` = index out of range. -/
def tokStringOk (tok : Nat) : Option Unit :=
  if stringGuard tok then
    match tokens[tok]? with
    | some _ => some ()
    | none => none
  else some ()

/-- `ForEach(0, f)` with the callback of `checkToken`: scan `from .. operator_end-1`;
outer `none` = index out of range, inner = the token found. -/
def forEachFind (v : Bytes) : Nat → Nat → Option (Option Nat)
  | 0, _ => some none
  | n + 1, «from» =>
    match tokens[«from»]? with
    | none => none
    | some s => if s ≠ [] ∧ s = v then some (some «from») else forEachFind v n («from» + 1)

/-- `checkToken` -/
def checkToken (v : Bytes) : Option (Option Nat) :=
  match v with
  | [b] => some (some b.toNat)
  | _ => forEachFind v (operator_end - (operator_beg + 1)) (operator_beg + 1)

/-! ### ast positions: only whether `Pos()` panics matters -/

/-- `e.Pos()` returns (true) or panics (false). -/
def posOk : Expr → Bool
  | .ident _ => true
  | .lit _ _ => true
  | .seq [] => false
  | .seq (e :: _) => posOk e
  | .choice [] => false
  | .choice (e :: _) => posOk e
  | .unary _ _ => true
  | .binary _ x _ => posOk x
  | .nil => false

/-! ### compileExpr -/

def isLetterByte (c : UInt8) : Bool :=
  (0x61 ≤ c && c ≤ 0x7a) || (0x41 ≤ c && c ≤ 0x5a) || c = 0x5f

def lookupClass (name : Bytes) : List (Bytes × Nat) → Option Nat
  | [] => none
  | (n, t) :: rest => if n = name then some t else lookupClass name rest

def nameRAWSTRING : Bytes := [82, 65, 87, 83, 84, 82, 73, 78, 71]
def nameQSTRING : Bytes := [81, 83, 84, 82, 73, 78, 71]
def nameSPACE : Bytes := [83, 80, 65, 67, 69]

/-- `tokenExpr` -/
def tokenExpr (tok : Nat) (lit : Bytes) (c : Ctx) : Option (Option G × Ctx) :=
  match tokLen tok with
  | none => none
  | some n => if n > 0 then some (some (.tok tok), c) else some (none, c.addErr (.invalidTok lit))

/-- the `*ast.BasicLit` case -/
def compileLit (U : Unq) (kind : Nat) (lit : Bytes) (c : Ctx) : Option (Option G × Ctx) :=
  if kind = T.CHAR then
    if lit.length < 2 then none                     -- lit[1:len(lit)-1]
    else match U.char lit with
      | .err => some (none, c.addErr (.invalidLit lit))
      | .ok v multibyte tailEmpty =>
        if !tailEmpty || multibyte then some (none, c.addErr (.invalidLit lit))
        else tokenExpr v lit c
  else if kind = T.STRING then
    match U.str lit with
    | none => some (none, c.addErr (.invalidLit lit))
    | some [] => some (some .tru, c)
    | some (b :: rest) =>
      if isLetterByte b then some (some (.lit T.IDENT (b :: rest)), c)
      else match checkToken (b :: rest) with
        | none => none
        | some (some t) => tokenExpr t lit c
        | some none => some (none, c.addErr (.invalidLit lit))
  else some (none, c.addErr (.invalidLit lit))

/-- the `*ast.Ident` case -/
def compileIdent (rules : List Bytes) (name : Bytes) (c : Ctx) : Option G × Ctx :=
  if name ∈ rules then (some (.var name), c)
  else match lookupClass name identClasses with
    | some t => (some (.tok t), c)
    | none =>
      if name = nameRAWSTRING then (some (.str 96), c)
      else if name = nameQSTRING then (some (.str 34), c)
      else if name = nameSPACE then (some .ws, c)
      else (some (.str 0), c.addErr (.undefined name))

mutual
/-- `compileExpr`; outer `none` = panic, inner `none` = `(nil, false)`. -/
def compileExpr (rules : List Bytes) (U : Unq) : Expr → Ctx → Option (Option G × Ctx)
  | .ident name, c => some (compileIdent rules name c)
  | .lit kind v, c => compileLit U kind v c
  | .seq items, c =>
    match compileList rules U items c with
    | none => none
    | some (none, c1) => some (none, c1)
    | some (some gs, c1) => some (some (.seq gs), c1)
  | .choice opts, c =>
    match compileList rules U opts c with
    | none => none
    | some (none, c1) => some (none, c1)
    | some (some gs, c1) => some (some (.choice gs), { c1 with choices := (gs, opts) :: c1.choices })
  | .unary op x, c =>
    match compileExpr rules U x c with
    | none => none
    | some (none, c1) => some (none, c1)
    | some (some g, c1) =>
      if op = T.QUESTION then some (some (.rep01 g), c1)
      else if op = T.MUL then some (some (.rep0 g), c1)
      else if op = T.ADD then some (some (.rep1 g), c1)
      else some (none, c1.addErr .invalidOp)          -- expr.Pos() = OpPos
  | .binary op x y, c =>
    match compileExpr rules U x c with
    | none => none
    | some (gx, c1) =>
      match compileExpr rules U y c1 with
      | none => none
      | some (gy, c2) =>
        match gx, gy with
        | some a, some b =>
          if op = T.REM then some (some (.seq [a, .rep0 (.seq [b, a])]), c2)   -- matcher.List
          else if op = T.INC then some (some (.adjoin a b), c2)
          else if posOk x then some (none, c2.addErr .invalidOp)               -- expr.Pos() = X.Pos()
          else none
        | _, _ => some (none, c2)
  | .nil, _ => none                                    -- default: expr.Pos() on a nil interface
/-- the loops over `expr.Items` / `expr.Options`: stop at the first failure -/
def compileList (rules : List Bytes) (U : Unq) : List Expr → Ctx → Option (Option (List G) × Ctx)
  | [], c => some (some [], c)
  | e :: rest, c =>
    match compileExpr rules U e c with
    | none => none
    | some (none, c1) => some (none, c1)
    | some (some g, c1) =>
      match compileList rules U rest c1 with
      | none => none
      | some (none, c2) => some (none, c2)
      | some (some gs, c2) => some (some (g :: gs), c2)
end

/-! ### tpl/matcher: First, CheckConflicts -/

inductive FItem where
  | tok (t : Nat)
  | mt (t : Nat) (lit : Bytes)                -- *MatchToken
  deriving Repr, DecidableEq

inductive FRes where
  | ok (first : List FItem) (mayEmpty : Bool)
  | recursive (name : Bytes)                  -- panic(RecursiveError{p})
  | oof                                       -- model fuel exhausted (never: `C27_first_fuel`)
  deriving Repr

mutual
/-- `First(in)` of every matcher except Var, whose case is `onVar`. -/
def firstG (onVar : Bytes → List FItem → FRes) : G → List FItem → FRes
  | .tok t, inp => .ok (inp ++ [.tok t]) false
  | .lit t s, inp => .ok (inp ++ [.mt t s]) false
  | .str _, inp => .ok (inp ++ [.tok T.STRING]) false
  | .ws, inp => .ok inp true
  | .tru, inp => .ok inp true
  | .seq items, inp => firstSeq onVar items inp
  | .choice opts, inp => firstChoice onVar opts inp false
  | .rep0 g, inp =>
    match firstG onVar g inp with
    | .ok f _ => .ok f true
    | r => r
  | .rep1 g, inp => firstG onVar g inp
  | .rep01 g, inp =>
    match firstG onVar g inp with
    | .ok f _ => .ok f true
    | r => r
  | .adjoin a _, inp =>
    match firstG onVar a inp with
    | .ok f _ => .ok f false
    | r => r
  | .var name, inp => onVar name inp
/-- `gSequence.First`: stop after the first item that cannot be empty; `(in, false)` for no items -/
def firstSeq (onVar : Bytes → List FItem → FRes) : List G → List FItem → FRes
  | [], inp => .ok inp false
  | g :: rest, inp =>
    match firstG onVar g inp with
    | .ok f true => (match rest with
                     | [] => .ok f true
                     | _ => firstSeq onVar rest f)
    | r => r
/-- `Choices.First` -/
def firstChoice (onVar : Bytes → List FItem → FRes) : List G → List FItem → Bool → FRes
  | [], inp, me => .ok inp me
  | g :: rest, inp, me =>
    match firstG onVar g inp with
    | .ok f me1 => firstChoice onVar rest f (me || me1)
    | r => r
end

/-- rules whose Var is assigned (`Elem != nil`), in assignment order -/
abbrev Avail := List (Bytes × G)

def Avail.find (a : Avail) (name : Bytes) : Option G :=
  match a with
  | [] => none
  | (n, g) :: rest => if n = name then some g else Avail.find rest name

def Avail.remove (a : Avail) (name : Bytes) : Avail :=
  match a with
  | [] => []
  | (n, g) :: rest => if n = name then rest else (n, g) :: Avail.remove rest name

/-- `Var.First`: `Elem` is set to nil while the element is visited, so a Var reached again (or never
assigned) panics with RecursiveError. -/
def firstVar : Nat → Avail → Bytes → List FItem → FRes
  | 0, _, _, _ => .oof
  | n + 1, avail, name, inp =>
    match avail.find name with
    | none => .recursive name
    | some g => firstG (firstVar n (avail.remove name)) g inp

def firstTop (avail : Avail) (g : G) : FRes :=
  firstG (firstVar (avail.length + 1) avail) g []

def conflictItem (me : FItem) (next : List FItem) : Bool :=
  match me with
  | .tok t => next.any fun n => match n with
    | .mt t' _ => t' = t
    | .tok t' => t' = t
  | .mt t l => next.any fun n => match n with
    | .mt t' l' => t' = t && l' = l
    | .tok _ => false

def hasConflict (me next : List FItem) : Bool := me.any fun m => conflictItem m next

/-- one call of the conflict callback: `conflict(firsts, i, at)` with `firsts[i]`, `firsts[at]` -/
structure Conflict where
  i : Nat
  «at» : Nat
  me : List FItem
  next : List FItem
  deriving Repr, DecidableEq

/-- `conflictWith(me, next, from)` on the already dropped list: index and `next[index]`. -/
def conflictWith (me : List FItem) : List (List FItem) → Nat → Option (Nat × List FItem)
  | [], _ => none
  | n :: rest, i => if hasConflict me n then some (i, n) else conflictWith me rest (i + 1)

inductive FirstsRes where
  | ok (firsts : List (List FItem))
  | recursive (name : Bytes)
  | oof

def firstsOf (avail : Avail) : List G → FirstsRes
  | [] => .ok []
  | g :: rest =>
    match firstTop avail g with
    | .ok f _ =>
      (match firstsOf avail rest with
       | .ok fs => .ok (f :: fs)
       | r => r)
    | .recursive n => .recursive n
    | .oof => .oof

inductive ChoiceRes where
  | ok (conflicts : List Conflict)         -- calls of the callback, in order
  | recursive (name : Bytes)
  | panic                                   -- onConflictDefault: c.Options[i].Pos() panicked
  | oof

/-- the loop `for i, me := range firsts` of CheckConflicts with `onConflictDefault` as callback -/
def conflictLoop : List (List FItem) → List Expr → Nat → Option (List Conflict)
  | [], _, _ => some []
  | me :: rest, optExprs, i =>
    let tailRes := conflictLoop rest optExprs.tail (i + 1)
    match conflictWith me rest (i + 1) with
    | none => tailRes
    | some («at», next) =>
      match optExprs with
      | e :: _ => if posOk e then (tailRes.map fun cs => ⟨i, «at», me, next⟩ :: cs) else none
      | [] => none

def checkChoice (avail : Avail) (opts : List G) (optExprs : List Expr) : ChoiceRes :=
  match firstsOf avail opts with
  | .recursive n => .recursive n
  | .oof => .oof
  | .ok firsts =>
    match conflictLoop firsts optExprs 0 with
    | none => .panic
    | some cs => .ok cs

/-! ### NewEx -/

/-- first loop of NewEx: declare the rules (duplicates are reported and skipped) -/
def declareRules : List Rule → List Bytes → Ctx → List Bytes × Ctx
  | [], names, c => (names, c)
  | r :: rest, names, c =>
    if r.name ∈ names then declareRules rest names (c.addErr (.dupRule r.name))
    else declareRules rest (names ++ [r.name]) c

/-- second loop: compile and assign; `doc` = a rule compiled successfully so far -/
def compileRules (names : List Bytes) (U : Unq) :
    List Rule → Avail → Bool → Ctx → Option (Avail × Bool × Ctx)
  | [], avail, doc, c => some (avail, doc, c)
  | r :: rest, avail, doc, c =>
    match compileExpr names U r.expr c with
    | none => none
    | some (none, c1) => compileRules names U rest avail doc c1
    | some (some g, c1) =>
      match avail.find r.name with
      | some _ => compileRules names U rest avail true (c1.addErr (.assigned r.name))
      | none => compileRules names U rest (avail ++ [(r.name, g)]) true c1

inductive NewRes where
  | parseErr                                         -- tpl.New returns the parser's error(s)
  | ok (conflicts : List Conflict)
  | noDoc                                            -- ErrNoDocFound
  | errs (es : List CErr) (conflicts : List Conflict)
  | panic
  | oof
  deriving Repr

/-- the CheckConflicts loop over `ctx.choices` (in recording order) -/
def checkChoices (avail : Avail) :
    List (List G × List Expr) → List Conflict → ChoiceRes × List Conflict
  | [], acc => (.ok [], acc)
  | (gs, es) :: rest, acc =>
    match checkChoice avail gs es with
    | .ok cs => checkChoices avail rest (acc ++ cs)
    | r => (r, acc)

/-- the last loop: `v.First(nil)` for every declared rule whose Var is assigned -/
def checkRules (avail : Avail) : List Rule → FRes
  | [] => .ok [] false
  | r :: rest =>
    match avail.find r.name with
    | none => checkRules avail rest
    | some _ =>
      match firstVar (avail.length + 1) avail r.name [] with
      | .ok _ _ => checkRules avail rest
      | res => res

/-- `cl.NewEx(conf, fset, file)` with the default conflict callback -/
def newEx (U : Unq) (rules : List Rule) : NewRes :=
  let (names, c0) := declareRules rules [] ⟨[], []⟩
  match compileRules names U rules [] false c0 with
  | none => .panic
  | some (avail, doc, c) =>
    if !doc then .noDoc
    else
      let fin (c : Ctx) (cs : List Conflict) : NewRes :=
        if c.errs.isEmpty then .ok cs else .errs c.errs.reverse cs
      match checkChoices avail c.choices.reverse [] with
      | (.panic, _) => .panic
      | (.oof, _) => .oof
      | (.recursive n, cs) => fin (c.addErr (.recursive n)) cs
      | (.ok _, cs) =>
        match checkRules avail rules with
        | .oof => .oof
        | .recursive n => fin (c.addErr (.recursive n)) cs
        | .ok _ _ => fin c cs

/-- Scanner errors the parser has seen when it stops with `left` of `n` tokens unread: the parser scans
one token ahead, so these are the errors reported while scanning tokens `0 .. n-left` (`scanErrAt` =
for every scanner error the index of the token being scanned, `n` for the final EOF). -/
def scanErrsSeen (scanErrAt : List Nat) (n left : Nat) : Nat := (scanErrAt.filter (· ≤ n - left)).length

/-- `tpl.New(src)` = scan + `parser.ParseFile` + `cl.NewEx`; scanner errors are in the parser's error
list, so the compiler is not run when there is one. -/
def tplNew (U : Unq) (ts : List Tok) (scanErrs : List Nat) : NewRes :=
  match parseFile ts with
  | none => .oof
  | some r =>
    if scanErrsSeen scanErrs ts.length r.left ≠ 0 ∨ r.errs ≠ [] then .parseErr else newEx U r.rules

/-! ### tpl.NewEx = FromFile + Relocate (tpl/tpl.go) -/

/-- dynamic type of an error value returned by `FromFile` (positions and messages are not modelled) -/
inductive GoErr where
  | plain                          -- any type `Relocate` has no case for: cl.ErrNoDocFound, iox.ErrInvalidSource, I/O errors
  | scanError                      -- *scanner.Error
  | scanErrorList                  -- scanner.ErrorList
  | matcherError                   -- *matcher.Error
  | errorsList (items : List GoErr) -- errors.List
  deriving Repr

inductive FromFileRes where
  | ok
  | err (e : GoErr)
  | panic
  | oof
  deriving Repr

/-- `errors.List.ToError()` of the compiler's error list: every element is a *matcher.Error -/
def toError (es : List CErr) : GoErr :=
  match es with
  | [_] => .matcherError
  | _ => .errorsList (es.map fun _ => .matcherError)

/-- `tpl.FromFile(nil, "", src, conf)`: `srcOk = false` means `iox.ReadSourceLocal` failed
(unsupported source type, nil *bytes.Buffer, reader error, unreadable file). `parser.ParseFile`
returns the single error itself, or the sorted list when there are several. -/
def fromFile (U : Unq) (srcOk : Bool) (ts : List Tok) (scanErrs : List Nat) : FromFileRes :=
  if !srcOk then .err .plain
  else match parseFile ts with
    | none => .oof
    | some r =>
      let n := scanErrsSeen scanErrs ts.length r.left + r.errs.length
      if n = 1 then .err .scanError
      else if n ≠ 0 then .err .scanErrorList
      else match newEx U r.rules with
        | .ok _ => .ok
        | .noDoc => .err .plain
        | .errs es _ => .err (toError es)
        | .panic => .panic
        | .oof => .oof
        | .parseErr => .panic           -- `newEx` never returns this

open GopModel.Generated.TplToken (relocateHandled relocateDefaultPanics) in
/-- what `Relocate` does with an error whose dynamic type has no case -/
def relocateDefault (e : GoErr) : Option GoErr := if relocateDefaultPanics then none else some e

open GopModel.Generated.TplToken (relocateHandled relocateDefaultPanics) in
mutual
/-- `tpl.Relocate`; `none` = panic. The case list and the default clause are regenerated from tpl.go. -/
def relocate : GoErr → Option GoErr
  | .matcherError =>
    if relocateHandled.contains "*matcher.Error" then some .scanError   -- &scanner.Error{Pos: pos, Msg: e.Msg}
    else relocateDefault .matcherError
  | .errorsList items =>
    if relocateHandled.contains "errors.List" then (relocateList items).map .errorsList
    else relocateDefault (.errorsList items)
  | .scanErrorList =>
    if relocateHandled.contains "scanner.ErrorList" then some .scanErrorList else relocateDefault .scanErrorList
  | .scanError =>
    if relocateHandled.contains "*scanner.Error" then some .scanError else relocateDefault .scanError
  | .plain => relocateDefault .plain
/-- `for i, ie := range e { e[i] = Relocate(ie, …) }` -/
def relocateList : List GoErr → Option (List GoErr)
  | [] => some []
  | e :: rest =>
    match relocate e with
    | none => none
    | some e' => (relocateList rest).map (e' :: ·)
end

/-- `tpl.NewEx(src, filename, line, col)` without RetProc parameters -/
def tplNewEx (U : Unq) (srcOk : Bool) (ts : List Tok) (scanErrs : List Nat) : FromFileRes :=
  match fromFile U srcOk ts scanErrs with
  | .err e =>
    (match relocate e with
     | none => .panic
     | some e' => .err e')
  | r => r

end GopModel.Tpl
