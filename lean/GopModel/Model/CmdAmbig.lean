/-
C14 — the decision logic that makes the XGo parser deviate from go/parser on pure Go token
streams: the command-style call detection of `parsePrimaryExpr` (parser/parser.go).

Transcribed (for one simple statement, given the REAL scanner's tokens: kind, pos, end):
  * `parseStmt`: `allowCmd` is cleared unless the statement starts with IDENT or MAP;
    statements in `if/for/switch` headers and comm clauses are parsed with `allowCmd = false`;
  * `parseOperand`: IDENT; MAP is taken as an identifier unless `[` follows adjacently;
  * the loop of `parsePrimaryExpr`: `.` selector / type assertion, `[` `(` `{` `!` `?`, default;
    `isCmd(x)`: x is an Ident / SelectorExpr / ErrWrapExpr and `x.End() != p.pos`;
    `checkCmd()`: an operand start, or a unary operator glued to the token after it.
Only the first primary expression of the statement can become a command call (binary operands,
further list elements and call arguments are parsed with `allowCmd = false`), and the call
swallows the rest of the statement, so a statement has at most one site.

The token sets come from Generated/ParserCmd.lean (translator target `parsercmd`).
Not modelled (result `outside`): the rest of the grammar; a statement starting with a
`map[...]` type literal; malformed selectors.
-/
import GopModel.Generated.ParserCmd
namespace GopModel.CmdAmbig
open GopModel.Generated.ParserCmd

structure Tok where
  kind : String
  pos : Nat
  stop : Nat  -- offset after the token's text
  deriving Repr, DecidableEq

inductive Res where
  | site (pos : Nat) (kind : String)  -- the command-call branch is taken at the token at `pos`
  | noSite
  | outside                            -- not covered by the model
  deriving Repr, DecidableEq

def Res.isSite : Res → Bool
  | .site _ _ => true
  | _ => false

def isOpen (k : String) : Bool := k == "LPAREN" || k == "LBRACK" || k == "LBRACE"
def isClose (k : String) : Bool := k == "RPAREN" || k == "RBRACK" || k == "RBRACE"

/-- `checkCmd` with `b` the current token and `c` the token after it. -/
def checkCmd (b : Tok) (c : Option Tok) : Bool :=
  checkCmdOperand.contains b.kind ||
    (checkCmdGlue.contains b.kind &&
      match c with
      | some c => b.stop == c.pos
      | none => false)

/-- A token that makes `allowCmd && isCmd(x)` start a command call. -/
def trigger (b : Tok) (c : Option Tok) : Bool :=
  primaryCmdCases.contains b.kind || checkCmd b c

/-- Tokens accepted as selector name after '.'. -/
def selectorLike (k : String) : Bool := k == "IDENT" || selectorKeywords.contains k

/-- Tokens that can end an expression for which `isCmd` may hold. -/
def endsPrimary (k : String) : Bool :=
  k == "IDENT" || k == "MAP" || k == "NOT" || k == "QUESTION" || selectorKeywords.contains k

inductive St where
  | chain (cmdable : Bool)  -- in the loop of parsePrimaryExpr; cmdable: x is Ident/Selector/ErrWrap
  | afterPeriod             -- '.' consumed
  | inBr (depth : Nat)      -- inside brackets of an index / call / literal / type assertion
  deriving Repr, DecidableEq

def St.depth : St → Nat
  | .inBr d => d
  | _ => 0

/-- One pass over the statement's tokens; `a` is the previous token. -/
def walk : St → Tok → List Tok → Res
  | .chain _, _, [] => .noSite
  | .afterPeriod, _, [] => .outside
  | .inBr _, _, [] => .outside
  | .chain cm, a, b :: rest =>
    let isCmd := cm && a.stop != b.pos
    if b.kind == "PERIOD" then walk .afterPeriod b rest
    else if isOpen b.kind then
      if isCmd && primaryCmdCases.contains b.kind then .site b.pos b.kind
      else walk (.inBr 1) b rest
    else if isClose b.kind then .noSite
    else if b.kind == "NOT" then
      if isCmd && primaryCmdCases.contains b.kind then .site b.pos b.kind
      else walk (.chain true) b rest
    else if b.kind == "QUESTION" then walk (.chain true) b rest
    else if isCmd && checkCmd b rest.head? then .site b.pos b.kind
    else .noSite
  | .afterPeriod, _, b :: rest =>
    if isOpen b.kind then
      if b.kind == "LPAREN" then walk (.inBr 1) b rest else .outside
    else if isClose b.kind then .outside
    else if selectorLike b.kind then walk (.chain true) b rest
    else .outside
  | .inBr d, _, b :: rest =>
    if isOpen b.kind then walk (.inBr (d + 1)) b rest
    else if isClose b.kind then
      if d ≤ 1 then walk (.chain false) b rest else walk (.inBr (d - 1)) b rest
    else walk (.inBr d) b rest

/-- The decision for one simple statement.  `allow`: the statement is an element of a statement
list (or the statement of a label), i.e. `parseStmt(true)`. -/
def cmdSite (allow : Bool) : List Tok → Res
  | [] => .noSite
  | t :: rest =>
    if !allow then .noSite
    else if noCmdStmtStart.contains t.kind then .noSite
    else if t.kind == "IDENT" then
      match rest with
      | n :: _ => if n.kind == "STRING" && t.stop == n.pos then .outside else walk (.chain true) t rest
      | [] => .noSite
    else if t.kind == "MAP" then
      match rest with
      | n :: _ => if n.kind == "LBRACK" && t.pos + 3 == n.pos then .outside else walk (.chain true) t rest
      | [] => .noSite
    else .outside

/-- Depth bookkeeping shared by `walk` and `triples`. -/
def newDepth (d : Nat) (k : String) : Nat :=
  if isOpen k then d + 1 else if isClose k then d - 1 else d

/-- The consecutive token triples `(a, b, c)` with `a` at bracket depth 0 of the statement;
`d` is the depth after `a`. -/
def triples : Nat → Tok → List Tok → List (Tok × Tok × Option Tok)
  | _, _, [] => []
  | d, a, b :: rest =>
    (if d = 0 then [(a, b, rest.head?)] else []) ++ triples (newDepth d b.kind) b rest

/-- gofmt-like layout of one statement: no depth-0 token that can end a command callee is
followed, after a gap, by a token that would start a command call. -/
def okTriple (t : Tok × Tok × Option Tok) : Bool :=
  !(endsPrimary t.1.kind && t.1.stop != t.2.1.pos && trigger t.2.1 t.2.2)

def GofmtLayout : List Tok → Prop
  | [] => True
  | t :: rest => ∀ tr ∈ triples 0 t rest, okTriple tr = true

instance : DecidablePred GofmtLayout := fun l => by
  cases l <;> simp only [GofmtLayout] <;> exact inferInstance

/-- A file (or any set of statements) is command-ambiguous if some statement has a site. -/
def CmdAmbiguous (stmts : List (Bool × List Tok)) : Prop :=
  ∃ s ∈ stmts, (cmdSite s.1 s.2).isSite = true

instance : DecidablePred CmdAmbiguous := fun stmts => by
  unfold CmdAmbiguous; exact inferInstance

end GopModel.CmdAmbig
