/-
C06 kernel — the error accumulator of cl.NewPackage (cl/compile.go: pkgCtx.errs, handleErr,
complete, the deferred recover of NewPackage).  Core Lean only.

What is modelled: ONLY how reports reach the returned error.  A compile run is abstracted to the
sequence of writes to `pkgCtx.errs` it performs (each write is one of the write SITES the
translator found in package cl, `Generated/ErrSinks.lean`) and the point where a panic, if any,
reaches NewPackage's deferred recover.  Type-correctness of gogen's output is NOT modelled.
-/
namespace GopModel.CompErrs

/-- An error value (opaque identity). -/
abbrev Err := Nat

/-- How a write site changes `errs`: `X.errs = append(X.errs, e)` or anything else. -/
inductive WriteKind where
  | appendSelf
  | other
  deriving DecidableEq, Repr

structure ErrWrite where
  file : String
  fn : String
  kind : WriteKind
  deriving DecidableEq, Repr

inductive UseKind where
  | toError   -- `X.errs.ToError()`
  | other     -- any other mention (address taken, passed on, ranged over …)
  deriving DecidableEq, Repr

structure ErrUse where
  file : String
  fn : String
  kind : UseKind
  deriving DecidableEq, Repr

inductive ErrAssign where
  | complete                       -- `err = ctx.complete()`
  | otherAssign (rhs : String)
  deriving DecidableEq, Repr

/-- Shape of the body of cl.NewPackage (outside function literals). -/
structure NPShape where
  errAssigns : List ErrAssign       -- top-level assignments to the named result `err`, in order
  nestedErrAssigns : Nat            -- assignments to `err` that are not top-level statements
  postComplete : List String        -- calls made after `err = ctx.complete()`
  bareReturns : Nat
  otherReturns : Nat
  deriving Repr

/-- One executed write: the site's kind, the error being reported, and — for a site that is not a
self-append — the arbitrary list it stores (the model does not know what such a site does). -/
structure Write where
  kind : WriteKind
  e : Err
  stored : List Err
  deriving Repr

def applyWrite (errs : List Err) (w : Write) : List Err :=
  match w.kind with
  | .appendSelf => errs ++ [w.e]
  | .other => w.stored

def runWrites (errs : List Err) (ws : List Write) : List Err := ws.foldl applyWrite errs

/-- `errors.List.ToError`: nil exactly for the empty list. -/
def toError (errs : List Err) : Option (List Err) := if errs.isEmpty then none else some errs

/-- One run of NewPackage as the accumulator sees it. `pre`: writes before `err = ctx.complete()`;
`prePanic`: a panic reaching the deferred recover before that point (carrying the error it is
converted to); `post`/`postPanic`: the same for the statements after `complete()`
(genMainFunc / the generated empty `main`). -/
structure Run where
  pre : List Write
  prePanic : Option Err
  post : List Write
  postPanic : Option Err
  deriving Repr

structure Result where
  err : Option (List Err)   -- the returned error (none = success)
  errs : List Err           -- final content of pkgCtx.errs
  escaped : Bool            -- a panic left NewPackage
  deriving Repr

/-- The deferred recover of NewPackage: `ctx.handleRecover(e, nil); err = ctx.errs.ToError()`
(handleRecover reports through handleErr, i.e. through a write of kind `hk`). -/
def recovered (hk : WriteKind) (errs : List Err) (v : Err) : Result :=
  let errs' := applyWrite errs ⟨hk, v, []⟩
  { err := toError errs', errs := errs', escaped := false }

/-- NewPackage with `enableRecover` (flag) and `hk` the kind of handleErr's write. -/
def newPackage (enableRecover : Bool) (hk : WriteKind) (r : Run) : Result :=
  let errs1 := runWrites [] r.pre
  match r.prePanic with
  | some v => if enableRecover then recovered hk errs1 v else { err := none, errs := errs1, escaped := true }
  | none =>
    let err := toError errs1                 -- err = ctx.complete()
    let errs2 := runWrites errs1 r.post
    match r.postPanic with
    | some v => if enableRecover then recovered hk errs2 v else { err := err, errs := errs2, escaped := true }
    | none => { err := err, errs := errs2, escaped := false }

end GopModel.CompErrs
