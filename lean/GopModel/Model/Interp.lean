/-
Model of XGo string interpolation (C05).

* `hasExtra`, `loop`, `splitParts`: `parser/parser.go` `hasExtra`, `stringLitEx` (the goto loop
  over the text between the quotes) and `stringLit`, statement by statement.  Offsets are byte
  offsets relative to the first byte after the opening quote (the Go code adds `lit.ValuePos+1`).
  The expression between `${` and `}` is not parsed here: a part records the offsets handed
  to `stringLitExpr(parts, off, end)`.
* `renderPart`, `lowerArgs`: `cl/expr.go` `compileStringLitEx`: a string part becomes a string
  literal (a part ending in `$$` loses its last byte), an expression part becomes the
  expression, followed by `.string` (or `.error`) unless its type is a string type; the parts
  are the arguments of one `stringutil.Concat` call unless there is exactly one part.
* `spec`: the one-pass reading of a literal, `(char | "$$" | "${" expr "}")*`, used as
  specification.
Core Lean only.
-/
namespace GopModel.Interp

abbrev Bytes := List UInt8

def DOLLAR : UInt8 := 0x24
def LBRACE : UInt8 := 0x7b
def RBRACE : UInt8 := 0x7d

/-- `strings.IndexByte`. -/
def indexByte (c : UInt8) : Bytes → Option Nat
  | [] => none
  | b :: t => if b = c then some 0 else (indexByte c t).map (· + 1)

/-- One element of `ast.StringLitEx.Parts`. -/
inductive Part where
  | str (s : Bytes)            -- a `string` part: raw text of the literal
  | expr (off end_ : Nat)      -- an `ast.Expr` part parsed from the bytes `[off, end_)`
  deriving Repr, DecidableEq

/-- The two errors `stringLitEx` reports (at most one per literal), with their offset. -/
inductive Err where
  | unterminated (off : Nat)   -- "invalid $ expression: ${ doesn't end with }"
  | neither (off : Nat)        -- "invalid $ expression: neither `${ ... }` nor `$$`"
  deriving Repr, DecidableEq

/-- Result of `stringLitEx`: `parts = none` is `return nil` (the literal gets no `Extra`). -/
structure Res where
  parts : Option (List Part)
  err : Option Err
  deriving Repr, DecidableEq

/-- `hasExtra`: is there a `${` or `$$` in `text` (scanning from `$` to `$`, skipping the byte
after a lone `$`)? -/
def hasExtra : Bytes → Bool
  | [] => false
  | [_] => false
  | c :: d :: r =>
    if c = DOLLAR then
      if d = LBRACE || d = DOLLAR then true else hasExtra r
    else hasExtra (d :: r)

/-- The `loop:` of `stringLitEx`; one unit of fuel per pass.  `none` = out of fuel. -/
def loop : Nat → List Part → Nat → Bytes → Bool → Option Res
  | 0, _, _, _, _ => none
  | fuel + 1, parts, pos, text, extra =>
    -- normal: parts = append(parts, text); return parts
    let normal : Option Res := some ⟨some (parts ++ [.str text]), none⟩
    match indexByte DOLLAR text with
    | none => if extra then normal else some ⟨none, none⟩
    | some at_ =>
      match text.drop (at_ + 1) with
      | [] => if extra then normal else some ⟨none, none⟩       -- at_+1 == len(text)
      | c :: left =>                                             -- c = text[at_+1], left = text[at_+2:]
        if c = LBRACE then
          if left = [] then normal                               -- "...${"
          else
            match indexByte RBRACE left with
            | none => some ⟨some (parts ++ [.str text]), some (.unterminated (pos + at_ + 1))⟩
            | some end_ =>
              let parts1 := if at_ ≠ 0 then parts ++ [.str (text.take at_)] else parts
              let to := pos + (at_ + 2) + end_
              let parts2 := parts1 ++ [.expr (pos + (at_ + 2)) to]
              let text' := left.drop (end_ + 1)
              if text' ≠ [] then loop fuel parts2 (to + 1) text' true
              else some ⟨some parts2, none⟩
        else if c = DOLLAR then
          let parts1 := parts ++ [.str (text.take (at_ + 2))]
          if left ≠ [] then loop fuel parts1 (pos + (at_ + 2)) left true
          else some ⟨some parts1, none⟩
        else
          some ⟨none, if extra || hasExtra (c :: left) then some (.neither (pos + at_)) else none⟩

/-- `stringLit` on the text between the quotes: `stringLitEx(nil, pos+1, val[1:len(val)-1])`. -/
def splitFuel (fuel : Nat) (text : Bytes) : Option Res := loop fuel [] 0 text false

def splitParts (text : Bytes) : Option Res := splitFuel (text.length + 1) text

/-! ## Lowering (`compileStringLitEx`) -/

/-- Normal form of an interpolated literal: literal bytes and holes, in order. -/
inductive Item where
  | ch (b : UInt8)
  | hole (off end_ : Nat)
  deriving Repr, DecidableEq

/-- `strings.HasSuffix(v, "$$")`: the last two bytes are both `$`. -/
def endsDD (s : Bytes) : Bool :=
  match s.reverse with
  | a :: b :: _ => a = DOLLAR && b = DOLLAR
  | _ => false

/-- `if strings.HasSuffix(v, "$$") { v = v[:len(v)-1] }`. -/
def trimDD (s : Bytes) : Bytes := if endsDD s then s.dropLast else s

def renderPart : Part → List Item
  | .str s => (trimDD s).map .ch
  | .expr a b => [.hole a b]

def render (ps : List Part) : List Item := ps.flatMap renderPart

/-- What the literal denotes according to the implementation: no `Extra` → the text itself. -/
def implItems (text : Bytes) : Option (List Item) :=
  match splitParts text with
  | some ⟨none, none⟩ => some (text.map .ch)
  | some ⟨some ps, none⟩ => some (render ps)
  | _ => none

/-! ## Specification: one pass over the literal -/

inductive SpecRes where
  | ok (items : List Item)
  | unterminated (off : Nat)   -- `${` without `}`; offset of the `{`
  | neither (off : Nat)        -- `$` followed by something else than `$`, `{` (and not last); offset of the `$`
  deriving Repr, DecidableEq

def SpecRes.cons (i : Item) : SpecRes → SpecRes
  | .ok l => .ok (i :: l)
  | r => r

/-- `spec hole off text`: `hole = some st` while inside `${ … }` whose expression starts at
offset `st`; `off` is the offset of the first byte of `text`.
Grammar: an ordinary byte stands for itself; `$$` is one `$`; `${e}` is a hole (`e` ends at
the first `}`); a `$` that is the last byte stands for itself; so does a final `${`. -/
def spec : Option Nat → Nat → Bytes → SpecRes
  | none, _, [] => .ok []
  | some st, off, [] => if st = off then .ok [.ch DOLLAR, .ch LBRACE] else .unterminated (st - 1)
  | some st, off, c :: r =>
    if c = RBRACE then (spec none (off + 1) r).cons (.hole st off)
    else spec (some st) (off + 1) r
  | none, _, [c] => .ok [.ch c]
  | none, off, c :: d :: r =>
    if c = DOLLAR then
      if d = DOLLAR then (spec none (off + 2) r).cons (.ch DOLLAR)
      else if d = LBRACE then spec (some (off + 2)) (off + 2) r
      else .neither off
    else (spec none (off + 1) (d :: r)).cons (.ch c)

/-- Does the text contain `$$` or `${` at all? -/
def containsSpecial : Bytes → Bool
  | [] => false
  | [_] => false
  | c :: d :: r => (c = DOLLAR && (d = DOLLAR || d = LBRACE)) || containsSpecial (d :: r)

/-! ## Evaluation: explicit concatenation vs the lowered call -/

/-- A Go value an embedded expression may have (floats are not modelled; `bool`, named string
types and the small integer types have no `.string` member: such literals do not compile). -/
inductive Val where
  | str (s : Bytes)
  | int (n : Int)
  | err (msg : Bytes)          -- an `error` whose `Error()` is `msg`
  | stringer (s : Bytes)       -- any other value with a `String() string` method returning `s`
  deriving Repr, DecidableEq

/-- An embedded expression: evaluating it appends `id` to the event trace and yields `val`. -/
structure Hole where
  id : Nat
  val : Val
  deriving Repr, DecidableEq

/-- One argument of the lowered call. -/
inductive Arg where
  | lit (s : Bytes)                 -- string literal (already unquoted)
  | plain (h : Hole)                -- expression of string type, passed as is
  | conv (h : Hole)                 -- expression `.string` / `.error`
  deriving Repr, DecidableEq

/-- A piece of an interpolated literal after splitting. -/
inductive Piece where
  | text (s : Bytes)
  | hole (h : Hole)
  deriving Repr, DecidableEq

def Val.isString : Val → Bool
  | .str _ => true
  | _ => false

/-- `compileStringLitEx`, one part: non-string expressions get the `.string` (`.error`) member. -/
def lowerPiece : Piece → Arg
  | .text s => .lit s
  | .hole h => if h.val.isString then .plain h else .conv h

/-- The lowered expression: the single part itself, or `stringutil.Concat(args...)`. -/
inductive Lowered where
  | single (a : Arg)
  | concat (args : List Arg)
  deriving Repr, DecidableEq

def lower (ps : List Piece) : Lowered :=
  match ps with
  | [p] => .single (lowerPiece p)
  | _ => .concat (ps.map lowerPiece)

/-- Go evaluates call arguments left to right, each once. `strOf` is the string form
(`strconv.Itoa` / `FormatInt` / `FormatUint`, `Error()`, `String()`); result: value and event trace. -/
def evalArg (strOf : Val → Bytes) : Arg → Bytes × List Nat
  | .lit s => (s, [])
  | .plain h => ((match h.val with | .str s => s | v => strOf v), [h.id])
  | .conv h => (strOf h.val, [h.id])

def evalArgs (strOf : Val → Bytes) : List Arg → Bytes × List Nat
  | [] => ([], [])
  | a :: t =>
    let (v, e) := evalArg strOf a
    let (vs, es) := evalArgs strOf t
    (v ++ vs, e ++ es)

def evalLowered (strOf : Val → Bytes) : Lowered → Bytes × List Nat
  | .single a => evalArg strOf a
  | .concat args => evalArgs strOf args   -- `Concat` joins its (already evaluated) arguments

/-- The property's right-hand side: the pieces' strings concatenated; for a string-valued
expression "the value itself". -/
def pieceString (strOf : Val → Bytes) : Piece → Bytes
  | .text s => s
  | .hole h => match h.val with | .str s => s | v => strOf v

def holeIds : List Piece → List Nat
  | [] => []
  | .text _ :: t => holeIds t
  | .hole h :: t => h.id :: holeIds t

end GopModel.Interp
