/-
M3: XGo expression syntax — executable models of

  * the expression printer of /repo/printer/nodes.go (`expr1`, `binaryExpr`, `walkBinary`,
    `cutoff`, `diffPrec`, `reduceDepth`, the XGo-specific cases of `expr1`, the single-line path
    of `exprList`) and of the blank that `printer.print` inserts via `mayCombine`
    (/repo/printer/printer.go): `printE`, `emit`;
  * the expression parser of /repo/parser/parser.go as entered through `parser.ParseExpr`
    (`parseRHS`): `parseLambdaExpr`, `parseBinaryExpr`, `parseUnaryExpr`, `parseErrWrapExpr`,
    `parsePrimaryExpr`, `parseOperand`, `parseCallOrConversion`, `parseIndexOrSlice`,
    `parseLiteralValue`, `parseArrayTypeOrSliceLit` (slice-literal part): `parseX`.

Positions, comments, line breaks, statements, declarations, types other than names, function
literals, comprehensions, domain text literals, matrix literals and command-style calls are
NOT modelled: the parser model answers `unsupp` when it meets them, the printer model emits
`PTok.bad`.  The model follows the code as it is after the `fix:` commits c5f6783, 680bbfa,
3e34062 (ErrWrapExpr / StarExpr / LambdaExpr operand precedence).

Recursion is structural (explicit fuel for the parser) so that the kernel can evaluate the
functions (`decide`).  Core Lean only.
-/
import GopModel.Generated.Prec
namespace GopModel.ExprSyntax
open Gen

/-! ## Syntax trees -/

inductive XExpr where
  | ident (s : Str)
  | lit (k : LitKind) (v : Str)
  | numUnit (k : LitKind) (v : Str) (u : Str)
  | binary (op : Op) (x y : XExpr)
  | unary (op : Op) (x : XExpr)
  | star (x : XExpr)
  | paren (x : XExpr)
  | selector (x : XExpr) (sel : Str)
  | index (x i : XExpr)
  | slice (x : XExpr) (lo hi mx : Option XExpr) (slice3 : Bool)
  | call (f : XExpr) (args : List XExpr) (ell : Bool) (cmd : Bool)
  | composite (ty : Option XExpr) (elts : List XExpr)
  | kv (k v : XExpr)
  | sliceLit (elts : List XExpr)
  | lambda (lhs : List Str) (lhsParen : Bool) (rhs : List XExpr) (rhsParen : Bool)
  | errWrap (x : XExpr) (tok : Op) (dflt : Option XExpr)
  | env (name : Str) (brace : Bool)
  | typeAssert (x : XExpr) (ty : Option XExpr)
  | range (first last e3 : Option XExpr)
  | tuple (items : List XExpr) (ell : Bool)   -- the parser-internal `tupleExpr`
  | bad                                        -- BadExpr / not modelled
  deriving Repr, Inhabited

abbrev prec (o : Op) : Nat := precedence o

/-- The bytes of the keyword `type`. -/
def kwType : Str := [0x74, 0x79, 0x70, 0x65]

/-! ## Printer -/

/-- Output items of the printer: a token, an explicit blank, or `bad` (the real printer would
panic / the node is not modelled). -/
inductive PTok where
  | t (x : Tok)
  | blank
  | bad
  deriving DecidableEq, Repr, Inhabited

def pop (o : Op) : PTok := .t (.op o)

def isBinaryNode : XExpr → Bool
  | .binary .. => true
  | _ => false

def isParenNode : XExpr → Bool
  | .paren _ => true
  | _ => false

/-- `reduceDepth`. -/
def reduceDepth (depth : Nat) : Nat := if depth - 1 < 1 then 1 else depth - 1

/-- `diffPrec`. -/
def diffPrec (e : XExpr) (p : Nat) : Nat :=
  match e with
  | .binary op _ _ => if p != prec op then 1 else 0
  | _ => 1

/-- The `depth++` of `expr1` when the right operand is a RAT literal. -/
def ratAdj (y : XExpr) (depth : Nat) : Nat :=
  match y with
  | .lit .RAT _ => depth + 1
  | _ => depth

structure WB where
  has4 : Bool
  has5 : Bool
  maxProblem : Nat
  deriving Repr, DecidableEq

/-- The `switch e.Op.String() + r.Op.String()` of `walkBinary` (unary right operand). -/
def unaryClash (op uop : Op) : Nat :=
  match op, uop with
  | .QUO, .MUL => 5
  | .AND, .AND => 5
  | .AND, .XOR => 5
  | .ADD, .ADD => 4
  | .SUB, .SUB => 4
  | _, _ => 0

/-- `has4 = has4 || h4` … `if maxProblem < mp { maxProblem = mp }`. -/
def wbMerge (a b : WB) : WB :=
  ⟨a.has4 || b.has4, a.has5 || b.has5, if a.maxProblem < b.maxProblem then b.maxProblem else a.maxProblem⟩

/-- The `switch l := e.X.(type)` of `walkBinary`; `wx` is `walkBinary(l)`. -/
def wbLeft (p : Nat) (w0 : WB) (x : XExpr) (wx : WB) : WB :=
  match x with
  | .binary lop _ _ => if prec lop < p then w0 else wbMerge w0 wx
  | _ => w0

/-- The `switch r := e.Y.(type)` of `walkBinary`; `wy` is `walkBinary(r)`. -/
def wbRight (op : Op) (p : Nat) (w1 : WB) (y : XExpr) (wy : WB) : WB :=
  match y with
  | .binary rop _ _ => if prec rop ≤ p then w1 else wbMerge w1 wy
  | .star _ => if op = .QUO then { w1 with maxProblem := 5 } else w1
  | .unary uop _ =>
    let c := unaryClash op uop
    if c = 5 then { w1 with maxProblem := 5 }
    else if c = 4 then (if w1.maxProblem < 4 then { w1 with maxProblem := 4 } else w1)
    else w1
  | _ => w1

/-- `walkBinary` (argument: a binary node; other nodes give the zero value). -/
def walkBinary : XExpr → WB
  | .binary op x y =>
    let p := prec op
    wbRight op p (wbLeft p ⟨p == 4, p == 5, 0⟩ x (walkBinary x)) y (walkBinary y)
  | _ => ⟨false, false, 0⟩

/-- `cutoff`. -/
def cutoff (e : XExpr) (depth : Nat) : Nat :=
  let w := walkBinary e
  if w.maxProblem > 0 then w.maxProblem + 1
  else if w.has4 && w.has5 then (if depth = 1 then 5 else 4)
  else if depth = 1 then 6 else 4

def optBlank (b : Bool) : List PTok := if b then [.blank] else []

def isSome' : Option XExpr → Bool
  | some _ => true
  | none => false

def isBinaryOpt : Option XExpr → Bool
  | some e => isBinaryNode e
  | none => false

/-- The `needsBlanks` decision of the SliceExpr case. -/
def sliceNeedsBlanks (depth : Nat) (idx : List (Option XExpr)) : Bool :=
  depth ≤ 1 && decide ((idx.filter isSome').length > 1) && idx.any isBinaryOpt

def identToks : List Str → List PTok
  | [] => []
  | [s] => [.t (.ident s)]
  | s :: r => .t (.ident s) :: pop .COMMA :: .blank :: identToks r

mutual
/-- `expr1 expr prec1 depth` (single-line, no positions). -/
def printE : XExpr → Nat → Nat → List PTok
  | .ident s, _, _ => [.t (.ident s)]
  | .lit k v, _, _ => [.t (.lit k v)]
  | .numUnit k v u, _, _ => [.t (.lit k v), .t (.unit u)]
  | .binary op x y, prec1, depth0 =>
    let depth := ratAdj y depth0
    let p := prec op
    let paren := decide (p < prec1)
    -- parenthesised: `expr0(x, reduceDepth(depth))` re-enters the BinaryExpr case
    let d := if paren then ratAdj y (reduceDepth depth) else depth
    let co := cutoff (.binary op x y) d
    let bl := decide (p < co)
    let body := printE x p (d + diffPrec x p) ++ optBlank bl ++ [pop op] ++ optBlank bl ++ printE y (p + 1) (d + 1)
    if paren then pop .LPAREN :: body ++ [pop .RPAREN] else body
  | .unary op x, prec1, depth =>
    if unaryPrec < prec1 then pop .LPAREN :: pop op :: printE x unaryPrec 1 ++ [pop .RPAREN]
    else pop op :: printE x unaryPrec depth
  | .star x, prec1, _ =>
    if unaryPrec < prec1 then pop .LPAREN :: pop .MUL :: printE x unaryPrec 1 ++ [pop .RPAREN]
    else pop .MUL :: printE x unaryPrec 1
  | .paren x, _, depth =>
    -- "don't print parentheses around an already parenthesized expression"
    if isParenNode x then printE x lowestPrec depth
    else pop .LPAREN :: printE x lowestPrec (reduceDepth depth) ++ [pop .RPAREN]
  | .selector x sel, _, depth => printE x highestPrec depth ++ [pop .PERIOD, .t (.ident sel)]
  | .index x i, _, depth =>
    printE x highestPrec 1 ++ [pop .LBRACK] ++ printE i lowestPrec (depth + 1) ++ [pop .RBRACK]
  | .slice x lo hi mx _, _, depth =>
    let nb := sliceNeedsBlanks depth (match mx with | some _ => [lo, hi, mx] | none => [lo, hi])
    printE x highestPrec 1 ++ [pop .LBRACK]
      ++ printO lo lowestPrec (depth + 1)
      ++ optBlank (isSome' lo && nb) ++ [pop .COLON] ++ optBlank (isSome' hi && nb)
      ++ printO hi lowestPrec (depth + 1)
      ++ (match mx with
          | some m => optBlank (isSome' hi && nb) ++ [pop .COLON] ++ optBlank nb ++ printE m lowestPrec (depth + 1)
          | none => [])
      ++ [pop .RBRACK]
  | .call f args ell cmd, _, depth0 =>
    let depth := if args.length > 1 then depth0 + 1 else depth0
    printE f highestPrec depth
      ++ (if cmd then [.blank] else [pop .LPAREN])
      ++ printL args (if cmd then depth + 1 else depth)
      ++ (if ell then [pop .ELLIPSIS] else [])
      ++ (if cmd then [] else [pop .RPAREN])
  | .composite ty elts, _, depth =>
    printO ty highestPrec depth ++ [pop .LBRACE] ++ printL elts 1 ++ [pop .RBRACE]
  | .kv k v, _, _ => printE k lowestPrec 1 ++ [pop .COLON, .blank] ++ printE v lowestPrec 1
  | .sliceLit elts, _, depth => pop .LBRACK :: printL elts (depth + 1) ++ [pop .RBRACK]
  | .lambda lhs lhsParen rhs rhsParen, prec1, _ =>
    let l := if lhsParen then pop .LPAREN :: identToks lhs ++ [pop .RPAREN, .blank]
             else match lhs with
               | [] => []
               | s :: _ => [.t (.ident s), .blank]
    let r := if rhsParen then pop .LPAREN :: printL rhs 1 ++ [pop .RPAREN]
             else match rhs with
               | [] => [.bad]          -- `x.Rhs[0]` panics
               | e :: _ => printE e lowestPrec 1
    let body := l ++ [pop .DRARROW, .blank] ++ r
    if lowestPrec < prec1 then pop .LPAREN :: body ++ [pop .RPAREN] else body
  | .errWrap x tok dflt, prec1, _ =>
    let body := printE x highestPrec 1 ++ [pop tok]
      ++ (match dflt with
          | some d => pop .COLON :: printE d unaryPrec 1
          | none => [])
    if isSome' dflt && decide (unaryPrec < prec1) then pop .LPAREN :: body ++ [pop .RPAREN] else body
  | .env name brace, _, _ =>
    if brace then [pop .ENV, pop .LBRACE, .t (.ident name), pop .RBRACE] else [pop .ENV, .t (.ident name)]
  | .typeAssert x ty, _, depth =>
    printE x highestPrec depth ++ [pop .PERIOD, pop .LPAREN]
      ++ (match ty with
          | some t => printE t lowestPrec 1
          | none => [.t (.kw kwType)])
      ++ [pop .RPAREN]
  | .range first last e3, _, _ =>
    printO first lowestPrec 1 ++ [pop .COLON] ++ printO last lowestPrec 1
      ++ (match e3 with
          | some e => pop .COLON :: printE e lowestPrec 1
          | none => [])
  | .tuple _ _, _, _ => [.bad]
  | .bad, _, _ => [.bad]
/-- The single-line path of `exprList`: elements separated by `,` blank, each `expr0(x, depth)`. -/
def printL : List XExpr → Nat → List PTok
  | [], _ => []
  | [e], depth => printE e lowestPrec depth
  | e :: r, depth => printE e lowestPrec depth ++ [pop .COMMA, .blank] ++ printL r depth
def printO : Option XExpr → Nat → Nat → List PTok
  | none, _, _ => []
  | some e, prec1, depth => printE e prec1 depth
end

/-- `mayCombine(p.lastTok, s[0])` for the item about to be printed; only `token.Token`
arguments (operators, keywords) are checked by `print`. -/
def mayCombine (prev next : Tok) : Bool :=
  match next with
  | .op o =>
    (match prev with
     | .op po => mayCombineOp po o.first
     | .lit k _ => mayCombineLit k o.first
     | .ident _ => mayCombineIdent o.first
     | .unit _ => mayCombineIdent o.first       -- the unit is printed as an *ast.Ident
     | .kw _ => false)
  | _ => false

/-- The `lastTok` state machine of `printer.print`: a blank is inserted before a token that
`mayCombine` with the previous item; white space resets `lastTok`. -/
def emitAux : Option Tok → List PTok → List PTok
  | _, [] => []
  | _, .blank :: r => .blank :: emitAux none r
  | _, .bad :: r => .bad :: emitAux none r
  | last, .t x :: r =>
    let rest := PTok.t x :: emitAux (some x) r
    match last with
    | some l => if mayCombine l x then .blank :: rest else rest
    | none => rest

def emit (l : List PTok) : List PTok := emitAux none l

/-- What `printer.Fprint(expr)` writes, as items. -/
def printExpr (e : XExpr) : List PTok := emit (printE e lowestPrec 1)

/-! ## Scanner boundary: which adjacent tokens stay separate tokens -/

def isWordLike : Tok → Bool
  | .ident _ | .kw _ | .unit _ => true
  | .lit k _ => k != .STRING && k != .CHAR
  | .op _ => false

/-- First byte class of a token, as far as the model knows it. -/
def startsWord : Tok → Bool
  | .ident _ | .kw _ | .unit _ | .lit _ _ => true   -- literals: digit, '.', quote or c"/py" prefix (conservative)
  | .op _ => false

/-- Characters that, directly after the operator, are scanned into a longer token (or a comment). -/
def glueAfter : Op → List Char
  | .ADD => ['+', '='] | .SUB => ['-', '=', '>'] | .MUL => ['='] | .QUO => ['/', '*', '='] | .REM => ['=']
  | .AND => ['&', '^', '='] | .OR => ['|', '='] | .XOR => ['='] | .SHL => ['='] | .SHR => ['=']
  | .AND_NOT => ['='] | .LSS => ['<', '-', '=', '>'] | .GTR => ['>', '='] | .ASSIGN => ['=', '>']
  | .NOT => ['='] | .COLON => ['=']     -- (three adjacent PERIODs would form '...'; never printed)
  | _ => []

def isNumKind : LitKind → Bool
  | .INT | .FLOAT | .IMAG | .RAT => true
  | _ => false

def startsDigit (v : Str) : Bool :=
  match v with
  | c :: _ => 0x30 ≤ c && c ≤ 0x39
  | [] => false

/-- `combines a b`: printed with nothing in between, `a b` is NOT scanned as the two tokens
`a`, `b` (conservative: `true` also where the model cannot tell). -/
def combines (a b : Tok) : Bool :=
  match a, b with
  | .op .PERIOD, .op .ELLIPSIS => true      -- `....` is scanned as `...` `.`
  | .op o, .op o' => (glueAfter o).contains o'.first
  | .op .PERIOD, .lit k v => isNumKind k && startsDigit v     -- `.5`
  | .op _, _ => false
  | .lit .INT _, .op o' => o'.first == '.'
  | .lit _ _, .op _ => false
  | .lit .STRING _, _ => false
  | .lit .CHAR _, _ => false
  | .lit _ _, .unit _ => false              -- `1km`: how UNIT tokens arise
  | .lit _ _, _ => true                     -- number followed by a word / literal
  | .ident _, .op _ => false
  | .unit _, .op _ => false
  | .kw _, .op _ => false
  | _, _ => true                            -- word followed by word / literal (incl. c"…", tag`…`)

/-- Remove the blanks; `none` when two tokens that would combine are adjacent, or on `bad`. -/
def lexAux : Option Tok → List PTok → Option (List Tok)
  | _, [] => some []
  | _, .blank :: r => lexAux none r
  | _, .bad :: _ => none
  | last, .t x :: r =>
    let ok := match last with
      | some l => !combines l x
      | none => true
    if ok then (lexAux (some x) r).map (x :: ·) else none

def lex (l : List PTok) : Option (List Tok) := lexAux none l

/-! ## Parser -/

inductive Fail where
  | err      -- the real parser reports at least one syntax error
  | unsupp   -- input leaves the modelled fragment
  | fuel     -- model artefact: out of fuel (never on the intended domain, see `parseX`)
  deriving DecidableEq, Repr, Inhabited

abbrev Res (α : Type) := Except Fail (α × List Tok)

def isTuple : XExpr → Bool
  | .tuple .. => true
  | _ => false

def unparen : XExpr → XExpr
  | .paren x => unparen x
  | e => e

def toIdent? : XExpr → Option Str
  | .ident s => some s
  | _ => none

def toIdents? : List XExpr → Option (List Str)
  | [] => some []
  | e :: r => match toIdent? e, toIdents? r with
    | some s, some l => some (s :: l)
    | _, _ => none

/-- Tokens at which `tryIdentOrType` finds a type (after `[]` / `[n]`). -/
def startsType : List Tok → Bool
  | .ident _ :: _ => true
  | .kw _ :: _ => true
  | .op .LBRACK :: _ => true
  | .op .MUL :: _ => true
  | .op .ARROW :: _ => true
  | .op .LPAREN :: _ => true
  | _ => false

def isRawString (v : Str) : Bool :=
  match v with
  | c :: _ => c == 0x60
  | [] => false

def isUnaryOp : Op → Bool
  | .ADD | .SUB | .NOT | .XOR | .AND => true
  | _ => false

/-- `tokPrec` with `inRHS` set (always the case below `ParseExpr`). -/
def tokPrec (o : Op) : Nat := if o = .ASSIGN then prec .EQL else prec o

/-- `p.tok == o`. -/
def headIs (o : Op) : List Tok → Bool
  | .op o' :: _ => o == o'
  | _ => false

def compositeTypeOK : XExpr → Bool
  | .ident _ | .selector .. | .index .. | .bad => true
  | _ => false

mutual
/-- `parseLambdaExpr(allowTuple = tup, allowCmd = false, allowRangeExpr = false)`; with
`tup = false` this is `parseExpr(false, false, false)` and `parseRHSOrType` (the checks of
`checkExpr`/`checkExprOrType` only reject types, which are not in the fragment). -/
def parseLambda : Nat → Bool → List Tok → Res XExpr
  | 0, _, _ => .error .fuel
  | n + 1, tup, ts =>
    if headIs .DRARROW ts then parseLamTail n none (ts.drop 1)          -- `=> expr`
    else match parseBinary n false 1 true ts with
      | .error f => .error f
      | .ok (x, r) =>
        if headIs .DRARROW r then parseLamTail n (some x) (r.drop 1)
        else if isTuple x && !tup then .error .err else .ok (x, r)
/-- The part of `parseLambdaExpr` after `=>`: right-hand side, then conversion of the
left-hand side into identifiers. -/
def parseLamTail : Nat → Option XExpr → List Tok → Res XExpr
  | 0, _, _ => .error .fuel
  | n + 1, x?, r1 =>
    let rhs : Except Fail ((List XExpr × Bool) × List Tok) :=
      match r1 with
      | .op .LPAREN :: r2 =>
        (match parseLamRhs n [] r2 with
         | .error f => .error f
         | .ok (l, r3) => .ok ((l, true), r3))
      | .op .LBRACE :: _ => .error .unsupp
      | _ =>
        (match parseLambda n false r1 with
         | .error f => .error f
         | .ok (e, r3) => .ok (([e], false), r3))
    match rhs with
    | .error f => .error f
    | .ok ((rl, rp), r3) =>
      match x? with
      | none => .ok (.lambda [] false rl rp, r3)
      | some (.tuple items _) =>
        (match toIdents? items with
         | some l => .ok (.lambda l true rl rp, r3)
         | none => .error .err)
      | some (.paren x) =>
        (match toIdent? (unparen x) with
         | some s => .ok (.lambda [s] true rl rp, r3)
         | none => .error .err)
      | some x =>
        (match toIdent? x with
         | some s => .ok (.lambda [s] false rl rp, r3)
         | none => .error .err)
/-- The `( e1, e2, ... )` right-hand side of a lambda, after `(`. -/
def parseLamRhs : Nat → List XExpr → List Tok → Res (List XExpr)
  | 0, _, _ => .error .fuel
  | n + 1, acc, ts =>
    match parseLambda n false ts with
    | .error f => .error f
    | .ok (e, r) =>
      match r with
      | .op .COMMA :: r1 => parseLamRhs n (e :: acc) r1
      | .op .RPAREN :: r1 => .ok ((e :: acc).reverse, r1)
      | _ => .error .err
/-- `parseBinaryExpr(lhs, prec1, allowTuple = tup, allowCmd = false)`. -/
def parseBinary : Nat → Bool → Nat → Bool → List Tok → Res XExpr
  | 0, _, _, _, _ => .error .fuel
  | n + 1, lhs, prec1, tup, ts =>
    match parseUnary n lhs tup ts with
    | .error f => .error f
    | .ok (x, r) => if isTuple x then .ok (x, r) else binaryLoop n prec1 x r
/-- The `for` loop of `parseBinaryExpr`. -/
def binaryLoop : Nat → Nat → XExpr → List Tok → Res XExpr
  | 0, _, _, _ => .error .fuel
  | n + 1, prec1, x, ts =>
    match ts with
    | .op o :: r =>
      if tokPrec o < prec1 then .ok (x, ts)
      else if o = .ASSIGN then .error .err       -- `expect(EQL)` fails on `=`
      else match parseBinary n false (tokPrec o + 1) false r with
        | .error f => .error f
        | .ok (y, r') => binaryLoop n prec1 (.binary o x y) r'
    | _ => .ok (x, ts)
/-- `parseUnaryExpr`. -/
def parseUnary : Nat → Bool → Bool → List Tok → Res XExpr
  | 0, _, _, _ => .error .fuel
  | n + 1, lhs, tup, ts =>
    match ts with
    | .op .ARROW :: r =>
      (match parseUnary n false false r with
       | .error f => .error f
       | .ok (x, r') => .ok (.unary .ARROW x, r'))   -- channel types are not in the fragment
    | .op .MUL :: r =>
      (match parseUnary n false false r with
       | .error f => .error f
       | .ok (x, r') => .ok (.star x, r'))
    | .op o :: r =>
      if isUnaryOp o then
        (match parseUnary n false false r with
         | .error f => .error f
         | .ok (x, r') => .ok (.unary o x, r'))
      else parseErrWrap n lhs tup ts
    | _ => parseErrWrap n lhs tup ts
/-- `parseErrWrapExpr`. -/
def parseErrWrap : Nat → Bool → Bool → List Tok → Res XExpr
  | 0, _, _, _ => .error .fuel
  | n + 1, lhs, tup, ts =>
    match parsePrimary n lhs tup ts with
    | .error f => .error f
    | .ok (x, r) =>
      match x, r with
      | .errWrap x0 tok _, .op .COLON :: r1 =>
        (match parseUnary n false false r1 with
         | .error f => .error f
         | .ok (d, r2) => .ok (.errWrap x0 tok (some d), r2))
      | _, _ => .ok (x, r)
/-- `parsePrimaryExpr(nil, lhs, allowTuple = tup, allowCmd = false)`. -/
def parsePrimary : Nat → Bool → Bool → List Tok → Res XExpr
  | 0, _, _, _ => .error .fuel
  | n + 1, lhs, tup, ts =>
    match parseOperand n lhs tup ts with
    | .error f => .error f
    | .ok (x, r) => if isTuple x then .ok (x, r) else primaryLoop n x r
/-- The `for` loop of `parsePrimaryExpr` (allowCmd = false). -/
def primaryLoop : Nat → XExpr → List Tok → Res XExpr
  | 0, _, _ => .error .fuel
  | n + 1, x, ts =>
    match ts with
    | .op .PERIOD :: .ident s :: r => primaryLoop n (.selector x s) r
    | .op .PERIOD :: .op .LPAREN :: r =>
      (match r with
       | .kw k :: .op .RPAREN :: r1 =>
         if k = kwType then primaryLoop n (.typeAssert x none) r1 else .error .unsupp
       | .ident a :: .op .RPAREN :: r1 => primaryLoop n (.typeAssert x (some (.ident a))) r1
       | .ident a :: .op .PERIOD :: .ident b :: .op .RPAREN :: r1 =>
         primaryLoop n (.typeAssert x (some (.selector (.ident a) b))) r1
       | _ => .error .unsupp)
    | .op .PERIOD :: .kw _ :: _ => .error .unsupp
    | .op .PERIOD :: _ => .error .err
    | .op .LBRACK :: r =>
      (match parseIndexOrSlice n x r with
       | .error f => .error f
       | .ok (x', r') => primaryLoop n x' r')
    | .op .LPAREN :: r =>
      (match parseArgs n [] r with
       | .error f => .error f
       | .ok ((args, ell), r') => primaryLoop n (.call x args ell false) r')
    | .op .LBRACE :: r =>
      if compositeTypeOK (unparen x) then
        (match parseElements n [] r with
         | .error f => .error f
         | .ok (elts, r') =>
           match x with
           | .paren _ => .error .err         -- "cannot parenthesize type in composite literal"
           | _ => primaryLoop n (.composite (some x) elts) r')
      else .ok (x, ts)
    | .op .NOT :: r => primaryLoop n (.errWrap x .NOT none) r
    | .op .QUESTION :: r => primaryLoop n (.errWrap x .QUESTION none) r
    | _ => .ok (x, ts)
/-- `parseOperand(lhs, allowTuple = tup, allowCmd = false)`. -/
def parseOperand : Nat → Bool → Bool → List Tok → Res XExpr
  | 0, _, _, _ => .error .fuel
  | n + 1, lhs, tup, ts =>
    match ts with
    | .ident s :: r =>
      (match r with
       | .lit .STRING v :: _ => if isRawString v then .error .unsupp else .ok (.ident s, r)
       | _ => .ok (.ident s, r))
    | .lit k v :: r =>
      (match r with
       | .unit u :: r1 => .ok (.numUnit k v u, r1)
       | _ => .ok (.lit k v, r))
    | .op .LPAREN :: r =>
      (match tup, r with
       | true, .op .RPAREN :: r1 => .ok (.tuple [] false, r1)
       | _, _ =>
         match parseLambda n false r with
         | .error f => .error f
         | .ok (x, r1) =>
           match r1 with
           | .op .RPAREN :: r2 => .ok (.paren x, r2)
           | .op .COMMA :: _ => if tup then parseTupleItems n [x] r1 else .error .err
           | .op .ELLIPSIS :: _ => if tup then parseTupleItems n [x] r1 else .error .err
           | _ => .error .err)
    | .op .LBRACE :: r =>
      if lhs then .error .err
      else (match parseElements n [] r with
        | .error f => .error f
        | .ok (elts, r') => .ok (.composite none elts, r'))
    | .op .ENV :: r =>
      (match r with
       | .op .LBRACE :: .ident s :: .op .RBRACE :: r1 => .ok (.env s true, r1)
       | .ident s :: r1 => .ok (.env s false, r1)
       | _ => .error .err)
    | .op .LBRACK :: r => parseSliceLit n r
    | .kw _ :: _ => .error .unsupp
    | _ => .error .err
/-- The items of a `tupleExpr` after the first, starting with `,` or `...`. -/
def parseTupleItems : Nat → List XExpr → List Tok → Res XExpr
  | 0, _, _ => .error .fuel
  | n + 1, acc, ts =>
    match ts with
    | .op .COMMA :: r =>
      (match parseLambda n false r with
       | .error f => .error f
       | .ok (x, r1) => parseTupleItems n (x :: acc) r1)
    | .op .ELLIPSIS :: .op .RPAREN :: r => .ok (.tuple acc.reverse true, r)
    | .op .RPAREN :: r => .ok (.tuple acc.reverse false, r)
    | _ => .error .err
/-- `parseIndexOrSlice`, after `[`. -/
def parseIndexOrSlice : Nat → XExpr → List Tok → Res XExpr
  | 0, _, _ => .error .fuel
  | n + 1, x, ts =>
    let i0 : Except Fail (Option XExpr × List Tok) :=
      match ts with
      | .op .COLON :: _ => .ok (none, ts)
      | _ => match parseLambda n false ts with
        | .error f => .error f
        | .ok (e, r) => .ok (some e, r)
    match i0 with
    | .error f => .error f
    | .ok (lo, r) =>
      match r with
      | .op .RBRACK :: r1 =>
        (match lo with
         | some i => .ok (.index x i, r1)
         | none => .error .err)
      | .op .COMMA :: _ => .error .unsupp        -- generic instance
      | .op .COLON :: r1 =>
        -- first colon
        let i1 : Except Fail (Option XExpr × List Tok) :=
          match r1 with
          | .op .COLON :: _ => .ok (none, r1)
          | .op .RBRACK :: _ => .ok (none, r1)
          | [] => .ok (none, r1)
          | _ => match parseLambda n false r1 with
            | .error f => .error f
            | .ok (e, r2) => .ok (some e, r2)
        (match i1 with
         | .error f => .error f
         | .ok (hi, r2) =>
           match r2 with
           | .op .RBRACK :: r3 => .ok (.slice x lo hi none false, r3)
           | .op .COLON :: r3 =>
             let i2 : Except Fail (Option XExpr × List Tok) :=
               match r3 with
               | .op .COLON :: _ => .ok (none, r3)
               | .op .RBRACK :: _ => .ok (none, r3)
               | [] => .ok (none, r3)
               | _ => match parseLambda n false r3 with
                 | .error f => .error f
                 | .ok (e, r4) => .ok (some e, r4)
             (match i2 with
              | .error f => .error f
              | .ok (mx, r4) =>
                match r4 with
                | .op .RBRACK :: r5 =>
                  (match hi, mx with
                   | some _, some _ => .ok (.slice x lo hi mx true, r5)
                   | _, _ => .error .err)     -- middle / final index required
                | _ => .error .err)
           | _ => .error .err)
      | _ => .error .err
/-- The argument loop of `parseCallOrConversion` (isCmd = false), after `(`. -/
def parseArgs : Nat → List XExpr → List Tok → Res (List XExpr × Bool)
  | 0, _, _ => .error .fuel
  | n + 1, acc, ts =>
    match ts with
    | .op .RPAREN :: r => .ok ((acc.reverse, false), r)
    | [] => .error .err
    | _ =>
      match parseLambda n false ts with
      | .error f => .error f
      | .ok (e, r) =>
        match r with
        | .op .ELLIPSIS :: .op .RPAREN :: r1 => .ok (((e :: acc).reverse, true), r1)
        | .op .ELLIPSIS :: .op .COMMA :: .op .RPAREN :: r1 => .ok (((e :: acc).reverse, true), r1)
        | .op .COMMA :: r1 => parseArgs n (e :: acc) r1
        | .op .RPAREN :: r1 => .ok (((e :: acc).reverse, false), r1)
        | _ => .error .err
/-- `parseElementList` / `parseElementListOrComprehension`, after `{`, up to and including `}`. -/
def parseElements : Nat → List XExpr → List Tok → Res (List XExpr)
  | 0, _, _ => .error .fuel
  | n + 1, acc, ts =>
    match ts with
    | .op .RBRACE :: r => .ok (acc.reverse, r)
    | [] => .error .err
    | .kw _ :: _ => .error .unsupp               -- `for`: comprehension
    | _ =>
      match parseValue n true ts with
      | .error f => .error f
      | .ok (k, r) =>
        let elt : Res XExpr :=
          match r with
          | .op .COLON :: r1 =>
            (match parseValue n false r1 with
             | .error f => .error f
             | .ok (v, r2) => .ok (.kv k v, r2))
          | _ => .ok (k, r)
        match elt with
        | .error f => .error f
        | .ok (e, r2) =>
          match r2 with
          | .kw _ :: _ => .error .unsupp           -- comprehension
          | .op .COMMA :: r3 => parseElements n (e :: acc) r3
          | .op .RBRACE :: r3 => .ok ((e :: acc).reverse, r3)
          | _ => .error .err
/-- `parseValue(keyOk)`. -/
def parseValue : Nat → Bool → List Tok → Res XExpr
  | 0, _, _ => .error .fuel
  | n + 1, keyOk, ts =>
    match ts with
    | .op .LBRACE :: r =>
      (match parseElements n [] r with
       | .error f => .error f
       | .ok (elts, r') => .ok (.composite none elts, r'))
    | _ => if keyOk then parseBinary n true 1 false ts else parseLambda n false ts
/-- `parseArrayTypeOrSliceLit(stateArrayTypeOrSliceLit)` restricted to slice literals, after `[`. -/
def parseSliceLit : Nat → List Tok → Res XExpr
  | 0, _ => .error .fuel
  | n + 1, ts =>
    match ts with
    | .op .ELLIPSIS :: _ => .error .unsupp
    | .op .RBRACK :: r => if startsType r then .error .unsupp else .ok (.sliceLit [], r)
    | _ =>
      match parseLambda n false ts with
      | .error f => .error f
      | .ok (e, r) =>
        match r with
        | .op .RBRACK :: r1 => if startsType r1 then .error .unsupp else .ok (.sliceLit [e], r1)
        | .op .COMMA :: _ => parseSliceElts n [e] r
        | .kw _ :: _ => .error .unsupp
        | _ => .error .err
/-- `parseSliceOrMatrixLit`, from `,` after an element. -/
def parseSliceElts : Nat → List XExpr → List Tok → Res XExpr
  | 0, _, _ => .error .fuel
  | n + 1, acc, ts =>
    match ts with
    | .op .COMMA :: .op .RBRACK :: r => .ok (.sliceLit acc.reverse, r)
    | .op .COMMA :: r =>
      (match parseLambda n false r with
       | .error f => .error f
       | .ok (e, r1) => parseSliceElts n (e :: acc) r1)
    | .op .RBRACK :: r => .ok (.sliceLit acc.reverse, r)
    | .op .SEMICOLON :: _ => .error .unsupp      -- matrix literal
    | .op .ELLIPSIS :: _ => .error .unsupp       -- ElemEllipsis
    | _ => .error .err
end

/-- Fuel that suffices for every token list produced by the printer model (`C22`). -/
def fuelFor (ts : List Tok) : Nat := 64 * ts.length + 64

/-- `parser.ParseExpr` on an already scanned token list (without the final `;`/EOF). -/
def parseX (ts : List Tok) : Except Fail XExpr :=
  match parseLambda (fuelFor ts) false ts with
  | .error f => .error f
  | .ok (x, []) => .ok x
  | .ok (_, _ :: _) => .error .err

end GopModel.ExprSyntax
