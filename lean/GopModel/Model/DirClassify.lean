/-
Model of /repo/parser/parser_gop.go: `ParseFSDir` (the directory loop: directory entries,
extension switch, `gop_autogen` prefix, class-kind function, underscore prefix, filter, choice
of parser, grouping into the package map), `ParseFSEntry` / `ParseFSEntries` (classification of
a single file name) and `defaultClassKind`; plus Go's `path.Ext`.

File names are byte strings (`List UInt8`), exactly what a Go `string` holds.
What the two parsers do with a file's *content* is outside this model: it enters as the small
table `parseErr` / `pkgNameOf` over five content kinds (validated by the differential run).
Core Lean only.
-/
namespace GopModel.DirClassify

abbrev Name := List UInt8

/-! ## `path.Ext` -/

/-- Scan of `path.Ext` on the reversed name: walk from the end, stop at '/' (no extension) or
at '.' (extension = '.' and everything after it). `acc` = bytes already passed, in order. -/
def extRev : List UInt8 → List UInt8 → List UInt8
  | [], _ => []
  | c :: cs, acc =>
    if c = 0x2f then []
    else if c = 0x2e then c :: acc
    else extRev cs (c :: acc)

/-- `path.Ext(name)`. -/
def ext (s : Name) : Name := extRev s.reverse []

/-! ## literals -/
def dotXgo : Name := [0x2e, 0x78, 0x67, 0x6f]        -- ".xgo"
def dotGop : Name := [0x2e, 0x67, 0x6f, 0x70]        -- ".gop"
def dotGo : Name := [0x2e, 0x67, 0x6f]               -- ".go"
def dotGox : Name := [0x2e, 0x67, 0x6f, 0x78]        -- ".gox"
def dotSpx : Name := [0x2e, 0x73, 0x70, 0x78]        -- ".spx"
def dotGsh : Name := [0x2e, 0x67, 0x73, 0x68]        -- ".gsh"
def dotGmx : Name := [0x2e, 0x67, 0x6d, 0x78]        -- ".gmx"
def mainSpx : Name := [0x6d, 0x61, 0x69, 0x6e, 0x2e, 0x73, 0x70, 0x78]  -- "main.spx"
def mainName : Name := [0x6d, 0x61, 0x69, 0x6e]      -- "main"
/-- "gop_autogen" -/
def gopAutogen : Name := [0x67, 0x6f, 0x70, 0x5f, 0x61, 0x75, 0x74, 0x6f, 0x67, 0x65, 0x6e]

/-- `strings.HasPrefix(fname, "_")`. -/
def underscore : Name → Bool
  | c :: _ => c == 0x5f
  | [] => false

/-- `strings.HasPrefix(fname, "gop_autogen")`. -/
def isAutogen (fname : Name) : Bool := gopAutogen.isPrefixOf fname

/-! ## class kinds -/

/-- Result of a `ClassKind func(fname string) (isProj, ok bool)`. -/
abbrev ClassKindFn := Name → Bool × Bool

/-- `defaultClassKind`. -/
def defaultClassKind : ClassKindFn := fun fname =>
  let e := ext fname
  if e = dotSpx then (fname == mainSpx, true)
  else if e = dotGsh ∨ e = dotGmx then (true, true)
  else (false, false)

/-- How a case of `defaultClassKind`'s switch computes `isProj` (the forms the translator
`extract/dirclassify.go` accepts). -/
inductive ProjRule where
  | always | never | nameEq (lit : Name)
  deriving DecidableEq, Repr

def ProjRule.eval (fname : Name) : ProjRule → Bool
  | .always => true
  | .never => false
  | .nameEq lit => fname == lit

/-- Interpreter of the regenerated table `Generated.DirClassify.defaultClassKindCases`:
first case whose extension list contains `path.Ext(fname)`; `(false, false)` if none. -/
def evalClassKindCases : List (List Name × ProjRule × Bool) → ClassKindFn
  | [], _ => (false, false)
  | (exts, rule, ok) :: rest, fname =>
    if exts.contains (ext fname) then (rule.eval fname, ok) else evalClassKindCases rest fname

structure Flags where
  isProj : Bool
  isClass : Bool
  isNormalGox : Bool
  deriving DecidableEq, Repr

def Flags.none : Flags := ⟨false, false, false⟩

/-- Outcome of the extension `switch` in `ParseFSDir` for one non-directory entry. -/
inductive Kind where
  | skip                 -- `continue`
  | goFile               -- parsed by go/parser, stored in `GoFiles`
  | xgoFile (f : Flags)  -- parsed by the XGo parser, stored in `Files`
  deriving DecidableEq, Repr

/-- The `default:` branch shared by `.gox` (after `isNormalGox = true; fallthrough`) and
unknown extensions, as written in the source. -/
def classBranch (ck : ClassKindFn) (fname : Name) (isNormalGox : Bool) : Option Flags :=
  let r := ck fname
  if r.2 then some ⟨r.1, true, false⟩
  else if isNormalGox then some ⟨r.1, true, true⟩
  else Option.none

/-- The `switch ext` of `ParseFSDir`. `goAsXGo` = `conf.Mode & ParseGoAsGoPlus != 0`. -/
def classifyDir (goAsXGo : Bool) (ck : ClassKindFn) (fname : Name) : Kind :=
  let e := ext fname
  if e = dotXgo ∨ e = dotGop then .xgoFile Flags.none
  else if e = dotGo then
    if isAutogen fname then .skip
    else if goAsXGo then .xgoFile Flags.none
    else .goFile
  else
    match classBranch ck fname (e == dotGox) with
    | some f => .xgoFile f
    | Option.none => .skip

/-- Outcome of the `switch ext` of `ParseFSEntry` (`none` = `ErrUnknownFileKind`). -/
def classifyEntry (ck : ClassKindFn) (fname : Name) : Option Flags :=
  let e := ext fname
  if e = dotXgo ∨ e = dotGop ∨ e = dotGo then some Flags.none
  else classBranch ck fname (e == dotGox)

/-! ## file contents as seen by the parsers (table, validated differentially) -/

inductive CKind where
  | plain         -- `package P`                          : accepted by every parser
  | nonClassOnly  -- `package P; var ( x int = 1 )`       : error in class mode only
  | classOnly     -- `package P; var ( *T )`              : error except in class mode
  | broken        -- `package P; func (`                  : error in every parser
  | noPkgDecl     -- `x := 1`                             : XGo: package "main"; go/parser: error
  deriving DecidableEq, Repr

inductive Parser where
  | go | xgo | xgoClass
  deriving DecidableEq, Repr

def parseErr : Parser → CKind → Bool
  | _, .plain => false
  | .xgoClass, .nonClassOnly => true
  | _, .nonClassOnly => false
  | .xgoClass, .classOnly => false
  | _, .classOnly => true
  | _, .broken => true
  | .go, .noPkgDecl => true
  | _, .noPkgDecl => false

structure Content where
  pkg : Name
  kind : CKind
  deriving DecidableEq, Repr

/-- `f.Name.Name` of the parsed file. -/
def pkgNameOf (c : Content) : Name :=
  match c.kind with
  | .noPkgDecl => mainName
  | _ => c.pkg

/-! ## the directory loop -/

structure Entry where
  name : Name
  isDir : Bool
  filterOk : Bool      -- what `conf.Filter` answers for this entry (ignored when there is no filter)
  content : Content
  deriving DecidableEq, Repr

structure Config where
  goAsXGo : Bool                    -- Mode & ParseGoAsGoPlus
  modeClass : Bool                  -- Mode & ParseGoPlusClass passed in by the caller
  hasFilter : Bool                  -- conf.Filter != nil
  classKind : Option ClassKindFn    -- conf.ClassKind (none = nil → defaultClassKind)

def Config.ck (c : Config) : ClassKindFn := c.classKind.getD defaultClassKind

/-- Key of a slot in the package map: package name, file name, `GoFiles` (true) or `Files`. -/
structure Key where
  pkg : Name
  file : Name
  isGo : Bool
  deriving DecidableEq, Repr

/-- What one loop iteration does. -/
inductive Outcome where
  | skipped
  | errOnly                        -- go/parser failed: nothing stored, `first = err`
  | store (k : Key) (f : Flags) (err : Bool)
  deriving DecidableEq, Repr

def parserFor (cfg : Config) (f : Flags) : Parser :=
  if f.isClass || cfg.modeClass then .xgoClass else .xgo

/-- One iteration of the `for _, d := range list` loop of `ParseFSDir`, in source order:
directory test, extension switch, then underscore prefix and filter. -/
def outcome (cfg : Config) (e : Entry) : Outcome :=
  if e.isDir then .skipped
  else match classifyDir cfg.goAsXGo cfg.ck e.name with
    | .skip => .skipped
    | .goFile =>
      if !underscore e.name && (!cfg.hasFilter || e.filterOk) then
        if parseErr .go e.content.kind then .errOnly
        else .store ⟨e.content.pkg, e.name, true⟩ Flags.none false
      else .skipped
    | .xgoFile f =>
      if !underscore e.name && (!cfg.hasFilter || e.filterOk) then
        .store ⟨pkgNameOf e.content, e.name, false⟩ f (parseErr (parserFor cfg f) e.content.kind)
      else .skipped

/-- Go map assignment `m[k] = v` on an association list. -/
def upsert (k : Key) (v : Flags) (m : List (Key × Flags)) : List (Key × Flags) :=
  m.filter (fun p => p.1 ≠ k) ++ [(k, v)]

structure Result where
  slots : List (Key × Flags)   -- the package map, flattened (no empty packages exist)
  err : Bool                   -- `first != nil`
  deriving DecidableEq, Repr

def step (cfg : Config) (r : Result) (e : Entry) : Result :=
  match outcome cfg e with
  | .skipped => r
  | .errOnly => { r with err := true }
  | .store k f err => ⟨upsert k f r.slots, r.err || err⟩

/-- `ParseFSDir` on a successfully read directory listing. -/
def parseDir (cfg : Config) (listing : List Entry) : Result :=
  listing.foldl (step cfg) ⟨[], false⟩

/-! ## `ParseFSEntries` -/

inductive EntriesRes where
  | unknownKind                    -- `ErrUnknownFileKind`
  | parseError                     -- a parse error (first failing file aborts)
  | ok (slots : List (Key × Flags))
  deriving DecidableEq, Repr

def entriesLoop (cfg : Config) : List Entry → List (Key × Flags) → EntriesRes
  | [], acc => .ok acc
  | e :: rest, acc =>
    match classifyEntry cfg.ck e.name with
    | Option.none => .unknownKind
    | some f =>
      if parseErr (parserFor cfg f) e.content.kind then .parseError
      else entriesLoop cfg rest (upsert ⟨pkgNameOf e.content, e.name, false⟩ f acc)

def parseEntries (cfg : Config) (files : List Entry) : EntriesRes := entriesLoop cfg files []

end GopModel.DirClassify
