/-
M7 — file-system model for crash analysis (property C26, `xgo fmt` rewriting a file).

Two names matter: the file being formatted (`Ref.path`) and the temporary file of the
run (`Ref.tmp`).  A state maps each name to `Option File` (content, permission bits), has
one open descriptor (location it currently refers to + offset), the permission bits
remembered by `os.Stat(path)` and the process umask.

The program of `cmd/internal/gopfmt/fmt.go: writeFileWithBackup` is a `List Stmt` in a tiny
control-flow DSL (calls that may set `err`, `if err != nil {…}`, `if err == nil {…}`,
`return`); its meaning is the set of event traces `flat prog false` (every call may succeed or
fail); `mainOps` is the trace in which every call succeeds.  `runUntilCrash` stops a trace
after `k` events, optionally in the middle of event `k` (a partial write).
Core Lean only (compiled into `drv_fs`).
-/
namespace GopModel.FS

abbrev Bytes := List UInt8

structure File where
  content : Bytes
  mode : Nat
  deriving DecidableEq, Repr

inductive Ref where
  | path | tmp
  deriving DecidableEq, Repr

/-- What the open descriptor refers to: the inode currently named `path`, the inode
currently named `tmp`, or an inode that has no name any more. -/
inductive Loc where
  | atPath | atTmp | orphan
  deriving DecidableEq, Repr

/-- A mode argument: a constant, or the permission bits `os.Stat(path)` returned. -/
inductive ModeE where
  | const (m : Nat)
  | origPerm
  deriving DecidableEq, Repr

inductive Op where
  /-- `fi, err := os.Stat(path)` (follows a symbolic link) -/
  | stat
  /-- `fi, err := os.Lstat(path)` (describes the symbolic link itself if `path` is one) -/
  | lstat
  /-- `os.CreateTemp(dir(path), base(path))`: fresh name, `O_RDWR|O_CREAT|O_EXCL`, mode -/
  | createTemp (mode : Nat)
  /-- open for writing (`os.OpenFile`, `os.Create`, the open inside `os.WriteFile`) -/
  | openW (r : Ref) (creat excl trunc : Bool) (mode : Nat)
  /-- `f.Write(target)` on the open descriptor -/
  | write
  /-- `f.Chmod(m)` -/
  | chmodFd (m : ModeE)
  /-- `os.Chmod(name, m)` -/
  | chmodName (r : Ref) (m : ModeE)
  /-- `f.Sync()` (no effect on what a killed process leaves behind) -/
  | sync
  /-- `f.Close()` -/
  | close
  /-- `os.Remove(name)` -/
  | remove (r : Ref)
  /-- `os.Rename(src, dst)` (atomic replace) -/
  | rename (src dst : Ref)
  deriving DecidableEq, Repr

structure St where
  path : Option File
  tmp : Option File
  fd : Option (Loc × Nat)
  perm : Option Nat
  umask : Nat
  /-- `some m`: the name `path` is a symbolic link whose own mode is `m` (0777 on Linux);
  `path` below is then the file the link resolves to (content reachable through the path, mode of
  the file holding it).  Renaming over `path` / removing `path` replaces / removes the link. -/
  link : Option Nat
  deriving DecidableEq, Repr

def Ref.loc : Ref → Loc
  | .path => .atPath
  | .tmp => .atTmp

def St.get (s : St) : Ref → Option File
  | .path => s.path
  | .tmp => s.tmp

def St.set (s : St) : Ref → Option File → St
  | .path, f => { s with path := f }
  | .tmp, f => { s with tmp := f }

def St.getLoc (s : St) : Loc → Option File
  | .atPath => s.path
  | .atTmp => s.tmp
  | .orphan => none

def St.setLoc (s : St) : Loc → File → St
  | .atPath, f => { s with path := some f }
  | .atTmp, f => { s with tmp := some f }
  | .orphan, _ => s

/-- Mode of a newly created file: requested bits minus the umask. -/
def createMode (umask m : Nat) : Nat := m &&& (0o7777 ^^^ (umask &&& 0o7777))

/-- `pwrite`-like overwrite of `d` at offset `off`. -/
def overwrite (c : Bytes) (off : Nat) (d : Bytes) : Bytes :=
  c.take off ++ d ++ c.drop (off + d.length)

/-- Write `d` through the open descriptor (no descriptor: `EBADF`, no effect). -/
def writeBytes (d : Bytes) (s : St) : St :=
  match s.fd with
  | none => s
  | some (loc, off) =>
    let s' : St := { s with fd := some (loc, off + d.length) }
    match s.getLoc loc with
    | none => s'
    | some f => s'.setLoc loc { f with content := overwrite f.content off d }

def evalMode (s : St) : ModeE → Option Nat
  | .const m => some m
  | .origPerm => s.perm

def chmodFile (f : Option File) (m : Nat) : Option File :=
  f.map fun x => { x with mode := m }

/-- Effect of a *successful* operation; `data` is the formatted content.  An operation
whose kernel precondition does not hold (rename of a missing file, …) has no effect. -/
def apply (data : Bytes) : Op → St → St
  | .stat, s =>
    match s.path with
    | some f => { s with perm := some f.mode }
    | none => s
  | .lstat, s =>
    match s.link with
    | some m => { s with perm := some m }
    | none =>
      match s.path with
      | some f => { s with perm := some f.mode }
      | none => s
  | .createTemp m, s =>
    { s with tmp := some ⟨[], createMode s.umask m⟩, fd := some (.atTmp, 0) }
  | .openW r creat excl trunc m, s =>
    match s.get r with
    | some f =>
      if creat && excl then s
      else
        let s1 := if trunc then s.set r (some { f with content := [] }) else s
        { s1 with fd := some (r.loc, 0) }
    | none =>
      if creat then { (s.set r (some ⟨[], createMode s.umask m⟩)) with fd := some (r.loc, 0) }
      else s
  | .write, s => writeBytes data s
  | .chmodFd m, s =>
    match s.fd, evalMode s m with
    | some (loc, _), some v =>
      match s.getLoc loc with
      | some f => s.setLoc loc { f with mode := v }
      | none => s
    | _, _ => s
  | .chmodName r m, s =>
    match evalMode s m with
    | some v => s.set r (chmodFile (s.get r) v)
    | none => s
  | .sync, s => s
  | .close, s => { s with fd := none }
  | .remove r, s =>
    match s.get r with
    | none => s
    | some _ =>
      let s1 := s.set r none
      match s.fd with
      | some (loc, off) => if loc = r.loc then { s1 with fd := some (.orphan, off) } else s1
      | none => s1
  | .rename src dst, s =>
    if src = dst then s
    else match s.get src with
      | none => s
      | some f =>
        let s1 := (s.set dst (some f)).set src none
        match s.fd with
        | some (loc, off) =>
          if loc = src.loc then { s1 with fd := some (dst.loc, off) }
          else if loc = dst.loc then { s1 with fd := some (.orphan, off) }
          else s1
        | none => s1

/-- `apply` plus the effect on the symbolic-link node: a rename onto `path` (and a removal of
`path`) replaces (removes) the link itself, so afterwards `path` is not a link any more. -/
def applyL (data : Bytes) (o : Op) (s : St) : St :=
  match o with
  | .rename .tmp .path => { apply data o s with link := none }
  | .remove .path => { apply data o s with link := none }
  | _ => apply data o s

/-- Effect of an operation that fails, or during which the process is killed: nothing,
except that a write may already have transferred its first `n` bytes. -/
def applyFail (data : Bytes) (n : Nat) : Op → St → St
  | .write, s => writeBytes (data.take n) s
  | _, s => s

inductive Ev where
  | ok (op : Op)
  | fail (op : Op)
  deriving DecidableEq, Repr

def Ev.op : Ev → Op
  | .ok o => o
  | .fail o => o

def applyEv (data : Bytes) (n : Nat) : Ev → St → St
  | .ok o, s => applyL data o s
  | .fail o, s => applyFail data n o s

/-- Run a whole trace; `pw i` = bytes transferred by event `i` if it is a failing write. -/
def runEvs (data : Bytes) : List Ev → (Nat → Nat) → St → St
  | [], _, s => s
  | e :: es, pw, s => runEvs data es (fun i => pw (i + 1)) (applyEv data (pw 0) e s)

/-- State left behind when the process is killed after `k` complete events of the trace;
`mid = some n`: it is killed inside event `k`, a write having transferred `n` bytes. -/
def runUntilCrash (data : Bytes) : List Ev → Nat → Option Nat → (Nat → Nat) → St → St
  | [], _, _, _, s => s
  | e :: _, 0, mid, _, s =>
    match mid with
    | none => s
    | some n => applyFail data n e.op s
  | e :: es, k + 1, mid, pw, s =>
    runUntilCrash data es k mid (fun i => pw (i + 1)) (applyEv data (pw 0) e s)

/-! ## The control-flow DSL -/

inductive Simple where
  /-- a call; `setsErr`: its error result is assigned to `err` -/
  | call (op : Op) (setsErr : Bool)
  | ret
  deriving DecidableEq, Repr

inductive Stmt where
  | simple (s : Simple)
  /-- `if err != nil { body }` -/
  | ifErr (body : List Simple)
  /-- `if err == nil { body }` -/
  | ifOk (body : List Simple)
  deriving DecidableEq, Repr

/-- Traces of a block body from `err`; each with the final `err` and "has returned". -/
def flatSimple : List Simple → Bool → List (List Ev × Bool × Bool)
  | [], err => [([], err, false)]
  | .ret :: _, err => [([], err, true)]
  | .call op se :: rest, err =>
    (flatSimple rest (if se then false else err)).map (fun (t, e, r) => (Ev.ok op :: t, e, r)) ++
    (flatSimple rest (if se then true else err)).map (fun (t, e, r) => (Ev.fail op :: t, e, r))

/-- All event traces of a function body, starting with the given value of `err != nil`. -/
def flat : List Stmt → Bool → List (List Ev)
  | [], _ => [[]]
  | .simple .ret :: _, _ => [[]]
  | .simple (.call op se) :: rest, err =>
    (flat rest (if se then false else err)).map (Ev.ok op :: ·) ++
    (flat rest (if se then true else err)).map (Ev.fail op :: ·)
  | .ifErr body :: rest, err =>
    if err then
      (flatSimple body err).flatMap fun (t, e, r) =>
        if r then [t] else (flat rest e).map (t ++ ·)
    else flat rest err
  | .ifOk body :: rest, err =>
    if err then flat rest err
    else
      (flatSimple body err).flatMap fun (t, e, r) =>
        if r then [t] else (flat rest e).map (t ++ ·)

/-- Calls of a block when every call succeeds (`err` stays nil); `true` = returned. -/
def mainSimple : List Simple → List Op × Bool
  | [] => ([], false)
  | .ret :: _ => ([], true)
  | .call op _ :: rest => let (t, r) := mainSimple rest; (op :: t, r)

/-- The calls made when every call succeeds. -/
def mainOps : List Stmt → List Op
  | [] => []
  | .simple .ret :: _ => []
  | .simple (.call op _) :: rest => op :: mainOps rest
  | .ifErr _ :: rest => mainOps rest
  | .ifOk body :: rest =>
    let (t, r) := mainSimple body
    if r then t else t ++ mainOps rest

def mainTrace (prog : List Stmt) : List Ev := (mainOps prog).map Ev.ok

/-- Initial state: the file exists with the original content and permission bits; the
temporary name may or may not be taken (`stale`); nothing open; `link = some m`: the path is a
symbolic link (own mode `m`) to that file. -/
def init (orig : Bytes) (mode : Nat) (stale : Option File) (umask : Nat) (link : Option Nat := none) : St :=
  { path := some ⟨orig, mode⟩, tmp := stale, fd := none, perm := none, umask := umask, link := link }

end GopModel.FS
