/-
Model of /repo/format/formatutil/format_gop.go (after fix 84c0657): splitStmts, tokOf, aStmt.isDecl,
aStmt.isFuncDecl, isFuncDecl, seekAfter, startWith, firstNonDecl, codeOf, RearrangeFuncs and
SourceEx.  The scanner is NOT modelled here: the functions work on the `(pos, tok)` list that
the real scanner produced up to (excluding) EOF, with `pos` already made relative to the file
base (`int(pos) - base`).  Core Lean only.
-/
namespace GopModel.Rearrange

abbrev Bytes := List UInt8

/-- The token kinds `format_gop.go` distinguishes; everything else is `other`. -/
inductive Tok where
  | comment | lbrace | rbrace | semicolon | lparen | rparen | period
  | const | type | var | func | other
  deriving Repr, DecidableEq, Inhabited

/-- `aWord`: position (offset in `src`) and token kind. -/
structure Word where
  pos : Nat
  tok : Tok
  deriving Repr, DecidableEq

/-- `aStmt`. -/
structure Stmt where
  words : List Word
  tok : Tok
  atIdx : Nat
  deriving Repr, DecidableEq

/-- `tokOf`: first non-comment word (kind, index); `(words[0].tok, 0)` when all are comments.
`none` models the index panic of `words[0]` on an empty list. -/
def tokOfFrom : List Word → Nat → Option (Tok × Nat)
  | [], _ => none
  | w :: ws, i => if w.tok ≠ .comment then some (w.tok, i) else tokOfFrom ws (i + 1)

def tokOf (words : List Word) : Option (Tok × Nat) :=
  match tokOfFrom words 0 with
  | some r => some r
  | none =>
    match words with
    | [] => none            -- words[0] panics
    | w :: _ => some (w.tok, 0)

/-- `startWith`: skip comments, then test the first remaining word. -/
def startWith : List Word → Tok → Bool
  | [], _ => false
  | w :: ws, tok =>
    if w.tok = .comment then startWith ws tok
    else decide (w.tok = tok)

/-- `seekAfter words tokR tokL` with the running nesting `level`; `[]` stands for `nil`. -/
def seekAfterLoop : List Word → Tok → Tok → Int → List Word
  | [], _, _, _ => []
  | w :: ws, tokR, tokL, level =>
    if w.tok = tokR then
      if level = 0 then ws else seekAfterLoop ws tokR tokL (level - 1)
    else if w.tok = tokL then seekAfterLoop ws tokR tokL (level + 1)
    else seekAfterLoop ws tokR tokL level

def seekAfter (words : List Word) (tokR tokL : Tok) : List Word :=
  seekAfterLoop words tokR tokL 0

/-- `skipComments`. -/
def skipComments : List Word → List Word
  | [] => []
  | w :: ws => if w.tok = .comment then skipComments ws else w :: ws

/-- The package-level `isFuncDecl(words)`: words after the `func` keyword.
`func (recv) nameOrOp(` and `func (T).name` are declarations; `func (...) {`, `func (...) (`,
`func (...) func`, `func (...) result {` and an unclosed `func (` are function literals. -/
def isFuncDeclWords (words : List Word) : Bool :=
  let words := skipComments words
  if startWith words .lparen then
    -- `words[1:]` (words is non-empty here because startWith returned true)
    match skipComments (seekAfter (words.drop 1) .rparen .lparen) with
    | [] => false
    | w :: rest =>
      match w.tok with
      | .period => true
      | .lparen | .lbrace | .func => false
      | _ => startWith rest .lparen
  else true

/-- `aStmt.isFuncDecl`. -/
def Stmt.isFuncDecl (s : Stmt) : Bool :=
  s.tok = .func && isFuncDeclWords (s.words.drop (s.atIdx + 1))

/-- `aStmt.isDecl`. -/
def Stmt.isDecl (s : Stmt) : Bool :=
  match s.tok with
  | .const | .type | .var => true
  | .func => isFuncDeclWords (s.words.drop (s.atIdx + 1))
  | _ => false

def mkStmt (words : List Word) : Stmt :=
  match tokOf words with
  | some (t, i) => { words := words, tok := t, atIdx := i }
  | none => { words := words, tok := .other, atIdx := 0 }   -- unreachable: words is never empty

/-- `splitStmts`: `toks` is what `s.Scan()` returns before EOF; `level` the brace depth;
`cur` the words of the statement being collected (dropped when EOF arrives). -/
def nextLevel (t : Tok) (level : Int) : Int :=
  match t with
  | .lbrace => level + 1
  | .rbrace => level - 1
  | _ => level

def splitLoop : List Word → Int → List Word → List Stmt
  | [], _, _ => []
  | w :: ws, level, cur =>
    let cur' := cur ++ [w]
    let level' := nextLevel w.tok level
    if w.tok = .semicolon ∧ level' = 0 then mkStmt cur' :: splitLoop ws level' []
    else splitLoop ws level' cur'

def splitStmts (toks : List Word) : List Stmt := splitLoop toks 0 []

/-- `firstNonDecl`: index of the first statement that is not a declaration. -/
def firstNonDeclFrom : List Stmt → Nat → Option Nat
  | [], _ => none
  | s :: ss, i => if !s.isDecl then some i else firstNonDeclFrom ss (i + 1)

def firstNonDecl (stmts : List Stmt) : Option Nat := firstNonDeclFrom stmts 0

/-- Go's `src[from:to]`; `none` = slice-bounds panic.  (Go checks `to ≤ cap(src)`; the model
uses `len(src)`, the two differ only for positions beyond the file, which the scanner never
produces.) -/
def slice (src : Bytes) (frm to : Nat) : Option Bytes :=
  if frm ≤ to ∧ to ≤ src.length then some ((src.drop frm).take (to - frm)) else none

/-- `stmt.words[0].pos`; `none` = index panic. -/
def Stmt.firstPos (s : Stmt) : Option Nat :=
  match s.words with
  | [] => none
  | w :: _ => some w.pos

/-- `codeOf(src, base, i, rest)` for every `i`, paired with `rest[i].isFuncDecl()`. -/
def codes (src : Bytes) : List Stmt → List (Bool × Option Bytes)
  | [] => []
  | [s] => [(s.isFuncDecl, s.firstPos.bind fun f => slice src f src.length)]
  | s :: t :: r =>
    (s.isFuncDecl, s.firstPos.bind fun f => t.firstPos.bind fun e => slice src f e)
      :: codes src (t :: r)

/-- Concatenate optional chunks; `none` if any of them panicked. -/
def joinOpt : List (Option Bytes) → Option Bytes
  | [] => some []
  | none :: _ => none
  | some b :: t => (joinOpt t).map (b ++ ·)

inductive Res where
  | ok (out : Bytes)
  | panic
  deriving Repr, DecidableEq

/-- `RearrangeFuncs` (its error result is always nil). -/
def rearrange (src : Bytes) (toks : List Word) : Res :=
  let stmts := splitStmts toks
  match firstNonDecl stmts with
  | none => .ok src
  | some first =>
    match stmts.drop first with
    | [] => .panic                       -- stmts[first] out of range (unreachable)
    | s0 :: rest' =>
      let rest := s0 :: rest'
      match s0.firstPos.bind (fun off => slice src 0 off) with
      | none => .panic
      | some pre =>
        let cs := codes src rest
        let funcs := (cs.filter (fun c => c.1)).map (·.2)
        let others := (cs.filter (fun c => !c.1)).map (·.2)
        match joinOpt funcs, joinOpt others with
        | some a, some b => .ok (pre ++ a ++ b)
        | _, _ => .panic

/-- Result of `format.Source` / `SourceEx`: formatted bytes or an error (or a panic escaping). -/
inductive FRes (ε : Type) where
  | ok (out : Bytes)
  | err (e : ε)
  | panic
  deriving Repr, DecidableEq

/-- `SourceEx` with `format.Source` as a parameter (`class`/`filename` are fixed inside it). -/
def sourceEx {ε : Type} (source : Bytes → FRes ε) (src : Bytes) (toks : List Word) : FRes ε :=
  match source src with
  | .ok out => .ok out
  | .panic => .panic
  | .err _ =>
    match rearrange src toks with
    | .ok src' => source src'
    | .panic => .panic

end GopModel.Rearrange
