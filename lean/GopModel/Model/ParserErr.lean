/-
C13 — models of the error handling of /repo/parser (core Lean only).

(i)  `parserError` / `run` / `result`: `parser.error` (parser.go: same-line discard, bailout when
     more than `errorLimit` errors are recorded, unless AllErrors), the scanner's error handler
     installed by `parser.init` (`p.errors.Add`, no discipline), lists appended from sub-parsers
     (`stringLitExpr`, `tplLit`, `domainTextLitEx`: `p.errors = append(p.errors, err...)`), and the
     `p.errors.Sort()` of the deferred function of `parseFile` / `ParseExprFrom` / `ParseExprEx`.
(ii) `advance`: the resynchronisation loop `parser.advance` with `syncPos` / `syncCnt`.

The limits (10 and 10) are read off the source by the translator (Generated/ParserRecover.lean),
which also checks that both function bodies still have the shape transcribed here.
-/
import GopModel.Generated.ParserRecover
namespace GopModel.ParserErr

/-! ## (i) the error list -/

/-- Where an entry of `p.errors` came from. -/
inductive Origin where
  | own      -- recorded by this parser's `error`
  | scanner  -- recorded by the scanner's error handler
  | sub      -- appended from a sub-parser's list
  deriving Repr, DecidableEq

/-- One recorded error: reported line, column, message (rank in Go's string order). -/
structure Err where
  line : Nat
  col : Nat
  msg : Nat
  origin : Origin
  deriving Repr, DecidableEq

/-- An event in the life of `p.errors`. -/
inductive Ev where
  | parse (line col msg : Nat)              -- p.error(pos, msg)
  | scan (line col msg : Nat)               -- eh(pos, msg) from the scanner
  | sub (es : List (Nat × Nat × Nat))       -- p.errors = append(p.errors, err...)
  deriving Repr

inductive Step where
  | ok (errs : List Err)
  | bailout (errs : List Err)
  deriving Repr, DecidableEq

/-- `n > 0 && p.errors[n-1].Pos.Line == epos.Line` -/
def sameLineAsLast (errs : List Err) (line : Nat) : Bool :=
  match errs.getLast? with
  | some l => l.line == line
  | none => false

/-- `parser.error`:
```
if p.mode&AllErrors == 0 {
    n := len(p.errors)
    if n > 0 && p.errors[n-1].Pos.Line == epos.Line { return }
    if n > limit { panic(bailout{}) }
}
p.errors.Add(epos, msg)
``` -/
def parserError (limit : Nat) (allErrors : Bool) (errs : List Err) (line col msg : Nat) : Step :=
  let e : Err := ⟨line, col, msg, .own⟩
  if allErrors then .ok (errs ++ [e])
  else if sameLineAsLast errs line then .ok errs
  else if errs.length > limit then .bailout errs
  else .ok (errs ++ [e])

def subErrs (es : List (Nat × Nat × Nat)) : List Err :=
  es.map fun t => ⟨t.1, t.2.1, t.2.2, .sub⟩

/-- The events in order; a bailout ends the run (the panic unwinds to the deferred function).
Result: the list as recorded and whether the run bailed out. -/
def run (limit : Nat) (allErrors : Bool) : List Ev → List Err → List Err × Bool
  | [], errs => (errs, false)
  | .parse l c m :: rest, errs =>
    match parserError limit allErrors errs l c m with
    | .ok es => run limit allErrors rest es
    | .bailout es => (es, true)
  | .scan l c m :: rest, errs => run limit allErrors rest (errs ++ [⟨l, c, m, .scanner⟩])
  | .sub es :: rest, errs => run limit allErrors rest (errs ++ subErrs es)

/-- The order of `scanner.ErrorList.Less` within one file: line, column, message. -/
def Err.le (a b : Err) : Bool :=
  a.line < b.line || (a.line == b.line && (a.col < b.col || (a.col == b.col && a.msg ≤ b.msg)))

def insertErr (e : Err) : List Err → List Err
  | [] => [e]
  | x :: xs => if e.le x then e :: x :: xs else x :: insertErr e xs

/-- `p.errors.Sort()` (the result of sorting is unique up to entries that are equal in
line, column and message, which is all the caller can observe). -/
def sortErrs : List Err → List Err
  | [] => []
  | x :: xs => insertErr x (sortErrs xs)

/-- What the deferred function of an entry point hands back: the sorted list. -/
def result (limit : Nat) (allErrors : Bool) (evs : List Ev) : List Err :=
  sortErrs (run limit allErrors evs []).1

def ownCount (errs : List Err) : Nat := (errs.filter fun e => e.origin == .own).length

/-! ## (ii) `advance` -/

/-- A token as the parser sees it: kind name and `token.Pos`. -/
structure PTok where
  kind : String
  pos : Nat
  deriving Repr, DecidableEq

/-- Parser state relevant to `advance`: the remaining tokens (head = current token `p.tok`
at `p.pos`; a well-formed stream ends with EOF, which `next` never leaves), `syncPos`, `syncCnt`. -/
structure PS where
  toks : List PTok
  syncPos : Nat
  syncCnt : Nat
  deriving Repr, DecidableEq

def atEOF (s : PS) : Bool :=
  match s.toks with
  | [] => true
  | t :: _ => t.kind == "EOF"

/-- `p.next()` on the token level: EOF is sticky. -/
def next (s : PS) : PS :=
  match s.toks with
  | [] => s
  | t :: rest => if t.kind == "EOF" then s else { s with toks := rest }

/-- `parser.advance(to)`:
```
for ; p.tok != token.EOF; p.next() {
    if to[p.tok] {
        if p.pos == p.syncPos && p.syncCnt < limit { p.syncCnt++; return }
        if p.pos > p.syncPos { p.syncPos = p.pos; p.syncCnt = 0; return }
    }
}
``` -/
def advanceLoop (limit : Nat) (to : String → Bool) : List PTok → Nat → Nat → PS
  | [], sp, sc => ⟨[], sp, sc⟩
  | t :: rest, sp, sc =>
    if t.kind == "EOF" then ⟨t :: rest, sp, sc⟩
    else if to t.kind then
      if t.pos == sp && sc < limit then ⟨t :: rest, sp, sc + 1⟩
      else if t.pos > sp then ⟨t :: rest, t.pos, 0⟩
      else advanceLoop limit to rest sp sc
    else advanceLoop limit to rest sp sc

def advance (limit : Nat) (to : String → Bool) (s : PS) : PS :=
  advanceLoop limit to s.toks s.syncPos s.syncCnt

/-- The second component of the progress measure: how many more calls of `advance` can return
without consuming a token at the current position. -/
def stallBudget (limit : Nat) (s : PS) : Nat :=
  match s.toks with
  | [] => 0
  | t :: _ => if t.pos > s.syncPos then limit + 1 else limit - s.syncCnt

def iterAdvance (limit : Nat) (to : String → Bool) : Nat → PS → PS
  | 0, s => s
  | n + 1, s => iterAdvance limit to n (advance limit to s)

/-- The three synchronisation sets of parser.go, by the letter used in harness scripts. -/
def toSet (c : Char) : String → Bool :=
  if c = 's' then fun k => Generated.ParserRecover.stmtStart.contains k
  else if c = 'd' then fun k => Generated.ParserRecover.declStart.contains k
  else fun k => Generated.ParserRecover.exprEnd.contains k

def stepOp (c : Char) (s : PS) : PS :=
  if c = 'n' then next s else advance Generated.ParserRecover.advanceLimit (toSet c) s

/-- States after init and after every operation of a script. -/
def runScript : List Char → PS → List PS
  | [], s => [s]
  | c :: cs, s => s :: runScript cs (stepOp c s)

end GopModel.ParserErr
