/-
M4 (3/4) — Lower: what the XGo compiler emits for the sugar, as a syntax-to-syntax function.

Transcribes (read as the Go statements the gogen builder calls emit):
* /repo/cl/expr.go `compileComprehensionExpr` (1557-1645): closure with result `_gop_ret`
  (`_gop_ok` for `{for …}`; `_gop_ret, _gop_ok` for the two-value select); map result initialised
  `_gop_ret = map[K]V{}`; for-phrases opened from the LAST to the first (`for i := len(v.Fors)-1 …`),
  so the last phrase is the outermost `for _, x := range`; key `_` when absent; `if init; cond`;
  innermost `_gop_ret = append(_gop_ret, elt)` / `_gop_ret[k] = v` / `return elt[, true]` /
  `return true`; closing `return`; immediate call.
* /repo/cl/expr.go `compileErrWrapExpr` (1655-1741): the wrapped call is compiled first; `!` and `?:`
  use a closure `func() (_gop_ret T, _gop_ret2 …) { var _gop_err error; _gop_ret, …, _gop_err = call;
  if _gop_err != nil { … }; return }()`; `!`: `_gop_err = errors.NewFrame(_gop_err, code, file, line,
  fn); panic(_gop_err)`; `?:`: `return d`.  `?` uses gogen's INLINE closure (`CallInlineClosureStart`):
  the statements are emitted as a block BEFORE the statement that contains the expression, results
  live in fresh `_autoGo_n` variables declared in front of the block, and `ReturnErr(true)` emits
  `return <zero values of the enclosing function's other results>, _gop_err`.  (`hoistE`/`hoistS`.)
* /repo/cl/expr.go `compileSliceLit` / `compileCompositeLitEx`+`compileMapLitEx`: `[…]` → `[]T{…}`,
  `{k: v}` → `map[K]V{…}` (types are inferred by gogen; here they are annotations).
* /repo/cl/stmt.go `compileSendStmt` (261-294): `a <- v1, …` → `a = append(a, v1, …)` (`...` kept).
* /repo/cl/stmt.go `compileForPhraseStmt` (458-507): `for k, v <- x if c { body }` →
  `for k, v := range x { if c { body } }`; without a key: `for _, v := range x`.
* command-style call `f a, b` → `f(a, b)` (parser/cl: a CallExpr with NoParenEnd).

INTERFACE
* `isTmp x`     compiler temporaries (`_gop_…`, `_autoGo_…`); source programs must not use them.
* `lowerX fn : Expr → Expr`   expression sugar (everything but `?`); `fn` = "main.g" for frames.
* `hoistE`/`hoistS`           pulls every `f(args)?` out of a statement (left to right) into the
                              inlined blocks; positions the real compiler rejects are left in place
                              (inside closures: comprehensions, `?:` defaults; `if`/`for` headers).
* `lowerXS`, `lowerStmt`, `lowerFn`, `lowerProg`.
* `Expr.isGo`/`Stmt.isGo`/`Prog.isGo`  "no sugar constructor" = the MiniGo fragment.
* `Prog.compilable`  model of "the real compiler accepts": lowering succeeded in removing all sugar,
                     every `?` wraps a call with ≤ 1 value (gogen's inline closure cannot deliver
                     several values — recorded finding) and a `?` used as a statement has no value
                     (the compiler would emit the bare result variable as a statement — recorded finding).
Not modelled: range expressions (`a:b:c`, C04), lambdas, string interpolation, `_autoGo` numbering
across functions (gogen numbers per package; the structural tie renames), the `goto` to the label
that ends an inlined block.
Core Lean only.
-/
import GopModel.Model.MiniXGo
namespace GopModel.Mini

/-- (Written on character lists so that the kernel can evaluate it.) -/
def isTmp (x : String) : Bool :=
  "_gop_".toList.isPrefixOf x.toList || "_autoGo_".toList.isPrefixOf x.toList

/-- `_gop_ret`, `_gop_ret2`, `_gop_ret3`, … paired with the value types. -/
def retNamesFrom : Nat → List Ty → List (String × Ty)
  | _, [] => []
  | i, t :: ts => ((if i = 1 then "_gop_ret" else "_gop_ret" ++ toString i), t) :: retNamesFrom (i + 1) ts

def retNames (tys : List Ty) : List (String × Ty) := retNamesFrom 1 tys

def gopErr : Expr := .var "_gop_err"

/-- `if _gop_err != nil { <onErr> }`. -/
def ifErr (onErr : List Stmt) : Stmt := .ifS (.cond (.neNil gopErr)) onErr []

def wrapFrameStmt (code fn : String) : Stmt := .assign ["_gop_err"] [.newFrame gopErr code fn]

def filterWrap (f : Filter) (inner : List Stmt) : List Stmt :=
  match f with
  | .none => inner
  | f => [.ifS f inner []]

mutual
def lowerX (fn : String) : Expr → Expr
  | .lit v => .lit v
  | .zero t => .zero t
  | .var x => .var x
  | .bin op a b => .bin op (lowerX fn a) (lowerX fn b)
  | .not a => .not (lowerX fn a)
  | .listLit t es => .listLit t (lowerXs fn es)
  | .mapLit k v kvs => .mapLit k v (lowerKVs fn kvs)
  | .index vt a i => .index vt (lowerX fn a) (lowerX fn i)
  | .len a => .len (lowerX fn a)
  | .append a vs sp => .append (lowerX fn a) (lowerXs fn vs) sp
  | .call f args => .call f (lowerXs fn args)
  | .probe id e => .probe id (lowerX fn e)
  | .closure rs body => .closure rs body          -- not a source construct
  | .newFrame e code f => .newFrame (lowerX fn e) code f
  | .neNil e => .neNil (lowerX fn e)
  | .sliceLit t es => .listLit t (lowerXs fn es)
  | .xmapLit k v kvs => .mapLit k v (lowerKVs fn kvs)
  | .listCompr t elt fors =>
    .closure [("_gop_ret", .list t)]
      (nestFors fn [.assign ["_gop_ret"] [.append (.var "_gop_ret") [lowerX fn elt] false]] fors
        ++ [.ret []])
  | .mapCompr kt vt k v fors =>
    .closure [("_gop_ret", .map kt vt)]
      (.assign ["_gop_ret"] [.mapLit kt vt []]
        :: (nestFors fn [.setIndex "_gop_ret" (lowerX fn k) (lowerX fn v)] fors ++ [.ret []]))
  | .selCompr t elt fors two =>
    .closure (("_gop_ret", t) :: (if two then [("_gop_ok", Ty.bool)] else []))
      (nestFors fn [.ret (lowerX fn elt :: (if two then [.lit (.bool true)] else []))] fors
        ++ [.ret []])
  | .existsCompr fors =>
    .closure [("_gop_ok", .bool)] (nestFors fn [.ret [.lit (.bool true)]] fors ++ [.ret []])
  | .errBang code f args tys =>
    .closure (retNames tys)
      [.varDecl "_gop_err" .err,
       .assign ((retNames tys).map (·.1) ++ ["_gop_err"]) [.call f (lowerXs fn args)],
       ifErr [wrapFrameStmt code fn, .panic gopErr],
       .ret []]
  | .errQ code f args tys => .errQ code f (lowerXs fn args) tys   -- only reached where `?` cannot be compiled
  | .errDflt f args t d =>
    .closure [("_gop_ret", t)]
      [.varDecl "_gop_err" .err,
       .assign ["_gop_ret", "_gop_err"] [.call f (lowerXs fn args)],
       ifErr [.ret [lowerX fn d]],
       .ret []]
  | .cmdCall f args => .call f (lowerXs fn args)
def lowerXs (fn : String) : List Expr → List Expr
  | [] => []
  | e :: es => lowerX fn e :: lowerXs fn es
def lowerKVs (fn : String) : List KV → List KV
  | [] => []
  | .mk k v :: r => .mk (lowerX fn k) (lowerX fn v) :: lowerKVs fn r
def lowerFilter (fn : String) : Filter → Filter
  | .none => .none
  | .cond c => .cond (lowerX fn c)
  | .initCond x i c => .initCond x (lowerX fn i) (lowerX fn c)
/-- Wrap `inner` in the loops of the phrases: the FIRST phrase of the list becomes the INNERMOST
loop (the compiler opens the loops from the last phrase to the first). -/
def nestFors (fn : String) (inner : List Stmt) : List Phrase → List Stmt
  | [] => inner
  | .mk key val x f :: ps =>
    nestFors fn
      [.forRange (some (key.getD "_")) (some val) (lowerX fn x) (filterWrap (lowerFilter fn f) inner)]
      ps
end

/-! ## hoisting of `f(args)?` (gogen inline closure) -/

def tmpName (n : Nat) : String := "_autoGo_" ++ toString n

/-- Fresh result variables of an inlined `?`: one `_autoGo_k` per value. -/
def tmpNamesFrom : Nat → List Ty → List (String × Ty)
  | _, [] => []
  | n, t :: ts => (tmpName n, t) :: tmpNamesFrom (n + 1) ts

/-- Zero values returned for the enclosing function's results other than the last. -/
def zeroRets (rtys : List Ty) : List Expr := (rtys.reverse.tail.reverse).map Expr.zero

/-- The inlined body of `f(args)?`. -/
def qBlock (code fn f : String) (rtys : List Ty) (targets : List String) (args : List Expr) : Stmt :=
  .block
    [.varDecl "_gop_err" .err,
     .assign (targets ++ ["_gop_err"]) [.call f args],
     ifErr [wrapFrameStmt code fn, .ret (zeroRets rtys ++ [gopErr])]]

mutual
/-- Returns (statements to run first, residual expression, next fresh number). -/
def hoistE (fn : String) (rtys : List Ty) : Expr → Nat → List Stmt × Expr × Nat
  | .bin op a b, n =>
    let (p1, a', n1) := hoistE fn rtys a n
    let (p2, b', n2) := hoistE fn rtys b n1
    (p1 ++ p2, .bin op a' b', n2)
  | .not a, n => let (p, a', n1) := hoistE fn rtys a n; (p, .not a', n1)
  | .listLit t es, n => let (p, es', n1) := hoistEs fn rtys es n; (p, .listLit t es', n1)
  | .sliceLit t es, n => let (p, es', n1) := hoistEs fn rtys es n; (p, .sliceLit t es', n1)
  | .mapLit k v kvs, n => let (p, kvs', n1) := hoistKVs fn rtys kvs n; (p, .mapLit k v kvs', n1)
  | .xmapLit k v kvs, n => let (p, kvs', n1) := hoistKVs fn rtys kvs n; (p, .xmapLit k v kvs', n1)
  | .index vt a i, n =>
    let (p1, a', n1) := hoistE fn rtys a n
    let (p2, i', n2) := hoistE fn rtys i n1
    (p1 ++ p2, .index vt a' i', n2)
  | .len a, n => let (p, a', n1) := hoistE fn rtys a n; (p, .len a', n1)
  | .append a vs sp, n =>
    let (p1, a', n1) := hoistE fn rtys a n
    let (p2, vs', n2) := hoistEs fn rtys vs n1
    (p1 ++ p2, .append a' vs' sp, n2)
  | .call f args, n => let (p, as', n1) := hoistEs fn rtys args n; (p, .call f as', n1)
  | .cmdCall f args, n => let (p, as', n1) := hoistEs fn rtys args n; (p, .cmdCall f as', n1)
  | .probe id e, n => let (p, e', n1) := hoistE fn rtys e n; (p, .probe id e', n1)
  | .newFrame e code f, n => let (p, e', n1) := hoistE fn rtys e n; (p, .newFrame e' code f, n1)
  | .neNil e, n => let (p, e', n1) := hoistE fn rtys e n; (p, .neNil e', n1)
  | .errBang code f args tys, n =>
    let (p, as', n1) := hoistEs fn rtys args n; (p, .errBang code f as' tys, n1)
  | .errDflt f args t d, n =>
    let (p, as', n1) := hoistEs fn rtys args n; (p, .errDflt f as' t d, n1)   -- `d` is inside the closure
  | .errQ code f args tys, n =>
    let (p, as', n1) := hoistEs fn rtys args n
    let tmps := tmpNamesFrom n1 tys
    (p ++ tmps.map (fun x => Stmt.varDecl x.1 x.2)
       ++ [qBlock code fn f rtys (tmps.map (·.1)) as'],
     (match tmps with
      | [] => .lit (.tuple [])
      | x :: _ => .var x.1),
     n1 + tys.length + 1)                      -- one more number for the ending label
  | e, n => ([], e, n)      -- lit, zero, var, closure, comprehensions (compiled inside their closure)
def hoistEs (fn : String) (rtys : List Ty) : List Expr → Nat → List Stmt × List Expr × Nat
  | [], n => ([], [], n)
  | e :: es, n =>
    let (p1, e', n1) := hoistE fn rtys e n
    let (p2, es', n2) := hoistEs fn rtys es n1
    (p1 ++ p2, e' :: es', n2)
def hoistKVs (fn : String) (rtys : List Ty) : List KV → Nat → List Stmt × List KV × Nat
  | [], n => ([], [], n)
  | .mk k v :: r, n =>
    let (p1, k', n1) := hoistE fn rtys k n
    let (p2, v', n2) := hoistE fn rtys v n1
    let (p3, r', n3) := hoistKVs fn rtys r n2
    (p1 ++ p2 ++ p3, .mk k' v' :: r', n3)
end

mutual
def hoistS (fn : String) (rtys : List Ty) : Stmt → Nat → List Stmt × Nat
  | .define xs es, n => let (p, es', n1) := hoistEs fn rtys es n; (p ++ [.define xs es'], n1)
  | .assign xs es, n => let (p, es', n1) := hoistEs fn rtys es n; (p ++ [.assign xs es'], n1)
  | .setIndex m k v, n =>
    let (p1, k', n1) := hoistE fn rtys k n
    let (p2, v', n2) := hoistE fn rtys v n1
    (p1 ++ p2 ++ [.setIndex m k' v'], n2)
  | .varDecl x t, n => ([.varDecl x t], n)
  | .expr (.errQ code f args []), n =>          -- `f(args)?` as a statement, no value: block only
    let (p, as', n1) := hoistEs fn rtys args n
    (p ++ [qBlock code fn f rtys [] as'], n1 + 1)
  | .expr e, n => let (p, e', n1) := hoistE fn rtys e n; (p ++ [.expr e'], n1)
  | .ifS f thn els, n =>
    let (thn', n1) := hoistSs fn rtys thn n
    let (els', n2) := hoistSs fn rtys els n1
    ([.ifS f thn' els'], n2)
  | .forRange key val x body, n =>
    let (body', n1) := hoistSs fn rtys body n; ([.forRange key val x body'], n1)
  | .forC init cond post body, n =>
    let (body', n1) := hoistSs fn rtys body n; ([.forC init cond post body'], n1)
  | .ret es, n => let (p, es', n1) := hoistEs fn rtys es n; (p ++ [.ret es'], n1)
  | .panic e, n => let (p, e', n1) := hoistE fn rtys e n; (p ++ [.panic e'], n1)
  | .block ss, n => let (ss', n1) := hoistSs fn rtys ss n; ([.block ss'], n1)
  | .send a vs sp, n => let (p, vs', n1) := hoistEs fn rtys vs n; (p ++ [.send a vs' sp], n1)
  | .forIn key val x f body, n =>
    let (body', n1) := hoistSs fn rtys body n; ([.forIn key val x f body'], n1)
def hoistSs (fn : String) (rtys : List Ty) : List Stmt → Nat → List Stmt × Nat
  | [], n => ([], n)
  | s :: ss, n =>
    let (s', n1) := hoistS fn rtys s n
    let (ss', n2) := hoistSs fn rtys ss n1
    (s' ++ ss', n2)
end

mutual
/-- Statement sugar and the expression sugar inside statements. -/
def lowerXS (fn : String) : Stmt → Stmt
  | .define xs es => .define xs (lowerXs fn es)
  | .assign xs es => .assign xs (lowerXs fn es)
  | .setIndex m k v => .setIndex m (lowerX fn k) (lowerX fn v)
  | .varDecl x t => .varDecl x t
  | .expr e => .expr (lowerX fn e)
  | .ifS f thn els => .ifS (lowerFilter fn f) (lowerXSs fn thn) (lowerXSs fn els)
  | .forRange key val x body => .forRange key val (lowerX fn x) (lowerXSs fn body)
  | .forC init cond post body =>
    .forC (lowerXSs fn init) (lowerX fn cond) (lowerXSs fn post) (lowerXSs fn body)
  | .ret es => .ret (lowerXs fn es)
  | .panic e => .panic (lowerX fn e)
  | .block ss => .block (lowerXSs fn ss)
  | .send a vs sp => .assign [a] [.append (.var a) (lowerXs fn vs) sp]
  | .forIn key val x f body =>
    .forRange (some (key.getD "_")) (some val) (lowerX fn x)
      (filterWrap (lowerFilter fn f) (lowerXSs fn body))
def lowerXSs (fn : String) : List Stmt → List Stmt
  | [] => []
  | s :: ss => lowerXS fn s :: lowerXSs fn ss
end

/-- One source statement → the Go statements the compiler emits for it. -/
def lowerStmt (fn : String) (rtys : List Ty) (s : Stmt) (n : Nat) : List Stmt × Nat :=
  let (ss, n1) := hoistS fn rtys s n
  (lowerXSs fn ss, n1)

def lowerBody (fn : String) (rtys : List Ty) (ss : List Stmt) (n : Nat) : List Stmt × Nat :=
  let (ss', n1) := hoistSs fn rtys ss n
  (lowerXSs fn ss', n1)

def lowerFn (d : FuncDecl) (n : Nat) : FuncDecl × Nat :=
  let (b, n1) := lowerBody ("main." ++ d.name) (d.results.map (·.2)) d.body n
  ({ d with body := b }, n1)

def lowerFns : List FuncDecl → Nat → List FuncDecl
  | [], _ => []
  | d :: ds, n => let (d', n1) := lowerFn d n; d' :: lowerFns ds n1

def lowerProg (p : Prog) : Prog := { p with funcs := lowerFns p.funcs 1 }

/-! ## the MiniGo fragment -/

mutual
def Expr.isGo : Expr → Bool
  | .lit _ | .zero _ | .var _ => true
  | .bin _ a b => a.isGo && b.isGo
  | .not a => a.isGo
  | .listLit _ es => isGoEs es
  | .mapLit _ _ kvs => isGoKVs kvs
  | .index _ a i => a.isGo && i.isGo
  | .len a => a.isGo
  | .append a vs _ => a.isGo && isGoEs vs
  | .call _ args => isGoEs args
  | .probe _ e => e.isGo
  | .closure _ body => isGoSs body
  | .newFrame e _ _ => e.isGo
  | .neNil e => e.isGo
  | _ => false
def isGoEs : List Expr → Bool
  | [] => true
  | e :: es => e.isGo && isGoEs es
def isGoKVs : List KV → Bool
  | [] => true
  | .mk k v :: r => k.isGo && v.isGo && isGoKVs r
def Filter.isGo : Filter → Bool
  | .none => false
  | .cond c => c.isGo
  | .initCond _ i c => i.isGo && c.isGo
def Stmt.isGo : Stmt → Bool
  | .define _ es => isGoEs es
  | .assign _ es => isGoEs es
  | .setIndex _ k v => k.isGo && v.isGo
  | .varDecl _ _ => true
  | .expr e => e.isGo
  | .ifS f thn els => f.isGo && isGoSs thn && isGoSs els
  | .forRange _ _ x body => x.isGo && isGoSs body
  | .forC init cond post body => isGoSs init && cond.isGo && isGoSs post && isGoSs body
  | .ret es => isGoEs es
  | .panic e => e.isGo
  | .block ss => isGoSs ss
  | .send _ _ _ => false
  | .forIn _ _ _ _ _ => false
def isGoSs : List Stmt → Bool
  | [] => true
  | s :: ss => s.isGo && isGoSs ss
end

def Prog.isGo (p : Prog) : Bool := p.funcs.all fun d => isGoSs d.body

/-! ## "the compiler accepts" -/

mutual
/-- Every `?` wraps a call with at most one value. -/
def Expr.qOk : Expr → Bool
  | .lit _ | .zero _ | .var _ => true
  | .bin _ a b => a.qOk && b.qOk
  | .not a => a.qOk
  | .listLit _ es | .sliceLit _ es => qOkEs es
  | .mapLit _ _ kvs | .xmapLit _ _ kvs => qOkKVs kvs
  | .index _ a i => a.qOk && i.qOk
  | .len a => a.qOk
  | .append a vs _ => a.qOk && qOkEs vs
  | .call _ args | .cmdCall _ args => qOkEs args
  | .probe _ e => e.qOk
  | .closure _ _ => true
  | .newFrame e _ _ => e.qOk
  | .neNil e => e.qOk
  | .listCompr _ _ _ | .mapCompr _ _ _ _ _ | .selCompr _ _ _ _ | .existsCompr _ => true
  | .errBang _ _ args _ => qOkEs args
  | .errQ _ _ args tys => decide (tys.length ≤ 1) && qOkEs args
  | .errDflt _ args _ d => qOkEs args && d.qOk
def qOkEs : List Expr → Bool
  | [] => true
  | e :: es => e.qOk && qOkEs es
def qOkKVs : List KV → Bool
  | [] => true
  | .mk k v :: r => k.qOk && v.qOk && qOkKVs r
end

mutual
def Stmt.qOk : Stmt → Bool
  | .define _ es | .assign _ es | .ret es | .send _ es _ => qOkEs es
  | .setIndex _ k v => k.qOk && v.qOk
  | .varDecl _ _ => true
  | .expr (.errQ _ _ args tys) => tys.isEmpty && qOkEs args   -- a discarded value leaves `_autoGo_n` as a statement: not Go
  | .expr e | .panic e => e.qOk
  | .ifS _ thn els => qOkSs thn && qOkSs els
  | .forRange _ _ _ body | .forIn _ _ _ _ body | .forC _ _ _ body => qOkSs body
  | .block ss => qOkSs ss
def qOkSs : List Stmt → Bool
  | [] => true
  | s :: ss => s.qOk && qOkSs ss
end

def Prog.compilable (p : Prog) : Bool := (lowerProg p).isGo && p.funcs.all fun d => qOkSs d.body

end GopModel.Mini
