/-
M1: the decidable input domains of C16 (`goLexemesOnly`) and C32 (`sharedLexemesOnly`) and the
comparison of two token streams.  Core Lean only.

`goLexemesOnly U src`: `src` consists of Go lexemes only, *as go/scanner sees it* — evaluated on the
token stream of the `go` model with comments on.  Excluded are exactly
  * ILLEGAL tokens (includes `#`, `$`, `?`, `@`, NUL, BOM, bad UTF-8);
  * a number directly followed by a letter (XGo: unit / rational suffix), an imaginary literal
    directly followed by a letter or digit;
  * the identifiers `c`, `C`, `py` directly followed by `"` (XGo: C / Python string literals);
  * `-`, `=`, `<` directly followed by `>` (XGo: `->`, `=>`, `<>`);
  * `!` and `...` followed (after blanks, tabs, CRs) by a newline, EOF or a comment
    (XGo inserts a semicolon there by design: `x!`, `f(a...)` end an expression);
  * an automatically inserted semicolon directly behind a comment (go/scanner ≥ 1.20 returns
    `COMMENT, ";"` at the newline; the XGo scanner — like go/scanner ≤ 1.19 — `";", COMMENT` at the
    comment; the XGo parser relies on this order).

`sharedLexemesOnly U src`: evaluated on the token stream of the `xgo` model with comments on.
Excluded: ILLEGAL tokens, keywords (TPL has none), `c"…"`/`py"…"`, `*` directly followed by `*`
(TPL: `**`), CR inside a `/*…*/` or `#` comment (the scanners strip differently), `#/`, `#*`.
-/
import GopModel.Model.Scan
namespace GopModel.Scan
open GopModel.Generated

/-- first offset ≥ i that is not a blank, tab or CR -/
def afterBlanks (src : Array UInt8) : Nat → Nat → Nat
  | 0, i => i
  | f + 1, i =>
    let b := byteAt src i
    if i < src.size ∧ (b = 0x20 ∨ b = 0x09 ∨ b = 0x0D) then afterBlanks src f (i + 1) else i

/-- after blanks: end of line, end of file, or a comment begins -/
def lineEndOrComment (src : Array UInt8) (i : Nat) : Bool :=
  let j := afterBlanks src src.size i
  decide (src.size ≤ j) || byteAt src j = 0x0A ||
    (byteAt src j = 0x2F && (byteAt src (j + 1) = 0x2F || byteAt src (j + 1) = 0x2A))

/-- the rune that starts at offset i (EOF behind the end) -/
def runeAt (src : Array UInt8) (i : Nat) : Nat :=
  if i < src.size then (if byteAt src i < 0x80 then byteAt src i else (decodeRune src i).1) else eofCh

def strC : List UInt8 := [0x63]
def strCC : List UInt8 := [0x43]

/-- local condition on one token of the go stream; `prevComment`: the previous token is a COMMENT -/
def goTokOK (U : UCls) (src : Array UInt8) (prevComment : Bool) (t : Token) : Bool :=
  let next := runeAt src t.stop
  t.kind != Tokens.Go.ILLEGAL &&
  !((t.kind == Tokens.Go.INT || t.kind == Tokens.Go.FLOAT) && isLetter U next) &&
  !(t.kind == Tokens.Go.IMAG && (isLetter U next || isDigit U next)) &&
  !(t.kind == Tokens.Go.IDENT && (t.lit == strC || t.lit == strCC || t.lit == strPy) && next == 0x22) &&
  !((t.kind == Tokens.Go.SUB || t.kind == Tokens.Go.ASSIGN || t.kind == Tokens.Go.LSS) && next == 0x3E) &&
  !((t.kind == Tokens.Go.NOT || t.kind == Tokens.Go.ELLIPSIS) && lineEndOrComment src t.stop) &&
  !(prevComment && t.kind == Tokens.Go.SEMICOLON && t.lit == [0x0A])

def goToksOK (U : UCls) (src : Array UInt8) : Bool → List Token → Bool
  | _, [] => true
  | pc, t :: rest => goTokOK U src pc t && goToksOK U src (t.kind == Tokens.Go.COMMENT) rest

def goLexemesOnly (U : UCls) (src : Array UInt8) : Bool :=
  let out := scan { d := .go, comments := true, noSemis := false, U := U } src
  out.status == .done && goToksOK U src false out.toks

/-- C32: local condition on one token of the xgo stream -/
def sharedTokOK (src : Array UInt8) (t : Token) : Bool :=
  t.kind != Tokens.XGo.ILLEGAL &&
  !Tokens.XGo.isKeyword t.kind &&
  t.kind != Tokens.XGo.CSTRING && t.kind != Tokens.XGo.PYSTRING &&
  !(t.kind == Tokens.XGo.MUL && byteAt src t.stop == 0x2A) &&
  !(t.kind == Tokens.XGo.COMMENT &&
      (((byteAt src t.pos == 0x23 || byteAt src (t.pos + 1) == 0x2A) &&
          ((src.toList.drop t.pos).take (t.stop - t.pos)).contains 0x0D) ||
       (byteAt src t.pos == 0x23 && (byteAt src (t.pos + 1) == 0x2F || byteAt src (t.pos + 1) == 0x2A))))

def sharedLexemesOnly (U : UCls) (src : Array UInt8) : Bool :=
  let out := scan { d := .xgo, comments := true, noSemis := false, U := U } src
  out.status == .done && out.toks.all (sharedTokOK src)

/-- `tokens[kind]` as a string of the dialect (the result of `String()` for a table entry) -/
def kindName (d : Dialect) (k : Nat) : Option (List UInt8) :=
  match d with
  | .xgo => Tokens.XGo.tokenBytes.lookup k
  | .tpl => Tokens.Tpl.tokenBytes.lookup k
  | .go => Tokens.Go.tokenBytes.lookup k

/-- two tokens of different dialects are the same lexeme: same offset, same `String()`, same literal -/
def sameTok (d1 d2 : Dialect) (a b : Token) : Bool :=
  a.pos == b.pos && kindName d1 a.kind == kindName d2 b.kind && (kindName d1 a.kind).isSome && a.lit == b.lit

def sameToks (d1 d2 : Dialect) : List Token → List Token → Bool
  | [], [] => true
  | a :: as, b :: bs => sameTok d1 d2 a b && sameToks d1 d2 as bs
  | _, _ => false

/-- C16 conclusion on two outputs: same tokens (offset, kind, literal — including inserted
semicolons), same error-handler calls (offset and message, in order), both finished -/
def agree16 (x g : ScanOut) : Bool :=
  x.status == .done && g.status == .done && sameToks .xgo .go x.toks g.toks && x.errs == g.errs

/-- C32 conclusion: same token boundaries (offsets), kinds (by spelling), literals, inserted
semicolons (errors are not part of C32) -/
def agree32 (t x : ScanOut) : Bool :=
  t.status == .done && x.status == .done && sameToks .tpl .xgo t.toks x.toks

end GopModel.Scan
