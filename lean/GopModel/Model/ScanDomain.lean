/-
M1: the decidable input domains of C16 (`goLexemesOnly`) and C32 (`sharedLexemesOnly`) and the
comparison of two token streams.  Core Lean only.

`goLexemesOnly U comments noSemis src`: `src` consists of Go lexemes only, *as go/scanner sees it* —
evaluated on the run of the `go` model in the compared mode.  Excluded are exactly
  * ILLEGAL tokens (includes `#`, `$`, `?`, `@`, NUL, BOM, bad UTF-8);
  * a number directly followed by a letter (XGo: unit / rational suffix), an imaginary literal
    directly followed by a letter or digit;
  * the identifiers `c`, `C`, `py` directly followed by `"` (XGo: C / Python string literals);
  * `-`, `=`, `<` directly followed by `>` (XGo: `->`, `=>`, `<>`);
  * `!` and `...` followed (after blanks, tabs, CRs) by a newline, EOF or a comment
    (XGo inserts a semicolon there by design: `x!`, `f(a...)` end an expression);
  * a comment that begins while a semicolon is pending (after an operand, `)`, `]`, `}`, `++`,
    `--`, `return` …): there go/scanner ≥ 1.20 returns `COMMENT` and then `";"` at the newline,
    while the XGo scanner — like go/scanner ≤ 1.19 — looks ahead (`findLineEnd`), returns `";"`
    before the comment at the comment's offset (the XGo parser relies on this order), and, when
    no line end follows, has read the comment twice, so a NUL / bad UTF-8 / BOM inside it is
    reported twice.

`sharedLexemesOnly U comments noSemis src`: evaluated on the run of the `xgo` model in the compared
mode.  Excluded: ILLEGAL tokens, keywords (TPL has none), `c"…"`/`py"…"`, `*` directly followed by
`*` (TPL: `**`), `/*…*/` and `#…` comments that contain a CR (the scanners strip differently), `#/`, `#*`, and
comments whose text continues with "line " after two bytes (line directives: only XGo reports
their errors).
-/
import GopModel.Model.Scan
namespace GopModel.Scan
open GopModel.Generated

/-- first offset ≥ i that is not a blank, tab or CR -/
def afterBlanks (src : Array UInt8) : Nat → Nat → Nat
  | 0, i => i
  | f + 1, i =>
    let b := byteAt src i
    if i < src.size ∧ (b = 0x20 ∨ b = 0x09 ∨ b = 0x0D) then afterBlanks src f (i + 1) else i

/-- after blanks: end of line, end of file, or a comment begins -/
def lineEndOrComment (src : Array UInt8) (i : Nat) : Bool :=
  let j := afterBlanks src src.size i
  decide (src.size ≤ j) || byteAt src j = 0x0A ||
    (byteAt src j = 0x2F && (byteAt src (j + 1) = 0x2F || byteAt src (j + 1) = 0x2A))

def strC : List UInt8 := [0x63]
def strCC : List UInt8 := [0x43]

/-- local condition on one token returned by the go scanner -/
def goTokOK (U : UCls) (src : Array UInt8) (t : Token) : Bool :=
  let next := runeAt src t.stop
  t.kind != Tokens.Go.ILLEGAL &&
  !((t.kind == Tokens.Go.INT || t.kind == Tokens.Go.FLOAT) && isLetter U next) &&
  !(t.kind == Tokens.Go.IMAG && (isLetter U next || isDigit U next)) &&
  !(t.kind == Tokens.Go.IDENT && (t.lit == strC || t.lit == strCC || t.lit == strPy) && next == 0x22) &&
  !((t.kind == Tokens.Go.SUB || t.kind == Tokens.Go.ASSIGN || t.kind == Tokens.Go.LSS) && next == 0x3E) &&
  !((t.kind == Tokens.Go.NOT || t.kind == Tokens.Go.ELLIPSIS) && lineEndOrComment src t.stop)

/-- local condition on one pass through `Scan` of the go scanner: `st` is the state before it,
`r` its result.  A comment (returned, or skipped when comments are off) must not begin while a
semicolon is pending (`st.insertSemi`): there the XGo scanner looks ahead (`findLineEnd`),
returns the `;` before the comment and reports read errors inside the comment twice. -/
def goStepOK (U : UCls) (src : Array UInt8) (st : St) (r : St × Option Token) : Bool :=
  match r.2 with
  | none => !st.insertSemi
  | some t => goTokOK U src t && !(t.kind == Tokens.Go.COMMENT && st.insertSemi)

/-- the go scanner's run, checked step by step (same fuel as `scanLoop`) -/
def goRunOK (cfg : Cfg) (src : Array UInt8) : Nat → St → Bool
  | 0, _ => false
  | f + 1, st =>
    let r := scanStep cfg src (src.size + 1) st
    r.1.fail == .ok && goStepOK cfg.U src st r &&
      match r.2 with
      | none => goRunOK cfg src f r.1
      | some t => t.kind == Tokens.Go.EOF || goRunOK cfg src f r.1

/-- C16 domain, for the scanning mode that is compared -/
def goLexemesOnly (U : UCls) (comments noSemis : Bool) (src : Array UInt8) : Bool :=
  goRunOK { d := .go, comments := comments, noSemis := noSemis, U := U } src (scanFuel src) (initSt src)

/-- C32: a comment with source span `[p, e)` that both scanners treat alike: no carriage return
in a `/*…*/` or `#…` comment (the scanners strip differently; in a `//…` comment both remove all
CRs), not `#/…`, `#*…` (XGo scans these with its `//` / `/*`
branch), and its text does not continue with "line " after two bytes (XGo interprets line
directives — also `# line …` — and reports their errors; TPL does not) -/
def commentSpanOK (src : Array UInt8) (p e : Nat) : Bool :=
  let span := (src.toList.drop p).take (e - p)
  !((byteAt src p == 0x23 || byteAt src (p + 1) == 0x2A) && span.contains 0x0D) &&
    !linePrefix.isPrefixOf (span.drop 2) &&
    !(byteAt src p == 0x23 && (byteAt src (p + 1) == 0x2F || byteAt src (p + 1) == 0x2A))

/-- C32: local condition on one token of the xgo run -/
def sharedTokOK (src : Array UInt8) (t : Token) : Bool :=
  t.kind != Tokens.XGo.ILLEGAL &&
  !Tokens.XGo.isKeyword t.kind &&
  t.kind != Tokens.XGo.CSTRING && t.kind != Tokens.XGo.PYSTRING &&
  !(t.kind == Tokens.XGo.MUL && byteAt src t.stop == 0x2A) &&
  (t.kind != Tokens.XGo.COMMENT || commentSpanOK src t.pos t.stop)

/-- one pass through `Scan` of the xgo scanner from state `st` with result `r`: the token is
fine, or the skipped comment (comments off) — which begins behind the white space — is -/
def shStepOK (src : Array UInt8) (st : St) (r : St × Option Token) : Bool :=
  match r.2 with
  | some t => sharedTokOK src t
  | none => commentSpanOK src (skipWs src (src.size + 1) st).off r.1.off

def shRunOK (cfg : Cfg) (src : Array UInt8) : Nat → St → Bool
  | 0, _ => false
  | f + 1, st =>
    let r := scanStep cfg src (src.size + 1) st
    r.1.fail == .ok && shStepOK src st r &&
      match r.2 with
      | none => shRunOK cfg src f r.1
      | some t => t.kind == Tokens.XGo.EOF || shRunOK cfg src f r.1

/-- C32 domain, evaluated on the xgo model's run in the compared mode -/
def sharedLexemesOnly (U : UCls) (comments noSemis : Bool) (src : Array UInt8) : Bool :=
  shRunOK { d := .xgo, comments := comments, noSemis := noSemis, U := U } src (scanFuel src) (initSt src)

/-- `tokens[kind]` as a string of the dialect (the result of `String()` for a table entry) -/
def kindName (d : Dialect) (k : Nat) : Option (List UInt8) :=
  match d with
  | .xgo => Tokens.XGo.tokenBytes.lookup k
  | .tpl => Tokens.Tpl.tokenBytes.lookup k
  | .go => Tokens.Go.tokenBytes.lookup k

/-- two tokens of different dialects are the same lexeme: same offset, same `String()`, same literal -/
def sameTok (d1 d2 : Dialect) (a b : Token) : Bool :=
  a.pos == b.pos && kindName d1 a.kind == kindName d2 b.kind && (kindName d1 a.kind).isSome && a.lit == b.lit

def sameToks (d1 d2 : Dialect) : List Token → List Token → Bool
  | [], [] => true
  | a :: as, b :: bs => sameTok d1 d2 a b && sameToks d1 d2 as bs
  | _, _ => false

/-- C16 conclusion on two outputs: same tokens (offset, end, numeric kind — the two token
packages use the same numbers, `C16_token_tables_embed` — and literal, including inserted
semicolons), same error-handler calls (offset and message, in order), both finished -/
def agree16 (x g : ScanOut) : Bool :=
  x.status == .done && g.status == .done && x.toks == g.toks && x.errs == g.errs

/-- C32 conclusion: same token boundaries (offsets), kinds (by spelling), literals, inserted
semicolons (errors are not part of C32) -/
def agree32 (t x : ScanOut) : Bool :=
  t.status == .done && x.status == .done && sameToks .tpl .xgo t.toks x.toks

end GopModel.Scan
