/-
TPL grammar AST (model of /repo/tpl/ast/ast.go) and tokens as the TPL parser sees them.
Positions are not part of the model (the parser copies them from tokens; no decision of
tpl/parser or tpl/cl depends on them).  Core Lean only.
-/
import GopModel.Generated.TplToken
namespace GopModel.Tpl

/-- Token values: regenerated from tpl/token/token.go on every run. -/
abbrev T.EOF := GopModel.Generated.TplToken.EOF
abbrev T.IDENT := GopModel.Generated.TplToken.IDENT
abbrev T.CHAR := GopModel.Generated.TplToken.CHAR
abbrev T.STRING := GopModel.Generated.TplToken.STRING
abbrev T.ADD := GopModel.Generated.TplToken.ADD
abbrev T.MUL := GopModel.Generated.TplToken.MUL
abbrev T.REM := GopModel.Generated.TplToken.REM
abbrev T.OR := GopModel.Generated.TplToken.OR
abbrev T.ASSIGN := GopModel.Generated.TplToken.ASSIGN
abbrev T.LPAREN := GopModel.Generated.TplToken.LPAREN
abbrev T.RPAREN := GopModel.Generated.TplToken.RPAREN
abbrev T.LBRACE := GopModel.Generated.TplToken.LBRACE
abbrev T.RBRACE := GopModel.Generated.TplToken.RBRACE
abbrev T.SEMICOLON := GopModel.Generated.TplToken.SEMICOLON
abbrev T.QUESTION := GopModel.Generated.TplToken.QUESTION
abbrev T.INC := GopModel.Generated.TplToken.INC
abbrev T.DRARROW := GopModel.Generated.TplToken.DRARROW

abbrev Bytes := List UInt8

/-- A scanned token: `types.Token` without its position. -/
structure Tok where
  kind : Nat
  lit : Bytes
  deriving Repr, DecidableEq

/-- `ast.Expr`.  `nil` is Go's nil interface value (the parser stores it in `UnaryExpr.X`
after a missing factor). -/
inductive Expr where
  | ident (name : Bytes)
  | lit (kind : Nat) (value : Bytes)
  | seq (items : List Expr)
  | choice (opts : List Expr)
  | unary (op : Nat) (x : Expr)
  | binary (op : Nat) (x y : Expr)
  | nil
  deriving Repr

/-- `ast.Rule` (`RetProc` is always nil when the parser runs without `Config.ParseRetProc`,
which is how `tpl.New` / `tpl.FromFile` call it). -/
structure Rule where
  name : Bytes
  expr : Expr
  deriving Repr

end GopModel.Tpl
