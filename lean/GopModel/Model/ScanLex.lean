/-
M1 (part 2 of 3): the sub-scanners — skipWhitespace, scanIdentifier, digits, scanNumber,
invalidSep, scanEscape, scanRune, scanString, scanRawString, scanComment (three variants),
updateLineInfo (errors only), findLineEnd.  One Lean function per Go function; one
fuel-recursive function per Go loop.  Core Lean only.
-/
import GopModel.Model.ScanBase
namespace GopModel.Scan

inductive Dialect where
  | xgo | tpl | go
  deriving DecidableEq, Repr

/-- `s.src[a:b]`; out-of-range bounds set the sticky panic flag (Go: slice bounds out of range). -/
def sliceP (src : Array UInt8) (st : St) (a b : Nat) : St × List UInt8 :=
  match slice? src a b with
  | some l => (st, l)
  | none => (st.setFail .panic, [])

/-- `skipWhitespace`: `for s.ch == ' ' || s.ch == '\t' || s.ch == '\n' && !s.insertSemi || s.ch == '\r' { s.next() }` -/
def skipWs (src : Array UInt8) : Nat → St → St
  | 0, st => st.setFail .fuel
  | f + 1, st =>
    if st.ch = 0x20 ∨ st.ch = 0x09 ∨ (st.ch = 0x0A ∧ st.insertSemi = false) ∨ st.ch = 0x0D then
      skipWs src f (next src st)
    else st

/-- the loop of `scanIdentifier`: `for isLetter(s.ch) || isDigit(s.ch) { s.next() }` -/
def identLoop (U : UCls) (src : Array UInt8) : Nat → St → St
  | 0, st => st.setFail .fuel
  | f + 1, st =>
    if isLetter U st.ch || isDigit U st.ch then identLoop U src f (next src st) else st

/-- `scanIdentifier`: returns the state after the identifier and `src[offs:s.offset]`. -/
def scanIdentifier (U : UCls) (src : Array UInt8) (fuel : Nat) (st : St) : St × List UInt8 :=
  let st1 := identLoop U src fuel st
  sliceP src st1 st.off st1.off

/-! ### numbers -/

inductive NumKind where
  | illegal | int | float | imag | rat
  deriving DecidableEq, Repr

/-- locals of `scanNumber` -/
structure NS where
  st : St
  tok : NumKind
  base : Nat
  pfx : Pfx
  invalid : Option Nat     -- Go: `invalid` (-1 = none)
  hasDig : Bool            -- digsep bit 0
  hasSep : Bool            -- digsep bit 1

/-- `digits(base, &invalid)`; the two result bits are or-ed into `hasDig`/`hasSep`. -/
def digits (src : Array UInt8) (base : Nat) : Nat → NS → NS
  | 0, ns => { ns with st := ns.st.setFail .fuel }
  | f + 1, ns =>
    let ch := ns.st.ch
    if base ≤ 10 then
      if isDecimal ch || ch = 0x5F then
        if ch = 0x5F then
          digits src base f { ns with st := next src ns.st, hasSep := true }
        else
          let inv := if 0x30 + base ≤ ch ∧ ns.invalid = none then some ns.st.off else ns.invalid
          digits src base f { ns with st := next src ns.st, hasDig := true, invalid := inv }
      else ns
    else
      if isHex ch || ch = 0x5F then
        if ch = 0x5F then
          digits src base f { ns with st := next src ns.st, hasSep := true }
        else
          digits src base f { ns with st := next src ns.st, hasDig := true }
      else ns

/-- integer part (`if s.ch != '.' {...}`) -/
def numInt (src : Array UInt8) (fuel : Nat) (st0 : St) : NS :=
  if st0.ch ≠ 0x2E then
    if st0.ch = 0x30 then
      let s1 := next src st0
      if s1.ch = 0x78 ∨ s1.ch = 0x58 then
        digits src 16 fuel ⟨next src s1, .int, 16, .x, none, false, false⟩
      else if s1.ch = 0x6F ∨ s1.ch = 0x4F then
        digits src 8 fuel ⟨next src s1, .int, 8, .o, none, false, false⟩
      else if s1.ch = 0x62 ∨ s1.ch = 0x42 then
        digits src 2 fuel ⟨next src s1, .int, 2, .b, none, false, false⟩
      else
        digits src 8 fuel ⟨s1, .int, 8, .zero, none, true, false⟩
    else digits src 10 fuel ⟨st0, .int, 10, .none, none, false, false⟩
  else ⟨st0, .illegal, 10, .none, none, false, false⟩

/-- fractional part and the "has no digits" test -/
def numFrac (src : Array UInt8) (fuel : Nat) (ns : NS) : NS :=
  let ns1 :=
    if ns.st.ch = 0x2E then
      let st1 := if ns.pfx = .o ∨ ns.pfx = .b then ns.st.error ns.st.off (.radixPoint (litname ns.pfx)) else ns.st
      digits src ns.base fuel { ns with st := next src st1, tok := .float }
    else ns
  if ns1.hasDig then ns1 else { ns1 with st := ns1.st.error ns1.st.off (.noDigits (litname ns1.pfx)) }

/-- exponent -/
def numExp (src : Array UInt8) (fuel : Nat) (ns : NS) : NS :=
  let ch := ns.st.ch
  let isE := ch = 0x65 ∨ ch = 0x45
  let isP := ch = 0x70 ∨ ch = 0x50
  if isE ∨ isP then
    let st1 :=
      if isE ∧ ns.pfx ≠ .none ∧ ns.pfx ≠ .zero then ns.st.error ns.st.off (.expDecimal ch)
      else if isP ∧ ns.pfx ≠ .x then ns.st.error ns.st.off (.expHex ch)
      else ns.st
    let st2 := next src st1
    let st3 := if st2.ch = 0x2B ∨ st2.ch = 0x2D then next src st2 else st2
    let dr := digits src 10 fuel { ns with st := st3, tok := .float, hasDig := false, hasSep := false }
    let st4 := if dr.hasDig then dr.st else dr.st.error dr.st.off .expNoDigits
    { dr with st := st4, hasDig := ns.hasDig || dr.hasDig, hasSep := ns.hasSep || dr.hasSep }
  else if ns.pfx = .x ∧ ns.tok = .float then
    { ns with st := ns.st.error ns.st.off .hexMantissaP }
  else ns

/-- suffix: go `if s.ch == 'i'`; xgo/tpl `if isLetter(s.ch) { id := s.scanIdentifier(); "i" → IMAG,
"r" → RAT, default: s.unitVal = id }` -/
def numSuffix (d : Dialect) (U : UCls) (src : Array UInt8) (fuel : Nat) (ns : NS) : NS :=
  if d = .go then
    if ns.st.ch = 0x69 then { ns with st := next src ns.st, tok := .imag } else ns
  else if isLetter U ns.st.ch then
    let r := scanIdentifier U src fuel ns.st
    if r.2 = [0x69] then { ns with st := r.1, tok := .imag }
    else if r.2 = [0x72] then { ns with st := r.1, tok := .rat }
    else { ns with st := { r.1 with unitVal := r.2 } }
  else ns

inductive SepD where
  | us | dig | other      -- '_', '0', '.'
  deriving DecidableEq, Repr

/-- the loop of `invalidSep` from index `i` with previous class `d` -/
def invalidSepLoop (x1IsX : Bool) : List UInt8 → Nat → SepD → Option Nat
  | [], i, d => if d = .us then some (i - 1) else none
  | c :: rest, i, p =>
    if c = 0x5F then
      if p ≠ .dig then some i else invalidSepLoop x1IsX rest (i + 1) .us
    else if isDecimal c.toNat || (x1IsX && isHex c.toNat) then invalidSepLoop x1IsX rest (i + 1) .dig
    else if p = .us then some (i - 1)
    else invalidSepLoop x1IsX rest (i + 1) .other

/-- `invalidSep(x)`: index of the first invalid separator or none (Go: -1) -/
def invalidSep (x : List UInt8) : Option Nat :=
  match x with
  | 0x30 :: c1 :: rest =>
    let x1 := c1.toNat
    if x1 = 0x78 ∨ x1 = 0x58 then invalidSepLoop true rest 2 .dig
    else if x1 = 0x6F ∨ x1 = 0x4F ∨ x1 = 0x62 ∨ x1 = 0x42 then invalidSepLoop false rest 2 .dig
    else invalidSepLoop false x 0 .other
  | _ => invalidSepLoop false x 0 .other

/-- `if tok == token.INT && invalid >= 0 { s.errorf(invalid, "invalid digit %q in %s", lit[invalid-offs], litname(prefix)) }` -/
def numInvalidErr (st : St) (offs : Nat) (lit : List UInt8) (ns : NS) : St :=
  match ns.invalid with
  | some inv =>
    if ns.tok = .int then
      if offs ≤ inv then
        match (lit[inv - offs]? : Option UInt8) with
        | some dch => st.error inv (.invalidDigit dch.toNat (litname ns.pfx))
        | none => st.setFail .panic
      else st.setFail .panic
    else st
  | none => st

/-- `if digsep&2 != 0 { if i := invalidSep(lit); i >= 0 { s.error(offs+i, "'_' must separate successive digits") } }` -/
def numSepErr (st : St) (offs : Nat) (lit : List UInt8) (ns : NS) : St :=
  if ns.hasSep then
    match invalidSep lit with
    | some i => st.error (offs + i) .sepMustSeparate
    | none => st
  else st

/-- tail of `scanNumber`: the literal and the two errors that need it -/
def numFinish (src : Array UInt8) (offs : Nat) (ns : NS) : St × NumKind × List UInt8 :=
  let r := sliceP src ns.st offs (ns.st.off - ns.st.unitVal.length)
  (numSepErr (numInvalidErr r.1 offs r.2 ns) offs r.2 ns, ns.tok, r.2)

def scanNumber (d : Dialect) (U : UCls) (src : Array UInt8) (fuel : Nat) (st0 : St) :
    St × NumKind × List UInt8 :=
  numFinish src st0.off
    (numSuffix d U src fuel (numExp src fuel (numFrac src fuel (numInt src fuel st0))))

/-! ### escapes, runes, strings -/

/-- the digit loop of `scanEscape` (`for n > 0`), `none` after an error -/
def escDigits (src : Array UInt8) (base : Nat) : Nat → Nat → St → St × Option Nat
  | 0, x, st => (st, some x)
  | n + 1, x, st =>
    let dv := digitVal st.ch
    if base ≤ dv then
      (st.error st.off (if st.ch = eofCh then .escNotTerminated else .escIllegalChar st.ch), none)
    else escDigits src base n (x * base + dv) (next src st)

def escFinish (offs max : Nat) (r : St × Option Nat) : St × Bool :=
  match r.2 with
  | none => (r.1, false)
  | some x =>
    if max < x ∨ (0xD800 ≤ x ∧ x < 0xE000) then (r.1.error offs .escInvalidCodePoint, false)
    else (r.1, true)

/-- `scanEscape(quote)` -/
def scanEscape (src : Array UInt8) (quote : Nat) (st : St) : St × Bool :=
  let ch := st.ch
  if ch = 0x61 ∨ ch = 0x62 ∨ ch = 0x66 ∨ ch = 0x6E ∨ ch = 0x72 ∨ ch = 0x74 ∨ ch = 0x76 ∨ ch = 0x5C ∨ ch = quote then
    (next src st, true)
  else if 0x30 ≤ ch ∧ ch ≤ 0x37 then escFinish st.off 255 (escDigits src 8 3 0 st)
  else if ch = 0x78 then escFinish st.off 255 (escDigits src 16 2 0 (next src st))
  else if ch = 0x75 then escFinish st.off 0x10FFFF (escDigits src 16 4 0 (next src st))
  else if ch = 0x55 then escFinish st.off 0x10FFFF (escDigits src 16 8 0 (next src st))
  else (st.error st.off (if ch = eofCh then .escNotTerminated else .escUnknown), false)

/-- loop of `scanRune`: (state, valid, n) -/
def runeLoop (src : Array UInt8) (offs : Nat) : Nat → St → Bool → Nat → St × Bool × Nat
  | 0, st, v, n => (st.setFail .fuel, v, n)
  | f + 1, st, valid, n =>
    let ch := st.ch
    if ch = 0x0A ∨ ch = eofCh then
      ((if valid then st.error offs .runeNotTerminated else st), false, n)
    else
      let st1 := next src st
      if ch = 0x27 then (st1, valid, n)
      else if ch = 0x5C then
        let r := scanEscape src 0x27 st1
        runeLoop src offs f r.1 (valid && r.2) (n + 1)
      else runeLoop src offs f st1 valid (n + 1)

/-- `scanRune` (opening quote consumed; `offs = s.offset - 1`) -/
def scanRune (src : Array UInt8) (fuel : Nat) (st : St) : St × List UInt8 :=
  let offs := st.off - 1
  let r := runeLoop src offs fuel st true 0
  let st1 := if r.2.1 ∧ r.2.2 ≠ 1 then r.1.error offs .illegalRune else r.1
  sliceP src st1 offs st1.off

def stringLoop (src : Array UInt8) (offs : Nat) : Nat → St → St
  | 0, st => st.setFail .fuel
  | f + 1, st =>
    let ch := st.ch
    if ch = 0x0A ∨ ch = eofCh then st.error offs .stringNotTerminated
    else
      let st1 := next src st
      if ch = 0x22 then st1
      else if ch = 0x5C then stringLoop src offs f (scanEscape src 0x22 st1).1
      else stringLoop src offs f st1

/-- `scanString` -/
def scanString (src : Array UInt8) (fuel : Nat) (st : St) : St × List UInt8 :=
  let offs := st.off - 1
  let st1 := stringLoop src offs fuel st
  sliceP src st1 offs st1.off

def rawStringLoop (src : Array UInt8) (offs : Nat) : Nat → St → Bool → St × Bool
  | 0, st, h => (st.setFail .fuel, h)
  | f + 1, st, hasCR =>
    let ch := st.ch
    if ch = eofCh then (st.error offs .rawStringNotTerminated, hasCR)
    else
      let st1 := next src st
      if ch = 0x60 then (st1, hasCR)
      else rawStringLoop src offs f st1 (hasCR || ch = 0x0D)

/-- `scanRawString` -/
def scanRawString (src : Array UInt8) (fuel : Nat) (st : St) : St × List UInt8 :=
  let offs := st.off - 1
  let r := rawStringLoop src offs fuel st false
  let s := sliceP src r.1 offs r.1.off
  (s.1, if r.2 then stripCR s.2 false else s.2)

/-! ### comments -/

/-- `for s.ch != '\n' && s.ch >= 0 { if s.ch == '\r' { numCR++ }; s.next() }` -/
def lineCommentLoop (src : Array UInt8) : Nat → St → Nat → St × Nat
  | 0, st, n => (st.setFail .fuel, n)
  | f + 1, st, numCR =>
    if st.ch ≠ 0x0A ∧ st.ch ≠ eofCh then
      lineCommentLoop src f (next src st) (if st.ch = 0x0D then numCR + 1 else numCR)
    else (st, numCR)

/-- result of the general-comment loop -/
structure BlockRes where
  st : St
  numCR : Nat
  nlOffset : Nat      -- go 1.23: offset of the first newline (0 = none)
  terminated : Bool

/-- `for s.ch >= 0 { ch := s.ch; (count CR / first newline); s.next(); if ch == '*' && s.ch == '/' { s.next(); …exit } }` -/
def blockCommentLoop (src : Array UInt8) : Nat → St → Nat → Nat → BlockRes
  | 0, st, c, nl => ⟨st.setFail .fuel, c, nl, false⟩
  | f + 1, st, numCR, nl =>
    if st.ch = eofCh then ⟨st, numCR, nl, false⟩
    else
      let ch := st.ch
      let numCR' := if ch = 0x0D then numCR + 1 else numCR
      let nl' := if ch = 0x0A ∧ nl = 0 then st.off else nl
      let st1 := next src st
      if ch = 0x2A ∧ st1.ch = 0x2F then ⟨next src st1, numCR', nl', true⟩
      else blockCommentLoop src f st1 numCR' nl'

def lastIndexOfColon (l : List UInt8) : Option Nat :=
  (l.foldl (fun (acc : Nat × Option Nat) c => (acc.1 + 1, if c = 0x3A then some acc.1 else acc.2)) (0, none)).2

def decValue (l : List UInt8) : Nat := l.foldl (fun acc c => acc * 10 + (c.toNat - 0x30)) 0

/-- `trailingDigits(text)`: (i, n, ok); `n` is `int(uint64 value)` -/
def trailingDigits (text : List UInt8) : Nat × Int × Bool :=
  match lastIndexOfColon text with
  | none => (0, 0, false)
  | some i =>
    let ds := text.drop (i + 1)
    if ds ≠ [] ∧ ds.all (fun c => isDecimal c.toNat) ∧ decValue ds < 2 ^ 64 then
      let v := decValue ds
      (i + 1, if v < 2 ^ 63 then (v : Int) else (v : Int) - 2 ^ 64, true)
    else (i + 1, 0, false)

def maxLineCol : Int := 2 ^ 30

/-- `updateLineInfo(next, offs, text)`: only the error-handler calls are modelled (the line
table is out of scope).  `text[1]`, `text[:len-2]`, `text[7:]` … panic when out of range. -/
def updateLineInfo (st : St) (offs : Nat) (text0 : List UInt8) : St :=
  match (text0[1]? : Option UInt8) with
  | none => st.setFail .panic
  | some c1 =>
    if c1 = 0x2A ∧ text0.length < 2 then st.setFail .panic else
    let text1 := if c1 = 0x2A then text0.take (text0.length - 2) else text0
    if text1.length < 7 then st.setFail .panic else
    let text := text1.drop 7
    let offs := offs + 7
    let t1 := trailingDigits text
    let i := t1.1
    if i = 0 then st
    else if t1.2.2 = false then st.error (offs + i) (.invalidLineNumber (text.drop i))
    else
      let t2 := trailingDigits (text.take (i - 1))
      if t2.2.2 then
        -- //line filename:line:col   (i, i2 = i2, i)
        let col := t1.2.1
        let line := t2.2.1
        if col = 0 ∨ maxLineCol < col then st.error (offs + i) (.invalidColumnNumber (text.drop i))
        else
          let text' := text.take (i - 1)
          if line = 0 ∨ maxLineCol < line then st.error (offs + t2.1) (.invalidLineNumber (text'.drop t2.1))
          else st
      else
        let line := t1.2.1
        if line = 0 ∨ maxLineCol < line then st.error (offs + i) (.invalidLineNumber (text.drop i))
        else st

def linePrefix : List UInt8 := [0x6C, 0x69, 0x6E, 0x65, 0x20]   -- "line "


/-- result of `scanComment` -/
structure CommentRes where
  st : St
  lit : List UInt8
  nlOffset : Nat

/-- the three comment loops of xgo / go `scanComment` (`st.ch` is the byte after the first `/`
or `#`): `//…`; `/*…*/` (go: for any other `s.ch`; xgo: for `*`); xgo: the `#` style for any
other `s.ch` (so `#/…` is scanned by the `//` branch and `#*…` as a general comment, as the code
does).  `terminated` is Go's `next >= 0`. -/
def commentLoops (d : Dialect) (src : Array UInt8) (fuel : Nat) (st : St) : BlockRes :=
  if st.ch = 0x2F then
    let l := lineCommentLoop src fuel (next src st) 0
    ⟨l.1, l.2, 0, true⟩
  else if d = .go ∨ st.ch = 0x2A then
    let b := blockCommentLoop src fuel (next src st) 0 0
    if b.terminated then b else { b with st := b.st.error (st.off - 1) .commentNotTerminated }
  else
    let l := lineCommentLoop src fuel st 0
    ⟨l.1, l.2, 0, true⟩

/-- `if numCR > 0 && len(lit) >= 2 && lit[1] == '/' && lit[len(lit)-1] == '\r' { lit = lit[:len(lit)-1]; numCR-- }` -/
def commentStrip1 (numCR : Nat) (lit0 : List UInt8) : List UInt8 × Nat :=
  if 0 < numCR ∧ 2 ≤ lit0.length ∧ lit0[1]? = some (0x2F : UInt8) ∧ lit0.getLast? = some (0x0D : UInt8) then
    (lit0.dropLast, numCR - 1)
  else (lit0, numCR)

/-- `if next >= 0 && [xgo: len(lit) >= 2 &&] (lit[1] == '*' || offs == s.lineOffset) && bytes.HasPrefix(lit[2:], prefix) { s.updateLineInfo(next, offs, lit) }`
(the `len(lit) >= 2` guard is the fix of the `#`-at-EOF panic) -/
def commentDirective (d : Dialect) (st : St) (offs : Nat) (lit1 : List UInt8) (terminated : Bool) : St :=
  if terminated then
    if d = .go ∨ 2 ≤ lit1.length then
      match (lit1[1]? : Option UInt8) with
      | none => st.setFail .panic
      | some c1 =>
        if (c1 = 0x2A ∨ offs = st.lineOff) ∧ linePrefix.isPrefixOf (lit1.drop 2) then
          updateLineInfo st offs lit1
        else st
    else st
  else st

/-- `if numCR > 0 { lit = stripCR(lit, lit[1] == '*') }` -/
def commentStripCR (st : St) (numCR : Nat) (lit1 : List UInt8) (nlOffset : Nat) : CommentRes :=
  if 0 < numCR then
    match (lit1[1]? : Option UInt8) with
    | none => ⟨st.setFail .panic, lit1, nlOffset⟩
    | some c1 => ⟨st, stripCR lit1 (c1 = 0x2A), nlOffset⟩
  else ⟨st, lit1, nlOffset⟩

/-- xgo / go `scanComment` (the first byte `/` or `#` is consumed; `s.ch` is the byte after it). -/
def scanCommentXG (d : Dialect) (src : Array UInt8) (fuel : Nat) (st : St) : CommentRes :=
  if st.off = 0 then ⟨st.setFail .panic, [], 0⟩ else
  let offs := st.off - 1
  let r := commentLoops d src fuel st
  let s := sliceP src r.st offs r.st.off
  let l := commentStrip1 r.numCR s.2
  commentStripCR (commentDirective d s.1 offs l.1 r.terminated) l.2 l.1 r.nlOffset

/-- tpl `scanComment` (`//…` else `/*…*/`; `interpretLineComment` reports no errors) -/
def scanCommentTpl (src : Array UInt8) (fuel : Nat) (st : St) : CommentRes :=
  if st.off = 0 then ⟨st.setFail .panic, [], 0⟩ else
  let offs := st.off - 1
  let r : BlockRes :=
    if st.ch = 0x2F then
      let l := lineCommentLoop src fuel (next src st) 0
      ⟨l.1, l.2, 0, true⟩
    else
      let b := blockCommentLoop src fuel (next src st) 0 0
      if b.terminated then b else { b with st := b.st.error offs .commentNotTerminated }
  let s := sliceP src r.st offs r.st.off
  ⟨s.1, if 0 < r.numCR then stripCRAll s.2 else s.2, 0⟩

/-- tpl `scanSharpComment` (`#` consumed): up to newline/EOF, CRs kept -/
def sharpLoop (src : Array UInt8) : Nat → St → St
  | 0, st => st.setFail .fuel
  | f + 1, st => if st.ch = 0x0A ∨ st.ch = eofCh then st else sharpLoop src f (next src st)

def scanSharpCommentTpl (src : Array UInt8) (fuel : Nat) (st : St) : CommentRes :=
  if st.off = 0 then ⟨st.setFail .panic, [], 0⟩ else
  let st1 := sharpLoop src fuel st
  let s := sliceP src st1 (st.off - 1) st1.off
  ⟨s.1, s.2, 0⟩

/-! ### findLineEnd (xgo, tpl) -/

/-- inner loop of `findLineEnd`: `some true` = newline found (return true); `none` = loop left
by `break` or EOF -/
def fleInner (src : Array UInt8) : Nat → St → St × Bool
  | 0, st => (st.setFail .fuel, false)
  | f + 1, st =>
    if st.ch = eofCh then (st, false)
    else
      let ch := st.ch
      if ch = 0x0A then (st, true)
      else
        let st1 := next src st
        if ch = 0x2A ∧ st1.ch = 0x2F then (next src st1, false)
        else fleInner src f st1

/-- outer loop of `findLineEnd` (entered with `s.ch` = byte after the initial `/`) -/
def fleOuter (src : Array UInt8) (fuel : Nat) : Nat → St → St × Bool
  | 0, st => (st.setFail .fuel, false)
  | f + 1, st =>
    if st.ch = 0x2F ∨ st.ch = 0x2A then
      if st.ch = 0x2F then (st, true)
      else
        let r := fleInner src fuel (next src st)
        if r.2 then (r.1, true)
        else
          let st2 := skipWs src fuel r.1
          if st2.ch = eofCh ∨ st2.ch = 0x0A then (st2, true)
          else if st2.ch ≠ 0x2F then (st2, false)
          else fleOuter src fuel f (next src st2)
    else (st, false)

/-- `findLineEnd`: the look-ahead and the deferred reset (`s.ch = '/'; s.offset = offs;
s.rdOffset = offs + 1; s.next()`); errors reported by `next` during the look-ahead stay. -/
def findLineEnd (src : Array UInt8) (fuel : Nat) (st : St) : St × Bool :=
  let offs := st.off - 1
  let r := fleOuter src fuel fuel st
  (next src { r.1 with ch := 0x2F, off := offs, rdOff := offs + 1 }, r.2)

end GopModel.Scan
