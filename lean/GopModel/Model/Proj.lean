/-
Model of /repo/x/xgoprojs/proj.go (ParseOne, ParseAll, isFile, isLocal) and of the
Unix `path/filepath.Ext` it calls.  Arguments are byte strings (`List UInt8`),
exactly what Go's `string` holds.  Core Lean only.
-/
namespace GopModel.Proj

abbrev Arg := List UInt8

/-- `len(filepath.Ext(s))` computed on the reversed string:
scan from the end; stop at '/' (→ 0) or '.' (→ bytes seen so far + 1). -/
def extLenRev : List UInt8 → Nat → Nat
  | [], _ => 0
  | c :: cs, n =>
    if c = 0x2f then 0            -- '/'
    else if c = 0x2e then n + 1   -- '.'
    else extLenRev cs (n + 1)

def extLen (s : Arg) : Nat := extLenRev s.reverse 0

/-- `isFile`: `len(filepath.Ext(fname)) > 1`. -/
def isFile (s : Arg) : Bool := decide (1 < extLen s)

def isAlpha (c : UInt8) : Bool :=
  (0x41 ≤ c && c ≤ 0x5a) || (0x61 ≤ c && c ≤ 0x7a)

/-- `isLocal`: first byte '/', '\\', '.', or a drive letter followed by ':'. -/
def isLocal : Arg → Bool
  | [] => false
  | c :: rest =>
    if c = 0x2f || c = 0x5c || c = 0x2e then true
    else match rest with
      | c1 :: _ => c1 = 0x3a && isAlpha c
      | [] => false

inductive P where
  | files (fs : List Arg)
  | dir (d : Arg)
  | pkg (p : Arg)
  deriving Repr, DecidableEq

def P.args : P → List Arg
  | .files fs => fs
  | .dir d => [d]
  | .pkg p => [p]

def P.isFiles : P → Bool
  | .files _ => true
  | _ => false

/-- `ParseOne`; `none` is the `syscall.ENOENT` return for an empty list. -/
def parseOne : List Arg → Option (P × List Arg)
  | [] => none
  | a :: rest =>
    if isFile a then
      some (.files (a :: rest.takeWhile isFile), rest.dropWhile isFile)
    else if isLocal a then some (.dir a, rest)
    else some (.pkg a, rest)

inductive Res where
  | ok (ps : List P)
  | mixed
  | outOfFuel
  deriving Repr, DecidableEq

/-- The loop of `ParseAll`, one iteration per unit of fuel. -/
def parseAllLoop : Nat → List Arg → Bool → Bool → List P → Res
  | 0, _, _, _, _ => .outOfFuel
  | fuel + 1, args, hasFiles, hasNotFiles, acc =>
    match parseOne args with
    | none => if hasFiles && hasNotFiles then .mixed else .ok acc.reverse
    | some (p, next) =>
      if p.isFiles then parseAllLoop fuel next true hasNotFiles (p :: acc)
      else parseAllLoop fuel next hasFiles true (p :: acc)

def parseAll (args : List Arg) : Res :=
  parseAllLoop (args.length + 1) args false false []

end GopModel.Proj
