/-
C25 kernel — Go-to-XGo style conversion (`xgo fmt --smart`, x/format.Gopstyle).

Model of
  * /repo/x/format/gopstyle.go `formatCtx` (`insert`, `enterBlock`, `leaveBlock`, `declared`),
    `formatFile` (root scope: package-level var/const, type and function names; functions are
    formatted after all GenDecls; removal of an unused `fmt` import), `formatGenDecl`,
    `formatFuncDecl`/`formatFuncBody`;
  * /repo/x/format/stmt_expr_or_type.go: which statements open a block, where identifiers are
    declared (`:=`, var/const, type, parameters, range, case clauses, for post), and
    `formatSelectorExpr` (the decision for `X.Sel` with `X` an identifier);
  * /repo/x/format/format.go `fmtToBuiltin` (tables regenerated into Generated/GopStyleTab.lean),
    `fncallStartingLowerCase`/`startWithLowerCase`, `funcLitToLambdaExpr`/`checkResult`.
The `Policy` record says which binders the formatter tracks: `policyFixed` is the code after the
fix commits 2c54056, 94c70f5, 52c6248; `policyOld` is the snapshot fd23b73 (only var/const).

Programs are abstracted to the tree `Stmt`: only block structure, declarations and uses `X.Sel`
survive; expressions are `skip`/`seq`/`use`/`funcLit` trees in expression positions.
NOT modelled: everything else of the formatter (command style, printing), the XGo compiler.
Core Lean only.
-/
import GopModel.Generated.GopStyleTab
namespace GopModel.GopStyle

inductive Stmt where
  | skip
  | seq (a b : Stmt)
  | block (s : Stmt)                                   -- { s }
  | use (x sel tag : String)                           -- X.Sel with X an identifier
  | define (ns : List String) (rhs : Stmt)             -- ns := rhs
  | varDecl (ns : List String) (rhs : Stmt)            -- var/const ns = rhs
  | typeDecl (n : String) (body : Stmt)                -- type n <type expression>
  | funcLit (params : List String) (body : Stmt)       -- func(params) { body } (also lambdas)
  | ifS (init cond thn els : Stmt)
  | forS (init cond post body : Stmt)
  | rangeS (isDefine : Bool) (kv : List String) (x body : Stmt)
  | switchS (init tag clauses : Stmt)                  -- also type switch / select
  | clause (exprs body : Stmt)                         -- case exprs: body
  | labeled (l : String) (s : Stmt)
  deriving Repr, DecidableEq

/-- Which binders the formatter's scope tracking knows. -/
structure Policy where
  define : Bool        -- `:=` (also the type-switch guard and `case v := <-ch`)
  params : Bool        -- parameters, receivers, named results, lambda parameters
  range : Bool         -- `for k, v := range`
  typ : Bool           -- type names
  forPost : Bool       -- the post statement of a for loop is visited
  clauseBlock : Bool   -- case/comm clause bodies are blocks
  funcNames : Bool     -- package-level function names are in the root scope
  builtinGuard : Bool  -- `fmt.X` is kept when the builtin's name is declared
  deriving Repr, DecidableEq

def policyOld : Policy := ⟨false, false, false, false, false, false, false, false⟩
def policyFixed : Policy := ⟨true, true, true, true, true, true, true, true⟩

/-- `types.Scope` chain, innermost first. -/
abbrev Scopes := List (List String)

/-- `ctx.declared(name)` = `scope.LookupParent(name) != nil`. -/
def declared (sc : Scopes) (n : String) : Bool := sc.any fun s => s.contains n

/-- `ctx.insert` of several names into the current scope. -/
def insertAll (ns : List String) : Scopes → Scopes
  | [] => [ns]
  | h :: t => (ns ++ h) :: t

/-- `enterBlock` (leaving restores the saved outer chain). -/
def enter (sc : Scopes) : Scopes := [] :: sc

inductive Dec where
  | rewritten (tag builtin : String)   -- X.Sel replaced by the builtin identifier
  | keptUsed (tag x : String)          -- left alone, `imp.isUsed = true`
  | kept (tag : String)                -- left alone (X declared, or X not an import)
  deriving Repr, DecidableEq

/-- `fmtToBuiltin` without the declared-name guard: the builtin `pkg.Sel` would become. -/
def builtinFor (path sel : String) : Option String :=
  if path = Gen.fmtPkgPath then
    (Gen.printFuncs.find? fun r => r.1 == sel || r.2 == sel).map fun r =>
      if r.2 = Gen.renameFrom then Gen.renameTo else r.2
  else none

/-- `formatSelectorExpr` for `x.sel`, `decl` being `ctx.declared`. -/
def decideUse (P : Policy) (imps : List (String × String)) (decl : String → Bool)
    (x sel tag : String) : Dec :=
  if decl x then .kept tag
  else match imps.lookup x with
    | none => .kept tag
    | some path =>
      match builtinFor path sel with
      | some b => if P.builtinGuard && decl b then .keptUsed tag x else .rewritten tag b
      | none => .keptUsed tag x

/-- The traversal: decisions in visiting order and the scope chain afterwards. -/
def fmtS (P : Policy) (imps : List (String × String)) : Stmt → Scopes → List Dec × Scopes
  | .skip, sc => ([], sc)
  | .seq a b, sc =>
    let r1 := fmtS P imps a sc
    let r2 := fmtS P imps b r1.2
    (r1.1 ++ r2.1, r2.2)
  | .block s, sc => ((fmtS P imps s (enter sc)).1, sc)
  | .use x sel tag, sc => ([decideUse P imps (declared sc) x sel tag], sc)
  | .define ns rhs, sc =>
    let r := fmtS P imps rhs sc
    (r.1, if P.define then insertAll ns r.2 else r.2)
  | .varDecl ns rhs, sc =>
    let r := fmtS P imps rhs sc
    (r.1, insertAll ns r.2)
  | .typeDecl n body, sc =>
    fmtS P imps body (if P.typ then insertAll [n] sc else sc)
  | .funcLit ps body, sc =>
    if P.params then ((fmtS P imps body (enter (insertAll ps (enter sc)))).1, sc)
    else ((fmtS P imps body (enter sc)).1, sc)
  | .ifS i c t e, sc =>
    let r0 := fmtS P imps i (enter sc)
    let r1 := fmtS P imps c r0.2
    let r2 := fmtS P imps t (enter r1.2)
    let r3 := fmtS P imps e r1.2
    (r0.1 ++ r1.1 ++ r2.1 ++ r3.1, sc)
  | .forS i c p b, sc =>
    let r0 := fmtS P imps i (enter sc)
    let r1 := fmtS P imps c r0.2
    let r2 := if P.forPost then fmtS P imps p r1.2 else ([], r1.2)
    let r3 := fmtS P imps b (enter r2.2)
    (r0.1 ++ r1.1 ++ r2.1 ++ r3.1, sc)
  | .rangeS d kv x b, sc =>
    let r0 := fmtS P imps x (enter sc)
    let sc1 := if P.range && d then insertAll kv r0.2 else r0.2
    let r1 := fmtS P imps b (enter sc1)
    (r0.1 ++ r1.1, sc)
  | .switchS i t cl, sc =>
    let r0 := fmtS P imps i (enter sc)
    let r1 := fmtS P imps t r0.2
    let r2 := fmtS P imps cl (enter r1.2)
    (r0.1 ++ r1.1 ++ r2.1, sc)
  | .clause ex body, sc =>
    let r0 := fmtS P imps ex sc
    if P.clauseBlock then (r0.1 ++ (fmtS P imps body (enter r0.2)).1, r0.2)
    else
      let r1 := fmtS P imps body r0.2
      (r0.1 ++ r1.1, r1.2)
  | .labeled _ s, sc => fmtS P imps s sc

structure Func where
  name : String
  recv : List String           -- receiver name (empty list: plain function)
  isMethod : Bool
  params : List String
  results : List String        -- named results
  body : Stmt
  deriving Repr, DecidableEq

structure File where
  imports : List (String × String)   -- (name in the file, import path)
  vars : List String                 -- package-level var/const names
  types : List String
  funcs : List Func
  deriving Repr, DecidableEq

/-- root scope after the first pass of `formatFile`. -/
def rootScope (P : Policy) (f : File) : Scopes :=
  [f.vars ++ (if P.typ then f.types else []) ++
    (if P.funcNames then (f.funcs.filter fun fn => !fn.isMethod).map Func.name else [])]

/-- `formatFuncDecl`. -/
def fmtFunc (P : Policy) (imps : List (String × String)) (root : Scopes) (fn : Func) : List Dec :=
  if P.params then
    (fmtS P imps fn.body (enter (insertAll (fn.recv ++ fn.params ++ fn.results) (enter root)))).1
  else (fmtS P imps fn.body (enter root)).1

def usedNames : List Dec → List String
  | [] => []
  | .keptUsed _ x :: r => x :: usedNames r
  | _ :: r => usedNames r

/-- `formatFile`: all decisions, and the names of the `fmt` imports that are deleted. -/
def fmtFile (P : Policy) (f : File) : List Dec × List String :=
  let ds := f.funcs.flatMap (fmtFunc P f.imports (rootScope P f))
  (ds, (f.imports.filter fun i => i.2 == Gen.fmtPkgPath && !(usedNames ds).contains i.1).map Prod.fst)

/-! ## Go scoping (specification side, environment passing) -/

structure Use where
  tag : String
  x : String
  sel : String
  env : List String      -- identifiers declared in an enclosing scope of the file at this point
  deriving Repr, DecidableEq

/-- Uses in visiting order with the identifiers in scope at each, and the environment for the
rest of the enclosing block.  In expression positions (`rhs`, `cond`, `tag`, `x`, `exprs`) real
programs have only `skip`/`seq`/`use`/`funcLit` trees, for which the environment is unchanged
(`goS_expr_env`). -/
def goS : Stmt → List String → List Use × List String
  | .skip, e => ([], e)
  | .seq a b, e =>
    let r1 := goS a e
    let r2 := goS b r1.2
    (r1.1 ++ r2.1, r2.2)
  | .block s, e => ((goS s e).1, e)
  | .use x sel tag, e => ([⟨tag, x, sel, e⟩], e)
  | .define ns rhs, e => let r := goS rhs e; (r.1, ns ++ r.2)       -- in scope after the statement
  | .varDecl ns rhs, e => let r := goS rhs e; (r.1, ns ++ r.2)
  | .typeDecl n body, e => goS body (n :: e)                          -- in scope in its own definition
  | .funcLit ps body, e => ((goS body (ps ++ e)).1, e)
  | .ifS i c t el, e =>
    let r0 := goS i e
    let r1 := goS c r0.2
    let r2 := goS t r1.2
    let r3 := goS el r1.2
    (r0.1 ++ r1.1 ++ r2.1 ++ r3.1, e)
  | .forS i c p b, e =>
    let r0 := goS i e
    let r1 := goS c r0.2
    let r2 := goS p r1.2
    let r3 := goS b r2.2
    (r0.1 ++ r1.1 ++ r2.1 ++ r3.1, e)
  | .rangeS d kv x b, e =>
    let r0 := goS x e
    let r1 := goS b (if d then kv ++ r0.2 else r0.2)
    (r0.1 ++ r1.1, e)
  | .switchS i t cl, e =>
    let r0 := goS i e
    let r1 := goS t r0.2
    let r2 := goS cl r1.2
    (r0.1 ++ r1.1 ++ r2.1, e)
  | .clause ex body, e =>
    let r0 := goS ex e
    (r0.1 ++ (goS body r0.2).1, r0.2)
  | .labeled _ s, e => goS s e                                        -- labels are not in scope

def fileEnv (f : File) : List String :=
  f.vars ++ f.types ++ (f.funcs.filter fun fn => !fn.isMethod).map Func.name

def goFile (f : File) : List Use :=
  f.funcs.flatMap fun fn => (goS fn.body (fn.recv ++ fn.params ++ fn.results ++ fileEnv f)).1

/-- The decision the specification prescribes for a use: rewrite exactly when `x` denotes the
import (nothing in scope hides it), the import is `fmt`, `sel` is a print function and the
builtin's name is not hidden either. -/
def decOfUse (imps : List (String × String)) (u : Use) : Dec :=
  decideUse policyFixed imps (fun n => u.env.contains n) u.x u.sel u.tag

def isExpr : Stmt → Bool
  | .skip => true
  | .seq a b => isExpr a && isExpr b
  | .use _ _ _ => true
  | .funcLit _ _ => true
  | _ => false

/-! ## lower-casing of called selectors (`fncallStartingLowerCase`) -/

/-- `startWithLowerCase`. -/
def lowerFirst (s : String) : String :=
  match s.toList with
  | [] => s
  | c :: r => if 'A' ≤ c ∧ c ≤ 'Z' then String.ofList (Char.ofNat (c.toNat + 32) :: r) else s

/-- `fncallStartingLowerCase`: the called selector is lower-cased unless that spells a keyword
(fix bcc471d). -/
def lowerCall (s : String) : String :=
  if Gen.keywords.contains (lowerFirst s) then s else lowerFirst s

def capFirst (s : String) : String :=
  match s.toList with
  | [] => s
  | c :: r => if 'a' ≤ c ∧ c ≤ 'z' then String.ofList (Char.ofNat (c.toNat - 32) :: r) else s

inductive MemberKind where
  | method | pkgFunc | field | pkgType
  deriving Repr, DecidableEq

/-- How the XGo compiler resolves `x.name` (assumption about cl, validated by the findings of the
harness): the exact name first; otherwise the capitalised name, for methods and package functions
only (a struct field or a package type is not found by its lower-cased name). -/
def xgoLookup (members : List (String × MemberKind)) (n : String) : Option String :=
  if (members.lookup n).isSome then some n
  else match members.lookup (capFirst n) with
    | some .method => some (capFirst n)
    | some .pkgFunc => some (capFirst n)
    | _ => none

/-! ## function literal → lambda (`funcLitToLambdaExpr`) -/

inductive BodyStmt where
  | ret (results : List Nat)      -- return e1, …, ek (expressions by identity)
  | other
  deriving Repr, DecidableEq

structure FuncLit where
  params : List (List String)     -- one entry per field; [] = a field without names
  variadic : Bool                 -- some parameter field has a `...T` type
  results : List (List String)
  body : List BodyStmt
  deriving Repr, DecidableEq

inductive Lam where
  | unchanged                                                        -- named results or variadic
  | expr (lhs : List String) (rhs : List Nat) (lhsParen rhsParen : Bool)   -- LambdaExpr
  | blockL (lhs : List String) (body : List BodyStmt) (lhsParen : Bool)    -- LambdaExpr2
  deriving Repr, DecidableEq

/-- `checkResult`: (number of results, named results). -/
def checkResult (rs : List (List String)) : Nat × List String :=
  rs.foldl (fun acc f => if f.isEmpty then (acc.1 + 1, acc.2) else (acc.1 + f.length, acc.2 ++ f)) (0, [])

def lambdaLhs (ps : List (List String)) : List String :=
  ps.flatMap fun f => if f.isEmpty then ["_"] else f

def toLambda (f : FuncLit) : Lam :=
  let (nres, named) := checkResult f.results
  if !named.isEmpty then .unchanged
  else if f.variadic then .unchanged      -- fix 1cb36f4
  else
    let lhs := lambdaLhs f.params
    match f.body with
    | [.ret rs] =>
      if rs.length = nres then .expr lhs rs (decide (lhs.length > 1)) (decide (rs.length > 1))
      else .blockL lhs f.body (decide (lhs.length > 1))
    | _ => .blockL lhs f.body (decide (lhs.length > 1))

end GopModel.GopStyle
