/-
C11 kernel — a normal `.gox` class file and the Go type it denotes.

Model of
  * /repo/ast/ast_gop.go `(*File).ClassFieldsDecl` (the class fields are the FIRST `var`
    declaration among the leading GenDecls; the scan stops at the first non-GenDecl);
  * /repo/cl/compile.go `preloadGopFile` (`ld.typInit`: the loop over `classDecl.Specs` that
    builds `flds`/`tags`, `parseTypeEmbedName`, `chkRedecl`; `ctx.classRecv = this *T`),
    lines ~782–883, and `preloadFile` (`preloadFuncDecl`: a function without receiver gets
    `classRecv`; `case token.VAR: if d == classDecl { continue }`), lines ~935–1124, restricted
    to normal class files (`IsNormalGox`: no base class, no project).

NOT modelled: types other than as text, function bodies, static methods (`func .name`),
overload declarations in class files, shadow entry (`Main`), spx-style classes with a base class.
Strings are `List Char`.  Core Lean only.
-/
namespace GopModel.ClassFile

abbrev Str := List Char

/-- Type expressions as far as `parseTypeEmbedName` distinguishes them. -/
inductive TypeExpr where
  | ident (n : Str)
  | sel (pkg n : Str)
  | star (t : TypeExpr)
  | other (text : Str)          -- any other type (printed text)
  deriving Repr, DecidableEq

def TypeExpr.text : TypeExpr → Str
  | .ident n => n
  | .sel p n => p ++ '.' :: n
  | .star t => '*' :: t.text
  | .other s => s

/-- `parseTypeEmbedName`; `none` is `panic("TODO: parseTypeEmbedName unexpected")`. -/
def embedName : TypeExpr → Option Str
  | .ident n => some n
  | .sel _ n => some n
  | .star t => embedName t
  | .other _ => none

/-- `*ast.ValueSpec` of a var block. -/
structure Spec where
  names : List Str              -- [] = embedded field
  typ : TypeExpr
  tag : Option Str              -- toFieldTag(spec.Tag), already unquoted
  deriving Repr, DecidableEq

structure FuncDecl where
  name : Str
  recv : Option (Str × Str × Bool)   -- explicit receiver (name, type name, pointer?)
  deriving Repr, DecidableEq

inductive Decl where
  | genImport
  | genConst
  | genType
  | genVar (specs : List Spec)
  | func (f : FuncDecl)
  deriving Repr, DecidableEq

/-- `ClassFieldsDecl` for a class file: index of the declaration that is the class var block. -/
def classFieldsIdx : List Decl → Nat → Option Nat
  | [], _ => none
  | .genVar _ :: _, i => some i
  | .func _ :: _, _ => none
  | _ :: r, i => classFieldsIdx r (i + 1)

def classFields (ds : List Decl) : Option (List Spec) :=
  match classFieldsIdx ds 0 with
  | none => none
  | some i => match ds[i]? with
    | some (.genVar s) => some s
    | _ => none

structure Field where
  name : Str
  typ : Str
  embedded : Bool
  tag : Str
  deriving Repr, DecidableEq

inductive TypRes where
  | ok (flds : List Field) (redecl : List Str)    -- fields; names reported as redeclared
  | panic
  deriving Repr, DecidableEq

def tagOf (s : Spec) : Str := s.tag.getD []

/-- `chkRedecl`: `_` is never a redeclaration; otherwise a name seen before is. -/
def isRedecl (seen : List Str) (n : Str) : Bool := n != ['_'] && seen.contains n

/-- inner loop `for _, name := range spec.Names` -/
def addNames (typ : Str) (tag : Str) : List Str → List Field → List Str → List Str →
    List Field × List Str × List Str
  | [], flds, seen, red => (flds, seen, red)
  | n :: r, flds, seen, red =>
    if isRedecl seen n then addNames typ tag r flds seen (n :: red)      -- chkRedecl: continue
    else addNames typ tag r (⟨n, typ, false, tag⟩ :: flds) (n :: seen) red

/-- the loop `for _, v := range classDecl.Specs` (accumulators reversed). -/
def typLoop : List Spec → List Field → List Str → List Str → TypRes
  | [], flds, _, red => .ok flds.reverse red.reverse
  | s :: r, flds, seen, red =>
    match s.names with
    | [] =>
      match embedName s.typ with
      | none => .panic
      | some n =>
        if isRedecl seen n then typLoop r flds seen (n :: red)
        else typLoop r (⟨n, s.typ.text, true, tagOf s⟩ :: flds) (n :: seen) red
    | names =>
      let (flds', seen', red') := addNames s.typ.text (tagOf s) names flds seen red
      typLoop r flds' seen' red'

structure Method where
  name : Str
  recvName : Str
  recvType : Str
  recvPtr : Bool
  deriving Repr, DecidableEq

structure GenType where
  name : Str
  fields : List Field
  redeclared : List Str
  methods : List Method           -- methods declared in this file, in order (all receiver types)
  globals : List Str              -- names of package-level variables declared by later var blocks
  deriving Repr, DecidableEq

def thisName : Str := ['t', 'h', 'i', 's']

/-- `preloadFuncDecl` in a class file: no receiver → `this *T`. -/
def methodOf (cls : Str) (f : FuncDecl) : Method :=
  match f.recv with
  | none => ⟨f.name, thisName, cls, true⟩
  | some (rn, rt, ptr) => ⟨f.name, rn, rt, ptr⟩

/-- Walk the declarations: `idx` is the class var block (skipped); other var blocks are globals. -/
def walkDecls (cls : Str) (skip : Option Nat) : List Decl → Nat → List Method → List Str →
    List Method × List Str
  | [], _, ms, gs => (ms.reverse, gs.reverse)
  | d :: r, i, ms, gs =>
    match d with
    | .func f => walkDecls cls skip r (i + 1) (methodOf cls f :: ms) gs
    | .genVar specs =>
      if skip = some i then walkDecls cls skip r (i + 1) ms gs
      else walkDecls cls skip r (i + 1) ms ((specs.flatMap Spec.names).reverse ++ gs)
    | _ => walkDecls cls skip r (i + 1) ms gs

inductive GenRes where
  | ok (t : GenType)
  | panic
  deriving Repr, DecidableEq

/-- The Go type a normal class file `cls.gox` with declarations `ds` denotes. -/
def genType (cls : Str) (ds : List Decl) : GenRes :=
  let idx := classFieldsIdx ds 0
  let specs := (classFields ds).getD []
  match typLoop specs [] [] [] with
  | .panic => .panic
  | .ok flds red =>
    let (ms, gs) := walkDecls cls idx ds 0 [] []
    .ok { name := cls, fields := flds, redeclared := red, methods := ms, globals := gs }

/-! ## the explicit struct form (specification side) -/

/-- Fields an explicit `struct { … }` written from the same var block has. -/
def fieldsOf : List Spec → List Field
  | [] => []
  | s :: r =>
    (match s.names with
     | [] => (match embedName s.typ with
              | some n => [⟨n, s.typ.text, true, tagOf s⟩]
              | none => [])
     | names => names.map fun n => ⟨n, s.typ.text, false, tagOf s⟩) ++ fieldsOf r

/-- Pointer-receiver methods `func (this *T) name(…)` for the receiver-less functions; functions
that have a receiver stay as written. -/
def methodsOf (cls : Str) : List Decl → List Method
  | [] => []
  | .func f :: r =>
    (match f.recv with
     | none => ⟨f.name, thisName, cls, true⟩
     | some (rn, rt, ptr) => ⟨f.name, rn, rt, ptr⟩) :: methodsOf cls r
  | _ :: r => methodsOf cls r

end GopModel.ClassFile
