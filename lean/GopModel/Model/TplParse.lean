/-
Model of /repo/tpl/parser/parser.go (parseFile, parseRule, lambdaExpr, parseExpr,
parseTermList, parseTerm, parseTerm2, parseFactor, expect) over the token list produced by
the real TPL scanner.

* The token list does not contain the final EOF token; an exhausted list *is* EOF, and
  `next` at EOF stays at EOF (the scanner keeps returning EOF).
* Error positions: every parser error is reported at the position of the current token; the
  model records how many tokens are left (`left`), the driver maps that to the position.
* The Go functions recurse/loop; here every function takes a `fuel` argument that bounds the
  *depth* of calls (loops are tail calls).  `none` = fuel exhausted; `Props/C31.lean` proves
  that the fuel `parseFile` supplies is always enough.
* `parseTerm`/`parseTerm2` return `(x, false)` with a non-nil `x` after a missing right
  operand; every caller drops `x` when `ok` is false, so the model returns `none` there.
Core Lean only.
-/
import GopModel.Model.TplAst
namespace GopModel.Tpl

inductive PErrKind where
  | expectedFactor            -- p.error(p.pos, "expected factor")
  | expected (tok : Nat)      -- p.errorExpected(pos, "'" + tok.String() + "'")
  | expectedIdent             -- p.errorExpected(p.pos, "'IDENT'")
  deriving Repr, DecidableEq

structure PErr where
  left : Nat                  -- number of tokens not yet consumed (incl. the current one)
  kind : PErrKind
  deriving Repr, DecidableEq

/-- Parser state: remaining tokens and the errors so far (most recent first). -/
structure PS where
  ts : List Tok
  errs : List PErr
  deriving Repr

def PS.tok (s : PS) : Nat :=
  match s.ts with
  | [] => T.EOF
  | t :: _ => t.kind

def PS.lit (s : PS) : Bytes :=
  match s.ts with
  | [] => []
  | t :: _ => t.lit

def PS.next (s : PS) : PS := { s with ts := s.ts.tail }

def PS.err (s : PS) (k : PErrKind) : PS := { s with errs := ⟨s.ts.length, k⟩ :: s.errs }

/-- `expect`: error unless the current token is `tok`; consumes a token either way. -/
def PS.expect (s : PS) (tok : Nat) : PS :=
  (if s.tok = tok then s else s.err (.expected tok)).next

def isUnaryOp (tok : Nat) : Bool := tok = T.MUL || tok = T.ADD || tok = T.QUESTION

mutual

/-- `parseFactor`; inner `none` is `(nil, false)`. -/
def pFactor : Nat → PS → Option (Option Expr × PS)
  | 0, _ => none
  | f + 1, s =>
    if s.tok = T.IDENT then some (some (.ident s.lit), s.next)
    else if s.tok = T.CHAR || s.tok = T.STRING then some (some (.lit s.tok s.lit), s.next)
    else if isUnaryOp s.tok then
      match pFactor f s.next with
      | none => none
      | some (some x, s1) => some (some (.unary s.tok x), s1)
      | some (none, s1) => some (some (.unary s.tok .nil), s1.err .expectedFactor)
    else if s.tok = T.LPAREN then
      match pExpr f s.next with
      | none => none
      | some (e, s1) => some (some e, s1.expect T.RPAREN)
    else some (none, s)

/-- the `for p.tok == token.INC` loop of `parseTerm2`. -/
def pTerm2Loop : Nat → Expr → PS → Option (Option Expr × PS)
  | 0, _, _ => none
  | f + 1, x, s =>
    if s.tok = T.INC then
      match pFactor f s.next with
      | none => none
      | some (none, s1) => some (none, s1.err .expectedFactor)
      | some (some y, s1) => pTerm2Loop f (.binary T.INC x y) s1
    else some (some x, s)

def pTerm2 : Nat → PS → Option (Option Expr × PS)
  | 0, _ => none
  | f + 1, s =>
    match pFactor f s with
    | none => none
    | some (none, s1) => some (none, s1)
    | some (some x, s1) => pTerm2Loop f x s1

/-- the `for p.tok == token.REM` loop of `parseTerm`. -/
def pTermLoop : Nat → Expr → PS → Option (Option Expr × PS)
  | 0, _, _ => none
  | f + 1, x, s =>
    if s.tok = T.REM then
      match pTerm2 f s.next with
      | none => none
      | some (none, s1) => some (none, s1.err .expectedFactor)
      | some (some y, s1) => pTermLoop f (.binary T.REM x y) s1
    else some (some x, s)

def pTerm : Nat → PS → Option (Option Expr × PS)
  | 0, _ => none
  | f + 1, s =>
    match pTerm2 f s with
    | none => none
    | some (none, s1) => some (none, s1)
    | some (some x, s1) => pTermLoop f x s1

/-- the `for { term, ok := p.parseTerm() … }` loop of `parseTermList`; `acc` is reversed. -/
def pTermsLoop : Nat → List Expr → PS → Option (List Expr × PS)
  | 0, _, _ => none
  | f + 1, acc, s =>
    match pTerm f s with
    | none => none
    | some (none, s1) => some (acc.reverse, s1)
    | some (some t, s1) => pTermsLoop f (t :: acc) s1

def pTermList : Nat → PS → Option (Expr × PS)
  | 0, _ => none
  | f + 1, s =>
    match pTermsLoop f [] s with
    | none => none
    | some ([t], s1) => some (t, s1)
    | some ([], s1) => some (.seq [], s1.err .expectedFactor)
    | some (terms, s1) => some (.seq terms, s1)

/-- the `for p.tok == token.OR` loop of `parseExpr`; `acc` is reversed. -/
def pOptsLoop : Nat → List Expr → PS → Option (List Expr × PS)
  | 0, _, _ => none
  | f + 1, acc, s =>
    if s.tok = T.OR then
      match pTermList f s.next with
      | none => none
      | some (t, s1) => pOptsLoop f (t :: acc) s1
    else some (acc.reverse, s)

def pExpr : Nat → PS → Option (Expr × PS)
  | 0, _ => none
  | f + 1, s =>
    match pTermList f s with
    | none => none
    | some (t, s1) =>
      if s1.tok = T.OR then
        match pOptsLoop f [t] s1 with
        | none => none
        | some (opts, s2) => some (.choice opts, s2)
      else some (t, s1)

end

/-- The loop of `lambdaExpr` after `=>` and `{`: skip to the matching `}` (consumed) or EOF. -/
def lambdaLoop : Nat → List Tok → List Tok
  | _, [] => []
  | level, t :: rest =>
    if t.kind = T.RBRACE then
      if level ≤ 1 then rest else lambdaLoop (level - 1) rest
    else if t.kind = T.LBRACE then lambdaLoop (level + 1) rest
    else if t.kind = T.EOF then t :: rest
    else lambdaLoop level rest

/-- `lambdaExpr` (its results are only used when a `ParseRetProc` callback is configured). -/
def PS.lambda (s : PS) : PS :=
  let s1 := s.next.expect T.LBRACE
  { s1 with ts := lambdaLoop 1 s1.ts }

/-- Depth of calls `parseExpr` may need on `n` remaining tokens (see `C31_fuel_adequate`). -/
def exprFuel (n : Nat) : Nat := 10 * n + 10

/-- `parseRule`; inner `none` is the nil rule (stops `parseFile`). -/
def pRule (s : PS) : Option (Option Rule × PS) :=
  if s.tok = T.IDENT then
    let name := s.lit
    let s0 := s.next.expect T.ASSIGN
    match pExpr (exprFuel s0.ts.length) s0 with
    | none => none
    | some (e, s1) =>
      let s2 := if s1.tok = T.DRARROW then s1.lambda else s1
      some (some ⟨name, e⟩, s2.expect T.SEMICOLON)
  else some (none, s.err .expectedIdent)

def pFileLoop : Nat → List Rule → PS → Option (List Rule × PS)
  | 0, _, _ => none
  | f + 1, acc, s =>
    if s.tok = T.EOF then some (acc.reverse, s)
    else
      match pRule s with
      | none => none
      | some (none, s1) => some (acc.reverse, s1)
      | some (some r, s1) => pFileLoop f (r :: acc) s1

structure ParseResult where
  rules : List Rule
  errs : List PErr           -- in the order reported
  left : Nat                 -- tokens not consumed when the parser stopped (incl. the current one)
  deriving Repr

/-- `ParseEx(file, src, 0, nil)` after scanning; `none` = fuel exhausted (never: `C31_fuel_adequate`). -/
def parseFile (ts : List Tok) : Option ParseResult :=
  match pFileLoop (ts.length + 1) [] ⟨ts, []⟩ with
  | none => none
  | some (rules, s) => some ⟨rules, s.errs.reverse, s.ts.length⟩

/-! ## Printing with the minimal parentheses (specification side of C31) -/

/-- Binding level of the top constructor: `|` 0 < sequence 1 < `%` 2 < `++` 3 < unary/atoms 4. -/
def Expr.level : Expr → Nat
  | .choice _ => 0
  | .seq _ => 1
  | .binary op _ _ => if op = T.REM then 2 else 3
  | _ => 4

def opTok (k : Nat) : Tok := ⟨k, []⟩

mutual
/-- tokens of `e` without outer parentheses -/
def printE : Expr → List Tok
  | .ident n => [⟨T.IDENT, n⟩]
  | .lit k v => [⟨k, v⟩]
  | .unary op x => opTok op :: printAt 4 x
  | .binary op x y =>
    if op = T.REM then printAt 2 x ++ opTok T.REM :: printAt 3 y
    else printAt 3 x ++ opTok T.INC :: printAt 4 y
  | .seq items => printItems items
  | .choice opts => printOpts opts
  | .nil => []
/-- tokens of `e` in a context that needs level ≥ `ctx`: parenthesised iff `e.level < ctx` -/
def printAt (ctx : Nat) : Expr → List Tok
  | .ident n => [⟨T.IDENT, n⟩]
  | .lit k v => [⟨k, v⟩]
  | .unary op x => opTok op :: printAt 4 x
  | .binary op x y =>
    let body := if op = T.REM then printAt 2 x ++ opTok T.REM :: printAt 3 y
                else printAt 3 x ++ opTok T.INC :: printAt 4 y
    if (if op = T.REM then 2 else 3) < ctx then opTok T.LPAREN :: (body ++ [opTok T.RPAREN]) else body
  | .seq items =>
    if 1 < ctx then opTok T.LPAREN :: (printItems items ++ [opTok T.RPAREN]) else printItems items
  | .choice opts =>
    if 0 < ctx then opTok T.LPAREN :: (printOpts opts ++ [opTok T.RPAREN]) else printOpts opts
  | .nil => []
/-- sequence items, juxtaposed, each at level ≥ 2 -/
def printItems : List Expr → List Tok
  | [] => []
  | e :: rest => printAt 2 e ++ printItems rest
/-- choice options separated by `|`, each at level ≥ 1 -/
def printOpts : List Expr → List Tok
  | [] => []
  | [e] => printAt 1 e
  | e :: rest => printAt 1 e ++ opTok T.OR :: printOpts rest
end

end GopModel.Tpl
