/-
C06 — compiler success implies valid, well-typed Go output.     PARTIAL (kernel only).

FULL STATEMENT (properties.jsonl): whenever the compiler reports no error for a package, the Go
source it writes parses, is accepted by the Go type checker and builds; the compiler never reports
success for a package whose output Go rejects.

What is PROVED here is only the error-accumulation kernel of cl.NewPackage, over the facts the
translator extracts from cl/*.go on every run (Generated/ErrSinks.lean):
  * `C06_errs_monotone`            errs only ever grows (every write site is a self-append);
  * `C06_success_iff_no_report`    NewPackage returns nil  ⇔  nothing was reported before
                                   `err = ctx.complete()` and no panic reached the deferred recover;
  * `C06_success_no_report_partial` "no error returned ⇒ no error was EVER reported" holds when
                                   nothing is reported after `complete()`;
  * `C06_late_report_lost`         … and is FALSE in general for the code as written: a report made
                                   by the statements after `err = ctx.complete()` (genMainFunc,
                                   the generated empty main) is lost (model witness).
NOT PROVED (no theorem anywhere): that a package compiled without a report yields Go that
go/parser, go/types and `go build` accept — gogen (outside /repo) decides that; it is covered only
by the search machinery of harness/cmd/c06 (generated programs, near-miss mutants, corpus).
-/
import GopModel.Generated.ErrSinks
namespace GopModel.CompErrs
open GopModel.Generated.ErrSinks

/-- Every executed write is an execution of one of the extracted write sites. -/
def FromSites (ws : List Write) : Prop := ∀ w ∈ ws, w.kind ∈ errWrites.map (·.kind)

/-- The kind of the write in `pkgCtx.handleErr` (pessimistically `other` if the site vanished). -/
def handleErrKind : WriteKind :=
  match errWrites.find? (fun w => w.fn == "pkgCtx.handleErr") with
  | some w => w.kind
  | none => .other

/-! ### Kernel-decided obligations on the regenerated facts -/

/-- Every write to `.errs` in package cl is `X.errs = append(X.errs, …)`. -/
theorem C06_sinks_are_appends : ∀ w ∈ errWrites, w.kind = WriteKind.appendSelf := by decide

/-- `.errs` is otherwise only read through `.ToError()` (never aliased, truncated or passed on). -/
theorem C06_uses_are_toError : ∀ u ∈ errUses, u.kind = UseKind.toError := by decide

/-- Shape of NewPackage / complete / handleRecover the model relies on. -/
theorem C06_shape_facts :
    completeIsToError = true ∧ handleRecoverReports = true ∧
    npShape.errAssigns = [ErrAssign.complete] ∧ npShape.nestedErrAssigns = 0 ∧
    npShape.otherReturns = 0 ∧ handleErrKind = WriteKind.appendSelf := by decide

theorem fromSites_allAppend {ws : List Write} (h : FromSites ws) : ∀ w ∈ ws, w.kind = .appendSelf := by
  intro w hw
  have := h w hw
  simp only [List.mem_map] at this
  obtain ⟨s, hs, hk⟩ := this
  rw [← hk]; exact C06_sinks_are_appends s hs

theorem runWrites_append (errs : List Err) (ws : List Write) (h : ∀ w ∈ ws, w.kind = .appendSelf) :
    runWrites errs ws = errs ++ ws.map (·.e) := by
  induction ws generalizing errs with
  | nil => simp [runWrites]
  | cons w t ih =>
    have hw : w.kind = .appendSelf := h w (by simp)
    have ht : ∀ x ∈ t, x.kind = .appendSelf := fun x hx => h x (by simp [hx])
    simp only [runWrites, List.foldl_cons] at ih ⊢
    rw [ih _ ht]
    simp [applyWrite, hw]

/-- **Monotonicity**: along any sequence of executions of the extracted write sites, the
accumulated list only grows — the old content stays a prefix and exactly the reported errors are
added, in order. -/
theorem C06_errs_monotone (errs : List Err) (ws : List Write) (h : FromSites ws) :
    runWrites errs ws = errs ++ ws.map (·.e) ∧ errs <+: runWrites errs ws := by
  have := runWrites_append errs ws (fromSites_allAppend h)
  exact ⟨this, by rw [this]; exact List.prefix_append _ _⟩

theorem toError_none_iff (l : List Err) : toError l = none ↔ l = [] := by
  cases l <;> simp [toError]

/-- **Success iff nothing reported before `complete()` and no panic** (with `enableRecover`):
NewPackage never lets the panic escape, and it returns a nil error exactly when no write happened
before `err = ctx.complete()` and no panic reached the deferred recover. -/
theorem C06_success_iff_no_report (r : Run) (hpre : FromSites r.pre) (hpost : FromSites r.post) :
    (newPackage true handleErrKind r).escaped = false ∧
    ((newPackage true handleErrKind r).err = none ↔
      (r.pre = [] ∧ r.prePanic = none ∧ r.postPanic = none)) := by
  have hk : handleErrKind = .appendSelf := C06_shape_facts.2.2.2.2.2
  have e1 := runWrites_append [] r.pre (fromSites_allAppend hpre)
  have e2 := fun errs => runWrites_append errs r.post (fromSites_allAppend hpost)
  unfold newPackage
  cases hp : r.prePanic with
  | some v =>
    simp [recovered, applyWrite, hk, toError]
  | none =>
    cases hq : r.postPanic with
    | some v => simp [recovered, applyWrite, hk, toError]
    | none =>
      simp only [e1, List.nil_append, toError_none_iff, List.map_eq_nil_iff, and_true]

/-- FULL kernel statement "no error returned ⇒ no error was ever reported during compilation",
proved for runs that report nothing after `err = ctx.complete()`. -/
theorem C06_success_no_report_partial (r : Run) (hpre : FromSites r.pre) (hpost : r.post = [])
    (h : (newPackage true handleErrKind r).err = none) :
    (newPackage true handleErrKind r).errs = [] := by
  have hp : FromSites r.post := by rw [hpost]; intro w hw; cases hw
  obtain ⟨h1, h2, h3⟩ := (C06_success_iff_no_report r hpre hp).2.mp h
  simp [newPackage, h1, h2, h3, hpost, runWrites]

/-- The full statement is FALSE for the code as written: NewPackage keeps calling into gogen after
`err = ctx.complete()` (the extracted list is not empty), and an error reported there is appended
to errs but not returned.  Model witness. -/
theorem C06_late_report_lost :
    npShape.postComplete ≠ [] ∧
    ∃ r : Run, FromSites r.pre ∧ FromSites r.post ∧
      (newPackage true handleErrKind r).err = none ∧ (newPackage true handleErrKind r).errs ≠ [] := by
  refine ⟨by decide, ⟨[], none, [⟨.appendSelf, 7, []⟩], none⟩, ?_, ?_, ?_, ?_⟩
  · intro w hw; cases hw
  · intro w hw
    simp only [List.mem_singleton] at hw
    subst hw; decide
  · decide
  · decide

/-! ### Non-vacuity: concrete runs meeting the hypotheses -/

/-- two reports, then success is impossible -/
example : (newPackage true handleErrKind ⟨[⟨.appendSelf, 1, []⟩, ⟨.appendSelf, 2, []⟩], none, [], none⟩).err
    = some [1, 2] := by decide
/-- a recovered panic after one report: both are returned -/
example : (newPackage true handleErrKind ⟨[⟨.appendSelf, 1, []⟩], some 9, [], none⟩).err = some [1, 9] := by decide
/-- clean run -/
example : (newPackage true handleErrKind ⟨[], none, [], none⟩).err = none := by decide
/-- a write site that is NOT a self-append would break monotonicity (why the obligation matters) -/
example : runWrites [1, 2] [⟨.other, 3, []⟩] = [] := by decide
/-- without enableRecover the panic escapes (the hypothesis of C07 is needed) -/
example : (newPackage false handleErrKind ⟨[], some 9, [], none⟩).escaped = true := by decide

end GopModel.CompErrs
