/-
C12 — recorded type information obeys its documented invariants.  KERNEL ONLY (`_partial`).

FULL STATEMENT (properties.jsonl), not provable here (it is about cl.NewPackage + gogen + go/types
recording into typesutil.Info for every XGo program):

    ∀ package checked through x/typesutil with result `info`:
      (∀ id, info.Defs[id] = nil ∨ info.Defs[id].Pos = id.Pos) ∧ (∀ id, info.Uses[id].Pos ≠ id.Pos) ∧
      (∀ node ∈ keys info.Types ∪ keys info.Scopes, node lies in a checked file) ∧
      (Go-compatible program → ∀ id, (name, kind, type) of info's object = go/types' object)

What is proved, over `GopModel.Scope` (Go's block scoping on a linearised program):

* `C12_defs_at_own_pos`      every entry of the model's Defs table is declared at the identifier's own position.
* `C12_uses_elsewhere`       a use never resolves to its own position (given that an identifier
                             occurrence is either a use or a declaration, never both).
* `C12_resolve_innermost`    `lookup` returns the FIRST binding in innermost-frame-first,
                             latest-declaration-first order: no nearer binding of the same name is skipped.
* `C12_resolve_none`         a use resolves to nothing (a universe object) iff no frame binds the name.
* `C12_impl_group_position_witness`  the first invariant is FALSE for what cl+gogen record for the
                             2nd, 3rd … name of `a, b := …` / `var a, b = …` (one position for the whole group).
* `C12_scope_exit_restores`  after a well-nested block the scope stack is exactly what it was:
                             nothing declared inside is visible afterwards, and no `unbalanced` outcome.

The invariants of the REAL Info maps are a decidable predicate evaluated by harness/cmd/c12 on dumps
of typesutil.Info (corpus + generated programs); the agreement of `resolve` with go/types (and of
typesutil with go/types) is a differential run, not a theorem.
-/
import GopModel.Model.Scope
namespace GopModel.Scope

/-! ### lookup -/

theorem lookup_eq_flatten (n : Name) (st : Stack) : lookup n st = lookupFrame n st.flatten := by
  induction st with
  | nil => rfl
  | cons f fs ih =>
    simp only [lookup, List.flatten_cons]
    induction f with
    | nil => simpa [lookupFrame] using ih
    | cons e t iht =>
      obtain ⟨m, p⟩ := e
      simp only [lookupFrame, List.cons_append]
      by_cases hm : m = n
      · simp [hm]
      · simpa [hm] using iht

theorem lookupFrame_some {n : Name} {d : Pos} : ∀ {f : Frame}, lookupFrame n f = some d →
    ∃ pre post, f = pre ++ (n, d) :: post ∧ ∀ e ∈ pre, e.1 ≠ n
  | [], h => by simp [lookupFrame] at h
  | (m, p) :: t, h => by
    simp only [lookupFrame] at h
    split at h
    · rename_i hm
      injection h with h; subst h; subst hm
      exact ⟨[], t, rfl, by simp⟩
    · rename_i hm
      obtain ⟨pre, post, he, hp⟩ := lookupFrame_some h
      refine ⟨(m, p) :: pre, post, by simp [he], ?_⟩
      intro e he'
      rcases List.mem_cons.mp he' with rfl | he'
      · exact hm
      · exact hp e he'

theorem lookupFrame_none {n : Name} : ∀ {f : Frame}, lookupFrame n f = none ↔ ∀ e ∈ f, e.1 ≠ n
  | [] => by simp [lookupFrame]
  | (m, p) :: t => by
    simp only [lookupFrame]
    split
    · rename_i hm
      simp [hm]
    · rename_i hm
      rw [lookupFrame_none (f := t)]
      simp [hm]

/-- `lookup` finds the innermost, latest binding: everything nearer in the search order
(inner frames first, later declarations first) binds a different name. -/
theorem C12_resolve_innermost (n : Name) (st : Stack) (d : Pos) (h : lookup n st = some d) :
    ∃ pre post, st.flatten = pre ++ (n, d) :: post ∧ ∀ e ∈ pre, e.1 ≠ n := by
  rw [lookup_eq_flatten] at h
  exact lookupFrame_some h

/-- A use denotes a universe object exactly when no enclosing block binds its name. -/
theorem C12_resolve_none (n : Name) (st : Stack) :
    lookup n st = none ↔ ∀ f ∈ st, ∀ e ∈ f, e.1 ≠ n := by
  rw [lookup_eq_flatten, lookupFrame_none]
  simp only [List.mem_flatten]
  constructor
  · intro h f hf e he; exact h e ⟨f, hf, he⟩
  · intro h e ⟨f, hf, he⟩; exact h f hf e he

theorem lookup_mem {n : Name} {st : Stack} {d : Pos} (h : lookup n st = some d) :
    d ∈ st.flatten.map (·.2) := by
  obtain ⟨pre, post, he, _⟩ := C12_resolve_innermost n st d h
  rw [he]; simp

/-! ### the run -/

theorem run_defs (toks : List Tok) : ∀ (st : Stack) (r r' : Res) (st' : Stack),
    run toks st r = .ok r' st' → (∀ e ∈ r.defs, e.2 = e.1) → ∀ e ∈ r'.defs, e.2 = e.1 := by
  induction toks with
  | nil => intro st r r' st' h hr; simp [run] at h; rw [← h.1]; exact hr
  | cons tk t ih =>
    intro st r r' st' h hr
    cases tk with
    | decl n p =>
      cases st with
      | nil => simp [run] at h
      | cons f fs =>
        simp only [run] at h
        exact ih _ _ _ _ h (by
          intro e he
          rcases List.mem_cons.mp he with rfl | he
          · rfl
          · exact hr e he)
    | use n p =>
      simp only [run] at h
      exact ih _ _ _ _ h hr
    | «open» =>
      simp only [run] at h
      exact ih _ _ _ _ h hr
    | close =>
      match st, h with
      | _ :: f :: fs, h =>
        simp only [run] at h
        exact ih _ _ _ _ h hr

/-- Every entry of the Defs table is declared at the identifier's own position. -/
theorem C12_defs_at_own_pos (pkg : Frame) (toks : List Tok) (r : Res) (st : Stack)
    (h : resolve pkg toks = .ok r st) : ∀ e ∈ r.defs, e.2 = e.1 :=
  run_defs toks [pkg] ⟨[], []⟩ r st h (by intro e he; cases he)

theorem run_uses (P : Pos → Prop) (toks : List Tok) : ∀ (st : Stack) (r r' : Res) (st' : Stack),
    run toks st r = .ok r' st' →
    (∀ p ∈ st.flatten.map (·.2), P p) → (∀ p ∈ declPositions toks, P p) →
    ∀ e ∈ r'.uses, e ∈ r.uses ∨ (e.1 ∈ usePositions toks ∧ ∀ d, e.2 = some d → P d) := by
  induction toks with
  | nil => intro st r r' st' h _ _ e he; simp [run] at h; rw [← h.1] at he; exact Or.inl he
  | cons tk t ih =>
    intro st r r' st' h hst hd e he
    cases tk with
    | decl n p =>
      cases st with
      | nil => simp [run] at h
      | cons f fs =>
        simp only [run] at h
        have := ih _ _ _ _ h (by
          intro q hq
          simp only [List.flatten_cons, List.cons_append, List.map_cons, List.mem_cons] at hq
          rcases hq with rfl | hq
          · exact hd _ (by simp [declPositions])
          · exact hst q (by simpa using hq)) (fun q hq => hd q (by simp [declPositions, hq])) e he
        rcases this with h1 | ⟨h1, h2⟩
        · exact Or.inl h1
        · exact Or.inr ⟨by simp [usePositions, h1], h2⟩
    | use n p =>
      simp only [run] at h
      have := ih _ _ _ _ h hst (fun q hq => hd q (by simpa [declPositions] using hq)) e he
      rcases this with h1 | ⟨h1, h2⟩
      · rcases List.mem_cons.mp h1 with rfl | h1
        · refine Or.inr ⟨by simp [usePositions], ?_⟩
          intro d hd'
          exact hst d (lookup_mem hd')
        · exact Or.inl h1
      · exact Or.inr ⟨by simp [usePositions, h1], h2⟩
    | «open» =>
      simp only [run] at h
      have := ih _ _ _ _ h (by simpa using hst) (fun q hq => hd q (by simpa [declPositions] using hq)) e he
      rcases this with h1 | ⟨h1, h2⟩
      · exact Or.inl h1
      · exact Or.inr ⟨by simpa [usePositions] using h1, h2⟩
    | close =>
      match st, h, hst with
      | g :: f :: fs, h, hst =>
        simp only [run] at h
        have := ih _ _ _ _ h (by
          intro q hq
          exact hst q (by
            simp only [List.flatten_cons, List.map_append, List.mem_append] at hq ⊢
            exact Or.inr hq)) (fun q hq => hd q (by simpa [declPositions] using hq)) e he
        rcases this with h1 | ⟨h1, h2⟩
        · exact Or.inl h1
        · exact Or.inr ⟨by simpa [usePositions] using h1, h2⟩

/-- A use never resolves to its own position, provided no identifier occurrence is both a use and a
declaration (positions of uses are disjoint from positions of declarations, incl. package level). -/
theorem C12_uses_elsewhere (pkg : Frame) (toks : List Tok) (r : Res) (st : Stack)
    (h : resolve pkg toks = .ok r st)
    (hdisj : ∀ u ∈ usePositions toks, u ∉ declPositions toks ∧ u ∉ pkg.map (·.2)) :
    ∀ u d, (u, some d) ∈ r.uses → d ≠ u := by
  intro u d hmem
  have := run_uses (fun p => p ∈ declPositions toks ∨ p ∈ pkg.map (·.2)) toks [pkg] ⟨[], []⟩ r st h
    (by intro p hp; simp at hp; right; simpa using hp) (fun p hp => Or.inl hp) (u, some d) hmem
  rcases this with h1 | ⟨h1, h2⟩
  · cases h1
  · intro he
    subst he
    rcases h2 d rfl with h3 | h3
    · exact (hdisj d h1).1 h3
    · exact (hdisj d h1).2 h3

/-- The invariant `Defs[id].Pos() = id.Pos()` FAILS for what the implementation records when one
declaration introduces several names (replayed on the real checker by harness/cmd/c12, keys
`defs-not-at-own-pos:Var:define-nonfirst|valuespec|range-var|forphrase-var`). -/
theorem C12_impl_group_position_witness :
    ∃ e ∈ implDefsOfGroup [("a", 1), ("b", 4)], e.2 ≠ e.1 := by decide

/-! ### blocks -/

theorem run_balanced {b : List Tok} (hb : Balanced b) : ∀ (t : List Tok) (f : Frame) (fs : Stack) (r : Res),
    ∃ f' r', run (b ++ t) (f :: fs) r = run t (f' :: fs) r' := by
  induction hb with
  | nil => intro t f fs r; exact ⟨f, r, rfl⟩
  | decl n p b' _ ih =>
    intro t f fs r
    obtain ⟨f', r', h⟩ := ih t ((n, p) :: f) fs { r with defs := (p, p) :: r.defs }
    exact ⟨f', r', by simpa [run] using h⟩
  | use n p b' _ ih =>
    intro t f fs r
    obtain ⟨f', r', h⟩ := ih t f fs { r with uses := (p, lookup n (f :: fs)) :: r.uses }
    exact ⟨f', r', by simpa [run] using h⟩
  | block b1 b2 _ _ ih1 ih2 =>
    intro t f fs r
    obtain ⟨g, r1, h1⟩ := ih1 (.close :: (b2 ++ t)) [] (f :: fs) r
    obtain ⟨f', r2, h2⟩ := ih2 t f fs r1
    refine ⟨f', r2, ?_⟩
    have e : (Tok.open :: b1 ++ Tok.close :: b2) ++ t = Tok.open :: (b1 ++ Tok.close :: (b2 ++ t)) := by simp
    rw [e]
    simp only [run]
    rw [h1]
    simp only [run]
    exact h2

/-- Leaving a well-nested block restores the scope stack exactly: what was declared inside is not
visible afterwards (and the outcome is never `unbalanced`). -/
theorem C12_scope_exit_restores (b t : List Tok) (hb : Balanced b) (f : Frame) (fs : Stack) (r : Res) :
    ∃ r', run (.open :: b ++ .close :: t) (f :: fs) r = run t (f :: fs) r' := by
  obtain ⟨g, r1, h1⟩ := run_balanced hb (.close :: t) [] (f :: fs) r
  refine ⟨r1, ?_⟩
  have e : Tok.open :: b ++ Tok.close :: t = Tok.open :: (b ++ Tok.close :: t) := by simp
  rw [e]
  simp only [run]
  rw [h1]
  simp only [run]

/-! ### Non-vacuity: `x := 1; { x := x + 1; use x }; use x; use y(universe)` with package-level g -/

def exToks : List Tok :=
  [.decl "x" 10, .open, .use "x" 21, .decl "x" 20, .use "x" 22, .use "g" 23, .close, .use "x" 30, .use "len" 31]

example : resolve [("g", 5)] exToks =
    .ok ⟨[(31, none), (30, some 10), (23, some 5), (22, some 20), (21, some 10)], [(20, 20), (10, 10)]⟩
      [[("x", 10), ("g", 5)]] := by decide
example : ∀ u ∈ usePositions exToks, u ∉ declPositions exToks ∧ u ∉ [("g", 5)].map (·.2) := by decide
example : Balanced [.use "x" 21, .decl "x" 20, .use "x" 22] :=
  .use _ _ _ (.decl _ _ _ (.use _ _ _ .nil))
example : resolve [] [.close] = .unbalanced := by decide

end GopModel.Scope
