/-
C26 — `xgo fmt` never loses a file at any crash point and keeps its mode.

Statement (full strength): when `xgo fmt` rewrites a file, at every possible crash point the
file's path holds either its complete original content or its complete formatted content, and
after a successful run the file keeps its original permission bits.

Model: `GopModel.FS` (M7).  The program is `Generated.FmtWrite.prog`, regenerated from
`cmd/internal/gopfmt/fmt.go: writeFileWithBackup` on every run; the theorems below are
re-checked by the kernel against it.  They follow from the generic theorems
`crash_safe_of_safeSeq` / `mode_kept_of_safeSeqMode` (Lemmas/FSSafe.lean: soundness of the
decidable structural condition `SafeSeq` for ALL contents, modes, stale temp files, umasks,
crash points and partial-write lengths) and the kernel-decided facts
`SafeSeq (mainTrace prog)`, `SafeSeqMode (mainTrace prog)`, `∀ t ∈ flat prog false, SafeSeq t`.
-/
import GopModel.Lemmas.FSSafe
import GopModel.Generated.FmtWrite
namespace GopModel.FS

open GopModel.Generated.FmtWrite (prog)

/-! ## Structural facts about the generated program (decided by the kernel) -/

theorem prog_main_safeSeq : SafeSeq (mainTrace prog) = true := by decide

theorem prog_main_safeSeqMode : SafeSeqMode (mainTrace prog) = true := by decide

theorem prog_all_safeSeq : (flat prog false).all SafeSeq = true := by decide

/-- the run in which every call succeeds is one of the traces of the program -/
theorem prog_main_mem_flat : mainTrace prog ∈ flat prog false := by decide

/-! ## Property theorems -/

/-- **C26, crash clause.**  Kill the formatting run after `k` file-system operations
(`mid = none`) or inside operation `k` (`mid = some n`: if it is the write, `n` bytes have been
transferred): `path` then holds the complete original or the complete formatted content.
For every original content, formatted content, mode, stale temp file, umask, `k`, `n`, and whether
or not the path is a symbolic link to the file (`link`): "the file's path holds X" = X is what reading
through the path yields; the mode is that of the file holding the content. -/
theorem C26_crash_safe (orig fmt : Bytes) (mode : Nat) (stale : Option File) (umask : Nat)
    (link : Option Nat) (k : Nat) (mid : Option Nat) (pw : Nat → Nat) :
    ∃ f, (runUntilCrash fmt (mainTrace prog) k mid pw (init orig mode stale umask link)).path = some f ∧
      (f.content = orig ∨ f.content = fmt) :=
  crash_safe_of_safeSeq _ prog_main_safeSeq orig fmt mode stale umask k mid pw link

/-- **C26, mode clause.**  After a successful run `path` holds exactly the formatted content
with the original permission bits. -/
theorem C26_mode_kept (orig fmt : Bytes) (mode : Nat) (stale : Option File) (umask : Nat)
    (link : Option Nat) (pw : Nat → Nat) :
    (runEvs fmt (mainTrace prog) pw (init orig mode stale umask link)).path = some ⟨fmt, mode⟩ :=
  mode_kept_of_safeSeqMode _ prog_main_safeSeqMode orig fmt mode stale umask pw link

/-- **C26 under failing calls.**  The crash clause also holds on every other control path of
`writeFileWithBackup`: any subset of its calls may fail (a failing write having transferred
`pw i` bytes), the error-path cleanup runs, and the process may still be killed anywhere. -/
theorem C26_crash_safe_any_failure (t : List Ev) (ht : t ∈ flat prog false)
    (orig fmt : Bytes) (mode : Nat) (stale : Option File) (umask : Nat)
    (link : Option Nat) (k : Nat) (mid : Option Nat) (pw : Nat → Nat) :
    ∃ f, (runUntilCrash fmt t k mid pw (init orig mode stale umask link)).path = some f ∧
      (f.content = orig ∨ f.content = fmt) :=
  crash_safe_of_safeSeq t (List.all_eq_true.mp prog_all_safeSeq t ht) orig fmt mode stale umask k mid pw link

/-- a complete run is the crash point after the last operation -/
theorem runUntilCrash_all (data : Bytes) : ∀ (t : List Ev) (pw : Nat → Nat) (s : St),
    runUntilCrash data t t.length none pw s = runEvs data t pw s
  | [], _, _ => rfl
  | _ :: es, pw, s => by
    simp only [List.length_cons, runUntilCrash, runEvs]
    exact runUntilCrash_all data es _ _

/-! ## Regression witness: the sequence before the repair violated both clauses

`oldProg` is a hand-written copy of what the translator produced for the unrepaired
`writeFileWithBackup` (CreateTemp; Write; Close; **Remove(path)**; Rename(tmp, path); no chmod).
If it (or an equivalent) is reintroduced, `SafeSeq` is false and the theorems above fail. -/

def oldProg : List Stmt := [
  .simple (.call (.createTemp 0o600) true),
  .ifErr [.ret],
  .simple (.call (.write) true),
  .simple (.call (.close) false),
  .ifErr [.ret],
  .simple (.call (.remove .path) true),
  .ifErr [.ret],
  .simple (.call (.rename .tmp .path) true),
  .simple (.ret)
]

theorem C26_old_not_safeSeq : SafeSeq (mainTrace oldProg) = false := by decide

/-- Old sequence, crash clause violated: killed after 4 operations (between the unlink of
`path` and the rename) no file exists at `path` — whatever the contents and mode. -/
theorem C26_old_loses_file (orig fmt : Bytes) (mode : Nat) (stale : Option File) (umask : Nat)
    (pw : Nat → Nat) :
    (runUntilCrash fmt (mainTrace oldProg) 4 none pw (init orig mode stale umask)).path = none := by
  rfl

theorem C26_old_not_crash_safe (orig fmt : Bytes) (mode : Nat) (stale : Option File) (umask : Nat)
    (pw : Nat → Nat) :
    ¬ ∀ k, ∃ f, (runUntilCrash fmt (mainTrace oldProg) k none pw (init orig mode stale umask)).path
        = some f ∧ (f.content = orig ∨ f.content = fmt) := by
  intro h
  obtain ⟨f, hf, _⟩ := h 4
  rw [C26_old_loses_file] at hf
  cases hf

/-- Old sequence, mode clause violated: after a complete run the file has the temp file's
mode `0600 & ~umask`, not its original one. -/
theorem C26_old_mode_lost (orig fmt : Bytes) (mode : Nat) (stale : Option File) (umask : Nat)
    (pw : Nat → Nat) :
    (runEvs fmt (mainTrace oldProg) pw (init orig mode stale umask)).path
      = some ⟨fmt, createMode umask 0o600⟩ := by
  simp [mainTrace, mainOps, oldProg, runEvs, applyEv, applyL, apply, init, writeBytes, St.getLoc, St.setLoc,
    St.get, St.set, overwrite]

theorem C26_old_mode_not_kept :
    (runEvs [] (mainTrace oldProg) (fun _ => 0) (init [] 0o644 none 0o022)).path
      ≠ some ⟨[], 0o644⟩ := by decide

/-! ## Non-vacuity: concrete runs of the generated program -/

def exOrig : Bytes := [0x78, 0x3a, 0x3d, 0x31, 0x0a]          -- "x:=1\n"
def exFmt : Bytes := [0x78, 0x20, 0x3a, 0x3d, 0x20, 0x31, 0x0a] -- "x := 1\n"

/-- a complete run really replaces the content and keeps mode 0644 -/
example : (runEvs exFmt (mainTrace prog) (fun _ => 0) (init exOrig 0o644 none 0o022)).path
    = some ⟨exFmt, 0o644⟩ := by decide

/-- killed before anything happened: the original is there -/
example : (runUntilCrash exFmt (mainTrace prog) 0 none (fun _ => 0) (init exOrig 0o644 none 0o022)).path
    = some ⟨exOrig, 0o644⟩ := by decide

/-- the main trace is not empty and contains a write and a rename onto `path` -/
example : Op.write ∈ mainOps prog ∧ Op.rename .tmp .path ∈ mainOps prog := by decide

/-- killed inside the write (3 of 7 bytes transferred): the temp file is partial, `path` intact
(on a literal copy of today's main trace, so that a harmless reordering of the source does not
invalidate this illustration) -/
example :
    let t : List Ev := [.ok .stat, .ok (.createTemp 0o600), .ok .write, .ok (.chmodFd .origPerm),
                        .ok .close, .ok (.rename .tmp .path)]
    let s := runUntilCrash exFmt t 2 (some 3) (fun _ => 0) (init exOrig 0o644 none 0o022)
    s.path = some ⟨exOrig, 0o644⟩ ∧ s.tmp = some ⟨[0x78, 0x20, 0x3a], 0o600⟩ := by decide

/-- the `stale` parameter matters: a fixed temp name opened without `O_TRUNC`/`O_EXCL` over a
longer leftover produces neither the original nor the formatted content (and is not `SafeSeq`) -/
example :
    let t : List Ev := [.ok (.openW .tmp true false false 0o600), .ok .write, .ok .close,
                        .ok (.rename .tmp .path)]
    (runEvs [0x46] t (fun _ => 0) (init [0x4f] 0o644 (some ⟨[1, 2, 3], 0o600⟩) 0o022)).path
      = some ⟨[0x46, 2, 3], 0o600⟩ ∧ SafeSeq t = false := by decide

/-- today's program also keeps the mode at every crash point (`ModeSafeSeq`, stronger than C26;
stated on a literal copy of the main trace: a reordering that chmods after the rename is not
a violation of the property as written and must not break this file) -/
example : ModeSafeSeq [.ok .stat, .ok (.createTemp 0o600), .ok .write, .ok (.chmodFd .origPerm),
                       .ok .close, .ok (.rename .tmp .path)] = true := by decide
example : ModeSafeSeq [.ok .stat, .ok (.createTemp 0o600), .ok .write, .ok .close,
                       .ok (.rename .tmp .path), .ok (.chmodName .path .origPerm)] = false := by decide

/-- `os.Lstat` instead of `os.Stat`: when the path is a symbolic link (own mode 0777) the link's
mode is applied — the file reached through the path ends 0777; the variant is not `SafeSeqMode`. -/
example :
    let t : List Ev := [.ok .lstat, .ok (.createTemp 0o600), .ok .write, .ok (.chmodFd .origPerm),
                        .ok .close, .ok (.rename .tmp .path)]
    (runEvs exFmt t (fun _ => 0) (init exOrig 0o644 none 0o022 (some 0o777))).path = some ⟨exFmt, 0o777⟩
      ∧ SafeSeqMode t = false ∧ SafeSeq t = true := by decide

/-- the generated program on a symbolic link: content replaced, mode of the target kept -/
example : (runEvs exFmt (mainTrace prog) (fun _ => 0) (init exOrig 0o640 none 0o022 (some 0o777))).path
    = some ⟨exFmt, 0o640⟩ := by decide

/-- the program has error paths (more than one trace) and `SafeSeq` is not trivially true -/
example : 1 < (flat prog false).length := by decide
example : SafeSeq [.ok (.openW .path true false true 0o644), .ok .write, .ok .close] = false := by decide
example : SafeSeq [.ok (.createTemp 0o600), .ok .write, .ok .close, .ok (.rename .tmp .path),
                   .ok (.chmodName .path (.const 0o644))] = true := by decide
example : SafeSeqMode [.ok (.createTemp 0o600), .ok .write, .ok .close, .ok (.rename .tmp .path),
                       .ok (.chmodName .path (.const 0o644))] = false := by decide

end GopModel.FS
