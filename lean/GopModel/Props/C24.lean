/-
C24 — function hoisting only reorders top-level chunks.
Property theorems about `GopModel.Rearrange.rearrange` / `sourceEx`
(model of format/formatutil.RearrangeFuncs / SourceEx).

The hypothesis `WF src toks` is the part of C15 (`spans_ordered`) that RearrangeFuncs relies
on: token offsets are non-decreasing and none lies beyond the end of the source.  The harness
checks it on every token list the real scanner returns.
-/
import GopModel.Model.Rearrange
namespace GopModel.Rearrange

/-- Token offsets are non-decreasing and within the source. -/
def WF (src : Bytes) (toks : List Word) : Prop :=
  (toks.map (·.pos)).Pairwise (· ≤ ·) ∧ ∀ w ∈ toks, w.pos ≤ src.length

/-- Cut `src` at the offsets `qs` (first offset = start of the first piece, last piece runs
to the end of `src`). -/
def cutAt (src : Bytes) : List Nat → List Bytes
  | [] => []
  | [q] => [src.drop q]
  | q :: q' :: r => (src.drop q).take (q' - q) :: cutAt src (q' :: r)

/-! ## splitStmts -/

theorem mkStmt_words (ws : List Word) : (mkStmt ws).words = ws := by
  unfold mkStmt; split <;> rfl

theorem firstPos_mkStmt_append (cur : List Word) (w : Word) :
    ∃ h tl, cur ++ [w] = h :: tl ∧ (mkStmt (cur ++ [w])).firstPos = some h.pos := by
  cases hc : cur ++ [w] with
  | nil => simp at hc
  | cons h tl => exact ⟨h, tl, rfl, by simp [Stmt.firstPos, mkStmt_words]⟩

/-- The first-word offsets of the statements form a sublist of the token offsets. -/
theorem splitLoop_heads : ∀ (ws : List Word) (level : Int) (cur : List Word),
    ∃ ps : List Nat, (splitLoop ws level cur).map Stmt.firstPos = ps.map some ∧
      ps.Sublist ((cur ++ ws).map (·.pos)) := by
  intro ws
  induction ws with
  | nil => intro _ _; exact ⟨[], by simp [splitLoop], by simp⟩
  | cons w ws ih =>
    intro level cur
    simp only [splitLoop]
    generalize nextLevel w.tok level = l'
    split
    · obtain ⟨ps, hps, hsub⟩ := ih l' []
      obtain ⟨h, tl, hc, hfp⟩ := firstPos_mkStmt_append cur w
      refine ⟨h.pos :: ps, by simp [hps, hfp], ?_⟩
      have e : cur ++ w :: ws = h :: (tl ++ ws) := by
        rw [← List.cons_append, ← hc]; simp
      rw [e, List.map_cons]
      refine List.Sublist.cons_cons _ ?_
      rw [List.map_append]
      simp only [List.nil_append] at hsub
      exact hsub.trans (List.sublist_append_right _ _)
    · obtain ⟨ps, hps, hsub⟩ := ih l' (cur ++ [w])
      refine ⟨ps, hps, ?_⟩
      simpa [List.append_assoc] using hsub

theorem splitStmts_heads (toks : List Word) :
    ∃ ps : List Nat, (splitStmts toks).map Stmt.firstPos = ps.map some ∧
      ps.Sublist (toks.map (·.pos)) := by
  simpa [splitStmts] using splitLoop_heads toks 0 []

/-! ## What a "top-level statement" is: split exactly at the depth-0 semicolons -/

/-- Brace depth after reading `ws`, starting from `level`. -/
def depthAfter (level : Int) (ws : List Word) : Int :=
  ws.foldl (fun l w => nextLevel w.tok l) level

/-- Does `ws` (read from depth `level`) contain a `;` at brace depth 0? -/
def hasTopSemi : Int → List Word → Bool
  | _, [] => false
  | l, w :: ws =>
    (decide (w.tok = .semicolon) && decide (nextLevel w.tok l = 0)) || hasTopSemi (nextLevel w.tok l) ws

/-- `ws` is one top-level statement: it ends with a `;` at depth 0 and has no earlier one. -/
def IsTopStmt (ws : List Word) : Prop :=
  ∃ init last, ws = init ++ [last] ∧ last.tok = .semicolon ∧ depthAfter 0 ws = 0 ∧
    hasTopSemi 0 init = false

theorem depthAfter_append (l : Int) (a b : List Word) :
    depthAfter l (a ++ b) = depthAfter (depthAfter l a) b := by
  simp [depthAfter, List.foldl_append]

theorem hasTopSemi_append : ∀ (a b : List Word) (l : Int),
    hasTopSemi l (a ++ b) = (hasTopSemi l a || hasTopSemi (depthAfter l a) b) := by
  intro a
  induction a with
  | nil => intro b l; simp [hasTopSemi, depthAfter]
  | cons w a ih =>
    intro b l
    simp only [List.cons_append, hasTopSemi, ih, Bool.or_assoc]
    simp [depthAfter]

theorem splitLoop_spec : ∀ (ws : List Word) (level : Int) (cur : List Word),
    level = depthAfter 0 cur → hasTopSemi 0 cur = false →
    ∃ left, cur ++ ws = ((splitLoop ws level cur).map (·.words)).flatten ++ left ∧
      (∀ s ∈ splitLoop ws level cur, IsTopStmt s.words) ∧ hasTopSemi 0 left = false := by
  intro ws
  induction ws with
  | nil => intro level cur _ hc; exact ⟨cur, by simp [splitLoop], by simp [splitLoop], hc⟩
  | cons w ws ih =>
    intro level cur hl hc
    have hl' : nextLevel w.tok level = depthAfter 0 (cur ++ [w]) := by
      rw [depthAfter_append, ← hl]; rfl
    simp only [splitLoop]
    split
    · rename_i hsemi
      obtain ⟨left, hcat, hall, hleft⟩ := ih (nextLevel w.tok level) [] (by simp [hsemi.2, depthAfter])
        (by simp [hasTopSemi])
      refine ⟨left, ?_, ?_, hleft⟩
      · simp only [List.map_cons, List.flatten_cons, mkStmt_words]
        simp only [List.nil_append] at hcat
        rw [List.append_assoc, ← hcat]; simp
      · intro s hs
        simp only [List.mem_cons] at hs
        rcases hs with rfl | hs
        · rw [mkStmt_words]
          exact ⟨cur, w, rfl, hsemi.1, by rw [← hl']; exact hsemi.2, hc⟩
        · exact hall s hs
    · rename_i hsemi
      have hc' : hasTopSemi 0 (cur ++ [w]) = false := by
        rw [hasTopSemi_append, hc, ← hl]
        simp only [hasTopSemi, Bool.or_false, Bool.false_or, Bool.and_eq_false_imp,
          decide_eq_true_eq, decide_eq_false_iff_not]
        intro h1 h2; exact hsemi ⟨h1, h2⟩
      obtain ⟨left, hcat, hall, hleft⟩ := ih (nextLevel w.tok level) (cur ++ [w]) hl' hc'
      exact ⟨left, by simpa [List.append_assoc] using hcat, hall, hleft⟩

/-! ## firstNonDecl -/

theorem firstNonDeclFrom_spec : ∀ (ss : List Stmt) (i k : Nat),
    firstNonDeclFrom ss i = some k →
      ∃ j, k = i + j ∧ j < ss.length ∧ (∀ s ∈ ss.take j, s.isDecl = true) ∧
        ∃ s r, ss.drop j = s :: r ∧ s.isDecl = false := by
  intro ss
  induction ss with
  | nil => intro i k h; simp [firstNonDeclFrom] at h
  | cons s ss ih =>
    intro i k h
    simp only [firstNonDeclFrom] at h
    cases hd : s.isDecl
    · simp only [hd, Bool.not_false, if_true, Option.some.injEq] at h
      exact ⟨0, by omega, by simp, by simp, s, ss, rfl, hd⟩
    · simp only [hd, Bool.not_true, Bool.false_eq_true, if_false] at h
      obtain ⟨j, hk, hj, hall, s', r, hdrop, hs'⟩ := ih (i + 1) k h
      refine ⟨j + 1, by omega, by simp; omega, ?_, s', r, by simpa using hdrop, hs'⟩
      intro x hx
      simp only [List.take_succ_cons, List.mem_cons] at hx
      rcases hx with rfl | hx
      · exact hd
      · exact hall x hx

theorem firstNonDeclFrom_none : ∀ (ss : List Stmt) (i : Nat),
    firstNonDeclFrom ss i = none ↔ ∀ s ∈ ss, s.isDecl = true := by
  intro ss
  induction ss with
  | nil => intro i; simp [firstNonDeclFrom]
  | cons s ss ih =>
    intro i
    simp only [firstNonDeclFrom]
    cases hd : s.isDecl <;> simp [hd, ih]

/-! ## chunks -/

theorem joinOpt_map_some (l : List Bytes) : joinOpt (l.map some) = some l.flatten := by
  induction l with
  | nil => rfl
  | cons a t ih => simp [joinOpt, ih]

theorem slice_ok (src : Bytes) {f t : Nat} (h1 : f ≤ t) (h2 : t ≤ src.length) :
    slice src f t = some ((src.drop f).take (t - f)) := by
  simp [slice, h1, h2]

/-- With sorted in-range start offsets every `codeOf` succeeds and yields the cut pieces. -/
theorem codes_eq : ∀ (rest : List Stmt) (qs : List Nat) (src : Bytes),
    rest.map Stmt.firstPos = qs.map some → qs.Pairwise (· ≤ ·) → (∀ q ∈ qs, q ≤ src.length) →
    codes src rest =
      ((rest.map Stmt.isFuncDecl).zip (cutAt src qs)).map (fun c => (c.1, some c.2)) := by
  intro rest
  induction rest with
  | nil => intro qs src h _ _; cases qs <;> simp_all [codes, cutAt]
  | cons s rest ih =>
    intro qs src h hs hle
    cases qs with
    | nil => simp at h
    | cons q qs =>
      simp only [List.map_cons, List.cons.injEq] at h
      obtain ⟨hq, hrest⟩ := h
      cases rest with
      | nil =>
        cases qs with
        | nil =>
          have hql := hle q (by simp)
          have ht : (src.drop q).take (src.length - q) = src.drop q :=
            List.take_of_length_le (by simp)
          simp [codes, cutAt, hq, slice_ok src hql (Nat.le_refl _), ht]
        | cons _ _ => simp at hrest
      | cons t r =>
        cases qs with
        | nil => simp at hrest
        | cons q' qs' =>
          have hqq : q ≤ q' := (List.pairwise_cons.mp hs).1 q' (by simp)
          have hq'l : q' ≤ src.length := hle q' (by simp)
          have ht : t.firstPos = some q' := by
            simp only [List.map_cons, List.cons.injEq] at hrest; exact hrest.1
          have := ih (q' :: qs') src hrest (List.pairwise_cons.mp hs).2
            (fun x hx => hle x (List.mem_cons_of_mem _ hx))
          simp only [codes, cutAt, hq, ht, Option.bind_some, slice_ok src hqq hq'l,
            List.map_cons, List.zip_cons_cons]
          rw [this]
          simp

theorem cutAt_flatten : ∀ (qs : List Nat) (q : Nat) (src : Bytes),
    (q :: qs).Pairwise (· ≤ ·) → (cutAt src (q :: qs)).flatten = src.drop q := by
  intro qs
  induction qs with
  | nil => intro q src _; simp [cutAt]
  | cons q' qs ih =>
    intro q src hs
    have hqq : q ≤ q' := (List.pairwise_cons.mp hs).1 q' (by simp)
    simp only [cutAt, List.flatten_cons]
    rw [ih q' src (List.pairwise_cons.mp hs).2]
    have : src.drop q' = (src.drop q).drop (q' - q) := by
      rw [List.drop_drop]; congr 1; omega
    rw [this, List.take_append_drop]

theorem cutAt_length : ∀ (qs : List Nat) (src : Bytes), (cutAt src qs).length = qs.length := by
  intro qs
  induction qs with
  | nil => intro _; rfl
  | cons q qs ih =>
    intro src
    cases qs with
    | nil => rfl
    | cons q' r => simp only [cutAt, List.length_cons]; rw [ih]; rfl

/-- The pieces taken by the two loops of `RearrangeFuncs`, given the flagged chunk list. -/
def hoist (pre : Bytes) (cs : List (Bool × Bytes)) : Bytes :=
  pre ++ ((cs.filter (·.1)).map (·.2)).flatten ++ ((cs.filter (fun c => !c.1)).map (·.2)).flatten

/-- Full description of what `RearrangeFuncs` computes on a well-formed token list. -/
theorem rearrange_spec (src : Bytes) (toks : List Word) (h : WF src toks) :
    (firstNonDecl (splitStmts toks) = none ∧ rearrange src toks = .ok src) ∨
    (∃ first s0 rest q qs,
      firstNonDecl (splitStmts toks) = some first ∧
      (splitStmts toks).drop first = s0 :: rest ∧ s0.isDecl = false ∧
      (∀ s ∈ (splitStmts toks).take first, s.isDecl = true) ∧
      (s0 :: rest).map Stmt.firstPos = (q :: qs).map some ∧
      (q :: qs).Pairwise (· ≤ ·) ∧ (∀ x ∈ q :: qs, x ≤ src.length) ∧
      rearrange src toks =
        .ok (hoist (src.take q) (((s0 :: rest).map Stmt.isFuncDecl).zip (cutAt src (q :: qs))))) := by
  obtain ⟨ps, hps, hsub⟩ := splitStmts_heads toks
  have hsorted : ps.Pairwise (· ≤ ·) := h.1.sublist hsub
  have hle : ∀ p ∈ ps, p ≤ src.length := by
    intro p hp
    obtain ⟨w, hw, rfl⟩ := List.mem_map.mp (hsub.subset hp)
    exact h.2 w hw
  cases hf : firstNonDecl (splitStmts toks) with
  | none => left; exact ⟨rfl, by simp [rearrange, hf]⟩
  | some first =>
    right
    obtain ⟨j, hj0, hjlt, hall, s0, rest, hdrop, hs0⟩ := firstNonDeclFrom_spec _ 0 first hf
    have hj : first = j := by omega
    subst hj
    have hmap : (s0 :: rest).map Stmt.firstPos = (ps.drop first).map some := by
      rw [← hdrop, List.map_drop, List.map_drop, hps]
    cases hpd : ps.drop first with
    | nil => rw [hpd] at hmap; simp at hmap
    | cons q qs =>
      rw [hpd] at hmap
      have hsorted' : (q :: qs).Pairwise (· ≤ ·) := by
        rw [← hpd]; exact hsorted.sublist (List.drop_sublist _ _)
      have hle' : ∀ x ∈ q :: qs, x ≤ src.length := by
        intro x hx; rw [← hpd] at hx; exact hle x (List.mem_of_mem_drop hx)
      refine ⟨first, s0, rest, q, qs, rfl, hdrop, hs0, hall, hmap, hsorted', hle', ?_⟩
      have hq : s0.firstPos = some q := by
        simp only [List.map_cons, List.cons.injEq] at hmap; exact hmap.1
      have hql : q ≤ src.length := hle' q (by simp)
      have hcodes := codes_eq (s0 :: rest) (q :: qs) src hmap hsorted' hle'
      simp only [rearrange, hf, hdrop, hq, Option.bind_some, slice_ok src (Nat.zero_le q) hql]
      rw [hcodes]
      simp only [List.filter_map, List.map_map]
      have e1 : ∀ l : List (Bool × Bytes),
          List.map ((fun x : Bool × Option Bytes => x.2) ∘ fun c : Bool × Bytes => (c.1, some c.2)) l
            = (l.map (·.2)).map some := by
        intro l; simp [List.map_map, Function.comp_def]
      simp only [e1, joinOpt_map_some, hoist, List.drop_zero, Nat.sub_zero]
      rfl

/-! ## Property theorems (C24) -/

/-- `RearrangeFuncs` never panics on a token list with ordered in-range offsets. -/
theorem C24_no_panic (src : Bytes) (toks : List Word) (h : WF src toks) :
    rearrange src toks ≠ .panic := by
  rcases rearrange_spec src toks h with ⟨_, hr⟩ | ⟨_, _, _, _, _, _, _, _, _, _, _, _, hr⟩ <;>
    rw [hr] <;> simp

/-- The DESIGN form: the source is `pre ++ chunks`, the result is `pre ++ func chunks ++ other
chunks` (each class in its original order, by `List.filter`).  The chunk list is exactly the
source cut at the first-token offsets of the top-level statements from the first non-declaration
on, flagged by `isFuncDecl`; everything before is `pre`, which consists of declarations only. -/
theorem C24_rearrange_chunks (src : Bytes) (toks : List Word) (h : WF src toks) :
    ∃ (pre : Bytes) (cs : List (Bool × Bytes)),
      src = pre ++ (cs.map (·.2)).flatten ∧
      rearrange src toks = .ok (hoist pre cs) ∧
      (match firstNonDecl (splitStmts toks) with
       | none => cs = []
       | some first =>
         ∃ qs, ((splitStmts toks).drop first).map Stmt.firstPos = qs.map some ∧
           pre = src.take (qs.headD 0) ∧
           cs = (((splitStmts toks).drop first).map Stmt.isFuncDecl).zip (cutAt src qs) ∧
           cs.length = ((splitStmts toks).drop first).length ∧ cs ≠ [] ∧
           ∀ s ∈ (splitStmts toks).take first, s.isDecl = true) := by
  rcases rearrange_spec src toks h with
    ⟨hn, hr⟩ | ⟨first, s0, rest, q, qs, hf, hdrop, _, hall, hmap, hs, _, hr⟩
  · exact ⟨src, [], by simp, by simp [hoist, hr], by simp [hn]⟩
  · refine ⟨src.take q, _, ?_, hr, ?_⟩
    · have hlen : ((s0 :: rest).map Stmt.isFuncDecl).length = (cutAt src (q :: qs)).length := by
        have := congrArg List.length hmap
        simp only [List.length_map, List.length_cons] at this
        simp only [List.length_map, cutAt_length, List.length_cons]; omega
      rw [List.map_snd_zip (by omega), cutAt_flatten qs q src hs, List.take_append_drop]
    · simp only [hf]
      refine ⟨q :: qs, by rw [hdrop, hmap], by simp, by rw [hdrop], ?_, ?_, hall⟩
      · have := congrArg List.length hmap
        simp only [List.length_map, List.length_cons] at this
        simp only [hdrop, List.length_zip, List.length_map, cutAt_length, List.length_cons]; omega
      · cases qs <;> simp [cutAt]

/-- The statements `RearrangeFuncs` works on are exactly the maximal pieces of the token list
that end at a `;` at brace depth 0; the tokens after the last such `;` belong to no statement
(their bytes stay in the last chunk because it runs to `len(src)`). -/
theorem C24_split_at_top_semicolons (toks : List Word) :
    ∃ left, toks = ((splitStmts toks).map (·.words)).flatten ++ left ∧
      (∀ s ∈ splitStmts toks, IsTopStmt s.words) ∧ hasTopSemi 0 left = false := by
  simpa [splitStmts] using splitLoop_spec toks 0 [] (by simp [depthAfter]) (by simp [hasTopSemi])

/-- No byte added or lost: the result is a permutation of the source bytes (same length). -/
theorem C24_bytes_perm (src : Bytes) (toks : List Word) (h : WF src toks) (out : Bytes)
    (hr : rearrange src toks = .ok out) : out.Perm src ∧ out.length = src.length := by
  obtain ⟨pre, cs, hsrc, hout, _⟩ := C24_rearrange_chunks src toks h
  rw [hout] at hr
  cases hr
  have hp : (hoist pre cs).Perm src := by
    rw [hsrc]
    unfold hoist
    rw [List.append_assoc]
    refine List.Perm.append (List.Perm.refl _) ?_
    rw [← List.flatten_append, ← List.map_append]
    exact ((List.filter_append_perm (·.1) cs).map _).flatten
  exact ⟨hp, hp.length_eq⟩

/-- The output's chunk sequence is a permutation of the input's chunk sequence in which the
function declarations come first and each class keeps its order (`filter` is order-preserving:
`List.filter_sublist`). -/
theorem C24_chunks_perm_stable (cs : List (Bool × Bytes)) :
    (cs.filter (·.1) ++ cs.filter (fun c => !c.1)).Perm cs ∧
    (cs.filter (·.1)).Sublist cs ∧ (cs.filter (fun c => !c.1)).Sublist cs ∧
    (∀ c ∈ cs.filter (·.1), c.1 = true) ∧ (∀ c ∈ cs.filter (fun c => !c.1), c.1 = false) := by
  refine ⟨List.filter_append_perm _ cs, List.filter_sublist, List.filter_sublist, ?_, ?_⟩
  · intro c hc; exact (List.mem_filter.mp hc).2
  · intro c hc; simpa using (List.mem_filter.mp hc).2

/-- Identity when there is no non-declaration statement (this one needs no hypothesis). -/
theorem C24_no_nondecl_id (src : Bytes) (toks : List Word)
    (h : ∀ s ∈ splitStmts toks, s.isDecl = true) : rearrange src toks = .ok src := by
  have : firstNonDecl (splitStmts toks) = none := (firstNonDeclFrom_none _ 0).mpr h
  simp [rearrange, this]

/-- Identity also when nothing follows that could move: all chunks of one class. -/
theorem C24_one_class_id (src : Bytes) (toks : List Word) (h : WF src toks)
    (pre : Bytes) (cs : List (Bool × Bytes)) (hsrc : src = pre ++ (cs.map (·.2)).flatten)
    (hone : (∀ c ∈ cs, c.1 = true) ∨ (∀ c ∈ cs, c.1 = false)) : hoist pre cs = src := by
  have _ := h
  rw [hsrc]; unfold hoist
  rcases hone with hall | hall
  · have e1 : cs.filter (·.1) = cs := List.filter_eq_self.mpr (by simpa using hall)
    have e2 : cs.filter (fun c => !c.1) = [] := List.filter_eq_nil_iff.mpr (by simpa using hall)
    rw [e1, e2]; simp
  · have e1 : cs.filter (·.1) = [] := List.filter_eq_nil_iff.mpr (by simpa using hall)
    have e2 : cs.filter (fun c => !c.1) = cs := List.filter_eq_self.mpr (by simpa using hall)
    rw [e1, e2]; simp

/-- `SourceEx` succeeds whenever `Source` succeeds on the original or on the rearrangement
(`source` is an arbitrary function; `rearrange` is total on well-formed token lists). -/
theorem C24_sourceEx_ok {ε : Type} (source : Bytes → FRes ε) (src : Bytes) (toks : List Word)
    (h : WF src toks) :
    ((∃ o, source src = .ok o) ∨
      (∃ e r o, source src = .err e ∧ rearrange src toks = .ok r ∧ source r = .ok o)) →
    ∃ o, sourceEx source src toks = .ok o := by
  have _ := h
  rintro (⟨o, ho⟩ | ⟨e, r, o, he, hr, ho⟩)
  · exact ⟨o, by simp [sourceEx, ho]⟩
  · exact ⟨o, by simp [sourceEx, he, hr, ho]⟩

/-- …and its result is the result of the first of the two `Source` calls that succeeds; it
fails with the second call's error otherwise. -/
theorem C24_sourceEx_result {ε : Type} (source : Bytes → FRes ε) (src : Bytes) (toks : List Word)
    (h : WF src toks) (hnp : ∀ b, source b ≠ .panic) :
    ∃ r, rearrange src toks = .ok r ∧
      sourceEx source src toks =
        (match source src with
         | .ok o => .ok o
         | _ => source r) := by
  cases hr : rearrange src toks with
  | panic => exact absurd hr (C24_no_panic src toks h)
  | ok r =>
    refine ⟨r, rfl, ?_⟩
    cases hs : source src with
    | ok o => simp [sourceEx, hs]
    | err e => simp [sourceEx, hs, hr]
    | panic => exact absurd hs (hnp src)

/-! ## The hypothesis is needed (and the panic outcome is real in the model) -/

/-- With decreasing offsets `src[from:to]` panics: `WF` cannot be dropped from `C24_no_panic`. -/
theorem C24_unordered_offsets_panic :
    rearrange [0x61, 0x3b, 0x62, 0x3b]
      [⟨2, .other⟩, ⟨3, .semicolon⟩, ⟨0, .other⟩, ⟨1, .semicolon⟩] = .panic := by decide

/-! ## Non-vacuity -/

/-- `a;func f(){};b;`‐like token list: other ; func other ( ) { } ; other ; -/
def exSrc : Bytes := [0x61, 0x3b, 0x66, 0x28, 0x29, 0x7b, 0x7d, 0x3b, 0x62, 0x3b]
def exToks : List Word :=
  [⟨0, .other⟩, ⟨1, .semicolon⟩, ⟨2, .func⟩, ⟨2, .other⟩, ⟨3, .lparen⟩, ⟨4, .rparen⟩,
   ⟨5, .lbrace⟩, ⟨6, .rbrace⟩, ⟨7, .semicolon⟩, ⟨8, .other⟩, ⟨9, .semicolon⟩]

example : WF exSrc exToks := by
  refine ⟨by decide, ?_⟩
  intro w hw
  have : ∀ w ∈ exToks, w.pos ≤ 10 := by decide
  exact this w hw

example : rearrange exSrc exToks =
    .ok [0x66, 0x28, 0x29, 0x7b, 0x7d, 0x3b, 0x61, 0x3b, 0x62, 0x3b] := by decide

/-- A function literal statement (`func ( ) { } ( ) ;`) is not a declaration, a method is. -/
example : (mkStmt [⟨0, .func⟩, ⟨4, .lparen⟩, ⟨5, .rparen⟩, ⟨6, .lbrace⟩, ⟨7, .rbrace⟩,
    ⟨8, .lparen⟩, ⟨9, .rparen⟩, ⟨10, .semicolon⟩]).isDecl = false := by decide
example : (mkStmt [⟨0, .comment⟩, ⟨3, .func⟩, ⟨8, .lparen⟩, ⟨9, .other⟩, ⟨10, .rparen⟩,
    ⟨11, .other⟩, ⟨12, .lparen⟩, ⟨13, .rparen⟩, ⟨14, .lbrace⟩, ⟨15, .rbrace⟩,
    ⟨16, .semicolon⟩]).isFuncDecl = true := by decide

/-- After fix 84c0657: `func ( ) int { } ( ) ;` (literal with a result type) and
`func /*c*/ ( ) { } ( ) ;` are statements; `func ( r ) + ( x ) T { } ;` and
`func ( T ) . name = ( … ) ;` are declarations; an unclosed `func (` is not. -/
example : (mkStmt [⟨0, .func⟩, ⟨4, .lparen⟩, ⟨5, .rparen⟩, ⟨7, .other⟩, ⟨11, .lbrace⟩, ⟨12, .rbrace⟩,
    ⟨13, .lparen⟩, ⟨14, .rparen⟩, ⟨15, .semicolon⟩]).isDecl = false := by decide
example : (mkStmt [⟨0, .func⟩, ⟨5, .comment⟩, ⟨11, .lparen⟩, ⟨12, .rparen⟩, ⟨14, .lbrace⟩, ⟨15, .rbrace⟩,
    ⟨16, .lparen⟩, ⟨17, .rparen⟩, ⟨18, .semicolon⟩]).isDecl = false := by decide
example : (mkStmt [⟨0, .func⟩, ⟨5, .lparen⟩, ⟨6, .other⟩, ⟨7, .rparen⟩, ⟨9, .other⟩, ⟨11, .lparen⟩,
    ⟨12, .other⟩, ⟨13, .rparen⟩, ⟨15, .other⟩, ⟨17, .lbrace⟩, ⟨18, .rbrace⟩, ⟨19, .semicolon⟩]).isFuncDecl = true := by decide
example : (mkStmt [⟨0, .func⟩, ⟨5, .lparen⟩, ⟨6, .other⟩, ⟨7, .rparen⟩, ⟨8, .period⟩, ⟨9, .other⟩,
    ⟨11, .other⟩, ⟨13, .lparen⟩, ⟨14, .other⟩, ⟨15, .rparen⟩, ⟨16, .semicolon⟩]).isFuncDecl = true := by decide
example : (mkStmt [⟨0, .func⟩, ⟨5, .lparen⟩, ⟨6, .other⟩, ⟨7, .semicolon⟩]).isDecl = false := by decide

example : ∀ s ∈ splitStmts [⟨0, .var⟩, ⟨4, .other⟩, ⟨5, .semicolon⟩, ⟨6, .func⟩, ⟨11, .other⟩,
    ⟨12, .lparen⟩, ⟨13, .rparen⟩, ⟨14, .lbrace⟩, ⟨15, .rbrace⟩, ⟨16, .semicolon⟩],
    s.isDecl = true := by decide

example : sourceEx (ε := Unit) (fun b => if b.head? = some 0x66 then .ok b else .err ())
    exSrc exToks = .ok [0x66, 0x28, 0x29, 0x7b, 0x7d, 0x3b, 0x61, 0x3b, 0x62, 0x3b] := by decide

end GopModel.Rearrange
