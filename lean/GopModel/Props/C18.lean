/-
C18 — AST traversal visits every node exactly once.

  "For every syntax tree produced by the parser or by the compiler's front end, Walk and Inspect
   visit every non-nil child node exactly once, parents before children and siblings in source
   order, and call the visitor with nil after each node's children, without panicking on any
   node kind."

Model: `WalkModel.walk` interpreting `Generated.Walk.walkCase` — the per-kind child-step table
that the translator regenerates from the type switch of `ast.Walk` on every run — over rose
trees; specification: `WalkModel.preorder` over `childSpec`, which is derived from the
regenerated struct declarations (`nodeFields`: every Node-typed field, declaration order) and
the reviewed exception lists below.

FULL: the generic theorem (`C18_walk_visits`) plus the kernel-decided table obligations
(`C18_walk_table_*`) give `C18_walk_visits_real` / `C18_walk_visits_documented` for every tree.
-/
import GopModel.Lemmas.WalkLemmas
import GopModel.Generated.Walk
namespace GopModel.C18
open GopModel.WalkModel GopModel.Generated.Walk

/-! ## Reviewed exception lists (hand-written; mirrored in harness/astx/astx.go) -/

/-- Node-typed fields that are deliberately not children of a traversal:
`File.Imports` (aliases of the ImportSpecs in `Decls`), `File.Comments` (all comments; the
attached ones are reached through Doc/Comment fields, as in go/ast), `File.ShadowEntry`
(alias of the last Decl), `Package.GoFiles` (go/ast trees: foreign node types). -/
def excluded : List (Kind × Fld) :=
  [(.File, .Imports), (.File, .Comments), (.File, .ShadowEntry), (.Package, .GoFiles)]

/-- Fields withdrawn by a flag of the node: the synthetic entry function of a script-style
file (`Shadow`) has no name/signature in the source; a file without package clause
(`NoPkgDecl`) has an implicit name. -/
def guards : List ((Kind × Fld) × Fld) :=
  [((.FuncDecl, .Doc), .Shadow), ((.FuncDecl, .Recv), .Shadow), ((.FuncDecl, .Name), .Shadow),
   ((.FuncDecl, .Type), .Shadow), ((.File, .Name), .NoPkgDecl)]

/-- What an `any` field may hold (its declaration comment), as paths through the carrier. -/
def dynExpand : List ((Kind × Fld) × List (Fld × FKind)) :=
  [((.DomainTextLit, .Extra),
    [(.Extra_DomainTextLitEx_Args, .list), (.Extra_StringLitEx_Parts, .parts)])]

/-- Kinds whose source order differs from the declaration order of their fields (DESIGN §2.6):
none today. -/
def orderExceptions : List (Kind × List Fld) := []

def isChildKind : FKind → Bool
  | .one | .list | .lists | .mapv | .parts | .foreign => true
  | _ => false

/-- Child fields of a kind in declaration order: every Node-typed field, `any` fields expanded,
minus the exclusions. -/
def childFieldsDecl (k : Kind) : List (Fld × FKind) :=
  ((nodeFields k).flatMap fun p =>
      match p.2 with
      | .dyn => (dynExpand.lookup (k, p.1)).getD []
      | fk => if isChildKind fk then [p] else []).filter fun p => !excluded.contains (k, p.1)

def sourceOrder (k : Kind) : List Fld :=
  (orderExceptions.lookup k).getD ((childFieldsDecl k).map (·.1))

/-- The specification's child relation. -/
def childSpec : ChildSpec Kind Fld := fun k =>
  (sourceOrder k).map fun f => (f, guards.lookup (k, f))

def stepsOf (k : Kind) : List (Step Fld) := (walkCase k).getD []

def opCompat : Op → FKind → Bool
  | .one, .one | .opt, .one => true
  | .list, .list | .range, .list | .range, .mapv => true
  | .rows, .lists => true
  | .parts, .parts => true
  | _, _ => false

theorem kind_mem_all : ∀ k : Kind, k ∈ allKinds := by
  intro k; cases k <;> decide

/-! ## Table obligations — decided by the kernel on the regenerated tables -/

/-- Every node kind has a `case` in Walk's type switch: no kind reaches the panicking `default:`. -/
theorem C18_walk_table_complete : ∀ k ∈ allKinds, (walkCase k).isSome = true := by decide

/-- Every Node-typed field of every kind is walked, exactly once, and nothing else is. -/
theorem C18_walk_table_fields : ∀ k ∈ allKinds,
    ((stepsOf k).map (·.fld)).Perm ((childFieldsDecl k).map (·.1)) ∧
    ((stepsOf k).map (·.fld)).Nodup := by decide

/-- The children are walked in source order (declaration order, exception list applied) and
under exactly the reviewed flag guards. -/
theorem C18_walk_table_order : ∀ k ∈ allKinds, caseOK walkCase childSpec k = true := by decide

/-- Each statement form fits the declared type of its field (single node / slice / slice of
slices / map / parts of a carrier). -/
theorem C18_walk_table_ops : ∀ k ∈ allKinds, ∀ s ∈ stepsOf k,
    ((childFieldsDecl k).lookup s.fld).any (opCompat s.op) = true := by decide

/-- A field documented as possibly nil is only passed to Walk behind a nil test. -/
theorem C18_walk_table_nilable : ∀ k ∈ allKinds, nilableOK walkCase nilable k = true := by decide

/-- The exception list only reorders: each entry is a permutation of the declared child fields. -/
theorem C18_order_exceptions_perm : ∀ p ∈ orderExceptions,
    p.2.Perm ((childFieldsDecl p.1).map (·.1)) := by decide

/-! ## The traversal theorems -/

/-- Generic form (any table, any spec): a table that lists the spec's child fields in order
makes `walk` produce exactly `preorder` — each node of the child relation once, parent before
children, siblings in the spec's order, `Visit(nil)` after the children of each node — on
every tree with no nil entry in an unguarded position, for every pruning visitor `d`. -/
theorem C18_walk_visits {K F : Type} [DecidableEq F]
    (tbl : K → Option (List (Step F))) (spec : ChildSpec K F) (d : Nat → Bool)
    (hOK : ∀ k, caseOK tbl spec k = true) (t : Node K F)
    (hroot : t.isNull = false) (hwf : wf tbl t = true) :
    walk tbl d t = Res.ok (preorder spec d t) :=
  walk_eq_preorder tbl spec d hOK t hroot hwf

/-- …for the real, regenerated table. -/
theorem C18_walk_visits_real (d : Nat → Bool) (t : Node Kind Fld)
    (hroot : t.isNull = false) (hwf : wf walkCase t = true) :
    walk walkCase d t = Res.ok (preorder childSpec d t) :=
  C18_walk_visits walkCase childSpec d
    (fun k => C18_walk_table_order k (kind_mem_all k)) t hroot hwf

/-- …for every tree that respects the documented contract of the node structs (a nil entry
only in a field whose declaration says "or nil"): no panic on any node kind. -/
theorem C18_walk_visits_documented (d : Nat → Bool) (t : Node Kind Fld)
    (hroot : t.isNull = false) (hc : conforms nilable t = true) :
    walk walkCase d t = Res.ok (preorder childSpec d t) :=
  C18_walk_visits_real d t hroot
    (conforms_wf walkCase nilable (fun k => C18_walk_table_nilable k (kind_mem_all k)) t hc)

/-- Never a panic on such trees. -/
theorem C18_no_panic (d : Nat → Bool) (t : Node Kind Fld)
    (hroot : t.isNull = false) (hc : conforms nilable t = true) :
    (walk walkCase d t).panicked = false := by
  rw [C18_walk_visits_documented d t hroot hc]; rfl

/-- The node itself is the first visitor call (parent before children). -/
theorem C18_root_first (d : Nat → Bool) (s : Fld) (k : Kind) (id : Nat) (flags : List (Fld × Bool))
    (kids : List (Node Kind Fld)) (hc : conforms nilable (.mk s k id flags kids) = true) :
    (walk walkCase d (.mk s k id flags kids)).evs.head? = some (.visit id) := by
  rw [C18_walk_visits_documented d _ rfl hc]
  by_cases h : d id = true <;> simp [preorder, h, Res.ok]

/-- Plain traversal (no pruning): as many `Visit(nil)` calls as visited nodes — each node's
children are followed by its `Visit(nil)`. -/
theorem C18_nil_after_each_node (t : Node Kind Fld)
    (hroot : t.isNull = false) (hc : conforms nilable t = true) :
    countNil (walk walkCase (fun _ => true) t).evs =
      (visitIds (walk walkCase (fun _ => true) t).evs).length := by
  rw [C18_walk_visits_documented _ t hroot hc]
  exact preorder_balanced childSpec t

/-! ## Non-vacuity: concrete trees (kernel-evaluated) -/

/-- `for k, v in xs if c` inside `[e for …]`: ComprehensionExpr(Elt, Fors[ForPhrase(Key, Value, X, Cond)]). -/
def exTree : Node Kind Fld :=
  .mk .X .ComprehensionExpr 1 [] [
    .mk .Elt .Ident 2 [] [],
    .mk .Fors .ForPhrase 3 [] [
      .mk .Key .Ident 4 [] [], .mk .Value .Ident 5 [] [],
      .mk .X .MatrixLit 6 [(.Incomplete, false)] [.mk .Elts .BasicLit 7 [] [], .mk .Elts .ElemEllipsis 8 [] [.mk .Elt .Ident 9 [] []]],
      .null .Init none,
      .mk .Cond .Ident 10 [] []]]

example : conforms nilable exTree = true := by decide
example : wf walkCase exTree = true := by decide
example : walk walkCase (fun _ => true) exTree =
    Res.ok [.visit 1, .visit 2, .nil, .visit 3, .visit 4, .nil, .visit 5, .nil, .visit 6,
      .visit 7, .nil, .visit 8, .visit 9, .nil, .nil, .nil, .visit 10, .nil, .nil, .nil] := by decide
/-- pruning below node 3 -/
example : walk walkCase (fun i => i != 3) exTree = Res.ok [.visit 1, .visit 2, .nil, .visit 3, .nil] := by
  decide
/-- the guard: a shadow entry function is visited through its body only -/
example : walk walkCase (fun _ => true)
    (.mk .Decls .FuncDecl 1 [(.Shadow, true)] [.mk .Name .Ident 2 [] [], .mk .Type .FuncType 3 [] [],
      .mk .Body .BlockStmt 4 [] []]) = Res.ok [.visit 1, .visit 4, .nil, .nil] := by decide
/-- the model keeps the panic of the real code: a nil interface in an unguarded field
(`BinaryExpr.Y`) is passed to the visitor and then panics; such a tree is not `wf`. -/
def badTree : Node Kind Fld := .mk .X .BinaryExpr 1 [] [.mk .X .Ident 2 [] [], .null .Y none]
example : walk walkCase (fun _ => true) badTree = Res.panic [.visit 1, .visit 2, .nil, .nil] := by decide
example : wf walkCase badTree = false := by decide
example : conforms nilable badTree = false := by decide

end GopModel.C18
