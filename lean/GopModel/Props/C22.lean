/-
C22 — printing a synthesized tree preserves its structure.

FULL STATEMENT (properties.jsonl): for every well-formed syntax tree built programmatically
(without positions and without explicit parentheses), the printer emits source that parses back
to the same tree, inserting parentheses and spacing wherever precedence, command-call syntax or
unary/binary ambiguity requires.

Proved here, on the model M3 (Model/ExprSyntax.lean: `printExpr` = printer.Fprint on an
expression, `lex` = the scanner boundary (adjacent tokens that combine), `parseX` =
parser.ParseExpr), for every tree of the fragment `wf`:

  ident, basic literal, number-unit literal, `$env`, every binary operator of Token.Precedence
  (regenerated table), the unary operators + - ! ^ & <-, `*x`, parentheses, selector, index,
  call (with `...`), `x!`, `x?`, `x?:d` / `x!:d`, type assertion `x.(T)` / `x.(type)`, lambda
  expressions `x => e`, `=> e`, `(x, y) => e`, `… => (e1, e2)` whose single body does not start
  with `(`                    (after the fix commits c5f6783, 680bbfa, 3e34062, 40c20a1)

The remaining node kinds of M3 (slice, composite / slice literal) are
covered by the differential run and the oracle of `./check C22` only; three shapes among them do
NOT round-trip in the real code (and in the model): see the witnesses at the end of this file
and known_findings.txt (`errwrap-before-colon`, `lambda-body-leading-paren`,
`composite-element-leading-brace`).  Command-style calls and statements are not modelled.
-/
import GopModel.Lemmas.ExprFinal
namespace GopModel.ExprSyntax
open Gen

/-- Every operator to which the regenerated `Token.Precedence` gives a binary precedence lies in
the range the theorems cover (1 ≤ prec < UnaryPrec): no operator is silently left out. -/
theorem C22_prec_table_covered (o : Op) (h : 1 ≤ prec o) : isBinOp o = true := by
  cases o <;> simp [prec, precedence] at h <;> decide

/-- The regenerated precedence constants are ordered as the printer and the parser assume. -/
theorem C22_prec_constants : lowestPrec = 0 ∧ unaryPrec + 1 = highestPrec ∧ 5 < unaryPrec := by decide

/-- No two tokens the printer writes next to each other combine into other tokens: where they
would, `print` inserts a blank (`mayCombine`: `- -x`, `a / *p`, `a & &b`, `x - -y`, `1 .x`). So
the scanner returns exactly the printed token sequence. -/
theorem C22_blank_sound (e : XExpr) (hwf : wf e = true) :
    lex (printExpr e) = some (toks e lowestPrec) :=
  lex_printExpr hwf

/-- The parser returns the tree with exactly the printer's parentheses added (`norm`). -/
theorem C22_parse_printed (e : XExpr) (hwf : wf e = true) :
    parseX (toks e lowestPrec) = .ok (norm e lowestPrec) :=
  parseX_toks hwf

/-- C22 on M3: a tree without parentheses is printed to tokens that parse back to the same
tree up to the `paren` nodes the printer inserted. -/
theorem C22_print_parse_synth (e : XExpr) (hnp : noParen e = true) (hwf : wf e = true) :
    ∃ ts e', lex (printExpr e) = some ts ∧ parseX ts = .ok e' ∧ deparen e' = e :=
  ⟨toks e lowestPrec, norm e lowestPrec, lex_printExpr hwf, parseX_toks hwf,
    deparen_norm e hwf hnp lowestPrec⟩

/-- The parser terminates within the fuel of `parseX` on every printed form (no `Fail.fuel`). -/
theorem C22_fuel_adequate (e : XExpr) (hwf : wf e = true) :
    parseX (toks e lowestPrec) ≠ .error .fuel := by
  rw [parseX_toks hwf]; intro h; cases h

/-! ### Non-vacuity: concrete trees satisfying the hypotheses -/

def a : XExpr := .ident [0x61]
def b : XExpr := .ident [0x62]
def c : XExpr := .ident [0x63]

/-- `(a + b)!`  (the tree that was printed as `a + b!` before c5f6783). -/
def exErr : XExpr := .errWrap (.binary .ADD a b) .NOT none
/-- `a - -b*c / *f(a, b...)` -/
def exMix : XExpr :=
  .binary .SUB a (.binary .QUO (.binary .MUL (.unary .SUB b) c) (.star (.call (.ident [0x66]) [a, b] true false)))
/-- `a?:(b + c)`, as operand of a selector: `(a?:(b + c)).c` -/
def exDef : XExpr := .selector (.errWrap a .QUESTION (some (.binary .ADD b c))) [0x63]

/-- `f(x => x + 1, (a, b) => (a, b))` and a lambda as operand: `(a => b) + c.(T)`. -/
def exLam : XExpr :=
  .call (.ident [0x66])
    [.lambda [[0x78]] false [.binary .ADD (.ident [0x78]) (.lit .INT [0x31])] false,
     .lambda [[0x61], [0x62]] true [a, b] true] false false
def exLamOperand : XExpr :=
  .binary .ADD (.lambda [[0x61]] false [b] false) (.typeAssert c (some (.ident [0x54])))

example : wf exLam = true ∧ noParen exLam = true := by decide
example : wf exLamOperand = true ∧ noParen exLamOperand = true := by decide
/-- `(a => b) + c.(T)`: the lambda operand is parenthesised (fix 3e34062). -/
example : lex (printExpr exLamOperand) =
    some [.op .LPAREN, .ident [0x61], .op .DRARROW, .ident [0x62], .op .RPAREN, .op .ADD, .ident [0x63],
      .op .PERIOD, .op .LPAREN, .ident [0x54], .op .RPAREN] := by decide

example : wf exErr = true ∧ noParen exErr = true := by decide
example : wf exMix = true ∧ noParen exMix = true := by decide
example : wf exDef = true ∧ noParen exDef = true := by decide

/-- The printed form of `exErr` is `( a + b ) !` (with the blanks of normal mode). -/
example : printExpr exErr =
    [pop .LPAREN, .t (.ident [0x61]), .blank, pop .ADD, .blank, .t (.ident [0x62]), pop .RPAREN, pop .NOT] := by
  decide

/-- `a - -b` keeps its blanks; `f(a, b - -c)` (compact mode) gets one from `mayCombine`. -/
example : printExpr (.binary .SUB a (.unary .SUB b)) =
    [.t (.ident [0x61]), .blank, pop .SUB, .blank, pop .SUB, .t (.ident [0x62])] := by decide
example : lex (printExpr (.call (.ident [0x66]) [a, .binary .SUB b (.unary .SUB c)] false false)) =
    some [.ident [0x66], .op .LPAREN, .ident [0x61], .op .COMMA, .ident [0x62], .op .SUB, .op .SUB,
      .ident [0x63], .op .RPAREN] := by decide

/-! ### Outside the proved fragment: shapes that do NOT round-trip (model witnesses; the same
inputs are replayed on the real printer/parser by `./check C22`, known_findings.txt) -/

/-- `a[b?:c]` : SliceExpr{Low: b?} is printed so that `?:` reads as a default value. -/
def exColon : XExpr := .slice a (some (.errWrap b .QUESTION none)) (some c) none false

set_option maxRecDepth 4000 in
theorem C22_witness_errwrap_before_colon :
    (match lex (printExpr exColon) with
     | some ts => (match parseX ts with
        | .ok (.index _ (.errWrap _ _ (some _))) => true
        | _ => false)
     | none => false) = true := by decide

/-- `a => (a + b) * c` : the body of a lambda starts with `(`, which the parser takes for a
parenthesised result list. -/
def exLamParen : XExpr := .lambda [[0x61]] false [.binary .MUL (.binary .ADD a b) c] false

set_option maxRecDepth 4000 in
theorem C22_witness_lambda_body_leading_paren :
    (match lex (printExpr exLamParen) with
     | some ts => (match parseX ts with
        | .error .err => true
        | _ => false)
     | none => false) = true := by decide

/-- `c{{a}.b}` : an element of a composite literal that starts with `{` is parsed as a bare
literal value; the `.b` is a syntax error. -/
def exEltBrace : XExpr := .composite (some c) [.selector (.composite none [a]) [0x62]]

set_option maxRecDepth 4000 in
theorem C22_witness_composite_element_leading_brace :
    (match lex (printExpr exEltBrace) with
     | some ts => (match parseX ts with
        | .error .err => true
        | _ => false)
     | none => false) = true := by decide

end GopModel.ExprSyntax
