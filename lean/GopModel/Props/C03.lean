/-
C03 — error-wrapping operators `!`, `?`, `?:` behave as documented.

Model: M4.  `Doc.errBang / Doc.errQ / Doc.errDflt` (Model/MiniXGo.lean) are the documented meanings;
`lowerX` / `lowerStmt` (Model/Lower.lean) transcribe cl/expr.go `compileErrWrapExpr`: closure for
`!` and `?:`, gogen INLINE closure for `?` (a block hoisted in front of the statement, result in a
fresh `_autoGo_n`, `return <zero values>, _gop_err`).

FULL STATEMENT (kept visible): "for any call returning (values…, error): `expr!` yields the values
or panics with the wrapped error; `expr?` yields the values or returns zero values + the error from
the enclosing function; `expr?:d` yields d on error; the wrapped call is evaluated exactly once;
for functions with 1..3 results, in statement, assignment and argument position."
Proved: `!` and `?:` as EXPRESSIONS (hence in every position, `C02_expr_sugar` lifts them through
any context) for 0..2 values; `?` for the statement shapes `f(args)?` (no value), `x := f(args)?`,
`g(f(args)?, more…)` with one value — up to the temporary the compiler leaves in the innermost
frame (`ResSim`).  NOT provable because FALSE on the unchanged tree (recorded findings, replayed by
the harness): `?` with two values does not compile; `f1(args)?` as a statement with a discarded
value compiles to invalid Go.  Recorded deviation outside the property's text: `?` is evaluated
before everything else in its statement (`C03_q_hoisted_order_witness`).  The rest of the compiler
is covered by correspondence only: PARTIAL.
-/
import GopModel.Lemmas.MiniQ
namespace GopModel.Mini

/-- What `errors.Unwrap` gives. -/
def unwrap : Val → Val
  | .frame inner _ _ => inner
  | v => v

/-! ## `f(args)!` -/

/-- The closure emitted for `f(args)!` (0, 1 or 2 values) evaluates to the documented meaning, for
every callee, argument list and outcome — trace included. -/
theorem C03_errwrap_bang (c : Ctx) (hc : CalleeOK c.callee) (code f : String) (args : List Expr)
    (tys : List Ty) (hn : tys.length ≤ 2) (h : srcEs args = true) :
    evalE c (lowerX c.fname (.errBang code f args tys))
      = Doc.errBang c.callee code c.fname f (evalEs c args) tys.length := by
  have := lowerX_eq c hc (.errBang code f args tys) (by simp [Expr.src, hn, h])
  rw [this]; simp only [evalE]

/-- …and the documented meaning is: the values when the error is nil, otherwise a panic whose value
wraps the callee's error (`Unwrap` gives it back) and records the call text and the function. -/
theorem C03_bang_values_or_panic (callee : String → List Val → Trace → CallRes) (code fn f : String)
    (args : Sem (List Val)) (env env1 : Env) (tr tr1 tr2 : Trace) (as vs : List Val) (e : Val)
    (ha : args env tr = .ok as env1 tr1) (hcall : callee f as tr1 = .vals (vs ++ [e]) tr2) :
    (isNilVal e = some true →
      Doc.errBang callee code fn f args vs.length env tr = .ok (pack vs) env1 tr2) ∧
    (isNilVal e = some false →
      Doc.errBang callee code fn f args vs.length env tr = .panic (.frame e code fn) tr2 ∧
      unwrap (.frame e code fn) = e) := by
  constructor
  · intro hv
    simp [Doc.errBang, Doc.wrappedCall, ha, hcall, splitErr_snoc, hv]
  · intro hv
    simp [Doc.errBang, Doc.wrappedCall, ha, hcall, splitErr_snoc, hv, wrapErr, unwrap]

/-! ## `f(args)?:d` -/

theorem C03_errwrap_default (c : Ctx) (hc : CalleeOK c.callee) (f : String) (args : List Expr) (t : Ty)
    (d : Expr) (h : srcEs args = true) (hd : d.src = true) :
    evalE c (lowerX c.fname (.errDflt f args t d))
      = Doc.errDflt c.callee f (evalEs c args) (evalE c d) := by
  have := lowerX_eq c hc (.errDflt f args t d) (by simp [Expr.src, h, hd])
  rw [this]; simp only [evalE]

/-- On success the result is the value and does not depend on the default AT ALL (so the default
is not evaluated: no event of it can appear in the trace); on error it is exactly the default,
evaluated after the call. -/
theorem C03_default_lazy (callee : String → List Val → Trace → CallRes) (f : String)
    (args : Sem (List Val)) (d : Sem Val) (env env1 : Env) (tr tr1 tr2 : Trace) (as : List Val) (v e : Val)
    (ha : args env tr = .ok as env1 tr1) (hcall : callee f as tr1 = .vals [v, e] tr2) :
    (isNilVal e = some true → Doc.errDflt callee f args d env tr = .ok v env1 tr2) ∧
    (isNilVal e = some false → Doc.errDflt callee f args d env tr = d env1 tr2) := by
  constructor <;> intro hv <;> simp [Doc.errDflt, Doc.wrappedCall, ha, hcall, splitErr2, hv]

/-! ## `f(args)?` -/

/-- Statement position, no value: the inlined block = the documented meaning (exact equality). -/
theorem C03_errwrap_q_stmt (c : Ctx) (hc : CalleeOK c.callee) (code f : String) (args : List Expr)
    (h : srcEs args = true) (others : List Ty) (hr : c.rtys = others ++ [.err]) (n : Nat) :
    evalSs c (lowerStmt c.fname c.rtys (.expr (.errQ code f args [])) n).1
      = evalS c (.expr (.errQ code f args [])) :=
  q_stmt_correct c code f args h hc others hr n

/-- Assignment position `x := f(args)?`. -/
theorem C03_errwrap_q_define (c : Ctx) (hc : CalleeOK c.callee) (x code f : String) (args : List Expr)
    (t : Ty) (h : srcEs args = true) (hx : isTmp x = false) (hx' : x ≠ "_")
    (others : List Ty) (hr : c.rtys = others ++ [.err]) (n : Nat) (F : Frame) (rest : Env) (tr : Trace) :
    ResSim (evalSs c (lowerStmt c.fname c.rtys (.define [x] [.errQ code f args [t]]) n).1 (F :: rest) tr)
      (evalS c (.define [x] [.errQ code f args [t]]) (F :: rest) tr) :=
  q_define_correct c hc x code f args t h hx hx' others hr n F rest tr

/-- Argument position `g(f(args)?, more…)` (the remaining arguments may have effects). -/
theorem C03_errwrap_q_arg (c : Ctx) (hc : CalleeOK c.callee) (g code f : String) (args post : List Expr)
    (t : Ty) (h : srcEs args = true) (hp : srcEs post = true)
    (others : List Ty) (hr : c.rtys = others ++ [.err]) (n : Nat) (F : Frame) (rest : Env) (tr : Trace) :
    ResSim (evalSs c (lowerStmt c.fname c.rtys (.expr (.call g (.errQ code f args [t] :: post))) n).1
        (F :: rest) tr)
      (evalS c (.expr (.call g (.errQ code f args [t] :: post))) (F :: rest) tr) :=
  q_arg_correct c hc g code f args post t h hp others hr n F rest tr

/-- The documented meaning of `?`: the values, or an early return of the ZERO VALUES of the
enclosing function's other results followed by the wrapped error. -/
theorem C03_q_zero_values (callee : String → List Val → Trace → CallRes) (code fn f : String)
    (others : List Ty) (args : Sem (List Val)) (env env1 : Env) (tr tr1 tr2 : Trace)
    (as vs : List Val) (e : Val)
    (ha : args env tr = .ok as env1 tr1) (hcall : callee f as tr1 = .vals (vs ++ [e]) tr2) :
    (isNilVal e = some true →
      Doc.errQ callee code fn f (others ++ [.err]) args vs.length env tr = .ok (pack vs) env1 tr2) ∧
    (isNilVal e = some false →
      Doc.errQ callee code fn f (others ++ [.err]) args vs.length env tr
        = .ret (others.map Ty.zero ++ [.frame e code fn]) env1 tr2) := by
  constructor <;> intro hv <;>
    simp [Doc.errQ, Doc.wrappedCall, ha, hcall, splitErr_snoc, hv, wrapErr]

/-! ## exactly once -/

/-- What `!` does with the result of the (single) call. -/
def bangAfter (code fn : String) (n : Nat) (env1 : Env) : CallRes → Res Val
  | .vals vs tr2 => (match splitErr vs with
    | some r =>
      if r.1.length ≠ n then .stuck else
      (match isNilVal r.2 with
       | some true => .ok (pack r.1) env1 tr2
       | some false => .panic (wrapErr r.2 code fn) tr2
       | none => .stuck)
    | none => .stuck)
  | .panic v tr2 => .panic v tr2
  | .timeout tr2 => .timeout tr2
  | .stuck => .stuck

/-- The wrapped call is evaluated EXACTLY ONCE: when the arguments evaluate, the whole outcome is
a fixed function of the one application `callee f as tr1` (the callee is consulted nowhere else);
when they do not, it is not consulted at all.  With `C03_errwrap_bang` this holds for the code the
compiler emits, in every position.  (Same shape for `?` and `?:`: `Doc.wrappedCall`.) -/
theorem C03_errwrap_once (callee : String → List Val → Trace → CallRes) (code fn f : String)
    (args : Sem (List Val)) (n : Nat) (env : Env) (tr : Trace) :
    (∀ as env1 tr1, args env tr = .ok as env1 tr1 →
      Doc.errBang callee code fn f args n env tr = bangAfter code fn n env1 (callee f as tr1)) ∧
    (∀ callee', (∀ as env1 tr1, args env tr ≠ .ok as env1 tr1) →
      Doc.errBang callee code fn f args n env tr = Doc.errBang callee' code fn f args n env tr) := by
  constructor
  · intro as env1 tr1 ha
    simp only [Doc.errBang, Doc.wrappedCall, ha, Res.bind_ok, bangAfter]
    cases callee f as tr1 with
    | vals vs t =>
      cases hs : splitErr vs with
      | none => simp [hs]
      | some r =>
        simp only [hs, Res.bind_ok]
        cases hv : isNilVal r.2 with
        | none => simp
        | some b => cases b <;> simp
    | _ => rfl
  · intro callee' hno
    simp only [Doc.errBang, Doc.wrappedCall]
    cases hr : args env tr with
    | ok as env1 tr1 => exact absurd hr (hno as env1 tr1)
    | _ => rfl

/-! ## recorded deviation: `?` is evaluated before the rest of its statement -/

/-- A callee that logs event 9 and succeeds with 7. -/
def logCallee : String → List Val → Trace → CallRes :=
  fun _ _ tr => .vals [.int 7, .nil] (tr ++ [(9, .int 0)])

def devCtx : Ctx := { callee := logCallee, loopFuel := 1, fname := "main.g", rtys := [.int, .err] }

/-- `x := probe(1, 5) + f()?` -/
def devStmt : Stmt :=
  .define ["x"] [.bin .add (.probe 1 (.lit (.int 5))) (.errQ "f()" "f" [] [.int])]

def traceIds : Res Unit → List Nat
  | .ok _ _ tr => tr.map (·.1)
  | _ => []

/-- In place (documented reading) the probe comes first; in the emitted code the wrapped call does.
The property does not fix this order, so it is recorded, not reported. -/
theorem C03_q_hoisted_order_witness :
    traceIds (evalS devCtx devStmt [[]] []) = [1, 9] ∧
    traceIds (evalSs devCtx (lowerStmt "main.g" devCtx.rtys devStmt 1).1 [[]] []) = [9, 1] := by
  decide

/-! ## non-vacuity -/

example : CalleeOK logCallee := by
  intro f as tr vs tr' h v hv
  simp only [logCallee, CallRes.vals.injEq] at h
  obtain ⟨rfl, _⟩ := h
  simp only [List.mem_cons, List.not_mem_nil, or_false] at hv
  rcases hv with rfl | rfl <;> rfl

example : srcEs [Expr.probe 3 (.var "m")] = true := by decide
example : devCtx.rtys = [Ty.int] ++ [Ty.err] := rfl
example : isTmp "x" = false ∧ "x" ≠ "_" := by decide

/-- `f(m)!` with a failing callee panics with the wrapped error; evaluated once (one event 9). -/
example :
    (match evalE { devCtx with callee := fun _ _ tr => .vals [.int 0, .err "boom"] (tr ++ [(9, .int 0)]) }
        (lowerX "main.g" (.errBang "f(m)" "f" [.var "m"] [.int])) [[("m", .int 0)]] [] with
     | .panic (.frame (.err "boom") "f(m)" "main.g") tr => tr.map (·.1)
     | _ => []) = [9] := by decide

end GopModel.Mini
