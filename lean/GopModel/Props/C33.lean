/-
C33 — token spellings round-trip through the scanners.

All statements are over the REGENERATED tables (Generated/Tokens.lean, Generated/ScanSwitch.lean)
and the scanner model M1, and are closed by kernel evaluation over the complete finite tables
(`decide +kernel`), so a change of a token table, of `Precedence`/`IsOperator`/`String`/`Len` or of
the operator switch in /repo re-checks (and, if it breaks the property, fails) these theorems.
-/
import GopModel.Model.Scan
import GopModel.Model.ScanTokens
import GopModel.Lemmas.ScanSpecials
namespace GopModel.Scan.C33
open GopModel.Generated GopModel.Scan GopModel.Scan.TokFns

/-- no non-ASCII letters or digits are needed: every spelling is ASCII -/
def noU : UCls := { isLetter := fun _ => false, isDigit := fun _ => false }

def cfgOf (d : Dialect) (comments : Bool) : Cfg := { d := d, comments := comments, noSemis := false, U := noU }

/-- Scanning the spelling `sp` of token `code` yields exactly that token, spanning the whole
spelling, optionally followed by an automatically inserted semicolon (`"\n"` at the end), then
EOF at the end; no error, no panic.  `litOK` says what the literal must be. -/
def roundTrip (cfg : Cfg) (code : Nat) (sp : List UInt8) (litOK : List UInt8 → Bool) : Bool :=
  let out := scan cfg sp.toArray
  let C := codes cfg.d
  decide (out.status = .done) && out.errs.isEmpty &&
  match out.toks with
  | [t, e] =>
    t.kind == code && t.pos == 0 && t.stop == sp.length && litOK t.lit &&
    e.kind == C.EOF && e.pos == sp.length
  | [t, s, e] =>
    t.kind == code && t.pos == 0 && t.stop == sp.length && litOK t.lit &&
    s.kind == C.SEMICOLON && s.lit == [0x0A] && s.pos == sp.length &&
    e.kind == C.EOF && e.pos == sp.length
  | _ => false

/-! ## XGo -/

/-- operators and delimiters: literal is empty, except for `;` whose literal is ";" -/
def xgoOpLit (code : Nat) (lit : List UInt8) : Bool :=
  if code = Tokens.XGo.SEMICOLON then lit == [0x3B] else lit.isEmpty

def xgoRoundTripAll (comments : Bool) : Bool :=
  Tokens.XGo.tokenBytes.all fun e =>
    if Tokens.XGo.isOperator e.1 then roundTrip (cfgOf .xgo comments) e.1 e.2 (xgoOpLit e.1)
    else if Tokens.XGo.isKeyword e.1 then roundTrip (cfgOf .xgo comments) e.1 e.2 (· == e.2)
    else true

/-- Every operator and keyword token of XGo: scanning its spelling yields exactly that token
(both comment modes). -/
theorem C33_xgo_scan_roundtrip (comments : Bool) :
    ∀ e ∈ Tokens.XGo.tokenBytes,
      (Tokens.XGo.isOperator e.1 = true → roundTrip (cfgOf .xgo comments) e.1 e.2 (xgoOpLit e.1) = true) ∧
      (Tokens.XGo.isOperator e.1 = false → Tokens.XGo.isKeyword e.1 = true →
        roundTrip (cfgOf .xgo comments) e.1 e.2 (· == e.2) = true) := by
  have h : xgoRoundTripAll comments = true := by
    cases comments <;> decide +kernel
  intro e he
  have := (List.all_eq_true.mp h) e he
  constructor
  · intro ho; simpa [ho] using this
  · intro ho hk; simpa [ho, hk] using this

/-- The table really contains operators and keywords (non-vacuity of the theorem above):
56 operator/delimiter spellings and 25 keywords. -/
example :
    50 ≤ (Tokens.XGo.tokenBytes.filter fun e => Tokens.XGo.isOperator e.1).length ∧
    25 ≤ (Tokens.XGo.tokenBytes.filter fun e => Tokens.XGo.isKeyword e.1).length := by
  decide +kernel

/-- `String()` returns the table's spelling for every token in the table (the guard of `String`
covers the whole table and indices are distinct). -/
theorem C33_xgo_string_is_spelling :
    ∀ e ∈ Tokens.XGo.tokenBytes, tableEntry Tokens.XGo.stringGuard Tokens.XGo.tokenBytes e.1 = some e.2 := by
  have h : (Tokens.XGo.tokenBytes.all fun e =>
      tableEntry Tokens.XGo.stringGuard Tokens.XGo.tokenBytes e.1 == some e.2) = true := by decide +kernel
  intro e he
  simpa using (List.all_eq_true.mp h) e he

/-- Every token to which `Precedence` gives a non-zero precedence is reported by `IsOperator`
(and has a spelling). -/
theorem C33_xgo_prec_implies_operator :
    ∀ tok : Nat, 0 < precedence Tokens.XGo.precCases Tokens.XGo.precDefault tok →
      Tokens.XGo.isOperator tok = true ∧ (Tokens.XGo.tokenBytes.lookup tok).isSome = true := by
  have h : (Tokens.XGo.precCases.all fun c =>
      c.2 == 0 || (Tokens.XGo.isOperator c.1 && (Tokens.XGo.tokenBytes.lookup c.1).isSome)) = true := by
    decide +kernel
  have hd : Tokens.XGo.precDefault = 0 := by decide
  intro tok hp
  unfold precedence at hp
  cases hl : Tokens.XGo.precCases.lookup tok with
  | none => simp [hl, hd] at hp
  | some p =>
    simp only [hl, Option.getD_some] at hp
    have hmem : (tok, p) ∈ Tokens.XGo.precCases := by
      have := List.lookup_eq_some_iff.mp hl
      obtain ⟨l1, l2, heq, _⟩ := this
      rw [heq]; simp
    have := (List.all_eq_true.mp h) (tok, p) hmem
    simp only [Bool.or_eq_true, beq_iff_eq, Bool.and_eq_true] at this
    rcases this with h0 | h1
    · omega
    · exact h1

/-- the keywords are pairwise distinct spellings (so the `keywords` map has one entry each) -/
theorem C33_xgo_keywords_distinct :
    (xgoCodes.keywords.map (·.1)).Nodup := by decide +kernel

/-! ## TPL -/

def tplIsOp (code : Nat) : Bool := decide (Tokens.Tpl.literal_end < code)

def tplOpLit (code : Nat) (lit : List UInt8) : Bool :=
  if code = Tokens.Tpl.SEMICOLON then lit == [0x3B] else lit.isEmpty

def tplRoundTripAll (comments : Bool) : Bool :=
  Tokens.Tpl.tokenBytes.all fun e =>
    if tplIsOp e.1 then roundTrip (cfgOf .tpl comments) e.1 e.2 (tplOpLit e.1) else true

/-- Every operator token of TPL (every table entry above `literal_end`; TPL has no keywords):
scanning its spelling yields exactly that token. -/
theorem C33_tpl_scan_roundtrip (comments : Bool) :
    ∀ e ∈ Tokens.Tpl.tokenBytes, tplIsOp e.1 = true →
      roundTrip (cfgOf .tpl comments) e.1 e.2 (tplOpLit e.1) = true := by
  have h : tplRoundTripAll comments = true := by
    cases comments <;> decide +kernel
  intro e he ho
  have := (List.all_eq_true.mp h) e he
  simpa [ho] using this

example :
    50 ≤ (Tokens.Tpl.tokenBytes.filter fun e => tplIsOp e.1).length := by decide +kernel

/-- `String()` of TPL returns the spelling for every table entry; `Len()` is the length of the
spelling for every operator and 0 for the literal classes and special tokens. -/
theorem C33_tpl_string_len :
    ∀ e ∈ Tokens.Tpl.tokenBytes,
      tableEntry Tokens.Tpl.stringGuard Tokens.Tpl.tokenBytes e.1 = some e.2 ∧
      tplLen e.1 = (if tplIsOp e.1 then e.2.length else 0) := by
  have h : (Tokens.Tpl.tokenBytes.all fun e =>
      tableEntry Tokens.Tpl.stringGuard Tokens.Tpl.tokenBytes e.1 == some e.2 &&
      tplLen e.1 == (if tplIsOp e.1 then e.2.length else 0)) = true := by decide +kernel
  intro e he
  simpa using (List.all_eq_true.mp h) e he

/-- `ForEach` enumerates `operator_beg+1 … operator_end-1`: all of them are in the table -/
theorem C33_tpl_foreach_range_in_table :
    ∀ n, Tokens.Tpl.operator_beg < n → n < Tokens.Tpl.operator_end →
      (Tokens.Tpl.tokenBytes.lookup n).isSome = true := by
  have h : ((List.range Tokens.Tpl.operator_end).all fun n =>
      !(decide (Tokens.Tpl.operator_beg < n)) || (Tokens.Tpl.tokenBytes.lookup n).isSome) = true := by
    decide +kernel
  intro n h1 h2
  have := (List.all_eq_true.mp h) n (List.mem_range.mpr h2)
  simpa [h1] using this

/-! ## the hand-written part of the model handles exactly the non-operator cases of the switch -/

/-- The cases of the operator `switch ch` that the translator could not turn into tries are
exactly the ones `scanStep` treats by hand: EOF, newline, `"`, `'`, `` ` ``, `.`, `;`, `#`, `/`. -/
theorem C33_switch_specials :
    ScanSwitch.xgoSpecials = [eofCh, 0x0A, 0x22, 0x27, 0x60, 0x2E, 0x3B, 0x23, 0x2F] ∧
    ScanSwitch.tplSpecials = [eofCh, 0x0A, 0x22, 0x27, 0x60, 0x2E, 0x3B, 0x2F, 0x23] ∧
    ScanSwitch.goSpecials = [eofCh, 0x0A, 0x22, 0x27, 0x60, 0x2E, 0x3B, 0x2F] := by decide

/-! Non-vacuity / concrete instances -/
example : roundTrip (cfgOf .xgo true) Tokens.XGo.SHL_ASSIGN [0x3C, 0x3C, 0x3D] (xgoOpLit Tokens.XGo.SHL_ASSIGN) = true := by
  decide +kernel
example : roundTrip (cfgOf .xgo true) Tokens.XGo.RETURN [0x72, 0x65, 0x74, 0x75, 0x72, 0x6E] (· == [0x72, 0x65, 0x74, 0x75, 0x72, 0x6E]) = true := by
  decide +kernel
-- a wrong code is rejected by the predicate (it is not trivially true)
example : roundTrip (cfgOf .xgo true) Tokens.XGo.SHL [0x3C, 0x3C, 0x3D] (xgoOpLit Tokens.XGo.SHL) = false := by
  decide +kernel

end GopModel.Scan.C33
