/-
C37 — Go/XGo declaration trees convert without loss.

  "For every Go file, converting its declarations to the XGo tree and back yields declarations
   whose printed headers (names, receivers, type parameters, parameter/result types, type
   definitions, constant and variable values) equal the original's."

Model: `GopModel.Conv.conv` (Model/Conv.lean) interpreting the two tables
`Generated.Conv.fromgoProg` / `togoProg`, regenerated on every run from
/repo/ast/fromgo/gopast.go and /repo/ast/togo/goast.go.
Specification: `supported` (which trees are Go file trees) and `≃hdr` (equal printed header),
Model/ConvSpec.lean; function-literal and function bodies are dropped by both converters by
design and are not part of the header (DESIGN §2.6).

Full-strength statement, proved in two parts:
  * `C37_conv_roundtrip` — for ANY two tables: `TablesInverse P Q → ∀ d, supported d →
    togo (fromgo d)` is defined (no panic) `∧ ≃hdr d` (structural induction over trees,
    Lemmas/ConvRoundTrip.lean);
  * `C37_tables_inverse` — the obligation `TablesInverse` on the regenerated tables, decided by
    the kernel (a dropped / misrouted field copy or a missing `case` in either Go file changes
    the table and makes this fail).
-/
import GopModel.Lemmas.ConvRoundTrip
import GopModel.Generated.Conv
namespace GopModel.Conv
open GopModel.Generated.Conv

/-- Generic round-trip theorem. -/
theorem C37_conv_roundtrip (P Q : Prog) (h : TablesInverse P Q) (d : Tree)
    (hs : supported d = true) :
    ∃ r, roundTrip P Q "ASTFile" "ASTFile" d = .ok r ∧ r ≃hdr d := by
  obtain ⟨m, r, h1, h2, h3⟩ := roundtrip_of_tablesInverse P Q h d hs
  exact ⟨r, by simp [roundTrip, h1, h2], h3⟩

/-- The table obligation on the converters as they are in /repo now (kernel evaluation). -/
theorem C37_tables_inverse : TablesInverse fromgoProg togoProg := by decide +kernel

/-- C37 for the current converters: every supported Go file tree survives
`fromgo.ASTFile` followed by `togo.ASTFile` without panic and with the same header. -/
theorem C37_roundtrip_current (d : Tree) (hs : supported d = true) :
    ∃ r, roundTrip fromgoProg togoProg "ASTFile" "ASTFile" d = .ok r ∧ r ≃hdr d :=
  C37_conv_roundtrip fromgoProg togoProg C37_tables_inverse d hs

/-- In particular neither converter panics on a supported tree. -/
theorem C37_no_panic (d : Tree) (hs : supported d = true) (msg : String) :
    roundTrip fromgoProg togoProg "ASTFile" "ASTFile" d ≠ .panic msg := by
  obtain ⟨r, h, _⟩ := C37_roundtrip_current d hs
  rw [h]; intro h'; cases h'

/-- The keyword values the specification uses are those of the Go toolchain. -/
theorem C37_go_token_values :
    goDeclTokens = [("IMPORT", 75), ("TYPE", 84), ("VAR", 85), ("CONST", 64)] := by decide

/-- The specification's two keyword tables agree. -/
theorem C37_specTokens_consistent :
    specTokens.all (fun tc => specCls tc.1 == some tc.2) = true := by decide

/-! ## The header specification covers go/ast

`hdrTable` is hand-written; this theorem ties it to the struct declarations of the toolchain's
go/ast (regenerated): every field whose static type is a node type (`Expr`, `*Ident`, `[]Expr`,
`*FieldList`, …) or a scalar shown in source (`string`, `token.Token`, `ChanDir`, `bool` other
than `Incomplete` — false in parser output — and `Slice3` — go/printer prints the third index
iff `Max ≠ nil`) must be a header field of the matching role, positions may only be flags,
comments/bodies/objects are never header fields, and every expression/spec/declaration kind of
go/ast except `Bad*` is a supported kind.  (A child field added to go/ast, as `TypeParams` was,
makes this fail until the specification — and then the converters — know it.) -/

inductive Role where
  | must (s : FSpec) | posOnly | never | boolAtom | unknown

def roleOfType : String → Role
  | "Expr" => .must (.sub .expr)
  | "*Ident" => .must (.sub .ident)
  | "*BasicLit" => .must (.sub .lit)
  | "*FieldList" => .must (.sub .fieldList)
  | "*FuncType" => .must (.sub .funcType)
  | "[]Expr" => .must (.subs .expr)
  | "[]*Ident" => .must (.subs .ident)
  | "[]*Field" => .must (.subs .field)
  | "[]Decl" => .must (.subs .decl)
  | "[]Spec" => .must .specs
  | "string" => .must .atom
  | "token.Token" => .must .atom
  | "ChanDir" => .must .atom
  | "bool" => .boolAtom
  | "token.Pos" => .posOnly
  | "*CommentGroup" => .never
  | "*BlockStmt" => .never
  | "*Object" => .never
  | _ => .unknown

def fieldCovered (k f ty : String) : Bool :=
  let s := specOf (hdrFields k) f
  match roleOfType ty with
  | .must r => s == some r
  | .posOnly => s == none || s == some .flag
  | .never => s == none
  | .boolAtom => ((f == "Incomplete" || f == "Slice3") && s == none) || s == some .atom
  | .unknown => false

def structOf (k : String) : Option (List (String × String)) :=
  match List.find? (fun e => e.1 == k) goAstStructs with
  | some e => some e.2
  | none => none

def kindCovered (k : String) : Bool :=
  match structOf k with
  | some fs => fs.all (fun e => fieldCovered k e.1 e.2) &&
      (hdrFields k).all (fun h => fs.any (fun e => e.1 == h.1))
  | none => false

def fileCovered : Bool :=
  match structOf "File" with
  | some fs => fs.contains ("Name", "*Ident") && fs.contains ("Decls", "[]Decl") &&
      hdrFields "File" == [("Name", .sub .ident), ("Decls", .subs .decl)]
  | none => false

theorem C37_spec_covers_goast :
    ((exprKinds ++ ["ImportSpec", "TypeSpec", "ValueSpec", "GenDecl", "FuncDecl", "Field", "FieldList"]).all
        kindCovered = true) ∧ fileCovered = true ∧
    goAstExprKinds.all (fun k => k == "BadExpr" || exprKinds.contains k) = true ∧
    exprKinds.all (fun k => goAstExprKinds.contains k) = true ∧
    goAstSpecKinds = ["ImportSpec", "TypeSpec", "ValueSpec"] ∧
    goAstDeclKinds = ["BadDecl", "FuncDecl", "GenDecl"] ∧
    hdrTable.all (fun e => e.1 == "File" || kindCovered e.1) = true := by
  refine ⟨?_, ?_, ?_, ?_, ?_, ?_, ?_⟩ <;> decide +kernel

/-! ## The obligation is not vacuous: it rejects tables that lose a construct -/

/-- remove the conversion of destination field `d` from every case of every function. -/
def dropDst (P : Prog) (d : String) : Prog :=
  P.map (fun fn =>
    match fn.shape with
    | .switch n cases dflt =>
      { fn with shape := .switch n (cases.map (fun c =>
          { c with fields := c.fields.filter (fun fc => fc.dst != d) })) dflt }
    | s => { fn with shape := s })

/-- remove the `case` for source kind `k` from every type switch. -/
def dropCase (P : Prog) (k : String) : Prog :=
  P.map (fun fn =>
    match fn.shape with
    | .switch n cases dflt =>
      { fn with shape := .switch n (cases.filter (fun c => c.src != k)) dflt }
    | s => { fn with shape := s })

/-- the defect that was in /repo (togo dropped TypeParams) is rejected by the obligation … -/
theorem C37_obligation_rejects_dropped_typeparams :
    ¬ TablesInverse fromgoProg (dropDst togoProg "TypeParams") := by decide +kernel

/-- … as is a missing `case *ast.IndexListExpr` in togo, a dropped struct tag, a dropped
variadic/ellipsis element and a dropped receiver. -/
theorem C37_obligation_rejects_missing_case :
    ¬ TablesInverse fromgoProg (dropCase togoProg "IndexListExpr") := by decide +kernel
theorem C37_obligation_rejects_dropped_tag :
    ¬ TablesInverse (dropDst fromgoProg "Tag") togoProg := by decide +kernel
theorem C37_obligation_rejects_dropped_recv :
    ¬ TablesInverse fromgoProg (dropDst togoProg "Recv") := by decide +kernel

/-! ## Non-vacuity: concrete supported trees, evaluated by the kernel -/

def elems : List Tree → Forest
  | [] => .nil
  | t :: r => .cons "" t (elems r)

def ident (s : String) : Tree := .node "Ident" (.cons "NamePos" (.pos 7) (.cons "Name" (.str s) .nil))
def field (names : List String) (ty : Tree) : Tree :=
  .node "Field" (.cons "Names" (if names.isEmpty then .nil else .list (elems (names.map ident)))
    (.cons "Type" ty .nil))
def fieldList (fs : List Tree) : Tree :=
  .node "FieldList" (.cons "Opening" (.pos 3) (.cons "List" (.list (elems fs)) .nil))

/-- `func F[T any](x T) T { … }` (hex names as on the wire: 46 = "F", 54 = "T", 616e79 = "any"). -/
def exGenericFunc : Tree :=
  .node "FuncDecl"
    (.cons "Name" (ident "46")
    (.cons "Type" (.node "FuncType"
        (.cons "Func" (.pos 11)
        (.cons "TypeParams" (fieldList [field ["54"] (ident "616e79")])
        (.cons "Params" (fieldList [field ["78"] (ident "54")])
        (.cons "Results" (fieldList [field [] (ident "54")]) .nil)))))
    (.cons "Body" (.opaque "Block1") .nil)))

/-- `var x Pair[int, string]` -/
def exIndexList : Tree :=
  .node "GenDecl"
    (.cons "Tok" (.num 85)
    (.cons "Specs" (.list (elems [
      .node "ValueSpec"
        (.cons "Names" (.list (elems [ident "78"]))
        (.cons "Type" (.node "IndexListExpr"
            (.cons "X" (ident "50616972")
            (.cons "Indices" (.list (elems [ident "696e74", ident "737472696e67"])) .nil))) .nil))])) .nil))

def exFile : Tree :=
  .node "File" (.cons "Package" (.pos 1) (.cons "Name" (ident "70")
    (.cons "Decls" (.list (elems [exGenericFunc, exIndexList])) .nil)))

example : supported exFile = true := by decide +kernel

/-- the round trip of the example is defined and header-equal (by evaluation, independent of
the general theorem) … -/
example : ∃ r, roundTrip fromgoProg togoProg "ASTFile" "ASTFile" exFile = .ok r ∧ r ≃hdr exFile :=
  C37_roundtrip_current exFile (by decide +kernel)

example : (match roundTrip fromgoProg togoProg "ASTFile" "ASTFile" exFile with
    | .ok r => decide (r ≃hdr exFile)
    | _ => false) = true := by decide +kernel

/-- … and `≃hdr` does see type parameters: the same file without `[T any]` has another header. -/
def exNoTypeParams : Tree :=
  .node "File" (.cons "Package" (.pos 1) (.cons "Name" (ident "70")
    (.cons "Decls" (.list (elems [
      .node "FuncDecl"
        (.cons "Name" (ident "46")
        (.cons "Type" (.node "FuncType"
            (.cons "Func" (.pos 11)
            (.cons "Params" (fieldList [field ["78"] (ident "54")])
            (.cons "Results" (fieldList [field [] (ident "54")]) .nil))))
        (.cons "Body" (.opaque "Block1") .nil))), exIndexList])) .nil)))

example : ¬ (exNoTypeParams ≃hdr exFile) := by decide +kernel

/-- with the old togo table (TypeParams not copied) the model reproduces the defect that was
observed on the real code: `func F[T any](x T) T` comes back without its type parameters. -/
example : (match roundTrip fromgoProg (dropDst togoProg "TypeParams") "ASTFile" "ASTFile" exFile with
    | .ok r => decide (r ≃hdr exNoTypeParams) && !decide (r ≃hdr exFile)
    | _ => false) = true := by decide +kernel

/-- with the old togo table (no IndexListExpr case) the model panics like the real code did. -/
example : roundTrip fromgoProg (dropCase togoProg "IndexListExpr") "ASTFile" "ASTFile" exFile
    = .panic "goExpr: unknown expr - IndexListExpr" := by decide +kernel

/-- positions and bodies are not part of the header; names are. -/
example : hdr (ident "54") = .node "Ident" (.cons "Name" (.str "54") .nil) := by decide +kernel

end GopModel.Conv
