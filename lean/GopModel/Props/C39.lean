/-
C39 — every JSON-RPC call completes exactly once with its own answer; each incoming call is
answered at most once; Close returns once in-flight handlers finish.

FULL STATEMENT (properties.jsonl): "Under any interleaving of concurrent calls, notifications,
cancellations, handler completions, asynchronous responses, peer disconnects and Close, each
outgoing call's Await returns exactly once with the response carrying its own ID or with an
error, each incoming call is answered at most once, and Close returns once in-flight handlers
finish."

What is proved here, over the transition system `GopModel.InFlight.step` (Model/InFlight.lean:
the 18 closures passed to `updateInFlight` + its epilogue; an unbounded number of goroutines,
calls and requests; every interleaving of the atomic closures):

* SAFETY, FULL: in every reachable state — no panic is ever reached (`C39_no_panic`: "retire
  called twice", "incoming count is already zero", "transitioned to non-idle when already done",
  double `close(c.done)`); a call's `ready` channel is closed at most once (`C39_retire_once`)
  with a response carrying its own ID (`C39_own_id`); a call is in `outgoingCalls` iff it was
  registered and is not retired (`C39_outgoing_iff`); `incoming` equals the number of unfinished
  accepted requests, so processResult#1 never underflows (`C39_incoming_no_underflow`),
  `|incomingByID| ≤ incoming` (`C39_byID_le_incoming`); every incoming call is answered at most
  once (`C39_answer_at_most_once`, under the documented contract of `Respond`, which is the
  guard of `Act.respond`); `done` and the closer are closed at most once (`C39_done_once`,
  `C39_closer_once`); once `done` is closed every later `updateInFlight` leaves the state idle
  and `done` closed (`C39_done_stable`); when `done` is closed no handler invocation, queued
  request, async response or notification write is in flight (`C39_close_waits_for_handlers`)
  and every registered call has been retired (`C39_done_all_retired`).
* LIVENESS, PARTIAL (the `_partial` theorems): "Await eventually returns" and "Close eventually
  returns" need fairness and the environment (handlers return, the reader unblocks after
  `closer.Close`), which a safety model cannot express.  Proved instead: `done` is closed at
  exactly the `updateInFlight` call that leaves nothing to do (`C39_done_iff_partial`); every
  pending obligation has an enabled action (`C39_obligations_enabled_partial`); the reader's exit
  retires every outstanding call (`C39_await_enabled_partial`).  NOT provable and in fact false
  without the handler contract: a handler that returns ErrAsyncResponse for a notification leaks
  `incoming` and `done` is never closed (`C39_leak_blocks_close_witness`).

Tie to conn.go: `C39_tie_*` prove that the functions regenerated from the Go closures
(`Generated/InFlight.lean`) are equal to the hand-written transitions used above.
-/
import GopModel.Lemmas.InFlightInvD
import GopModel.Generated.InFlight
set_option linter.unusedSimpArgs false
set_option linter.unnecessarySimpa false
namespace GopModel.InFlight

/-! ## Tie: regenerated closures = model transitions -/

theorem C39_tie_idle (s : St) : Gen.idle s = s.idle := by
  simp [Gen.idle, St.idle, Bool.and_assoc]

theorem C39_tie_shuttingDown (s : St) : Gen.shuttingDown s = s.shuttingDown := by
  simp [Gen.shuttingDown, St.shuttingDown]

/-- Closes a goal `gen a s = model a s` after both sides are unfolded: case split on every
`if`/`match` and normalise the record updates. -/
macro "tie_cases" : tactic =>
  `(tactic| (first | rfl | (repeat' split) <;> simp_all <;> done))

theorem C39_tie_epilogue (s : St) (o : Out) : Gen.epilogue s o = epilogue s o := by
  rcases s with ⟨a1, a2, a3, a4, a5, a6, a7, a8, a9, a10, a11, a12⟩
  simp only [Gen.epilogue, epilogue, C39_tie_idle, C39_tie_shuttingDown]
  tie_cases

theorem C39_tie_newConnection_0 : Gen.newConnection_0 = tStart := by
  funext a s; simp only [Gen.newConnection_0, tStart] <;> tie_cases
theorem C39_tie_Notify_0 : Gen.Notify_0 = tNotifyExit := by
  funext a s; simp only [Gen.Notify_0, tNotifyExit] <;> tie_cases
theorem C39_tie_Notify_1 : Gen.Notify_1 = tNotifyEnter := by
  funext a s; simp only [Gen.Notify_1, tNotifyEnter, C39_tie_shuttingDown] <;> tie_cases
theorem C39_tie_Call_0 : Gen.Call_0 = tCallRegister := by
  funext a s; simp only [Gen.Call_0, tCallRegister, C39_tie_shuttingDown] <;> tie_cases
theorem C39_tie_Call_1 : Gen.Call_1 = tCallWriteFailed := by
  funext a s; simp only [Gen.Call_1, tCallWriteFailed] <;> tie_cases
theorem C39_tie_Respond_0 : Gen.Respond_0 = tLookup := by
  funext a s; simp only [Gen.Respond_0, tLookup] <;> tie_cases
theorem C39_tie_Cancel_0 : Gen.Cancel_0 = tLookup := by
  funext a s; simp only [Gen.Cancel_0, tLookup] <;> tie_cases
theorem C39_tie_Wait_0 : Gen.Wait_0 = tWait := by
  funext a s; simp only [Gen.Wait_0, tWait] <;> tie_cases
theorem C39_tie_Close_0 : Gen.Close_0 = tClose := by
  funext a s; simp only [Gen.Close_0, tClose] <;> tie_cases
theorem C39_tie_readIncoming_0 : Gen.readIncoming_0 = tResponse := by
  funext a s; simp only [Gen.readIncoming_0, tResponse] <;> tie_cases
theorem C39_tie_readIncoming_1 : Gen.readIncoming_1 = tReaderExit := by
  funext a s; simp only [Gen.readIncoming_1, tReaderExit] <;> tie_cases
theorem C39_tie_acceptRequest_0 : Gen.acceptRequest_0 = tAccept := by
  funext a s; simp only [Gen.acceptRequest_0, tAccept, C39_tie_shuttingDown] <;> tie_cases
theorem C39_tie_acceptRequest_1 : Gen.acceptRequest_1 = tEnqueue := by
  funext a s; simp only [Gen.acceptRequest_1, tEnqueue, C39_tie_shuttingDown] <;> tie_cases
theorem C39_tie_handleAsync_0 : Gen.handleAsync_0 = tDequeue := by
  funext a s; simp only [Gen.handleAsync_0, tDequeue] <;> tie_cases
theorem C39_tie_handleAsync_1 : Gen.handleAsync_1 = tHandleCancelled := by
  funext a s; simp only [Gen.handleAsync_1, tHandleCancelled] <;> tie_cases
theorem C39_tie_processResult_0 : Gen.processResult_0 = tPrDelete := by
  funext a s; simp only [Gen.processResult_0, tPrDelete] <;> tie_cases
theorem C39_tie_processResult_1 : Gen.processResult_1 = tPrFinish := by
  funext a s; simp only [Gen.processResult_1, tPrFinish] <;> tie_cases
theorem C39_tie_write_0 : Gen.write_0 = tWriteFailed := by
  funext a s; simp only [Gen.write_0, tWriteFailed] <;> tie_cases

/-- The regenerated table (closure name → function) is the model's table. -/
theorem C39_tie_transitions : Gen.transitions = transitions := by
  simp only [Gen.transitions, transitions, C39_tie_newConnection_0, C39_tie_Notify_0, C39_tie_Notify_1,
    C39_tie_Call_0, C39_tie_Call_1, C39_tie_Respond_0, C39_tie_Cancel_0, C39_tie_Wait_0, C39_tie_Close_0,
    C39_tie_readIncoming_0, C39_tie_readIncoming_1, C39_tie_acceptRequest_0, C39_tie_acceptRequest_1,
    C39_tie_handleAsync_0, C39_tie_handleAsync_1, C39_tie_processResult_0, C39_tie_processResult_1,
    C39_tie_write_0]

/-! ## Safety -/

/-- No `panic` of conn.go is reachable: "retire called twice", "processResult called when
incoming count is already zero", "updateInFlight transitioned to non-idle when already done",
close of the closed `done` channel. -/
theorem C39_no_panic {m : M} (h : Reachable m) : m.panicked = false :=
  (inv_reachable h).np

/-- `AsyncCall.retire` runs at most once per call (so `Await` is released exactly once). -/
theorem C39_retire_once {m : M} (h : Reachable m) : (m.ready.map (·.1)).Nodup :=
  (inv_reachable h).calls.rNodup

/-- The response stored in a retired call carries the call's own ID. -/
theorem C39_own_id {m : M} (h : Reachable m) : ∀ e ∈ m.ready, e.2 = e.1.id :=
  (inv_reachable h).calls.rOwn

/-- A call is in `outgoingCalls` iff it was registered and has not been retired; it is stored
under its own ID. -/
theorem C39_outgoing_iff {m : M} (h : Reachable m) (c : Call) :
    c ∈ Map.vals m.st.outgoing ↔ (c ∈ m.registered ∧ c ∉ m.ready.map (·.1)) := by
  have hi := (inv_reachable h).calls
  constructor
  · intro hc
    obtain ⟨k, hk⟩ := Map.mem_vals.mp hc
    exact ⟨(hi.oEnt k c hk).2.1, (hi.oEnt k c hk).2.2⟩
  · rintro ⟨h1, h2⟩
    rcases hi.oReg c h1 with h3 | h3
    · exact h3
    · exact absurd h3 h2

theorem C39_outgoing_own_key {m : M} (h : Reachable m) :
    ∀ k c, (k, c) ∈ m.st.outgoing → c.id = k := fun k c hk =>
  ((inv_reachable h).calls.oEnt k c hk).1

/-- `incoming` counts exactly the accepted requests whose processResult#1 has not run, and
`outgoingNotifications` the Notify calls in progress: neither counter underflows. -/
theorem C39_incoming_no_underflow {m : M} (h : Reachable m) :
    m.st.incoming = m.reqs.length ∧ m.st.outNotif = m.owedNotif ∧ 0 ≤ m.st.incoming ∧ 0 ≤ m.st.outNotif := by
  have hi := inv_reachable h
  refine ⟨hi.reqsI.inc, hi.notif, ?_, ?_⟩
  · rw [hi.reqsI.inc]; exact Int.natCast_nonneg _
  · rw [hi.notif]; exact Int.natCast_nonneg _

theorem length_le_of_nodup_subset {α : Type} [DecidableEq α] :
    ∀ (l l' : List α), l.Nodup → (∀ x ∈ l, x ∈ l') → l.length ≤ l'.length
  | [], _, _, _ => Nat.zero_le _
  | a :: t, l', hn, hs => by
    simp only [List.nodup_cons] at hn
    have ha : a ∈ l' := hs a (by simp)
    have := length_le_of_nodup_subset t (l'.erase a) hn.2 (by
      intro x hx
      have hxa : x ≠ a := fun e => hn.1 (e ▸ hx)
      exact (List.mem_erase_of_ne hxa).mpr (hs x (by simp [hx])))
    rw [List.length_erase_of_mem ha] at this
    have hpos : 0 < l'.length := List.length_pos_of_mem ha
    simp only [List.length_cons]
    omega

/-- `|incomingByID| ≤ incoming`. -/
theorem C39_byID_le_incoming {m : M} (h : Reachable m) : (m.st.byID.length : Int) ≤ m.st.incoming := by
  have hi := (inv_reachable h).reqsI
  rw [hi.inc]
  have hsub : ∀ q ∈ Map.vals m.st.byID, q ∈ m.reqs.map (·.1) := by
    intro q hq
    obtain ⟨k, hk⟩ := Map.mem_vals.mp hq
    obtain ⟨_, _, p, hp, _⟩ := (hi.bEnt k q).mp hk
    exact List.mem_map.mpr ⟨(q, p), hp, rfl⟩
  have hnd : (Map.vals m.st.byID).Nodup := by
    have hk := hi.bKeys
    have hent : ∀ k q, (k, q) ∈ m.st.byID → q.id = k := fun k q hkq => ((hi.bEnt k q).mp hkq).1
    generalize m.st.byID = B at hk hent
    induction B with
    | nil => simp [Map.vals]
    | cons e t ih =>
      obtain ⟨k, q⟩ := e
      simp only [Map.keys, List.map_cons, List.nodup_cons] at hk
      simp only [Map.vals, List.map_cons, List.nodup_cons]
      refine ⟨?_, ih hk.2 (fun k' q' hm => hent k' q' (by simp [hm]))⟩
      intro hc
      obtain ⟨⟨k', q'⟩, hm, hq⟩ := List.mem_map.mp hc
      simp only at hq; subst hq
      have e1 := hent k q' (by simp)
      have e2 := hent k' q' (by simp [hm])
      exact hk.1 (List.mem_map.mpr ⟨(k', q'), hm, by simp [← e1, ← e2]⟩)
  have := length_le_of_nodup_subset _ _ hnd hsub
  simp only [Map.vals, List.length_map] at this
  exact Int.ofNat_le.mpr this

/-- Each incoming call is answered (its response written by processResult) at most once —
given the contract of `Respond` (called only for requests whose handler returned
ErrAsyncResponse, once), which is the guard of `Act.respond`. -/
theorem C39_answer_at_most_once {m : M} (h : Reachable m) : m.answered.Nodup :=
  (inv_reachable h).reqsI.ansN

/-- `close(c.done)` is executed at most once, and exactly once iff `done` is closed. -/
theorem C39_done_once {m : M} (h : Reachable m) :
    m.doneCloses ≤ 1 ∧ (m.doneCloses = 1 ↔ m.st.done = true) := by
  have := (inv_reachable h).d2
  cases hd : m.st.done <;> simp [hd] at this <;> simp [this]

/-- `closer.Close()` is called at most once, and exactly once iff the closer field is nil. -/
theorem C39_closer_once {m : M} (h : Reachable m) :
    m.closerCloses ≤ 1 ∧ (m.closerCloses = 1 ↔ m.st.closerOpen = false) := by
  have := (inv_reachable h).d3
  cases hd : m.st.closerOpen <;> simp [hd] at this <;> simp [this]

/-- When `done` is closed the connection is quiescent: the reader has exited, the closer is
closed, the connection is shutting down and idle. -/
theorem C39_done_quiescent {m : M} (h : Reachable m) (hd : m.st.done = true) :
    m.st.idle = true ∧ m.st.reading = false ∧ m.st.closerOpen = false ∧ m.st.shuttingDown.isSome = true :=
  (inv_reachable h).d1 hd

/-- Once `done` is closed it stays closed, every later step keeps the state idle, and the panic
of the epilogue ("transitioned to non-idle when already done") is unreachable. -/
theorem C39_done_stable {m m' : M} (h : Reachable m) (hd : m.st.done = true) (a : Act)
    (hs : step a m = some m') : m'.st.done = true ∧ m'.st.idle = true ∧ m'.panicked = false := by
  have h' : Reachable m' := Reachable.step a h hs
  have hi' := inv_reachable h'
  have hd' : m'.st.done = true := done_mono_step a hd hs
  exact ⟨hd', (hi'.d1 hd').1, hi'.np⟩

/-- Close returns only when nothing is in flight: when `done` is closed there is no accepted
request left in any phase (queued, being handled, awaiting an asynchronous `Respond`, being
written), the handler goroutine has exited and no `Notify` is in progress. -/
theorem C39_close_waits_for_handlers {m : M} (h : Reachable m) (hd : m.st.done = true) :
    m.reqs = [] ∧ m.st.queue = [] ∧ m.st.handlerRunning = false ∧ m.owedNotif = 0 ∧ m.st.byID = [] := by
  obtain ⟨_, _, q3, _, q5, q6, q7, q8, _, _, _⟩ := done_quiet (inv_reachable h) hd
  exact ⟨q5, q7, q8, q3, q6⟩

/-- At `done` every call that was ever registered has been retired (its `Await` can return). -/
theorem C39_done_all_retired {m : M} (h : Reachable m) (hd : m.st.done = true) :
    ∀ c ∈ m.registered, c ∈ m.ready.map (·.1) := by
  intro c hc
  have hi := inv_reachable h
  rcases hi.calls.oReg c hc with h1 | h1
  · rw [(done_quiet hi hd).1] at h1; simp [Map.vals] at h1
  · exact h1

/-! ## Liveness, as enabledness only (PARTIAL) -/

/-- `done` is closed at exactly the `updateInFlight` call that leaves nothing to do: in every
reachable state, `done` ↔ idle ∧ shutting down ∧ the reader has exited.  (So once handlers have
finished, calls are retired and the reader has seen the closed stream, `Close`/`Wait` are
released; that those things eventually happen is an assumption on handlers and transport.) -/
theorem C39_done_iff_partial {m : M} (h : Reachable m) :
    m.st.done = true ↔ (m.st.idle = true ∧ m.st.shuttingDown.isSome = true ∧ m.st.reading = false) := by
  constructor
  · intro hd
    obtain ⟨a, b, _, d⟩ := (inv_reachable h).d1 hd
    exact ⟨a, d, b⟩
  · rintro ⟨a, b, c⟩
    have := not_stuck_reachable h
    simp only [St.stuck, a, b, c] at this
    simpa using this

/-- The reader's exit (peer disconnect, or the stream closed by the closer) is enabled whenever
the reader runs, and retires every outstanding call. -/
theorem C39_await_enabled_partial {m : M} (h : Reachable m) (hr : m.st.reading = true) :
    ∃ m', step .readerExit m = some m' ∧ ∀ c ∈ Map.vals m.st.outgoing, c ∈ m'.ready.map (·.1) := by
  have hi := inv_reachable h
  refine ⟨(fire tReaderExit noArgs m).1, by simp [step, hi.np, hr], ?_⟩
  intro c hc
  rw [fire_eq tReaderExit noArgs _ (by simp [tReaderExit])
    (by
      simp only [tReaderExit, List.mem_map]
      rintro e ⟨⟨k, c⟩, hm, rfl⟩
      simpa using (hi.calls.oEnt k c hm).2.2)
    (by simpa [tReaderExit] using hi.calls.vals_nodup)]
  obtain ⟨k, hk⟩ := Map.mem_vals.mp hc
  simp only [tReaderExit, List.map_append, List.map_map, List.mem_append, List.mem_map, Function.comp]
  exact Or.inr ⟨(k, c), hk, rfl⟩

/-- Every pending obligation has an enabled action (none of the guards of the remaining work
can be blocked by the connection state): pending registrations and writes, `Notify` exits, the
reader's exit, the handler loop, and every accepted request that is not leaked. -/
theorem C39_obligations_enabled_partial {m : M} (h : Reachable m) :
    (∀ c ∈ m.pendingReg, (step (.callRegister c) m).isSome) ∧
    (∀ c ∈ m.pendingWrite, (step (.callWriteOk c) m).isSome) ∧
    (m.owedNotif ≠ 0 → (step .notifyExit m).isSome) ∧
    (m.st.reading = true → (step .readerExit m).isSome) ∧
    (m.st.queue ≠ [] → (step .dequeue m).isSome) ∧
    (∀ r p, (r, p) ∈ m.reqs → p ≠ Phase.leaked → p ≠ Phase.queued →
      ∃ a, (step a m).isSome ∧ a ∈ [Act.enqueue r, .handleDone r, .respond r, .prDelete r, .prFinish r]) := by
  have hi := inv_reachable h
  have hnp := hi.np
  refine ⟨?_, ?_, ?_, ?_, ?_, ?_⟩
  · intro c hc
    simp only [step, hnp, Bool.false_eq_true, if_false, hc, if_true]
    split <;> rfl
  · intro c hc; simp [step, hnp, hc]
  · intro hne; simp [step, hnp, hne]
  · intro hr; simp [step, hnp, hr]
  · intro hq
    simp only [step, hnp, Bool.false_eq_true, if_false, hi.reqsI.queueH hq, if_true]
    split <;> rfl
  · intro r p hm hl hq
    have hph := (phaseOf_eq hi).mpr hm
    cases p with
    | accepted => exact ⟨.enqueue r, by simp [step, hnp, hph], by simp⟩
    | queued => exact absurd rfl hq
    | handling => exact ⟨.handleDone r, by simp [step, hnp, hph], by simp⟩
    | async =>
      refine ⟨.respond r, ?_, by simp⟩
      simp only [step, hnp, Bool.false_eq_true, if_false, hph, if_true]
      split <;> rfl
    | result =>
      by_cases hc : r.isCall = true
      · exact ⟨.prDelete r, by simp [step, hnp, hph, hc], by simp⟩
      · exact ⟨.prFinish r, by simp [step, hnp, hph, hc], by simp⟩
    | writing => exact ⟨.prFinish r, by simp [step, hnp, hph], by simp⟩
    | leaked => exact absurd rfl hl

/-! ## The liveness part needs the handler contract: a concrete counterexample without it -/

/-- A notification is accepted and handed to the handler, which (violating its contract)
returns ErrAsyncResponse; then the connection is closed and the reader exits. -/
def leakRun : List Act :=
  [.start, .accept .none, .enqueue ⟨0, .none⟩, .dequeue, .handleLeak ⟨0, .none⟩, .dequeue, .close, .readerExit]

/-- After `leakRun` the connection is closing, the reader is gone, the handler goroutine has
exited, the only accepted request is the leaked one — and `done` is never closed by any
continuation: `Close` never returns.  (Real code: processResult returns early for
ErrAsyncResponse on a notification without decrementing `incoming`.) -/
theorem C39_leak_blocks_close_witness :
    ∃ m, run leakRun M.init = some m ∧ m.st.connClosing = true ∧ m.st.reading = false ∧
      m.st.handlerRunning = false ∧ m.reqs = [(⟨0, .none⟩, Phase.leaked)] ∧ m.st.incoming = 1 ∧
      ∀ (as : List Act) (m' : M), run as m = some m' → m'.st.done = false := by
  cases hrun : run leakRun M.init with
  | none => exact absurd hrun (by decide)
  | some m =>
    have hreach : Reachable m := reachable_run Reachable.init leakRun hrun
    have h1 : (run leakRun M.init).map (fun m => (m.st.connClosing, m.st.reading, m.st.handlerRunning)) =
        some (true, false, false) := by decide
    have h2 : (run leakRun M.init).map (fun m => (m.reqs, m.st.incoming)) =
        some ([(⟨0, .none⟩, Phase.leaked)], 1) := by decide
    rw [hrun] at h1 h2
    simp only [Option.map_some, Option.some.injEq, Prod.mk.injEq] at h1 h2
    obtain ⟨a, b, c⟩ := h1
    obtain ⟨d, e⟩ := h2
    exact ⟨m, rfl, a, b, c, d, e, leak_never_done (r := ⟨0, .none⟩) hreach (by rw [d]; simp)⟩

/-! ## Non-vacuity: concrete runs of the model -/

def c1 : Call := ⟨1, .int 1⟩
def r0 : Req := ⟨0, .int 7⟩

/-- a call is registered, written, answered, then Close + reader exit: done, retired once. -/
example : (run [.start, .callNew, .callRegister c1, .callWriteOk c1, .recvResponse (.int 1), .close, .readerExit]
    M.init).map (fun m => (m.st.done, m.ready, m.registered)) = some (true, [(c1, .int 1)], [c1]) := by decide
example : (run [.start, .callNew, .callRegister c1, .callWriteOk c1, .recvResponse (.int 1), .close, .readerExit]
    M.init).map (fun m => (m.doneCloses, m.closerCloses, m.panicked)) = some (1, 1, false) := by decide

/-- the write fails after the reader already retired the call: Call#1 must not retire again. -/
example : (run [.start, .callNew, .callRegister c1, .readerExit, .callWriteFail c1]
    M.init).map (fun m => (m.ready, m.panicked, m.st.outgoing)) = some ([(c1, .int 1)], false, []) := by decide

/-- Close while a call is in flight: register fails afterwards, the call is retired locally. -/
example : (run [.start, .callNew, .close, .callRegister c1] M.init).map
    (fun m => (m.ready, m.st.outgoing, m.st.closerOpen, m.st.done)) = some ([(c1, .int 1)], [], false, false) := by decide

/-- an incoming call is queued, handled and answered once; then the connection drains. -/
example : (run [.start, .accept (.int 7), .enqueue r0, .dequeue, .handleDone r0, .prDelete r0, .prFinish r0,
    .dequeue, .close, .readerExit] M.init).map (fun m => (m.st.done, m.answered, m.reqs, m.st.incoming)) =
    some (true, [r0], [], 0) := by decide

/-- asynchronous response: Close + reader exit do not finish the connection until `Respond`. -/
example : (run [.start, .accept (.int 7), .enqueue r0, .dequeue, .handleAsyncResp r0, .dequeue, .close, .readerExit]
    M.init).map (fun m => (m.st.done, m.st.incoming, m.st.closerOpen)) = some (false, 1, true) := by decide
example : (run [.start, .accept (.int 7), .enqueue r0, .dequeue, .handleAsyncResp r0, .dequeue, .close, .readerExit,
    .respond r0, .prDelete r0, .prFinish r0] M.init).map (fun m => (m.st.done, m.answered, m.closerCloses)) =
    some (true, [r0], 1) := by decide

/-- `Notify` whose params cannot be marshaled: Notify#1 succeeds (`notifyEnter`, `attempted`), nothing is
written, the deferred Notify#0 still runs (`notifyExit` — its guard is only `owedNotif ≠ 0`, no write is
required in between); afterwards the connection drains normally.  Without the exit it never would:
`outNotif = 1` keeps the state non-idle (second example). -/
example : (run [.start, .notifyEnter, .notifyExit, .close, .readerExit] M.init).map
    (fun m => (m.st.done, m.st.outNotif, m.owedNotif)) = some (true, 0, 0) := by decide
example : (run [.start, .notifyEnter, .close, .readerExit] M.init).map
    (fun m => (m.st.done, m.st.outNotif, m.owedNotif)) = some (false, 1, 1) := by decide

/-- duplicate request ID: the second request's ID is cleared and it is not recorded. -/
example : (run [.start, .accept (.int 7), .accept (.int 7)] M.init).map (fun m => (m.reqs, m.st.byID, m.st.incoming)) =
    some ([(⟨1, .none⟩, Phase.result), (r0, Phase.accepted)], [(.int 7, r0)], 2) := by decide

/-- `Respond` is not enabled for a request that is not awaiting an asynchronous response. -/
example : (run [.start, .accept (.int 7), .respond r0] M.init) = none := by decide

end GopModel.InFlight
