/-
C20 — formatting is idempotent.

FULL STATEMENT (properties.jsonl): for every valid XGo source, formatting the formatted output
again returns it unchanged.

PARTIAL: proved here on the model M3 for single-line expressions of the fragment `wf`:
if `e` is the tree of a source (parser-shaped, `shaped`), then the tree obtained by parsing the
printed form prints to the very same item list (tokens and blanks), i.e. the second formatting
pass reproduces the first.  The blank decisions (`cutoff`, `depth`, `reduceDepth`, `mayCombine`)
are functions of the tree alone, and the tree is reproduced exactly (C19).
Layout that depends on line breaks in the source (`exprList`, `linebreak`, `funcBody`),
statements, declarations and comments are NOT modelled: searched by `./check C20`
(Source(Source(x)) = Source(x) on the corpus, generated programs with perturbed layout and printed
AST mutants).
-/
import GopModel.Lemmas.ExprFinal
namespace GopModel.ExprSyntax
open Gen

/-- C20 on M3: print, scan, parse, print again — the same items. -/
theorem C20_print_idem_partial (e : XExpr) (hwf : wf e = true) (hs : shaped e lowestPrec = true) :
    ∃ ts e', lex (printExpr e) = some ts ∧ parseX ts = .ok e' ∧ printExpr e' = printExpr e := by
  refine ⟨toks e lowestPrec, e, lex_printExpr hwf, ?_, rfl⟩
  rw [parseX_toks hwf, norm_shaped e _ hs]

/-- The tree reached after one pass is a fixed point of print-then-parse: every later pass sees
the same tree (hence prints the same text). -/
theorem C20_fixed_point (e : XExpr) (hwf : wf e = true) (hs : shaped e lowestPrec = true) :
    parseX (toks e lowestPrec) = .ok e ∧ norm e lowestPrec = e :=
  ⟨by rw [parseX_toks hwf, norm_shaped e _ hs], norm_shaped e _ hs⟩

/-! ### Non-vacuity -/

/-- `a + b*c - (a - -b)` -/
def exIdem : XExpr :=
  .binary .SUB (.binary .ADD (.ident [0x61]) (.binary .MUL (.ident [0x62]) (.ident [0x63])))
    (.paren (.binary .SUB (.ident [0x61]) (.unary .SUB (.ident [0x62]))))

example : wf exIdem = true ∧ shaped exIdem lowestPrec = true := by decide

/-- Its printed form: `a + b*c - (a - -b)`. -/
example : printExpr exIdem =
    [.t (.ident [0x61]), .blank, pop .ADD, .blank, .t (.ident [0x62]), pop .MUL, .t (.ident [0x63]),
     .blank, pop .SUB, .blank, pop .LPAREN, .t (.ident [0x61]), .blank, pop .SUB, .blank, pop .SUB,
     .t (.ident [0x62]), pop .RPAREN] := by decide

end GopModel.ExprSyntax
