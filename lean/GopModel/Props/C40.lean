/-
C40 — watch mode never loses or duplicates a changed directory.
Invariants of the transition system M6 instantiated with the thread programs regenerated
from /repo/x/watcher/changes.go (Generated/SyncWatcher.lean), for ANY number of Fetch and
FileChanged threads spawned at any time.
-/
import GopModel.Lemmas.TS
import GopModel.Generated.SyncWatcher
namespace GopModel.C40
open GopModel.TS GopModel.Generated.SyncWatcher

/-- thread is inside the critical section (between Lock and Unlock / Wait) -/
def holds (t : Thread) : Bool :=
  (t.fn == 0 && (t.pc == 1 || t.pc == 2 || t.pc == 4 || t.pc == 5)) ||
  (t.fn == 1 && (t.pc == 2 || t.pc == 3 || t.pc == 4))

def Valid (t : Thread) : Prop :=
  ((t.fn = 0 ∧ t.pc < 9) ∨ (t.fn = 1 ∧ t.pc < 8)) ∧ t.st ≠ .parked

/-- which instruction a valid thread is at -/
theorem instr_cases {t : Thread} {ins : Instr} (hv : Valid t) (h : instrAt sys t = some ins) :
    (t.fn = 0 ∧ t.pc = 0 ∧ ins = .lock 1) ∨
    (t.fn = 0 ∧ t.pc = 1 ∧ ins = .brEmpty 2 4) ∨
    (t.fn = 0 ∧ t.pc = 2 ∧ ins = .waitEnq 3) ∨
    (t.fn = 0 ∧ t.pc = 3 ∧ ins = .waitRelock 1) ∨
    (t.fn = 0 ∧ t.pc = 4 ∧ ins = .setPick .a 5) ∨
    (t.fn = 0 ∧ t.pc = 5 ∧ ins = .unlock 6) ∨
    (t.fn = 0 ∧ t.pc = 6 ∧ ins = .brZero .b 8 7) ∨
    (t.fn = 0 ∧ t.pc = 7 ∧ ins = .pure .addRoot .a .a 8) ∨
    (t.fn = 0 ∧ t.pc = 8 ∧ ins = .ret (.reg .a)) ∨
    (t.fn = 1 ∧ t.pc = 0 ∧ ins = .pure .pathDir .b .a 1) ∨
    (t.fn = 1 ∧ t.pc = 1 ∧ ins = .lock 2) ∨
    (t.fn = 1 ∧ t.pc = 2 ∧ ins = .setLen .c 3) ∨
    (t.fn = 1 ∧ t.pc = 3 ∧ ins = .setInsert .b 4) ∨
    (t.fn = 1 ∧ t.pc = 4 ∧ ins = .unlock 5) ∨
    (t.fn = 1 ∧ t.pc = 5 ∧ ins = .brZero .c 6 7) ∨
    (t.fn = 1 ∧ t.pc = 6 ∧ ins = .broadcast 7) ∨
    (t.fn = 1 ∧ t.pc = 7 ∧ ins = .ret .unit) := by
  obtain ⟨hv, _⟩ := hv
  rcases hv with ⟨hfn, hpc⟩ | ⟨hfn, hpc⟩
  · have : t.pc = 0 ∨ t.pc = 1 ∨ t.pc = 2 ∨ t.pc = 3 ∨ t.pc = 4 ∨ t.pc = 5 ∨ t.pc = 6 ∨ t.pc = 7 ∨ t.pc = 8 := by omega
    rcases this with e|e|e|e|e|e|e|e|e <;>
      simp [instrAt, sys, hfn, e, fetchFn, fetchCode] at h <;> simp [hfn, e, h]
  · have : t.pc = 0 ∨ t.pc = 1 ∨ t.pc = 2 ∨ t.pc = 3 ∨ t.pc = 4 ∨ t.pc = 5 ∨ t.pc = 6 ∨ t.pc = 7 := by omega
    rcases this with e|e|e|e|e|e|e|e <;>
      simp [instrAt, sys, hfn, e, fileChangedFn, fileChangedCode] at h <;> simp [hfn, e, h]

theorem spawn_cases {fn : Nat} {f : FnDef} (hsp : sys.spawnable.contains fn = true)
    (hf : sys.fns[fn]? = some f) : (fn = 0 ∧ f = fetchFn) ∨ (fn = 1 ∧ f = fileChangedFn) := by
  simp [sys] at hsp hf
  rcases hsp with rfl | rfl <;> simp at hf <;> simp [hf]

structure Basic (s : State) : Prop where
  noPanic : s.panic = false
  valid : ∀ (i : Nat) t, s.threads[i]? = some t → Valid t
  hold1 : ∀ (i : Nat) t, s.threads[i]? = some t → holds t = true → s.holder = some i
  hold2 : ∀ (i : Nat), s.holder = some i → ∃ t, s.threads[i]? = some t ∧ holds t = true

theorem basic_step {s s' : State} {l : Label} (I : Basic s) (h : next sys s l = some s') : Basic s' := by
  cases l with
  | thread j k p v =>
    obtain ⟨hp, t, ht, hst, ins, hins, hex⟩ := next_thread h
    have hv := I.valid j t ht
    rcases instr_cases hv hins with ⟨hfn, hpc, rfl⟩ | ⟨hfn, hpc, rfl⟩ | ⟨hfn, hpc, rfl⟩ | ⟨hfn, hpc, rfl⟩ | ⟨hfn, hpc, rfl⟩ | ⟨hfn, hpc, rfl⟩ | ⟨hfn, hpc, rfl⟩ | ⟨hfn, hpc, rfl⟩ | ⟨hfn, hpc, rfl⟩ | ⟨hfn, hpc, rfl⟩ | ⟨hfn, hpc, rfl⟩ | ⟨hfn, hpc, rfl⟩ | ⟨hfn, hpc, rfl⟩ | ⟨hfn, hpc, rfl⟩ | ⟨hfn, hpc, rfl⟩ | ⟨hfn, hpc, rfl⟩ | ⟨hfn, hpc, rfl⟩
    all_goals (
      obtain ⟨_, hval, h1, h2⟩ := I
      have hjl := getElem?_lt ht
      simp only [exec] at hex
      repeat' (split at hex)
      all_goals first
        | (cases hex; done)
        | (cases hex
           refine ⟨?_, ?_, ?_, ?_⟩ <;> simp only [State.setThread, State.emit, State.doPanic, List.getElem?_set] <;> grind [holds, goto, Valid, Thread.put]))
  | spawn fn a b =>
    obtain ⟨_, hval, h1, h2⟩ := I
    obtain ⟨hp, hsp, f, hf, rfl⟩ := next_spawn h
    have hfn := spawn_cases hsp hf
    refine ⟨?_, ?_, ?_, ?_⟩ <;> simp only [State.emit, List.getElem?_append, FnDef.mkThread] <;>
      grind [holds, Valid, fetchFn, fileChangedFn, regInit]
  | spurious j =>
    obtain ⟨_, hval, h1, h2⟩ := I
    obtain ⟨hp, _, rfl⟩ := next_spurious h
    exact ⟨hp, hval, h1, h2⟩

/-! ### set / trace / wake-up invariants -/

/-- does the `d`-projection of the trace (newest first) end with an insert of `d`? -/
def pend (d : Val) : List Ev → Bool
  | [] => false
  | .insert _ d' :: t => if d' = d then true else pend d t
  | .delete _ d' :: t => if d' = d then false else pend d t
  | _ :: t => pend d t

/-- every delete of `d` removes a `d` that is pending at that moment -/
def WfTrace : List Ev → Prop
  | [] => True
  | .delete _ d :: t => pend d t = true ∧ WfTrace t
  | _ :: t => WfTrace t

structure Inv (s : State) : Prop where
  emptyAtWait : ∀ (i : Nat) t, s.threads[i]? = some t → t.fn = 0 → t.pc = 2 → s.set = []
  nonEmptyAtPick : ∀ (i : Nat) t, s.threads[i]? = some t → t.fn = 0 → t.pc = 4 → s.set ≠ []
  lenReg : ∀ (i : Nat) t, s.threads[i]? = some t → t.fn = 1 → t.pc = 3 → t.c = .nat s.set.length
  wake : s.set ≠ [] → s.notify ≠ [] →
    ∃ (i : Nat) (t : Thread), s.threads[i]? = some t ∧ t.fn = 1 ∧ t.c = .nat 0 ∧ (t.pc = 4 ∨ t.pc = 5 ∨ t.pc = 6)
  setTrace : ∀ d, d ∈ s.set ↔ pend d s.trace = true
  wf : WfTrace s.trace
  nodup : s.set.Nodup

set_option hygiene false in
macro "inv_tac" : tactic => `(tactic| (
  simp only [exec] at hex
  repeat' (split at hex)
  all_goals first
    | (cases hex; done)
    | (cases hex
       refine ⟨?_, ?_, ?_, ?_, ?_, ?_, ?_⟩ <;> simp only [State.setThread, State.emit, State.doPanic, List.getElem?_set] <;> grind [holds, goto, Valid, Thread.put, Thread.get, pend, WfTrace, List.length_eq_zero_iff])))

set_option maxHeartbeats 4000000 in
theorem inv_step {s s' : State} {l : Label} (B : Basic s) (I : Inv s) (h : next sys s l = some s') : Inv s' := by
  cases l with
  | thread j k p v =>
    obtain ⟨hp, t, ht, hst, ins, hins, hex⟩ := next_thread h
    have hv := B.valid j t ht
    obtain ⟨_, hval, h1, h2⟩ := B
    obtain ⟨i1, i2, i3, i4, i5, i6, i7⟩ := I
    have hjl := getElem?_lt ht
    rcases instr_cases hv hins with ⟨hfn, hpc, rfl⟩ | ⟨hfn, hpc, rfl⟩ | ⟨hfn, hpc, rfl⟩ | ⟨hfn, hpc, rfl⟩ | ⟨hfn, hpc, rfl⟩ | ⟨hfn, hpc, rfl⟩ | ⟨hfn, hpc, rfl⟩ | ⟨hfn, hpc, rfl⟩ | ⟨hfn, hpc, rfl⟩ | ⟨hfn, hpc, rfl⟩ | ⟨hfn, hpc, rfl⟩ | ⟨hfn, hpc, rfl⟩ | ⟨hfn, hpc, rfl⟩ | ⟨hfn, hpc, rfl⟩ | ⟨hfn, hpc, rfl⟩ | ⟨hfn, hpc, rfl⟩ | ⟨hfn, hpc, rfl⟩
    · inv_tac -- case 0
    · inv_tac -- case 1
    · inv_tac -- case 2
    · inv_tac -- case 3
    · inv_tac -- case 4
    · inv_tac -- case 5
    · inv_tac -- case 6
    · inv_tac -- case 7
    · inv_tac -- case 8
    · inv_tac -- case 9
    · inv_tac -- case 10
    · inv_tac -- case 11
    · inv_tac -- case 12
    · inv_tac -- case 13
    · inv_tac -- case 14
    · inv_tac -- case 15
    · inv_tac -- case 16
  | spawn fn a b => sorry
  | spurious j => sorry

end GopModel.C40
