/-
C40 — watch mode never loses or duplicates a changed directory.
Invariants of the transition system M6 instantiated with the thread programs regenerated
from /repo/x/watcher/changes.go (Generated/SyncWatcher.lean), for ANY number of Fetch and
FileChanged threads spawned at any time.
-/
import GopModel.Lemmas.WatcherInv
import GopModel.Lemmas.WatcherRet
namespace GopModel.C40
open GopModel.TS GopModel.Generated.SyncWatcher

/-! ### reachable states -/

theorem reach_inv {root : List UInt8} {s : State} (h : Reachable sys root s) : Basic s ∧ Inv s ∧ RInv s := by
  refine Reachable.induct (fun s => Basic s ∧ Inv s ∧ RInv s) ?_ ?_ h
  · refine ⟨⟨rfl, ?_, ?_, ?_⟩, ⟨?_, ?_, ?_, ?_, ?_, ?_, ?_⟩, ⟨?_, ?_, ?_⟩⟩ <;> simp [Sys.init, sys, pend, WfTrace, RetOk]
  · intro s s' l ⟨B, I, R⟩ hn
    exact ⟨basic_step B hn, inv_step B I hn, rinv_step B I R hn⟩

/-! ## Property theorems (C40)

`s.trace` lists the ghost events newest first: in `post ++ e :: pre`, `pre` happened before `e`
and `post` after it.  `Ev.insert j d` = FileChanged thread `j` executed `p.changed[dir] = none{}`
(the report of `d`), `Ev.delete j d` = Fetch thread `j` took `d` out of the set, `Ev.ret j 0 o` =
Fetch thread `j` returned `o`. -/

/-- Fetch never returns a directory that was not reported: every removal of `d` from the set is
preceded by a report of `d`. -/
theorem C40_fetched_was_reported {root : List UInt8} {s : State} (hr : Reachable sys root s)
    {post pre : List Ev} {j : Nat} {d : Val} (ht : s.trace = post ++ Ev.delete j d :: pre) :
    ∃ j', Ev.insert j' d ∈ pre := by
  have hw := (reach_inv hr).2.1.wf
  rw [ht] at hw
  have := wf_append hw
  simp only [WfTrace] at this
  exact pend_true_insert this.1

/-- ... and what a Fetch call returns is the directory it removed (with the root prefix when
`fullPath`). -/
theorem C40_returned_is_fetched {root : List UInt8} {s : State} (hr : Reachable sys root s)
    {post pre : List Ev} {j : Nat} {o : Out} (ht : s.trace = post ++ Ev.ret j 0 o :: pre) :
    ∃ d, lastDel j pre = some d ∧ (o = .val d ∨ o = .val (applyPure s.root .addRoot d)) := by
  have hw := (reach_inv hr).2.2.retOk
  rw [ht] at hw
  have := retOk_append hw
  simp only [RetOk] at this
  exact this.1 trivial

/-- A directory is returned at most once per report: between two removals of the same `d` there
is a report of `d`. -/
theorem C40_at_most_once_per_report {root : List UInt8} {s : State} (hr : Reachable sys root s)
    {post mid pre : List Ev} {j1 j2 : Nat} {d : Val}
    (ht : s.trace = post ++ Ev.delete j2 d :: (mid ++ Ev.delete j1 d :: pre)) :
    ∃ j', Ev.insert j' d ∈ mid := by
  have hw := (reach_inv hr).2.1.wf
  rw [ht] at hw
  have := wf_append hw
  simp only [WfTrace] at this
  exact pend_mid_insert this.1

/-- Nothing is lost: every reported directory is still pending in the set or has been removed by a
Fetch after the report. -/
theorem C40_reported_pending_or_fetched {root : List UInt8} {s : State} (hr : Reachable sys root s)
    {post pre : List Ev} {j : Nat} {d : Val} (ht : s.trace = post ++ Ev.insert j d :: pre) :
    d ∈ s.set ∨ ∃ j', Ev.delete j' d ∈ post := by
  have hst := (reach_inv hr).2.1.setTrace d
  rcases pend_or_deleted (d := d) (j := j) post pre with h | h
  · left; rw [hst, ht]; exact h
  · right; exact h

/-- the set holds no duplicates, so `len(p.changed)` is the number of pending directories -/
theorem C40_set_nodup {root : List UInt8} {s : State} (hr : Reachable sys root s) : s.set.Nodup :=
  (reach_inv hr).2.1.nodup

/-- No runtime failure (unlock of an unlocked mutex, Wait without the lock). -/
theorem C40_no_panic {root : List UInt8} {s : State} (hr : Reachable sys root s) : s.panic = false :=
  (reach_inv hr).1.noPanic

/-- Mutual exclusion: two threads are never both between Lock and Unlock/Wait. -/
theorem C40_mutex {root : List UInt8} {s : State} (hr : Reachable sys root s)
    {i j : Nat} {ti tj : Thread} (hi : s.threads[i]? = some ti) (hj : s.threads[j]? = some tj)
    (h1 : holds ti = true) (h2 : holds tj = true) : i = j := by
  have B := (reach_inv hr).1
  have a := B.hold1 i ti hi h1
  have b := B.hold1 j tj hj h2
  rw [a] at b; cases b; rfl

/-- a FileChanged thread that found the set empty (`n == 0`), has inserted, and has not broadcast yet -/
def BroadcastPending (s : State) : Prop :=
  ∃ (i : Nat) (t : Thread), s.threads[i]? = some t ∧ t.fn = 1 ∧ t.c = .nat 0 ∧
    (t.pc = 4 ∨ t.pc = 5 ∨ t.pc = 6) ∧ t.st = .run

/-- No lost wake-up: if the set is non-empty and a consumer sits in the wait queue un-notified,
then a Broadcast is pending.  (A consumer at pc 3 that is no longer on the notify list has been
signalled.) -/
theorem C40_no_lost_wakeup {root : List UInt8} {s : State} (hr : Reachable sys root s)
    (hne : s.set ≠ []) {j : Nat} {t : Thread} (_ht : s.threads[j]? = some t)
    (_hfn : t.fn = 0) (_hpc : t.pc = 3) (hq : j ∈ s.notify) : BroadcastPending s := by
  apply (reach_inv hr).2.1.wake hne
  intro h0; rw [h0] at hq; cases hq

/-- Frame condition: in all of changes.go the pending set is created by NewChanges, read/emptied
only by Fetch and filled only by FileChanged, and the condition variable is used only by those (and
bound to the mutex by NewChanges).  The table is regenerated from EVERY function of the file, so a
new writer of `changed` (or user of `cond`) anywhere breaks this theorem. -/
theorem C40_frame :
    setAccess = [("NewChanges", "init"), ("Fetch", "len"), ("Fetch", "range"), ("Fetch", "delete"),
      ("FileChanged", "len"), ("FileChanged", "insert")] ∧
    condAccess = [("NewChanges", "bind"), ("Fetch", "wait"), ("FileChanged", "broadcast")] := by decide

/-! ### liveness as enabledness -/

/-- some step of thread `i` is enabled -/
def Enabled (s : State) (i : Nat) : Prop := ∃ k p v s', next sys s (.thread i k p v) = some s'

/-- A running thread that is not at `Lock` or in the second half of `Wait` can always step:
no other instruction of the two programs blocks. -/
theorem nonblocking_enabled {s : State} (hp : s.panic = false) {i : Nat} {t : Thread}
    (ht : s.threads[i]? = some t) (hv : Valid t) (hst : t.st = .run)
    (hnb : ¬(t.fn = 0 ∧ t.pc = 0) ∧ ¬(t.fn = 0 ∧ t.pc = 3) ∧ ¬(t.fn = 1 ∧ t.pc = 1)) : Enabled s i := by
  have hlt : t.pc < 9 := by rcases hv.1 with h | h <;> omega
  have hins : ∃ ins, instrAt sys t = some ins := by
    rcases hv.1 with ⟨hfn, hpc⟩ | ⟨hfn, hpc⟩
    · exact ⟨fetchCode[t.pc]'(by simp [fetchCode]; omega), by simp [instrAt, sys, hfn, fetchFn]⟩
    · exact ⟨fileChangedCode[t.pc]'(by simp [fileChangedCode]; omega), by simp [instrAt, sys, hfn, fileChangedFn]⟩
  obtain ⟨ins, hins⟩ := hins
  refine ⟨0, 0, .nat 0, ?_⟩
  rcases instr_cases hv hins with ⟨hfn, hpc, rfl⟩ | ⟨hfn, hpc, rfl⟩ | ⟨hfn, hpc, rfl⟩ | ⟨hfn, hpc, rfl⟩ | ⟨hfn, hpc, rfl⟩ | ⟨hfn, hpc, rfl⟩ | ⟨hfn, hpc, rfl⟩ | ⟨hfn, hpc, rfl⟩ | ⟨hfn, hpc, rfl⟩ | ⟨hfn, hpc, rfl⟩ | ⟨hfn, hpc, rfl⟩ | ⟨hfn, hpc, rfl⟩ | ⟨hfn, hpc, rfl⟩ | ⟨hfn, hpc, rfl⟩ | ⟨hfn, hpc, rfl⟩ | ⟨hfn, hpc, rfl⟩ | ⟨hfn, hpc, rfl⟩
  all_goals first
    | (exfalso; simp [hfn, hpc] at hnb; done)
    | (simp only [next, hp, ht, hst, hins, exec]
       first
         | (cases s.holder <;> simp; done)
         | (cases s.set <;> simp; done)
         | simp)

/-- Liveness (as enabledness) of a waiting Fetch: whenever the set is non-empty and a Fetch thread
`j` is inside `Wait`, a step that leads towards its wake-up is enabled — of `j` itself (it has
been notified and the mutex is free), of the current mutex holder (which never blocks while
holding), or of the FileChanged thread whose Broadcast is pending. -/
theorem C40_waiting_fetch_progress {root : List UInt8} {s : State} (hr : Reachable sys root s)
    (hne : s.set ≠ []) {j : Nat} {t : Thread} (ht : s.threads[j]? = some t)
    (hfn : t.fn = 0) (hpc : t.pc = 3) (hst : t.st = .run) :
    ∃ i, Enabled s i ∧ (i = j ∨ s.holder = some i ∨
      ∃ ti, s.threads[i]? = some ti ∧ ti.fn = 1 ∧ ti.c = .nat 0 ∧ (ti.pc = 4 ∨ ti.pc = 5 ∨ ti.pc = 6)) := by
  obtain ⟨B, I, _⟩ := reach_inv hr
  by_cases hq : j ∈ s.notify
  · obtain ⟨i, ti, hti, hf, hc, hpcs, hrun⟩ := C40_no_lost_wakeup hr hne ht hfn hpc hq
    refine ⟨i, nonblocking_enabled B.noPanic hti (B.valid i ti hti) hrun ?_, Or.inr (Or.inr ⟨ti, hti, hf, hc, hpcs⟩)⟩
    omega
  · cases hh : s.holder with
    | none =>
      refine ⟨j, ⟨0, 0, .nat 0, ?_⟩, Or.inl rfl⟩
      have hins : instrAt sys t = some (.waitRelock 1) := by
        simp [instrAt, sys, hfn, hpc, fetchFn, fetchCode]
      simp [next, B.noPanic, ht, hst, hins, exec, hq, hh]
    | some i =>
      obtain ⟨ti, hti, hho⟩ := B.hold2 i hh
      have hv := B.valid i ti hti
      have hrun : ti.st = .run := by
        rcases hv.2 with h | ⟨_, h⟩
        · exact h
        · simp [holds] at hho; omega
      refine ⟨i, nonblocking_enabled B.noPanic hti hv hrun ?_, Or.inr (Or.inl rfl)⟩
      simp [holds] at hho; omega

/-- Deadlock freedom: if some thread is still running and it is not a Fetch legitimately waiting
for a change (inside `Wait`, un-notified, set empty), then some thread can step. -/
theorem C40_progress {root : List UInt8} {s : State} (hr : Reachable sys root s)
    {j : Nat} {t : Thread} (ht : s.threads[j]? = some t) (hst : t.st = .run)
    (hw : ¬(t.fn = 0 ∧ t.pc = 3 ∧ j ∈ s.notify ∧ s.set = [])) : ∃ i, Enabled s i := by
  obtain ⟨B, I, _⟩ := reach_inv hr
  have hv := B.valid j t ht
  have holderRuns : ∀ i, s.holder = some i → Enabled s i := by
    intro i hh
    obtain ⟨ti, hti, hho⟩ := B.hold2 i hh
    have hvi := B.valid i ti hti
    have hrun : ti.st = .run := by
      rcases hvi.2 with h | ⟨_, h⟩
      · exact h
      · simp [holds] at hho; omega
    refine nonblocking_enabled B.noPanic hti hvi hrun ?_
    simp [holds] at hho; omega
  by_cases hlock : (t.fn = 0 ∧ t.pc = 0) ∨ (t.fn = 1 ∧ t.pc = 1)
  · cases hh : s.holder with
    | some i => exact ⟨i, holderRuns i hh⟩
    | none =>
      refine ⟨j, 0, 0, .nat 0, ?_⟩
      rcases hlock with ⟨hfn, hpc⟩ | ⟨hfn, hpc⟩
      · have hins : instrAt sys t = some (.lock 1) := by simp [instrAt, sys, hfn, hpc, fetchFn, fetchCode]
        simp [next, B.noPanic, ht, hst, hins, exec, hh]
      · have hins : instrAt sys t = some (.lock 2) := by simp [instrAt, sys, hfn, hpc, fileChangedFn, fileChangedCode]
        simp [next, B.noPanic, ht, hst, hins, exec, hh]
  · by_cases hwait : t.fn = 0 ∧ t.pc = 3
    · by_cases hne : s.set = []
      · have hq : j ∉ s.notify := fun hq => hw ⟨hwait.1, hwait.2, hq, hne⟩
        cases hh : s.holder with
        | some i => exact ⟨i, holderRuns i hh⟩
        | none =>
          refine ⟨j, 0, 0, .nat 0, ?_⟩
          have hins : instrAt sys t = some (.waitRelock 1) := by
            simp [instrAt, sys, hwait.1, hwait.2, fetchFn, fetchCode]
          simp [next, B.noPanic, ht, hst, hins, exec, hq, hh]
      · obtain ⟨i, he, _⟩ := C40_waiting_fetch_progress hr hne ht hwait.1 hwait.2 hst
        exact ⟨i, he⟩
    · refine ⟨j, nonblocking_enabled B.noPanic ht hv hst ?_⟩
      omega

/-! ### non-vacuity: concrete reachable states meeting the hypotheses -/

def dA : Val := .str [0x61]               -- directory "a"
def nameAX : Val := .str [0x61, 0x2f, 0x78]   -- file "a/x"

/-- run a list of labels from the initial state -/
def runLabels (root : List UInt8) : List Label → Option State
  | [] => some (sys.init root)
  | l :: ls => match runLabels root ls with   -- labels newest first
    | none => none
    | some s => next sys s l

theorem runLabels_reachable {root : List UInt8} : ∀ (ls : List Label) (s : State),
    runLabels root ls = some s → Reachable sys root s
  | [], s, h => by simp [runLabels] at h; subst h; exact .init
  | l :: ls, s, h => by
    simp only [runLabels] at h
    split at h
    · cases h
    · rename_i s0 h0
      exact .step l (runLabels_reachable ls s0 h0) h

/-- schedule (oldest first): Fetch thread 0 finds the set empty and waits; FileChanged("a/x")
thread 1 inserts "a" and is about to unlock: the waiter is un-notified, the set non-empty. -/
def schedWaiting : List Label := [
  .spawn 0 (.nat 0) (.nat 0), .thread 0 0 0 (.nat 0), .thread 0 0 0 (.nat 0), .thread 0 0 0 (.nat 0),
  .spawn 1 nameAX (.nat 0), .thread 1 0 0 (.nat 0), .thread 1 0 0 (.nat 0), .thread 1 0 0 (.nat 0),
  .thread 1 0 0 (.nat 0)]

/-- ... continued: unlock, branch, Broadcast, then the Fetch re-locks, takes "a", unlocks, returns. -/
def schedFetched : List Label :=
  schedWaiting ++ [.thread 1 0 0 (.nat 0), .thread 1 0 0 (.nat 0), .thread 1 0 0 (.nat 0), .thread 1 0 0 (.nat 0),
    .thread 0 0 0 (.nat 0), .thread 0 0 0 (.nat 0), .thread 0 0 0 (.nat 0), .thread 0 0 0 (.nat 0),
    .thread 0 0 0 (.nat 0), .thread 0 0 0 (.nat 0)]

example : (runLabels [] schedWaiting.reverse).map (fun s => (s.set, s.notify, s.threads.map (·.pc))) =
    some ([dA], [0], [3, 4]) := by decide
example : (runLabels [] schedFetched.reverse).map (fun s => (s.set, s.notify, s.trace)) =
    some ([], [], [.ret 0 0 (.val dA), .delete 0 dA, .ret 1 1 .unit, .insert 1 dA,
      .spawn 1 1 nameAX (.nat 0), .spawn 0 0 (.nat 0) (.nat 0)]) := by decide

end GopModel.C40
